"""C19 — the language server answers correctly from the latest text of the right document."""
import itertools
import json
import random
import re

import analysis_common as A
import gen_check
import runner
from registry import REGISTRY

URIS = ["file:///a.num", "file:///b.num"]
# a URI is an opaque key: two different strings are two documents, however alike they look
URI_PAIRS = [("file:///a.num", "file:///b.num"), ("untitled:Untitled-1", "untitled:Untitled-2"),
             ("file:///w/main.num", "git:/w/main.num?ref=HEAD"), ("file:///w/m.num", "file:///w/m.num#v2"),
             ("file:///c%3A/x.num", "file:///c:/x.num"), ("file:///A.num", "file:///a.num"),
             ("file:///w/a%20b.num", "file:///w/a b.num"), ("file:///w/x.num", "file:///w/x.num/"),
             ("file://host/w/x.num", "file:///w/x.num"), ("inmemory://model/1", "inmemory://model/2")]

BUILTIN_SIG = {
    "set_tx_meta": "`set_tx_meta(string, any)`\n\nset transaction metadata",
    "set_account_meta": "`set_account_meta(account, string, any)`\n\nset account metadata",
    "meta": "`meta(account, string) -> any`\n\nfetch account metadata",
    "balance": "`balance(account, asset) -> monetary`\n\nfetch account balance",
    "overdraft": "`overdraft(account, asset) -> monetary`\n\nget absolute amount of the overdraft of an account. Returns zero if balance is not negative",
}


VERSIONS = [None, 1, 2, 7, 2.0, 1e3, 2 ** 31, 2 ** 31 - 1, 2 ** 40, 0, -1]


def _version(uri, text):
    return VERSIONS[(len(text) * 7 + len(uri)) % len(VERSIONS)]


def req_open(uri, text):
    td = {"uri": uri, "text": text, "languageId": "numscript"}
    v = _version(uri, text)
    if v is not None:
        td["version"] = v         # clients number their versions; the handler never looks at the number
    return {"method": "textDocument/didOpen", "params": {"textDocument": td}}


def req_change(uri, text):
    td = {"uri": uri}
    v = _version(uri, text + "x")
    if v is not None:
        td["version"] = v
    return {"method": "textDocument/didChange", "params": {"textDocument": td, "contentChanges": [{"text": "stale"}, {"text": text}]}}


def req_hover(uri, pos):
    return {"method": "textDocument/hover", "params": {"textDocument": {"uri": uri}, "position": {"line": pos[0], "character": pos[1]}}}


def req_def(uri, pos):
    return {"method": "textDocument/definition", "params": {"textDocument": {"uri": uri}, "position": {"line": pos[0], "character": pos[1]}}}


def req_sym(uri):
    return {"method": "textDocument/documentSymbol", "params": {"textDocument": {"uri": uri}}}


def canon(v):
    if isinstance(v, list):
        return sorted((json.dumps(canon(x), sort_keys=True) for x in v))
    return v


def lsp_range(r):
    s, e = r.split("-")
    sl, sc = map(int, s.split(":"))
    el, ec = map(int, e.split(":"))
    return {"start": {"line": sl, "character": sc}, "end": {"line": el, "character": ec}}


def histories_check(chk, fails, stats):
    """every response of a long-lived server equals the response of a fresh server that only saw the
    latest text of that document"""
    rng = random.Random("C19h-%d" % chk.seed)
    texts = []
    for i in range(6):
        c, g = gen_check.valid_script(chk.seed + 77, i, {"stmts_max": 2, "depth": 2, "origins": 0.5})
        texts.append(c["script"])
    texts.append("vars { account $a }\nsend [USD 1] (source = $a destination = @b)\nset_tx_meta(\"k\", $zz)")
    texts.append("send [USD 1] (source = ")
    # documents whose analysis gives several diagnostics, some of them on the very same range
    texts += ["save [USD/2 10] from 1/0\n", "set_account_meta(99999999999999999999999, \"k\", 42)\n",
              "send [USD *] (\n  source = { @a @world @a }\n  destination = @b\n)\n",
              "vars { monetary $m monetary $m }\nsend $m + @a (source = $zz destination = $zz)\n"]
    # built-ins in their place and, in the same or another document, calls of the same names out of place (a statement
    # function as an origin, an origin function as a statement): what a hover shows depends on the call hovered, not
    # on what was hovered before
    texts += ['vars { monetary $m = balance(@a, USD) }\nset_tx_meta("k", $m)\nbalance(@a, USD)\nmeta(@a, "k")\n',
              'vars { monetary $m = set_tx_meta("k", 1) }\nset_tx_meta("k", $m)\noverdraft(@a, USD)\n',
              'set_account_meta(@a, "k", 1)\nbalance(@b, COIN)\n', 'vars { string $s = meta(@a, "k") number $n = set_account_meta(@a, "k", 2) }\nset_tx_meta("s", $s)\nset_tx_meta("n", $n)\n']
    for i in range(6):
        c, g = gen_check.valid_script(chk.seed + 303, i, {"stmts_max": 2, "depth": 2})
        for fn in (gen_check.name_edit, gen_check.type_edit):
            e = fn(c["script"], rng)
            if e:
                texts.append(e[0])
        texts += gen_check.broken_variants(c["script"], rng, 1)
    histories = []
    # exhaustive short histories over a small alphabet
    alphabet = []
    for u in range(2):
        for t in range(3):
            alphabet.append(("open", u, t))
            alphabet.append(("change", u, t))
        alphabet.append(("hover", u))
        alphabet.append(("def", u))
        alphabet.append(("sym", u))
    L = 3 if chk.tier == "quick" else 4
    for combo in itertools.product(alphabet, repeat=L):
        histories.append(list(combo))
    stats["exhaustive_histories"] = len(histories)
    for _ in range(chk.size(300, 5000)):
        histories.append([rng.choice(alphabet[:12]) if rng.random() < 0.35 else rng.choice(alphabet) for _ in range(rng.randrange(4, 25))])
    # directed: every built-in name of one document hovered, then every one of another (and back)
    fn_texts = [t for t in texts if re.search(r"\b(balance|meta|overdraft|set_tx_meta|set_account_meta)\(", t) and len(t) < 400][:8]
    for ta in fn_texts[:5]:
        for tb in fn_texts[:5]:
            h = [("open_t", 0, ta), ("open_t", 1, tb)]
            for (u, t) in ((0, ta), (1, tb), (0, ta)):
                for mm in re.finditer(r"\b(set_tx_meta|set_account_meta|meta|balance|overdraft)\(", t):
                    h.append(("hover_p", u, list(gen_check.line_col(t, mm.start(1) + 1))))
            histories.append(h)
    base_texts = texts[:3] if True else texts
    jobs, plans = [], []
    for hi, h in enumerate(histories):
        reqs, plan = [], []
        latest = {}
        pair = URI_PAIRS[hi % len(URI_PAIRS)]
        for op in h:
            uri = pair[op[1]]
            if op[0] == "open_t":
                latest[uri] = op[2]
                reqs.append(req_open(uri, op[2]))
                plan.append(("open", uri, op[2], None))
                continue
            if op[0] == "hover_p":
                reqs.append(req_hover(uri, op[2]))
                plan.append(("hover", uri, latest.get(uri), op[2]))
                continue
            if op[0] in ("open", "change"):
                t = rng.choice(texts) if len(h) > L else base_texts[op[2]]
                latest[uri] = t
                reqs.append(req_open(uri, t) if op[0] == "open" else req_change(uri, t))
                plan.append((op[0], uri, t, None))
            else:
                t = latest.get(uri)
                pos = [0, 0]
                if t is not None:
                    uses = gen_check.scan_vars(t)[1]
                    fnpos = [mm.start(1) + 1 for mm in re.finditer(r"\b(set_tx_meta|set_account_meta|meta|balance|overdraft)\(", t)]
                    if fnpos and rng.random() < 0.4:
                        pos = list(gen_check.line_col(t, rng.choice(fnpos)))
                    elif uses and rng.random() < 0.8:
                        u = rng.choice(uses)
                        pos = list(gen_check.line_col(t, u["start"] + 1))
                    else:
                        ps = gen_check.all_positions(t, cap=1000)
                        pos = rng.choice(ps)
                if op[0] == "hover":
                    reqs.append(req_hover(uri, pos))
                elif op[0] == "def":
                    reqs.append(req_def(uri, pos))
                else:
                    reqs.append(req_sym(uri))
                plan.append((op[0], uri, t, pos))
        jobs.append({"id": len(jobs), "op": "lsp", "history": reqs})
        plans.append(plan)
    outs = runner.run_go(jobs)
    # fresh servers
    fresh_jobs, fresh_idx = [], {}
    for plan in plans:
        for (kind, uri, t, pos) in plan:
            if t is None:
                continue
            key = (kind, uri, t, tuple(pos) if pos else None)
            if key in fresh_idx:
                continue
            if kind in ("open", "change"):
                reqs = [req_open(uri, t)]
            elif kind == "hover":
                reqs = [req_open(uri, t), req_hover(uri, pos)]
            elif kind == "def":
                reqs = [req_open(uri, t), req_def(uri, pos)]
            else:
                reqs = [req_open(uri, t), req_sym(uri)]
            fresh_idx[key] = len(fresh_jobs)
            fresh_jobs.append({"id": len(fresh_jobs), "op": "lsp", "history": reqs})
    fouts = runner.run_go(fresh_jobs)
    # what a fresh ANALYSIS of each text gives (the library, not a server): range, severity, message
    all_texts = sorted({t for plan in plans for (kind, uri, t, pos) in plan if t is not None and kind in ("open", "change")})
    aouts = runner.run_go([{"id": i, "op": "analyze", "script": t} for i, t in enumerate(all_texts)])
    analysis_of = {}
    for t, ao in zip(all_texts, aouts):
        if "diags" in ao and ao.get("messages") is not None and len(ao["messages"]) == len(ao["diags"]):
            analysis_of[t] = sorted(json.dumps({"range": lsp_range(d[2]), "severity": int(d[1]), "message": msg}, sort_keys=True)
                                    for d, msg in zip(ao["diags"], ao["messages"]))
    stats["evaluations"] += len(jobs)
    stats["fresh_sessions"] = len(fresh_jobs)
    nontriv = 0
    for job, plan, out in zip(jobs, plans, outs):
        steps = out.get("steps")
        if steps is None:
            fails.append((job, out, None, ["language server session crashed: %s" % str(out)[:200]]))
            continue
        why = []
        interesting = False
        for (kind, uri, t, pos), step in zip(plan, steps):
            if "panic" in step:
                why.append("%s panicked: %s" % (kind, step["panic"][:150]))
                continue
            if t is None:
                if step.get("result") is not None:
                    why.append("%s on a never-opened document answered %s" % (kind, json.dumps(step.get("result"))[:100]))
                continue
            f = fouts[fresh_idx[(kind, uri, t, tuple(pos) if pos else None)]]
            fsteps = f.get("steps") or []
            if not fsteps or "panic" in fsteps[-1]:
                continue
            want = fsteps[-1]
            if kind in ("open", "change"):
                got_n = [json.dumps(canon_notif(n), sort_keys=True) for n in step.get("notifs", [])]
                want_n = [json.dumps(canon_notif(n), sort_keys=True) for n in fsteps[0].get("notifs", [])]
                if got_n != want_n:
                    why.append("diagnostics published on %s differ from a fresh analysis of that text" % kind)
                elif t in analysis_of:
                    pub = []
                    for n in step.get("notifs", []):
                        if n.get("method") == "textDocument/publishDiagnostics" and (n.get("params") or {}).get("uri") == uri:
                            pub = sorted(json.dumps({"range": d.get("range"), "severity": d.get("severity"), "message": d.get("message")}, sort_keys=True)
                                         for d in (n["params"].get("diagnostics") or []))
                    if pub != analysis_of[t]:
                        why.append("diagnostics published on %s are not those the analysis of that text gives: published %d, analysis %d; first difference %s" % (
                            kind, len(pub), len(analysis_of[t]), sorted(set(pub) ^ set(analysis_of[t]))[:2]))
            else:
                if canon(step.get("result")) != canon(want.get("result")):
                    why.append("%s at %s: %s, fresh analysis of the latest text gives %s" % (
                        kind, pos, json.dumps(step.get("result"))[:200], json.dumps(want.get("result"))[:200]))
                if step.get("result") is not None:
                    interesting = True
        if interesting and len(set(p[1] for p in plan if p[0] in ("open", "change"))) >= 1:
            nontriv += 1
        if why:
            fails.append((job, {"steps": steps}, None, why[:3]))
    stats["distinct_nontrivial"] += nontriv


def canon_notif(n):
    n = dict(n)
    p = dict(n.get("params") or {})
    if "diagnostics" in p:
        p["diagnostics"] = sorted(json.dumps(d, sort_keys=True) for d in p["diagnostics"])
    n["params"] = p
    return n


def navigation_check(chk, fails, dis, stats):
    """every position of generated scripts: hover/definition through the server vs the scanner's expectation"""
    n = chk.size(40, 800)
    jobs, infos = [], []
    for i in range(n):
        c, g = gen_check.valid_script(chk.seed + 4242, i, {"stmts_max": 2, "depth": 3, "ddepth": 2, "origins": 0.5})
        t = c["script"]
        if i % 5 == 4:
            # ill-typed but well-formed: a declared variable is found wherever it is used, whatever is wrong with the
            # expression around it
            t = t.rstrip("\n") + "\n" + ["set_tx_meta(\"k\", $lbl + $cnt)\n", "set_account_meta(@a, \"k\", $acc9 - $cnt)\n",
                                        "set_tx_meta(\"k\", $cnt + $lbl)\n", "foo($lbl + $cnt, $acc9)\n"][(i // 5) % 4]
            decl = "  string $lbl\n  number $cnt\n  account $acc9\n"
            m_ = re.match(r"\s*vars\s*\{[ \t]*\n?", t)
            t = (t[:m_.end()] + decl + t[m_.end():]) if m_ else ("vars {\n" + decl + "}\n" + t)
        if i % 3 == 1:
            # non-ASCII text (two- and three-byte characters, all in the basic plane: one column, one UTF-16 unit each) and tabs
            # in front of the tokens of a line: columns are counted in characters, not bytes
            t = "".join((["/* é */ ", "/*日本語*/", "\t", "/* ñ€ */\t"][(i + k) % 4] if ln.strip() and (i + k) % 2 else "") + ln
                        for k, ln in enumerate(t.splitlines(True)))
        positions = gen_check.all_positions(t, cap=100000)
        reqs = [req_open(URIS[0], t)]
        for p in positions:
            reqs.append(req_hover(URIS[0], p))
            reqs.append(req_def(URIS[0], p))
        jobs.append({"id": i, "op": "lsp", "history": reqs})
        infos.append((t, positions))
    # sizes: the same scripts inside long documents (thousands of lines, a comment line of 64 KiB and more, in front of the
    # script or behind it); probed where something is to be found — every variable use and built-in name — and at a few
    # other places
    prng = random.Random("C19-long-%d" % chk.seed)
    for i in range(chk.size(8, 60)):
        c, g = gen_check.valid_script(chk.seed + 4242, i, {"stmts_max": 2, "depth": 3, "ddepth": 2, "origins": 0.5})
        size = prng.choice([4096, 65530, 65536, 65537, 70000, 140000])
        if i % 3 == 2:
            # the long comment on the SAME line as code: tokens at columns beyond 65536
            lines = c["script"].splitlines(True)
            cand = [k for k, ln in enumerate(lines) if "$" in ln] or [0]
            k = prng.choice(cand)
            lines[k] = "/*" + "y" * size + "*/ " + lines[k]
            t = "".join(lines)
        else:
            t = gen_check.pad_text(c["script"], prng, size=size)
        decls, uses = gen_check.scan_vars(t)
        masked = gen_check.strip_comments_mask(t)
        offs = [u["start"] + 1 for u in uses] + [d["start"] + 1 for d in decls] + \
               [mm.start(1) + 1 for mm in re.finditer(r"\b(set_tx_meta|set_account_meta|meta|balance|overdraft)\(", masked)] + \
               [prng.randrange(len(t)) for _ in range(10)]
        # inside a long line, 65536 columns to the right of where the next line has something (and to the left of where
        # this line has): nothing is there
        tl = t.split("\n")
        for u in uses[:8]:
            ln, col = gen_check.line_col(t, u["start"] + 1)
            for dl in (-1, 0, 1):
                for shift in (65536, -65536):
                    l2, c2 = ln + dl, col + shift
                    if 0 <= l2 < len(tl) and 0 <= c2 <= len(tl[l2]):
                        offs.append(sum(len(x) + 1 for x in tl[:l2]) + c2)
        positions = sorted(set(tuple(gen_check.line_col(t, o)) for o in offs))
        positions = [list(p_) for p_ in positions]
        reqs = [req_open(URIS[0], t)]
        for p_ in positions:
            reqs.append(req_hover(URIS[0], p_))
            reqs.append(req_def(URIS[0], p_))
        jobs.append({"id": len(jobs), "op": "lsp", "history": reqs})
        infos.append((t, positions))
    stats["long_documents"] = chk.size(8, 60)
    outs = runner.run_go(jobs)
    acases = [{"script": t, "positions": positions} for t, positions in infos]
    gos, models = A.analyze_both(acases)
    stats["evaluations"] += sum(len(p) for _, p in infos)
    for job, (t, positions), out, m in zip(jobs, infos, outs, models):
        steps = out.get("steps")
        if steps is None:
            fails.append((job, out, None, ["session crashed"]))
            continue
        decls, uses = gen_check.scan_vars(t)
        first = {}
        for d in decls:
            first.setdefault(d["name"], d)
        masked = gen_check.strip_comments_mask(t)
        fns = [(mm.start(1), mm.end(1), mm.group(1)) for mm in re.finditer(r"\b(set_tx_meta|set_account_meta|meta|balance|overdraft)\(", masked)]
        why = []
        for j, pos in enumerate(positions):
            hv = steps[1 + 2 * j]
            df = steps[2 + 2 * j]
            if "panic" in hv or "panic" in df:
                why.append("panic at %s" % pos)
                continue
            # expectation from the scanner
            exp_h, exp_d = None, None
            containing = []
            for u in uses:
                (l1, c1), (l2, c2) = gen_check.line_col(t, u["start"]), gen_check.line_col(t, u["end"])
                if l1 == pos[0] and c1 <= pos[1] <= c2:
                    containing.append((c1 != pos[1], u))       # a use that starts at the cursor comes first
            containing.sort(key=lambda x: x[0])
            for _, u in containing[:1]:
                (l1, c1), (l2, c2) = gen_check.line_col(t, u["start"]), gen_check.line_col(t, u["end"])
                if True:
                    d = first.get(u["name"])
                    if d is not None and d["start"] < u["start"]:
                        exp_h = {"contents": {"kind": "markdown", "value": "```numscript\n$%s: %s\n```" % (u["name"], d["type"])},
                                 "range": lsp_range(gen_check.rng_of(t, u["start"], u["end"]))}
                        exp_d = {"uri": URIS[0], "range": lsp_range(gen_check.rng_of(t, d["start"], d["end"]))}
                    break
            for (s, e, name) in fns:
                (l1, c1), (l2, c2) = gen_check.line_col(t, s), gen_check.line_col(t, e)
                if l1 == pos[0] and c1 <= pos[1] <= c2 and exp_h is None:
                    exp_h = {"contents": {"kind": "markdown", "value": BUILTIN_SIG[name]},
                             "range": lsp_range(gen_check.rng_of(t, s, e))}
            # two adjacent tokens may both contain a boundary position (closed ranges): accept either
            got_h, got_d = hv.get("result"), df.get("result")
            if got_h != exp_h and not boundary_ambiguous(t, pos, uses, fns):
                why.append("hover at %s: %s, expected %s" % (pos, json.dumps(got_h)[:160], json.dumps(exp_h)[:160]))
            if got_d != exp_d and not boundary_ambiguous(t, pos, uses, fns):
                why.append("definition at %s: %s, expected %s" % (pos, json.dumps(got_d)[:160], json.dumps(exp_d)[:160]))
            if exp_h is not None:
                stats["distinct_nontrivial"] += 1
            # model
            if m is not None and m.get("outcome") == "ok" and j < len(m["hovers"]):
                mh = m["hovers"][j]
                mt = mh.get("lsp")
                gt = [got_h["contents"]["value"], None] if got_h else None
                if (mt is None) != (gt is None) or (mt and gt and mt[0] != gt[0]):
                    dis.append(({"script": t, "positions": [pos]}, {"hover": got_h}, mh, ["lsp hover text at %s" % pos]))
                mg = mh.get("goto")
                gg = None
                if got_d:
                    r = got_d["range"]
                    gg = "%d:%d-%d:%d" % (r["start"]["line"], r["start"]["character"], r["end"]["line"], r["end"]["character"])
                if mg != gg:
                    dis.append(({"script": t, "positions": [pos]}, {"definition": got_d}, mh, ["definition at %s" % pos]))
                stats["model_comparisons"] += 1
        if why:
            fails.append(({"script": t}, None, None, why[:4]))


def boundary_ambiguous(t, pos, uses, fns):
    """position on the shared boundary of two hoverable tokens (closed ranges overlap at one point); when one of them
    STARTS there the cursor is inside that use and the answer is not ambiguous (the scanner expects the first use in
    text order: the caller re-checks with the one that starts at the position)"""
    n = 0
    for u in uses:
        (l1, c1), (l2, c2) = gen_check.line_col(t, u["start"]), gen_check.line_col(t, u["end"])
        if l1 == pos[0] and c1 <= pos[1] <= c2:
            n += 1
            if c1 == pos[1] and n > 1:
                return False
    for (s, e, name) in fns:
        (l1, c1), (l2, c2) = gen_check.line_col(t, s), gen_check.line_col(t, e)
        if l1 == pos[0] and c1 <= pos[1] <= c2:
            n += 1
    return n > 1


def run(chk):
    broken = chk.obligations(REGISTRY["C19"])
    runner.build_harness()
    stats = {"evaluations": 0, "distinct_nontrivial": 0, "model_comparisons": 0}
    fails, dis = [], []
    histories_check(chk, fails, stats)
    navigation_check(chk, fails, dis, stats)
    import wire
    wire.run(chk, fails, dis, stats)
    for c, go, m, why in fails[:10]:
        chk.violation("oracle", case=c, go=go, model=m, oracle=why)
    if not fails:
        for t in broken:
            chk.violation("theorem:%s no longer checks" % t, found_input=False, site="theorem:" + t)
        for c, go, m, why in dis[:3]:
            chk.violation("correspondence:model and implementation differ on %s" % why, case=c, go=go, model=m, found_input=False)
    stats["model_disagreements"] = len(dis)
    stats["oracle_failures"] = len(fails)
    chk.coverage.update(stats)
    chk.coverage["exhaustive"] = True
    chk.coverage["rule"] = ("exhaustive LSP histories of length %d over {open,change} x 2 URIs x 3 texts and {hover,definition,symbols} x 2 URIs, random histories of length 4..24; "
                            "each response compared with a fresh server that saw only the latest text of that URI; navigation: generated scripts x every cursor position, "
                            "expected hover/definition from an independent token scanner; non-trivial = history with a non-null answer / position on a variable use or builtin name"
                            % (3 if chk.tier == "quick" else 4))
    chk.coverage["samples"] = [{"history": ["open a t0", "change a t1", "hover a"]}]
    chk.coverage["explanation"] = "lsp.Handle driven in-process with captured notifications; Lean navigation model (Model/Nav.lean) compared on hover text and definition range"
