"""
Check skeleton: obligations (Lean build + axiom audit), evidence file, violation
reporting, known findings.
"""
import hashlib
import json
import os
import sys
import time

from runner import (VERIF, BUILD, LEAN, build_lean, audit_axioms, theorem_modules, grep_forbidden, ALLOWED_AXIOMS, regenerate_tables, code_drift)

REPLAYS = os.path.join(VERIF, "replays")
EVIDENCE = os.path.join(VERIF, "evidence")

TRUSTED_BASE = [
    "Lean 4.33 kernel (thorough tier: leanchecker re-check of the compiled Properties modules)",
    "axioms allowed in #print axioms: propext, Classical.choice, Quot.sound (no native_decide, no bv_decide, no own axioms, no sorry)",
    "hand-written Lean model of the Go functions (Model/), tied to /repo by the correspondence run of this check (same inputs through the Go code and the compiled model, projections compared)",
    "Lean compiler for the driver binary (nsdriver) that executes the model definitions",
    "Go harness (harness/*.go, compiled into the module with go build -overlay), its AST serialiser, the Python canonicaliser and reference semantics (vlib/spec.py) used as oracle",
    "not modelled: ANTLR runtime and generated recogniser, math/big, regexp, strconv, encoding/json, Go maps and scheduler, cobra",
]


class Check:
    def __init__(self, pid, tier, seed, level):
        self.pid = pid
        self.tier = tier
        self.seed = seed
        self.level = level
        self.t0 = time.time()
        self.violations = []      # (replay_path, no_failing_input_found: bool, summary)
        self.known_hits = []
        self.coverage = {}
        self.assumptions = []
        self.known = load_known_findings()
        self.drift = None
        os.makedirs(REPLAYS, exist_ok=True)
        os.makedirs(EVIDENCE, exist_ok=True)

    # ---- stream sizes ------------------------------------------------
    BOOST = 6

    def size(self, quick, thorough):
        """number of generated cases: the quick size on the tree the model was written against, `BOOST` times
        more (at most the thorough size) when the Go source of a modelled package differs from the inventory"""
        if self.tier == "thorough":
            return thorough
        if self.drift is None:
            self.drift = code_drift()
            self.coverage["code_drift"] = self.drift[:40]
        return min(thorough, quick * self.BOOST) if self.drift else quick

    # ---- obligations -------------------------------------------------
    def obligations(self, theorems):
        """build the Lean project and audit the theorems registered for this property.
        returns list of theorem names that are NOT discharged."""
        terr = regenerate_tables()
        if terr:
            self.coverage["table_extraction_error"] = terr
        # this property's obligations: the modules stating its theorems (and what they import) + the driver
        mods = theorem_modules(theorems)
        targets = sorted(set(mods.values()))
        ok, log = build_lean(targets + ["nsdriver"]) if targets else build_lean()
        self.coverage["lean_modules"] = targets
        broken = []
        results = {}
        if not ok:
            # find which modules failed
            self.coverage["lean_build_log_tail"] = log[-2000:]
            # try to audit anyway: theorems whose modules built are still checked
        hits = grep_forbidden()
        if hits:
            self.coverage["forbidden_constructs"] = hits[:20]
        try:
            results = audit_axioms(theorems, imports=targets or None)
            for t in theorems:
                if t not in mods:
                    results[t] = (False, ["theorem not found in lean/Properties"])
        except Exception as e:      # pragma: no cover
            results = {t: (False, ["audit failed: %s" % e]) for t in theorems}
        # thorough tier: independent re-check of the compiled modules with leanchecker (cached per source hash)
        if self.tier == "thorough" and theorems and ok:
            lc = leanchecker_ok()
            self.coverage["leanchecker"] = lc
            if not lc.get("ok"):
                results = {t: (False, ["leanchecker failed: " + lc.get("log", "")[-300:]]) for t in theorems}
        for t in theorems:
            okt, axs = results.get(t, (False, ["missing"]))
            if not okt or hits or (terr and self.pid in ("C16", "C17", "C18", "C19", "C20")):
                broken.append(t)
        self.coverage["obligations"] = len(theorems)
        self.coverage["discharged"] = len(theorems) - len(broken)
        self.coverage["theorems"] = {t: results.get(t, (False, []))[1] for t in theorems}
        self.coverage["checker_cmd"] = "cd /verif/lean && lake build && lake env lean <#print axioms of each registered theorem>" + \
            (" && lake env leanchecker Properties" if self.tier == "thorough" else "")
        self.coverage["trusted_base"] = TRUSTED_BASE
        self.lean_ok = ok
        return broken

    # ---- violations --------------------------------------------------
    def replay_path(self, payload):
        h = hashlib.sha256(json.dumps(payload, sort_keys=True, default=str).encode()).hexdigest()[:12]
        return os.path.join(REPLAYS, "%s-%s.json" % (self.pid, h))

    def violation(self, reason, case=None, go=None, model=None, oracle=None, found_input=True, site=None):
        payload = {"property": self.pid, "reason": reason, "case": case, "go": go, "model": model,
                   "oracle": oracle, "seed": self.seed, "site": site}
        # known finding?
        kf = match_known(self.known, self.pid, case, site, oracle)
        if kf is not None and found_input:
            msg = "KNOWN-FINDING: property=%s %s" % (self.pid, kf["what"])
            if msg not in self.known_hits:
                self.known_hits.append(msg)
            return
        path = self.replay_path(payload)
        with open(path, "w") as f:
            json.dump(payload, f, indent=1, default=str)
        self.violations.append((path, not found_input, reason))

    # ---- finish --------------------------------------------------------
    def finish(self):
        import runner as _runner
        self.coverage["state_probes"] = _runner.PROBE_CASES[0]
        for c, diff in _runner.PROBE_DIFFS[:3]:
            self.violation("oracle", case=c, oracle=["after this case a fixed probe (parse + check + run of one constant script, in the same "
                                                     "process) no longer gives what it gave before: process-wide state was changed. " + diff[:1500]])
        wall = time.time() - self.t0
        ev = {
            "property_id": self.pid,
            "tier": self.tier,
            "seed": self.seed,
            "level": self.level,
            "coverage": self.coverage,
            "assumptions": self.assumptions,
            "wall_s": round(wall, 2),
            "violations": len(self.violations),
        }
        with open(os.path.join(EVIDENCE, "%s.json" % self.pid), "w") as f:
            json.dump(ev, f, indent=1, default=str)
        for m in self.known_hits:
            print(m)
        seen = set()
        for path, nofound, reason in self.violations[:20]:
            if path in seen:
                continue
            seen.add(path)
            line = "VIOLATION property=%s replay=%s" % (self.pid, path)
            if nofound:
                line += " no-failing-input-found"
            print(line)
        print("%s %s tier=%s seed=%d wall=%.1fs %s" % (
            "FAIL" if self.violations else "PASS", self.pid, self.tier, self.seed, wall,
            json.dumps({k: v for k, v in self.coverage.items()
                        if k in ("evaluations", "distinct_nontrivial", "obligations", "discharged", "programs",
                                 "model_comparisons", "model_disagreements", "oracle_failures")})))
        sys.stdout.flush()
        return 1 if self.violations else 0


def leanchecker_ok():
    import subprocess
    from runner import lean_sources_hash
    cache = os.path.join(BUILD, "leanchecker.json")
    key = lean_sources_hash()
    try:
        c = json.load(open(cache))
        if c.get("key") == key:
            return c
    except Exception:
        pass
    t0 = time.time()
    r = subprocess.run(["lake", "env", "leanchecker", "Properties"], cwd=LEAN, stdout=subprocess.PIPE,
                       stderr=subprocess.STDOUT, text=True)
    c = {"key": key, "ok": r.returncode == 0, "log": r.stdout[-2000:], "wall_s": round(time.time() - t0, 1),
         "cmd": "lake env leanchecker Properties"}
    os.makedirs(BUILD, exist_ok=True)
    json.dump(c, open(cache, "w"))
    return c


def load_known_findings():
    p = os.path.join(VERIF, "known_findings.json")
    if not os.path.exists(p):
        return []
    return json.load(open(p))


def case_hash(case):
    if case is None:
        return None
    core = {k: case.get(k) for k in ("op", "script", "vars", "balances", "meta", "store", "failAt", "flags",
                                     "text", "type", "senders", "receivers")
            if isinstance(case, dict) and k in case}
    return hashlib.sha256(json.dumps(core, sort_keys=True).encode()).hexdigest()[:16]


def match_known(known, pid, case, site, oracle):
    for k in known:
        if k.get("status") != "finding" or k.get("property") != pid:
            continue
        m = k.get("match", {})
        if "case_hash" in m and m["case_hash"] == case_hash(case):
            return k
        if "site" in m and site is not None and m["site"] == site:
            return k
    return None
