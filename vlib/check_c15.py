"""C15 — parsing recovers exactly the script written (translation validation against the real parser)."""
import random

import gen_parse
import parse_model
import runner
from registry import REGISTRY


def run(chk):
    broken = chk.obligations(REGISTRY["C15"])
    runner.build_harness()
    n = chk.size(4000, 80000)
    items = []
    kinds, layouts = {}, {}
    for i in range(n):
        text, sexp, k, lk = gen_parse.gen_script(chk.seed, i, fancy=(i % 4 != 0), depth=3 if i % 5 else 4)
        items.append((text, sexp))
        for a, b in k.items():
            kinds[a] = kinds.get(a, 0) + b
        for a, b in lk.items():
            layouts[a] = layouts.get(a, 0) + b
    # the same tree under two different layouts must give the same structure: pair each script with a plain print
    cases = [{"id": i, "op": "parse", "script": t} for i, (t, s) in enumerate(items)]
    gos = runner.run_go(cases)
    fails = []
    distinct = set()
    for (text, want), o in zip(items, gos):
        why = []
        if "parsePanic" in o:
            why.append("parser panics: %s" % o["parsePanic"][:200])
        elif o.get("parseErrors") and all(m.startswith("number literal out of range") for _, m in o["parseErrors"]):
            chk.coverage["out_of_range_literals_reported"] = chk.coverage.get("out_of_range_literals_reported", 0) + 1
            continue     # the known finding of C14 (number-literal-out-of-range); what C15 forbids is a WRONG value, silently
        elif o.get("parseErrors"):
            why.append("well-formed script reported with errors: %s" % o["parseErrors"][:2])
        elif o.get("ast") != want:
            got = o.get("ast", "")
            # locate the first difference for the report
            k = next((j for j in range(min(len(got), len(want))) if got[j] != want[j]), min(len(got), len(want)))
            why.append("tree differs from what was written at offset %d: parser …%s… expected …%s…" % (k, got[max(0, k - 60):k + 60], want[max(0, k - 60):k + 60]))
        else:
            distinct.add(text)
        if why:
            fails.append(({"script": text}, {"ast": o.get("ast"), "parseErrors": o.get("parseErrors")}, {"expected_ast": want}, why))
    # probes of the recorded grammar quirk: a comment glued to an asset / number / ratio token
    probes = ["send [USD/* c */ 1] (\n source = @a\n destination = @b\n)\n", "send [USD 1//c\n] (\n source = @a\n destination = @b\n)\n",
              "send [USD 10] (\n source = @a\n destination = { 1/2/* half */ to @b remaining kept }\n)\n"]
    pouts = runner.run_go([{"id": i, "op": "parse", "script": t} for i, t in enumerate(probes)])
    for t, o in zip(probes, pouts):
        if o.get("parseErrors") or "parsePanic" in o:
            chk.violation("oracle", case={"script": t}, go={"parseErrors": o.get("parseErrors")}, site="comment-glued-to-asset-token",
                          oracle=["a comment written directly after an asset/number/ratio token changes the parse: %s" % o.get("parseErrors")[:1]])
    # probe of the second recorded quirk: an asset made of slashes is a comment opener once a newline follows
    probes2 = ["send [// 1] (source = @a destination = @b)", "send [// 1] (source = @a destination = @b)\n",
               "send [// 1] (\n source = @a destination = @b)"]
    pouts2 = runner.run_go([{"id": i, "op": "parse", "script": t} for i, t in enumerate(probes2)])
    if not pouts2[0].get("parseErrors") and "parsePanic" not in pouts2[0]:
        for t, o in zip(probes2[1:], pouts2[1:]):
            if o.get("parseErrors") or o.get("ast") != pouts2[0].get("ast"):
                chk.violation("oracle", case={"script": t}, go={"parseErrors": o.get("parseErrors")}, site="asset-of-slashes-becomes-a-comment",
                              oracle=["inserting a newline after the tokens of %r changes the parse: %s" % (probes2[0], (o.get("parseErrors") or [None])[:1])])
    probes = probes + probes2
    pouts = pouts + pouts2
    # the parser model (Model/Lex.lean, Model/Parse.lean) on the same texts, and on layout-stripped variants
    mtexts = [t for t, _ in items] + probes
    mgos = gos + pouts
    pdis, pstats = parse_model.compare(mtexts, mgos)
    for c, go, m, why in fails[:10]:
        chk.violation("oracle", case=c, go=go, model=m, oracle=why)
    if not fails:
        for t in broken:
            chk.violation("theorem:%s no longer checks" % t, found_input=False, site="theorem:" + t)
        for c, go, m, why in pdis[:3]:
            chk.violation("correspondence:parser model and implementation differ: %s" % why, case=c, go=go, model=m, found_input=False)
    chk.coverage.update(pstats)
    chk.coverage["model_comparisons"] = pstats["parser_model_comparisons"]
    chk.coverage["model_disagreements"] = len(pdis)
    chk.coverage.update({
        "programs": len(items), "disagreements_checked": len(items), "evaluations": len(items),
        "distinct_nontrivial": len(distinct), "oracle_failures": len(fails),
        "rule": "scripts from a grammar-complete generator (every alternative of every rule, nesting <= 4) printed under random layouts (blanks, tabs, CR/LF, line/block comments, "
                "non-ASCII in strings and comments); expected tree and ranges computed from the generator's own tree and the printer's recorded spans; non-trivial = parsed with zero errors and identical tree",
        "samples": [{"script": items[1][0], "expected": items[1][1]}, {"script": items[7][0][:400]}],
        "distribution": {"node_kinds": kinds, "layout_separators": layouts},
        "explanation": "equality of the serialised tree (all fields and all ranges) returned by parser.Parse with the tree the generator wrote",
    })
