"""C16 — the checker never cries wolf and is exact about variable names."""
import random
import re

import analysis_common as A
import gen_check
import runner
from registry import REGISTRY


def run(chk):
    broken = chk.obligations(REGISTRY["C16"])
    runner.build_harness()
    rng = random.Random("C16-%d" % chk.seed)
    n = chk.size(1500, 30000)
    cases, meta = [], []
    for i in range(n):
        c, g = gen_check.valid_script(chk.seed, i)
        cases.append({"script": c["script"], "_valid": True})
        meta.append(("valid", None))
        for _ in range(2):
            e = gen_check.name_edit(c["script"], rng)
            if e:
                cases.append({"script": e[0]})
                meta.append(("edit", e[1]))
    # built-ins in the wrong place (an origin function as a statement, a statement function as an origin) with undeclared
    # variables among their arguments: each undeclared use is reported once, whatever else is wrong with the call
    valid_texts = [c["script"] for c in cases if c.get("_valid")]
    for t in valid_texts[::5]:
        for extra in ("\nbalance($zz_nope, USD)\n", "\nmeta(@a, $zz_nope)\noverdraft($zz_nope, $zz_other)\n", "\nbalance($zz_nope)\nset_tx_meta($zz_nope)\n"):
            cases.append({"script": t.rstrip("\n") + extra})
            meta.append(("edit", "misplaced-call"))
        m_ = re.match(r"\s*vars\s*\{[ \t]*\n?", t)
        decl = '  number $zz_o = set_tx_meta("k", $zz_nope)\n  monetary $zz_p = set_account_meta($zz_nope, "k", $zz_q)\n'
        cases.append({"script": (t[:m_.end()] + decl + t[m_.end():]) if m_ else ("vars {\n" + decl + "}\n" + t)})
        meta.append(("edit", "misplaced-origin"))
    # sizes: the same scripts with 12…257 more declared variables that nobody uses (each must be reported, nothing else)
    for i in range(0, len(cases), 29):
        pv = gen_check.pad_vars(cases[i]["script"], rng)
        if pv:
            cases.append({"script": pv})
            meta.append(meta[i])
    gos, models = A.analyze_both(cases)
    fails, dis = [], []
    stats = {"evaluations": len(cases), "distinct_nontrivial": 0, "model_comparisons": 0, "valid_scripts": 0, "edited_scripts": 0}
    seen = set()
    kinds = {}
    for c, (kind, ed), o, m in zip(cases, meta, gos, models):
        if "diags" not in o:
            fails.append((c, o, m, ["analysis did not return: %s" % A.go_panics(o)]))
            continue
        why = []
        if kind == "valid":
            stats["valid_scripts"] += 1
            errs = [d for d in o["diags"] if d[1] == "1"]
            if errs:
                why.append("valid script receives error diagnostics: %s" % errs[:3])
        else:
            stats["edited_scripts"] += 1
        if not o.get("parseErrors"):
            want = gen_check.expected_name_diags(c["script"])
            got = sorted((d[0], d[2], d[3]) for d in o["diags"] if d[0] in ("UnboundVariable", "DuplicateVariable", "UnusedVar"))
            if got != want:
                why.append("name diagnostics %s, expected %s" % (got, want))
            for d in o["diags"]:
                kinds[d[0]] = kinds.get(d[0], 0) + 1
            if c["script"] not in seen and (kind == "valid" or want):
                seen.add(c["script"])
                stats["distinct_nontrivial"] += 1
        if why:
            fails.append((c, o, m, why))
        if m is not None:
            stats["model_comparisons"] += 1
            d = A.diff_analysis(o, m, compare_hovers=False)
            if d:
                dis.append((c, o, m, d))
    for c, go, m, why in fails[:10]:
        chk.violation("oracle", case=c, go={"diags": go.get("diags"), "panics": A.go_panics(go)}, model=m, oracle=why)
    if not fails:
        for t in broken:
            chk.violation("theorem:%s no longer checks" % t, found_input=False, site="theorem:" + t)
        for c, go, m, why in dis[:3]:
            chk.violation("correspondence:check model and implementation differ on %s" % why, case=c,
                          go={"diags": go.get("diags")}, model=m, found_input=False)
    stats["model_disagreements"] = len(dis)
    stats["oracle_failures"] = len(fails)
    chk.coverage.update(stats)
    chk.coverage["diagnostic_kinds_seen"] = kinds
    chk.coverage["rule"] = ("statically valid generated scripts (all constructs, six types, variables in every position, bounded overdraft and caps under send-all) "
                            "and their name edits (delete/duplicate/rename declarations and uses, add unused); expected name diagnostics from an independent "
                            "token scanner; non-trivial = valid script, or edit with at least one expected name diagnostic; distinct by text")
    chk.coverage["samples"] = [cases[0], cases[1] if len(cases) > 1 else cases[0]]
    chk.coverage["explanation"] = "Lean model of check.go (Model/Check.lean) run on the Go parser's AST and compared with analysis.CheckSource (multiset of kind, severity, range, payload)"
