"""
Generic check for the execution properties C01–C05, C07–C12.
"""
import copy
import json
import os
import random
import time

import core
import runner
import spec
import props_exec as P
from registry import REGISTRY

N = {"quick": 3000, "thorough": 60000}
OVER_RE = __import__("re").compile(r"(?<![\w/.$@\"])(\d{19,})(?![\w/%.])")
EXTRA_SEARCH = {"quick": 6000, "thorough": 60000}


def load_corpus(pid):
    """minimised past disagreements and witnesses of repaired defects: run first"""
    out = []
    d = os.path.join(runner.VERIF, "corpus")
    for fn in sorted(os.listdir(d)) if os.path.isdir(d) else []:
        if fn.endswith(".json"):
            for ent in json.load(open(os.path.join(d, fn))):
                if pid in ent.get("props", []):
                    out.append(ent)
    return out


def evaluate(chk, pid, cases, gens, gos, models, stats, samples):
    """per-case: harness sanity, model≡Go on the projection, oracle. returns (disagreements, oracle_failures)"""
    disagreements, failures = [], []
    oracle = P.ORACLES.get(pid)
    seen = set()
    for c, g, o, m in zip(cases, gens, gos, models):
        stats["evaluations"] += 1
        if "go" not in o:
            stats["harness_errors"] += 1
            disagreements.append((c, o, m, ["harness: " + json.dumps(o)[:300]]))
            continue
        go = o["go"]
        if o.get("parseErrors"):
            stats["parse_errors"] += 1
            if g is not None and "literal-over-int64" not in g.get("features", []) and \
                    any(int(x) > 2 ** 63 - 1 for x in OVER_RE.findall(c["script"])):
                # the generator wrote an integer literal above 2^63-1 by accident: that is the known finding of C14
                # (rejected by the parser), not a case of this property
                stats["generator_over_int64_literals"] = stats.get("generator_over_int64_literals", 0) + 1
                continue
            if g is not None and "literal-over-int64" in g.get("features", []):
                # rejected by the parser, as every literal that large is: nothing ran with another number
                stats["over_int64_literals_rejected"] = stats.get("over_int64_literals_rejected", 0) + 1
                continue
        exp = P.expected(c, g) if g is not None else None
        if g is not None and P.nontrivial(pid, c, g, go, exp):
            k = P.case_key(c)
            if k not in seen:
                seen.add(k)
                stats["distinct_nontrivial"] += 1
                if len(samples) < 4:
                    samples.append({"script": c["script"], "vars": c.get("vars"), "balances": c.get("balances"),
                                    "go": {k2: go.get(k2) for k2 in ("outcome", "errKind", "errPayload", "postings")}})
        if o.get("apiDiff"):
            failures.append((c, go, m, ["the public API (numscript.Parse(..).Run / RunWithFeatureFlags) does not return what the interpreter computes: %s" % "; ".join(o["apiDiff"])[:600]]))
        if go.get("mutated"):
            failures.append((c, go, m, ["the run modified what it was handed (%s): the store's own numbers / the caller's maps are inputs" % go["mutated"]]))
        if o.get("altDiff"):
            failures.append((c, go, m, ["a second run of the same parse result with other variable values / balances differs from a run of a fresh parse with them: %s" % o["altDiff"][:600]]))
        if o.get("prefixMismatch"):
            failures.append((c, go, m, ["postings of a prefix of the script differ from the prefix of the postings"]))
        if m is not None:
            stats["model_comparisons"] += 1
            if m.get("outcome") in ("drivererror", "drivercrash"):
                disagreements.append((c, go, m, ["driver: " + str(m.get("detail"))[:200]]))
            else:
                d = runner.diff_exec(go, m, P.KEYS[pid])
                if d:
                    disagreements.append((c, go, m, d))
        elif o.get("unsupported"):
            stats["unsupported_ast"] += 1
        if oracle is not None and g is not None:
            v = oracle(c, g, go, exp)
            if v:
                failures.append((c, go, m, v))
    return disagreements, failures


def run(chk):
    pid, tier, seed = chk.pid, chk.tier, chk.seed
    broken = chk.obligations(REGISTRY[pid])
    runner.build_harness()
    stats = {k: 0 for k in ("evaluations", "distinct_nontrivial", "model_comparisons", "harness_errors",
                            "parse_errors", "unsupported_ast")}
    samples = []
    all_dis, all_fail = [], []

    # 1. corpus first
    corpus = load_corpus(pid)
    if corpus:
        ccases = []
        for i, ent in enumerate(corpus):
            c = dict(ent["case"])
            c.update({"id": 10_000_000 + i, "op": "exec", "perStmt": True})
            c.setdefault("store", "exact")
            c.setdefault("failAt", -1)
            ccases.append(c)
        cgos = runner.run_go(ccases)
        cmods = P.run_model(ccases, cgos)
        cgens = [ent.get("gen") for ent in corpus]
        d, f = evaluate(chk, pid, ccases, [fix_gen(g) for g in cgens], cgos, cmods, stats, samples)
        all_dis += d
        all_fail += f
        stats["corpus_cases"] = len(ccases)

    # 2. generated stream
    n = chk.size(N["quick"], N["thorough"])
    cases, gens = P.make_cases(pid, seed, n)
    gos = runner.run_go(cases)
    models = P.run_model(cases, gos)
    d, f = evaluate(chk, pid, cases, gens, gos, models, stats, samples)
    all_dis += d
    all_fail += f
    hist = P.histogram(gens, gos)
    # the parser model on the same texts: the tree the interpreter model is run on is also the model's own
    import parse_model
    pdis, pstats = parse_model.compare([c["script"] for c in cases], gos)
    stats.update(pstats)
    stats["model_comparisons"] += pstats["parser_model_comparisons"]
    all_dis += [(c, go, m, why) for c, go, m, why in pdis]

    # 2b. aliasing-focused sub-stream: few distinct values, almost everything through reused variables
    # (one variable read at several places and in several statements; payments split in steps)
    alias_profile = {"mon_var": 0.85, "var_reuse": 0.9, "acct_var": 0.6, "num_var": 0.5, "send": 0.8, "sendall": 0.1,
                     "save": 0.05, "depth": 2, "ddepth": 1, "stmts_max": 4, "small_values": True, "exact_balance": 0.5,
                     "infix": 0.03, "big": 0.25, "lookalike_names": 0.25, "aligned_shape": 0.1}
    cases_a, gens_a = P.make_cases(pid, seed + 104729, max(300, n // 2), start=5_000_000, profile_override=alias_profile)
    gos_a = runner.run_go(cases_a)
    models_a = P.run_model(cases_a, gos_a)
    d, f = evaluate(chk, pid, cases_a, gens_a, gos_a, models_a, stats, samples)
    all_dis += d
    all_fail += f
    stats["alias_stream_cases"] = len(cases_a)

    # 2c. several assets per account + variables with balance()/overdraft()/meta() origins: the per-account asset lists
    # of the balance queries, values cached by an origin before the statements are scanned, bounded overdrafts on
    # negative balances
    multi_profile = {"lookalike_names": 0.35, "multi_asset": True, "origins": 0.7, "neg_balance": 0.3, "overdraft_bounded": 0.4, "stmts_max": 4,
                     "depth": 2, "ddepth": 1, "acct_var": 0.2, "save": 0.15, "negative_amount": 0.08}
    cases_m, gens_m = P.make_cases(pid, seed + 7919, max(300, n // 2), start=7_000_000, profile_override=multi_profile)
    gos_m = runner.run_go(cases_m)
    models_m = P.run_model(cases_m, gos_m)
    d, f = evaluate(chk, pid, cases_m, gens_m, gos_m, models_m, stats, samples)
    all_dis += d
    all_fail += f
    stats["multi_asset_stream_cases"] = len(cases_m)

    # 2e. sizes: blocks, splits and ordered destinations with 5…257 clauses, 9…65 levels of nesting, up to 65 statements,
    # 40 more accounts (and, through them, dozens of variables, balances and postings): the sizes at which inline arrays
    # become maps, buffers fill up and narrow counters wrap
    large_profile = {"wide": 0.25, "pool": 40, "deep": 0.1, "stmts_max": 3, "acct_var": 0.4, "origins": 0.05, "pad_front": 0.25, "wide_send": 0.3, "wide_pair": 0.12,
                     "overdraft_unbounded": 0.2}
    cases_l, gens_l = P.make_cases(pid, seed + 15485863, max(200, n // 8), start=9_000_000, profile_override=large_profile)
    gos_l = runner.run_go(cases_l)
    models_l = P.run_model(cases_l, gos_l)
    d, f = evaluate(chk, pid, cases_l, gens_l, gos_l, models_l, stats, samples)
    all_dis += d
    all_fail += f
    stats["large_stream_cases"] = len(cases_l)

    # 2d. poisoned leaves: one account anywhere in the script replaced by an unbound variable, or one cap (`max [A n]`) given
    # another asset. Wherever that leaf is evaluated the run must fail with that error; where it is never reached the
    # run is the original one. (The model decides which; for C12 the dichotomy itself is also checked.)
    import re as _re
    prng = random.Random("poison-%s-%d" % (pid, seed))
    cases_p, origin_p = [], []
    for c, o in list(zip(cases, gos))[: max(300, n // 3)]:
        if "go" not in o or o.get("parseErrors"):
            continue
        accts = [m for m in _re.finditer(r"@[A-Za-z_][A-Za-z0-9_:]*", c["script"])]
        caps = [m for m in _re.finditer(r"max \[([A-Z][A-Z0-9]*(?:/[0-9]+)?) ", c["script"])]
        if accts and (not caps or prng.random() < 0.7):
            m = prng.choice(accts)
            txt = c["script"][:m.start()] + "$nope" + c["script"][m.end():]
        elif caps:
            m = prng.choice(caps)
            txt = c["script"][:m.start(1)] + "ZZZ" + c["script"][m.end(1):]
        else:
            continue
        cases_p.append(dict(c, id=8_000_000 + len(cases_p), script=txt))
        origin_p.append(o["go"])
    if cases_p:
        gos_p = runner.run_go(cases_p)
        models_p = P.run_model(cases_p, gos_p)
        d, f = evaluate(chk, pid, cases_p, [None] * len(cases_p), gos_p, models_p, stats, samples)
        all_dis += d
        all_fail += f
        stats["poisoned_leaf_cases"] = len(cases_p)
        if pid == "C12":
            for c, o, g0 in zip(cases_p, gos_p, origin_p):
                go = o.get("go")
                if not go:
                    continue
                same = all(go.get(k) == g0.get(k) for k in ("outcome", "errKind", "errPayload", "postings"))
                poisoned = go["outcome"] == "err" and go.get("errKind") in ("UnboundVariableErr", "MismatchedCurrencyError")
                if not same and not poisoned:
                    all_fail.append((c, go, None, ["a leaf that cannot be evaluated ($nope is unbound / ZZZ is another asset) neither failed the run nor was skipped: "
                                                   "the run differs from the run of the unpoisoned script (%s %s)" % (g0.get("outcome"), g0.get("errKind"))]))

    # 3. property-specific sub-checks on the real code
    extra = EXTRAS.get(pid)
    if extra:
        f2, d2 = extra(chk, cases_l + cases, gens_l + gens, gos_l + gos, stats)
        all_fail += f2
        all_dis += d2

    # 4. classification
    if (all_dis or broken) and not all_fail:
        # failing-input search: more generated inputs, oracle only (plus model comparison)
        cases2, gens2 = P.make_cases(pid, seed + 7919, EXTRA_SEARCH[tier])
        gos2 = runner.run_go(cases2)
        models2 = P.run_model(cases2, gos2)
        st2 = {k: 0 for k in stats}
        d3, f3 = evaluate(chk, pid, cases2, gens2, gos2, models2, st2, [])
        stats["search_evaluations"] = st2["evaluations"]
        all_fail += f3
        all_dis += d3

    for c, go, m, why in all_fail[:10]:
        chk.violation("oracle", case=strip(c), go=go, model=m, oracle=why, found_input=True)
    if not all_fail:
        for t in broken:
            chk.violation("theorem:%s no longer checks (build or axiom audit)" % t, found_input=False, site="theorem:" + t)
        for c, go, m, why in all_dis[:3]:
            chk.violation("correspondence:exec model and implementation differ on %s" % why, case=strip(c), go=go,
                          model=m, found_input=False)

    stats["model_disagreements"] = len(all_dis)
    stats["oracle_failures"] = len(all_fail)
    chk.coverage.update(stats)
    chk.coverage["rule"] = RULES.get(pid, "")
    chk.coverage["samples"] = samples
    chk.coverage["distribution"] = hist
    chk.coverage["explanation"] = (
        "Lean model of the interpreter (lean/Model) run on the AST produced by the real parser for %d generated scripts and "
        "compared with the Go interpreter on the projection %s; the property's oracle (vlib/props_exec.py, reference semantics "
        "vlib/spec.py) evaluated on every Go result." % (stats["evaluations"], P.KEYS[pid]))


def fix_gen(g):
    """JSON round trip turns tuples into lists and Fractions into strings: restore"""
    if g is None:
        return None
    from fractions import Fraction

    def conv(x):
        if isinstance(x, list):
            return tuple(conv(y) for y in x) if (x and isinstance(x[0], str) and x[0] in TAGS) else [conv(y) for y in x]
        if isinstance(x, str) and x.startswith("frac:"):
            return Fraction(x[5:])
        return x
    g = dict(g)
    g["stmts"] = [conv(s) for s in g["stmts"]]
    return g


TAGS = {"send", "sendall", "save", "txmeta", "accmeta", "error", "acct", "unb", "inorder", "capped", "allot", "kept", "to"}


def strip(c):
    return {k: v for k, v in c.items() if not k.startswith("_")}


RULES = {
    "C01": "generated multi-statement scripts over 4 accounts + @world (repetition and aliasing frequent); non-trivial = succeeds with >=1 posting debiting a bounded account; distinct by (script, vars, balances)",
    "C02": "same stream, kept-heavy; non-trivial = succeeds with >=1 posting",
    "C03": "send-heavy stream; non-trivial = has a fixed send of a positive amount and either succeeds or fails with insufficient funds",
    "C04": "deeper source trees, send and send-all; non-trivial = succeeds with postings and a structured source",
    "C05": "deeper destination trees; non-trivial = succeeds with postings and a structured destination",
    "C07": "kept-heavy stream with several senders/receivers; non-trivial = succeeds with >=2 postings",
    "C08": "save-heavy stream with negative balances; non-trivial = contains a save and later moves funds or fails for lack of them",
    "C09": "scripts of up to 5 statements; non-trivial = >=2 statements, succeeds with postings; every split point re-executed",
    "C10": "scripts with balance()/overdraft()/meta() origins; non-trivial = at least one store query; each run under 4 store behaviours",
    "C11": "each script run 3 times on one ParseResult and one caller-owned store; non-trivial = succeeds with postings",
    "C12": "stream with bad allotment sums, negative amounts, origins + store fault at every call index; non-trivial = execution returns an error",
}


# ------------------------------------------------------------------ property-specific sub-checks

def extra_C09(chk, cases, gens, gos, stats):
    """metamorphic: whole script vs split at every k on the balances left by the first part"""
    fails, dis = [], []
    sub, meta = [], []
    for c, g, o in zip(cases, gens, gos):
        go = o.get("go")
        # (origins that read balances would read other balances in the second part; origins that read metadata read the
        # same store in both)
        bal_origin = any(f in g["features"] for f in ("origin-balance", "origin-overdraft", "origin-balance-world", "origin-chained"))
        if not go or go["outcome"] != "ok" or (g["has_origins"] and bal_origin) or len(g["stmts"]) < 2 or go.get("stmtEnds") is None:
            continue
        per = P.stmt_postings(go)
        V = P.flat_balances(c)
        ks = set(range(1, len(g["stmts"])))
        if len(ks) > 6:
            # long scripts: the first and last split points and a few in between
            ks = {1, 2, len(g["stmts"]) - 1, len(g["stmts"]) // 2, 16 if len(g["stmts"]) > 17 else 3, 64 if len(g["stmts"]) > 65 else 4}
        for k in range(1, len(g["stmts"])):
            # visible balances after statements 0..k-1: Go's own postings + save reservations
            st = g["stmts"][k - 1]
            for s, d, m, a in per[k - 1]:
                V[(s, a)] = V.get((s, a), 0) - int(m)
                V[(d, a)] = V.get((d, a), 0) + int(m)
            if st[0] == "save":
                b = V.get((st[3], st[1]), 0)
                if b > 0:
                    V[(st[3], st[1])] = 0 if st[2] is None else max(0, b - st[2])
            if k not in ks:
                continue
            bal2 = {}
            for (a, cc), v in V.items():
                bal2.setdefault(a, {})[cc] = str(v)
            c1 = {"id": len(sub), "op": "exec", "script": g["vars_block"] + "\n".join(g["stmt_texts"][:k]) + "\n",
                  "vars": c["vars"], "balances": c["balances"], "meta": c.get("meta", {}), "store": "exact", "failAt": -1}
            c2 = {"id": len(sub) + 1, "op": "exec", "script": g["vars_block"] + "\n".join(g["stmt_texts"][k:]) + "\n",
                  "vars": c["vars"], "balances": bal2, "meta": c.get("meta", {}), "store": "exact", "failAt": -1}
            sub += [c1, c2]
            meta.append((c, go, k))
        if len(sub) > 40000:
            break
    outs = runner.run_go(sub) if sub else []
    stats["split_executions"] = len(sub)
    for i, (c, go, k) in enumerate(meta):
        o1, o2 = outs[2 * i].get("go"), outs[2 * i + 1].get("go")
        if not o1 or not o2:
            continue
        why = []
        if o1["outcome"] != "ok" or o2["outcome"] != "ok":
            why.append("split at %d: parts end %s/%s (%s %s), whole succeeds" % (k, o1["outcome"], o2["outcome"], o2.get("errKind"), o2.get("errPayload")))
        else:
            if o1["postings"] + o2["postings"] != go["postings"]:
                why.append("split at %d: postings %s ++ %s != whole %s" % (k, o1["postings"], o2["postings"], go["postings"]))
            tx = dict(o1.get("txMeta") or {})
            tx.update(o2.get("txMeta") or {})
            if tx != (go.get("txMeta") or {}):
                why.append("split at %d: tx metadata %s vs whole %s" % (k, tx, go.get("txMeta")))
            am = copy.deepcopy(o1.get("accMeta") or {})
            for a, mm in (o2.get("accMeta") or {}).items():
                am.setdefault(a, {}).update(mm)
            if am != (go.get("accMeta") or {}):
                why.append("split at %d: account metadata %s vs whole %s" % (k, am, go.get("accMeta")))
        if why:
            fails.append((dict(c, _split=k), go, {"part1": o1, "part2": o2}, why))
    return fails, dis


def extra_C10(chk, cases, gens, gos, stats):
    """same script under the four store behaviours + perturbation of unrequested pairs"""
    fails, dis = [], []
    sub = []
    base = []
    for c, g, o in zip(cases, gens, gos):
        if "go" not in o:
            continue
        for pol in ("sparse", "superset", "static"):
            c2 = dict(c, id=len(sub), store=pol, perStmt=False)
            sub.append(c2)
        # perturbation: superset store whose unrequested content differs
        req = set()
        for q in o["go"].get("queries") or []:
            if q["kind"] == "B":
                for a, cs in (q.get("q") or {}).items():
                    for cc in cs:
                        req.add((a, cc))
        bal = copy.deepcopy(c.get("balances", {}))
        for a in list(bal.keys()) + ["zz", "x", "y"]:
            for cc in ("USD", "EUR/2", "XXX"):
                if (a, cc) not in req:
                    bal.setdefault(a, {})[cc] = str(int(bal.get(a, {}).get(cc, "0")) + 1000)
        sub.append(dict(c, id=len(sub), store="superset", balances=bal, perStmt=False))
        base.append((c, o))
    outs = runner.run_go(sub) if sub else []
    mods = P.run_model(sub, outs) if sub else []
    stats["store_variant_runs"] = len(sub)
    for i, (c, o) in enumerate(base):
        go = o["go"]
        ref = runner.go_projection(go)
        ref.pop("queries", None)
        for q in go.get("queries") or []:
            if q["kind"] == "B" and "world" in (q.get("q") or {}):
                fails.append((c, go, None, ["the balance of @world was requested"]))
        for j, label in enumerate(("sparse", "superset", "static", "perturbed-superset")):
            oo = outs[4 * i + j]
            if "go" not in oo:
                continue
            g2 = runner.go_projection(oo["go"])
            g2.pop("queries", None)
            if oo["go"].get("mutated"):
                # a store that hands over numbers it keeps must find them unchanged: its later answers depend on them
                fails.append((sub[4 * i + j], oo["go"], None, ["the run changed the content of the %s store (%s): what the store answers next depends on it" % (label, oo["go"]["mutated"])]))
            if g2 != ref:
                fails.append((sub[4 * i + j], oo["go"], {"exact_store_result": ref},
                              ["result under the %s store differs from the result under the exact store" % label]))
            m = mods[4 * i + j]
            if m is not None and m.get("outcome") not in ("drivererror", "drivercrash"):
                stats["model_comparisons"] += 1
                d = runner.diff_exec(oo["go"], m, P.KEYS["C10"])
                if d:
                    dis.append((sub[4 * i + j], oo["go"], m, d))
    return fails, dis


def extra_C11(chk, cases, gens, gos, stats):
    """repeat on one ParseResult/store, inputs unchanged, flags only gate overdraft()"""
    fails, dis = [], []
    sub = []
    for c, g, o in zip(cases, gens, gos):
        sub.append(dict(c, id=len(sub), store="static", repeat=3, perStmt=False))
        fl = list(c.get("flags", []))
        other = [] if fl else ["experimental-overdraft-function"]
        sub.append(dict(c, id=len(sub), flags=other, perStmt=False))
    outs = runner.run_go(sub)
    stats["repeat_runs"] = len(sub) // 2 * 3
    for i, (c, g, o) in enumerate(zip(cases, gens, gos)):
        r, fo = outs[2 * i], outs[2 * i + 1]
        if "go" in r:
            if r["go"].get("mutated"):
                fails.append((sub[2 * i], r["go"], None, ["run modified its inputs: %s" % r["go"]["mutated"]]))
            if r.get("repeatDiffs"):
                fails.append((sub[2 * i], r["go"], None, ["repeated runs differ: %s" % r["repeatDiffs"]]))
            if "go" in o:
                a, b = runner.go_projection(o["go"]), runner.go_projection(r["go"])
                a.pop("queries", None)
                b.pop("queries", None)
                if a != b:
                    fails.append((sub[2 * i], r["go"], {"exact": a}, ["static store result differs from exact store result"]))
        if "go" in fo and "go" in o:
            uses_overdraft = "origin-overdraft" in g["features"]
            a, b = runner.go_projection(o["go"]), runner.go_projection(fo["go"])
            a.pop("queries", None)
            b.pop("queries", None)
            if not uses_overdraft and a != b:
                fails.append((sub[2 * i + 1], fo["go"], {"other_flags": a}, ["feature flag changed the result of a script that does not call overdraft()"]))
            if uses_overdraft:
                off = fo["go"] if c.get("flags") else o["go"]
                # (an earlier declaration may fail first with its own error; what must not happen is a result)
                if off["outcome"] == "ok":
                    fails.append((sub[2 * i + 1], off, None, ["overdraft() ran without its feature flag"]))
    # entries of the variables map for names the script does not declare are never read (`run_ignores_undeclared_var`)
    xsub = [dict(c, id=i, vars=dict({"zz_undeclared": "not a value", "": "x", "remaining": "1/0"}, **(c.get("vars") or {})), perStmt=False)
            for i, c in enumerate(cases[:chk.size(600, 6000)])]
    xsub = [c for c in xsub if not any(("$" + k) in c["script"] for k in ("zz_undeclared", "remaining"))]
    xouts = runner.run_go([P_strip(c) for c in xsub]) if xsub else []
    stats["undeclared_variable_runs"] = len(xsub)
    for c, xo in zip(xsub, xouts):
        o = gos[c["id"]]
        if "go" in xo and "go" in o:
            a, b = runner.go_projection(o["go"]), runner.go_projection(xo["go"])
            a.pop("queries", None)
            b.pop("queries", None)
            if a != b:
                fails.append((c, xo["go"], {"without": a}, ["entries of the variables map for undeclared names changed the result"]))
    # several malformed / missing variable values at once, many runs: which failure is reported must not depend on
    # the order in which a map happens to be walked (the model reports the first declaration that fails)
    import random as _random
    rng = _random.Random("C11multi-%d" % chk.seed)
    msub = []
    for c in cases:
        if len(c.get("vars") or {}) < 2 or len(msub) >= chk.size(300, 3000):
            continue
        v = dict(c["vars"])
        for k in rng.sample(sorted(v), rng.randrange(2, min(6, len(v)) + 1)):
            if rng.random() < 0.2:
                del v[k]
            else:
                v[k] = rng.choice(JUNK)
        msub.append(dict(c, id=len(msub), vars=v, repeat=12, perStmt=False))
    mouts = runner.run_go([P_strip(c) for c in msub]) if msub else []
    mmods = P.run_model(msub, mouts) if msub else []
    stats["multi_bad_variable_runs"] = len(msub) * 12
    for c, o, m in zip(msub, mouts, mmods):
        if "go" not in o:
            continue
        if o.get("repeatDiffs"):
            fails.append((c, o["go"], m, ["repeated runs with the same (malformed) variable values differ: %s" % o["repeatDiffs"][:3]]))
        elif m is not None and m.get("outcome") not in ("drivererror", "drivercrash"):
            stats["model_comparisons"] += 1
            d = runner.diff_exec(o["go"], m, ["errKind", "errPayload"])
            if d:
                dis.append((c, o["go"], m, d))
    # schedule exploration on a -race build: every tier (a smaller sample in the quick one)
    f3 = concurrent_runs(chk, cases, gos, stats)
    fails += f3
    return fails, dis


def concurrent_runs(chk, cases, gos, stats):
    """schedule exploration (not a theorem): many goroutines on one ParseResult and one store, race detector on"""
    fails = []
    racebin = os.path.join(runner.BUILD, "verifharness-race")
    try:
        runner.build_harness(race=True, out=racebin)
    except runner.BuildFailure as e:
        stats["race_build"] = "failed: " + str(e)[:200]
        return fails
    sub = [dict(c, id=i, op="concurrent", store="static", goroutines=8, perStmt=False) for i, c in enumerate(cases[:chk.size(400, 3000)])]
    outs = runner.run_go(sub, binary=racebin, race=True)
    stats["concurrent_runs"] = len(sub) * 8
    for c, o in zip(sub, outs):
        if o.get("harnessCrash") or o.get("race") or o.get("diffs"):
            fails.append((c, o, None, ["concurrent runs interfere: %s" % json.dumps(o)[:400]]))
    try:
        os.remove(racebin)
    except OSError:
        pass
    return fails


def extra_C12(chk, cases, gens, gos, stats):
    """store fault at every call index of every script"""
    fails, dis = [], []
    sub = []
    for c, g, o in zip(cases, gens, gos):
        if "go" not in o:
            continue
        ncalls = len(o["go"].get("queries") or [])
        for k in range(ncalls):
            sub.append(dict(c, id=len(sub), failAt=k, perStmt=False, _base_calls=ncalls))
    outs = runner.run_go([P_strip(c) for c in sub]) if sub else []
    mods = P.run_model(sub, outs) if sub else []
    stats["fault_injections"] = len(sub)
    f0, d0 = rawvars_C12(chk, cases, gens, gos, stats)
    fails += f0
    dis += d0
    for c, o, m in zip(sub, outs, mods):
        if "go" not in o:
            continue
        v = P.oracle_C12(c, None, o["go"], {"outcome": "?"})
        if v:
            fails.append((c, o["go"], m, v))
        if m is not None and m.get("outcome") not in ("drivererror", "drivercrash"):
            stats["model_comparisons"] += 1
            d = runner.diff_exec(o["go"], m, P.KEYS["C12"])
            if d:
                dis.append((c, o["go"], m, d))
    return fails, dis


JUNK = ["", " ", "0", "-0", "+5", "007", "1e3", "0x10", "1_000", "١٢", "12 ", " 12", "1/0", "0/0", "00/0", "0 / 000", "1/2", "3/2", "50%", "150%",
        "50 %", ".5%", "5.%", "USD", "USD 1", "USD  1", "USD 1 2", " 1", "USD -1", "USD 1.5", "USD 99999999999999999999999999", "usd 1",
        "world", "a:b", "a::b", ":a", "a:", "a b", "é", "<kept>", "@a", "-", "--1", "1-", "9" * 80, "1/" + "9" * 50, "0." + "0" * 40 + "1%", "\x00", "\n"]


def rawvars_C12(chk, cases, gens, gos, stats):
    """arbitrary text in plain variables: never a panic, never result+error; the model agrees on kind and payload"""
    import random
    rng = random.Random("C12raw-%d" % chk.seed)
    sub = []
    for c, g, o in zip(cases, gens, gos):
        if not c.get("vars"):
            continue
        for _ in range(2):
            v = dict(c["vars"])
            k = rng.choice(sorted(v))
            v[k] = rng.choice(JUNK)
            if rng.random() < 0.15:
                del v[rng.choice(sorted(v))]
            sub.append(dict(c, id=len(sub), vars=v, perStmt=False))
    outs = runner.run_go([P_strip(c) for c in sub]) if sub else []
    mods = P.run_model(sub, outs) if sub else []
    fails, dis = [], []
    stats["rawvar_runs"] = len(sub)
    kinds = {}
    for c, o, m in zip(sub, outs, mods):
        go = o.get("go")
        if go is None:
            fails.append((c, o, m, ["harness crashed: %s" % str(o)[:200]]))
            continue
        if go["outcome"] == "err":
            kinds[go["errKind"]] = kinds.get(go["errKind"], 0) + 1
        why = []
        if go["outcome"] == "panic":
            why.append("panic on variable text: %s" % go.get("panic"))
        if go.get("bothResultAndError"):
            why.append("result returned together with an error")
        if why:
            fails.append((c, go, m, why))
        if m is not None and m.get("outcome") not in ("drivererror", "drivercrash"):
            stats["model_comparisons"] += 1
            d = runner.diff_exec(go, m, P.KEYS["C12"])
            if d:
                dis.append((c, go, m, d))
    stats["rawvar_error_kinds"] = kinds
    return fails, dis


def P_strip(c):
    return {k: v for k, v in c.items() if not k.startswith("_")}


EXTRAS = {"C09": extra_C09, "C10": extra_C10, "C11": extra_C11, "C12": extra_C12}
