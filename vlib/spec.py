"""
Reference semantics used by the oracles (independent of the Go code and of the
Lean *Model*; it mirrors the Lean *Spec* layer): greedy draw over a resolved
source tree, ordered / allotted distribution over a resolved destination tree,
unit-by-unit first-come-first-served pairing, sequential statements with
`save` reservations.

Resolved trees are plain tuples produced by the generators from *their own*
knowledge of the script (never from the Go parser):

  source:  ('acct', name, od)        od: int overdraft bound (0 for a plain account)
           ('unb', name)             @world or `allowing unbounded overdraft`
           ('inorder', [sources])
           ('capped', cap, source)
           ('allot', [(portion|None, source)])      None = remaining
  dest:    ('acct', name)
           ('inorder', [(cap, kod)], kod_rest)
           ('allot', [(portion|None, kod)])
  kod:     ('kept',) | ('to', dest)
"""
from fractions import Fraction

KEPT = "<kept>"


class SpecError(Exception):
    def __init__(self, kind, payload=()):
        super().__init__(kind)
        self.kind = kind
        self.payload = list(payload)


def allot(n, portions):
    """floor shares, leftover units to the earliest clauses.
    portions: list of Fraction or None (remaining)."""
    total = sum((p for p in portions if p is not None), Fraction(0))
    if any(p is None for p in portions):
        if total > 1:
            raise SpecError("InvalidAllotmentSum", [frac_str(total)])
        rem = 1 - total
        # the last `remaining` takes the rest, earlier ones get nothing
        last = max(i for i, p in enumerate(portions) if p is None)
        ps = [(rem if i == last else Fraction(0)) if p is None else p for i, p in enumerate(portions)]
    else:
        if total != 1:
            raise SpecError("InvalidAllotmentSum", [frac_str(total)])
        ps = list(portions)
    floors = [(p * n).__floor__() for p in ps]
    left = n - sum(floors)
    return [f + (1 if i < left else 0) for i, f in enumerate(floors)]


def frac_str(q):
    q = Fraction(q)
    return "%d/%d" % (q.numerator, q.denominator)


def draw(node, avail, need, asset):
    """returns list of (account, amount) pulls (zeros included); mutates avail.
    raises SpecError('MissingFundsErr') when an allotment cannot be honoured exactly"""
    k = node[0]
    if k == 'acct':
        _, a, od = node
        if a == 'world':
            avail[a] = avail.get(a, 0) - need
            return [(a, need)]
        g = min(need, max(0, avail.get(a, 0) + od))
        avail[a] = avail.get(a, 0) - g
        return [(a, g)]
    if k == 'unb':
        a = node[1]
        avail[a] = avail.get(a, 0) - need
        return [(a, need)]
    if k == 'capped':
        _, cap, sub = node
        return draw(sub, avail, min(need, max(cap, 0)), asset)
    if k == 'inorder':
        out = []
        left = need
        for sub in node[1]:
            l = draw(sub, avail, left, asset)
            out += l
            left -= sum(g for _, g in l)
        return out
    if k == 'allot':
        parts = allot(need, [p for p, _ in node[1]])
        out = []
        for (p, sub), part in zip(node[1], parts):
            l = draw(sub, avail, part, asset)
            got = sum(g for _, g in l)
            if got != part:
                raise SpecError("MissingFundsErr", [asset, str(part), str(got)])
            out += l
        return out
    raise ValueError(k)


def draw_all(node, avail, asset):
    k = node[0]
    if k == 'acct':
        _, a, od = node
        if a == 'world':
            raise SpecError("InvalidUnboundedInSendAll", [a])
        g = max(0, avail.get(a, 0) + od)
        avail[a] = avail.get(a, 0) - g
        return [(a, g)]
    if k == 'unb':
        raise SpecError("InvalidUnboundedInSendAll", [node[1]])
    if k == 'capped':
        _, cap, sub = node
        return draw(sub, avail, max(cap, 0), asset)
    if k == 'inorder':
        out = []
        for sub in node[1]:
            out += draw_all(sub, avail, asset)
        return out
    if k == 'allot':
        raise SpecError("InvalidAllotmentInSendAll", [])
    raise ValueError(k)


def distribute(node, amount):
    """list of (name or KEPT, amount) with zero amounts dropped"""
    k = node[0]
    if k == 'acct':
        return [(node[1], amount)] if amount != 0 else []
    if k == 'inorder':
        _, clauses, rest = node
        out = []
        left = amount
        for cap, kod in clauses:
            if left == 0:
                break
            amt = min(max(cap, 0), left)
            if amt != 0:
                out += distribute_kod(kod, amt)
                left -= amt
        if left != 0:
            out += distribute_kod(rest, left)
        return out
    if k == 'allot':
        parts = allot(amount, [p for p, _ in node[1]])
        out = []
        for (p, kod), part in zip(node[1], parts):
            out += distribute_kod(kod, part)
        return out
    raise ValueError(k)


def distribute_kod(kod, amount):
    if kod[0] == 'kept':
        return [(KEPT, amount)] if amount != 0 else []
    return distribute(kod[1], amount)


def pair(senders, receivers, asset):
    """unit-by-unit in-order pairing as interval overlap; kept segments dropped;
    consecutive postings with the same (source, destination) merged"""
    segs = []
    si = 0
    s_left = senders[0][1] if senders else 0
    for rname, ramt in receivers:
        r_left = ramt
        while r_left > 0 and si < len(senders):
            if s_left == 0:
                si += 1
                if si >= len(senders):
                    break
                s_left = senders[si][1]
                continue
            m = min(s_left, r_left)
            segs.append((senders[si][0], rname, m))
            s_left -= m
            r_left -= m
    postings = []
    for s, r, m in segs:
        if r == KEPT:
            continue
        if postings and postings[-1][0] == s and postings[-1][1] == r:
            postings[-1][2] += m
        else:
            postings.append([s, r, m, asset])
    return [tuple(p) for p in postings]


def flow_matrix(postings):
    f = {}
    for s, d, m, a in postings:
        f[(s, d)] = f.get((s, d), 0) + int(m)
    return f


def debits(postings):
    f = {}
    for s, d, m, a in postings:
        f[s] = f.get(s, 0) + int(m)
    return f


def credits(postings):
    f = {}
    for s, d, m, a in postings:
        f[d] = f.get(d, 0) + int(m)
    return f


def run_statements(stmts, balances):
    """stmts: resolved statements:
        ('send', asset, n, rsource, rdest)       fixed amount
        ('sendall', asset, rsource, rdest)
        ('save', asset, n|None, account)
        ('txmeta', key, (type, text))
        ('accmeta', account, key, text)
        ('error', kind, payload)                 a statement the generator knows to fail (ill-typed stream)
    balances: dict (account, asset) -> int  (visible balances; copied)
    returns dict(per_stmt=[postings...], tx={}, acc={}, kept=[per stmt kept amount])
    raises SpecError on the first failing statement (with .stmt index)"""
    V = dict(balances)
    per_stmt = []
    kept_amounts = []
    pulls = []
    dists = []
    tx = {}
    acc = {}
    for idx, st in enumerate(stmts):
        try:
            k = st[0]
            if k == 'send':
                _, asset, n, rs, rd = st
                if n < 0:
                    raise SpecError("NegativeAmountErr", [str(n)])
                avail = {a: v for (a, c), v in V.items() if c == asset}
                l = draw(rs, avail, n, asset)
                got = sum(g for _, g in l)
                if got != n:
                    raise SpecError("MissingFundsErr", [asset, str(n), str(got)])
                d = distribute(rd, n)
                snd = [(a, g) for a, g in l if g != 0]
                ps = pair(snd, d, asset)
            elif k == 'sendall':
                _, asset, rs, rd = st
                avail = {a: v for (a, c), v in V.items() if c == asset}
                l = draw_all(rs, avail, asset)
                total = sum(g for _, g in l)
                d = distribute(rd, total)
                snd = [(a, g) for a, g in l if g != 0]
                ps = pair(snd, d, asset)
            elif k == 'save':
                _, asset, n, account = st
                if n is not None and n < 0:
                    raise SpecError("NegativeAmountErr", [str(n)])
                b = V.get((account, asset), 0)
                if b > 0:
                    V[(account, asset)] = 0 if n is None else max(0, b - n)
                ps, l, d = [], [], []
            elif k == 'txmeta':
                tx[st[1]] = st[2]
                ps, l, d = [], [], []
            elif k == 'accmeta':
                acc.setdefault(st[1], {})[st[2]] = st[3]
                ps, l, d = [], [], []
            elif k == 'error':
                raise SpecError(st[1], st[2])
            else:
                raise ValueError(k)
        except SpecError as e:
            e.stmt = idx
            raise
        for s, dd, m, a in ps:
            V[(s, a)] = V.get((s, a), 0) - m
            V[(dd, a)] = V.get((dd, a), 0) + m
        per_stmt.append(ps)
        pulls.append(l)
        dists.append(d)
        kept_amounts.append(sum(m for nme, m in d if nme == KEPT))
    return dict(per_stmt=per_stmt, tx=tx, acc=acc, kept=kept_amounts, pulls=pulls, dists=dists, visible=V)


def replay_floor_violations(postings, balances, grants, unbounded):
    """C01 predicate. postings: list of (src,dst,amt,asset); balances: dict (a,c)->int;
    grants: dict (a,c) -> max granted bounded overdraft; unbounded: set of (a,c).
    returns list of violations (posting index, account, asset, balance, floor)"""
    B = dict(balances)
    out = []
    for i, (s, d, m, c) in enumerate(postings):
        m = int(m)
        B[(s, c)] = B.get((s, c), 0) - m
        B[(d, c)] = B.get((d, c), 0) + m
        for a in (s, d):
            if a == 'world' or (a, c) in unbounded:
                continue
            floor = min(balances.get((a, c), 0), -max(0, grants.get((a, c), 0)))
            if B[(a, c)] < floor:
                out.append((i, a, c, B[(a, c)], floor))
    return out
