"""
Correspondence of the parser model (lean/Model/Lex.lean, Model/Parse.lean) with parser.Parse:
the model accepts a text exactly when the real parser reports no error, and then both give the
same tree — all fields, all ranges (serialised in the same S-expression format and compared as strings).
"""
import runner


def compare(texts, gos):
    """texts: list of str; gos: the harness's `parse` results for them (same order).
    returns (disagreements, stats); disagreement = (case, go, model, [why])"""
    lines = ["parse\t%d\t%s" % (i, runner.enc(t)) for i, t in enumerate(texts)]
    outs = runner.run_lean(lines) if lines else []
    dis = []
    stats = {"parser_model_comparisons": 0, "parser_model_accepts": 0, "parser_model_rejects": 0}
    for t, g, o in zip(texts, gos, outs):
        f = (o or "").split("\t")
        if "parseErrors" not in g:
            continue                      # the real parser crashed: reported by the caller's oracle
        if isinstance(g["parseErrors"], int):
            g = dict(g, parseErrors=["%d error(s)" % g["parseErrors"]] if g["parseErrors"] else [])
        stats["parser_model_comparisons"] += 1
        if len(f) < 2 or f[1] not in ("ok", "reject"):
            dis.append(({"script": t}, {"parseErrors": g["parseErrors"][:2]}, {"model": (o or "")[:300]},
                        ["the parser model did not answer: %s" % (o or "")[:120]]))
            continue
        go_acc = not g["parseErrors"]
        if f[1] == "ok":
            stats["parser_model_accepts"] += 1
        else:
            stats["parser_model_rejects"] += 1
        if go_acc and f[1] == "ok":
            if g.get("ast") != f[2]:
                a, b = g.get("ast", ""), f[2]
                k = next((j for j in range(min(len(a), len(b))) if a[j] != b[j]), min(len(a), len(b)))
                dis.append(({"script": t}, {"ast": a}, {"ast": b},
                            ["tree of the parser differs from the model's at offset %d: …%s… vs …%s…" % (k, a[max(0, k - 50):k + 50], b[max(0, k - 50):k + 50])]))
        elif go_acc:
            dis.append(({"script": t}, {"parseErrors": []}, {"model": "reject"}, ["the parser accepts a text the model rejects"]))
        elif f[1] == "ok":
            dis.append(({"script": t}, {"parseErrors": g["parseErrors"][:2]}, {"model": "accept"},
                        ["the parser reports errors on a text the model accepts"]))
    return dis, stats
