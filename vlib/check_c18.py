"""C18 — editor analysis survives any text."""
import json
import random

import analysis_common as A
import gen_check
import runner
from registry import REGISTRY


import re
NONBENIGN_RE = re.compile(r"\(sover \S+ nil|\(decl \S+ \(name [^)]*\) nil")


def doc_end(text):
    lines = text.split("\n")
    return len(lines) - 1, len(lines[-1])


def range_ok(r, text):
    s, e = r.split("-")
    sl, sc = map(int, s.split(":"))
    el, ec = map(int, e.split(":"))
    lines = text.split("\n")
    why = []
    if (el, ec) < (sl, sc):
        why.append("ends before it starts")
    if sl > len(lines) - 1 or (sl <= len(lines) - 1 and sc > len(lines[sl])):
        why.append("starts outside the document")
    return why


def run(chk):
    broken = chk.obligations(REGISTRY["C18"])
    runner.build_harness()
    rng = random.Random("C18-%d" % chk.seed)
    nbase = chk.size(60, 1200)
    texts = []
    small = {"stmts_max": 2, "depth": 2, "ddepth": 2, "origins": 0.5}
    for i in range(nbase):
        c, g = gen_check.valid_script(chk.seed + 500, i, small)
        t = c["script"]
        texts.append(t)
        if i < (6 if chk.tier == "quick" else 60):
            texts += gen_check.all_prefixes(t)
        texts += gen_check.broken_variants(t, rng, 40)
    # hand-written seeds of crashes seen before (corpus)
    texts += ["vars { number = balance(@a, USD) }", "vars { $x }", "vars { monetary $x = }", "send [USD 1/0] (source = @a destination = @b)",
              "send [USD *] (source = allowing unbounded overdraft destination = @b)", "set_tx_meta(", "(", "send [ ] (source = { 1/0 from } destination = )",
              "vars { account $a = meta( }", "send [USD 10] (source = max from @a destination = @b)", "save from"]
    # calls with a broken token at every argument position (too few, exact, too many arguments)
    for tk in gen_check.TOKENS:
        for nargs in (1, 2, 3, 4, 5):
            for pos in range(nargs):
                args = ['"k"', "1", "@a", "USD", "2"][:nargs]
                args[pos] = tk
                texts.append("set_tx_meta(%s)" % ", ".join(args))
                if pos == nargs - 1 or tk in ("*", "max", "]", "="):
                    texts.append("vars { monetary $m = balance(%s) }\nsend $m (source = @a destination = @b)" % ", ".join(args))
                    texts.append("set_account_meta(%s)" % ", ".join(args))
    # literals on the edges of machine words and digit counts, in every literal position, and the states passed through while typing them
    import tricky
    for t in tricky.literal_scripts(rng, chk.size(150, 2500)):
        texts.append(t)
        if rng.random() < 0.15:
            texts += gen_check.all_prefixes(t)[-40:]
    # CR LF documents and the states they pass through (the text ends right after a carriage return)
    for i in range(0, min(len(texts), 3000), max(1, len(texts) // chk.size(25, 300))):
        texts += gen_check.crlf_cuts(texts[i], rng)
    # sizes: many declared-but-unused variables (hundreds of diagnostics), long documents, very long lines; broken too
    for i in range(0, min(len(texts), 4000), max(1, len(texts) // chk.size(40, 300))):
        pv = gen_check.pad_vars(texts[i], rng)
        if pv:
            texts.append(pv)
            texts += gen_check.broken_variants(pv, rng, 1)
        if i % 3 == 0:
            texts.append(gen_check.pad_text(texts[i], rng))
    texts = list(dict.fromkeys(texts))
    cases = [{"script": t, "positions": gen_check.all_positions(t, cap=(120 if chk.tier == "quick" else 400))} for t in texts]
    gos, models = A.analyze_both(cases)
    fails, dis = [], []
    stats = {"evaluations": len(cases), "distinct_nontrivial": 0, "model_comparisons": 0, "positions_probed": 0,
             "texts_with_parse_errors": 0, "unsupported_ast": 0, "trees_monitored": 0}
    for c, o, m in zip(cases, gos, models):
        why = []
        stats["positions_probed"] += len(c["positions"])
        pans = A.go_panics(o)
        if "harnessCrash" in o or "harnessPanic" in o:
            why.append("harness crash: %s" % str(o)[:200])
        for k in pans:
            if k in o:
                why.append("%s: %s" % (k, o[k][:160]))
        for h in o.get("hovers", []):
            for k in ("hoverPanic", "gotoPanic"):
                if k in h:
                    why.append("%s at %s: %s" % (k, h["pos"], h[k][:120]))
                    break
        if "diags" in o:
            if o.get("parseErrors"):
                stats["texts_with_parse_errors"] += 1
                stats["distinct_nontrivial"] += 1
            for d in o["diags"]:
                rw = range_ok(d[2], c["script"])
                if rw:
                    why.append("diagnostic %s %s: %s" % (d[0], d[2], ", ".join(rw)))
            if sorted(map(tuple, o["diags"])) != sorted(map(tuple, o.get("diags2", o["diags"]))):
                why.append("two analyses of the same text give different diagnostics")
        if why:
            fails.append((c, {k: o.get(k) for k in ("diags", "parseErrors", "checkPanic", "symbolsPanic", "parsePanic")}, m, why[:4]))
        if o.get("unsupported"):
            stats["unsupported_ast"] += 1
        # monitor of the named assumption of the C18 theorems: every tree the real parser hands over
        # lies in the benign class (Spec/Benign.lean)
        ast = o.get("ast", "")
        if ast:
            stats["trees_monitored"] += 1
            shapes = [x for x in ("monnil", "callnil", "(sacct nil)", "(dacct nil)") if x in ast]
            if NONBENIGN_RE.search(ast):
                shapes.append("overdraft source without address / declaration with a name but no type")
            if shapes:
                fails.append((c, {"ast": ast}, m, ["the parser produced a tree outside the benign class the crash-freedom theorems assume: %s" % shapes]))
        if m is not None:
            stats["model_comparisons"] += 1
            d = A.diff_analysis(o, m, compare_hovers=True)
            if d:
                dis.append((c, {k: o.get(k) for k in ("diags", "symbols", "checkPanic", "symbolsPanic")}, m, d))
    # the same texts through the language server (didOpen / didChange with their diagnostics published, symbols, hover and
    # definition at a few positions): the editor-facing layer must survive them as well
    import check_c19 as L
    step = max(1, len(cases) // chk.size(700, 6000))
    ljobs, ltexts = [], []
    for c in cases[::step]:
        t = c["script"]
        ps = c["positions"][:: max(1, len(c["positions"]) // 6)][:6]
        reqs = [L.req_open(L.URIS[0], t), L.req_sym(L.URIS[0])]
        for p_ in ps:
            reqs += [L.req_hover(L.URIS[0], p_), L.req_def(L.URIS[0], p_)]
        reqs += [L.req_change(L.URIS[0], t + " "), L.req_sym(L.URIS[0])]
        # the same text again after another one: the same symbols and the same published diagnostics as the first time
        reqs += [L.req_change(L.URIS[0], "vars { number $other }\n"), L.req_change(L.URIS[0], t), L.req_sym(L.URIS[0])]
        ljobs.append({"id": len(ljobs), "op": "lsp", "history": reqs, "_nsym": len(reqs) - 1})
        ltexts.append(t)
    louts = runner.run_go(ljobs)
    stats["lsp_sessions"] = len(ljobs)
    for t, o in zip(ltexts, louts):
        steps = o.get("steps")
        if steps is None:
            fails.append(({"script": t}, {"lsp": str(o)[:300]}, None, ["the language server session crashed on this text"]))
            continue
        bad = [st_["panic"][:160] for st_ in steps if "panic" in st_]
        if bad:
            fails.append(({"script": t}, {"lsp": bad[:2]}, None, ["the language server panics on this text: %s" % bad[0]]))
        elif len(steps) >= 2:
            first_sym, again_sym = steps[1].get("result"), steps[-1].get("result")
            pub = lambda st_: sorted(json.dumps(L.canon_notif(n_), sort_keys=True) for n_ in st_.get("notifs", []))
            if L.canon(first_sym) != L.canon(again_sym):
                fails.append(({"script": t}, {"first": first_sym, "again": again_sym}, None, ["the same text gives other symbols the second time it is analysed in a session"]))
            elif pub(steps[0]) != pub(steps[-2]):
                fails.append(({"script": t}, {"first": pub(steps[0])[:2], "again": pub(steps[-2])[:2]}, None, ["the same text gives other diagnostics the second time it is analysed in a session"]))
    # where the parse diagnostics are: lexer errors and candidate positions of syntax errors (Model/LexAll.lean)
    import lex_model
    ldis, lstats = lex_model.compare([c["script"] for c in cases], gos)
    stats.update(lstats)
    stats["model_comparisons"] += lstats["lexer_model_comparisons"]
    dis += ldis
    for c, go, m, why in fails[:10]:
        chk.violation("oracle", case={"script": c["script"]}, go=go, model=m, oracle=why)
    if not fails:
        for t in broken:
            chk.violation("theorem:%s no longer checks" % t, found_input=False, site="theorem:" + t)
        for c, go, m, why in dis[:3]:
            chk.violation("correspondence:analysis model and implementation differ on %s" % why, case={"script": c["script"]}, go=go, model=m, found_input=False)
    stats["model_disagreements"] = len(dis)
    stats["oracle_failures"] = len(fails)
    chk.coverage.update(stats)
    chk.coverage["rule"] = ("texts reachable by editing valid scripts: every prefix (for a subset), token deletion/duplication/insertion/replacement, removed brackets, "
                            "inserted non-ASCII/control characters, token soups; CheckSource, GetSymbols, and HoverOn/GotoDefinition at every position (capped per text); "
                            "non-trivial = text with at least one parse error; distinct by text")
    chk.coverage["samples"] = [{"script": cases[3]["script"]}, {"script": cases[-1]["script"]}]
    chk.coverage["explanation"] = "recover() around the real analysis entry points; the Lean models of check.go / hover.go run on the AST the real parser produced (nil children and typed nils explicit)"
