"""Spellings that sit on the edges of the representations the code may use: digit strings around machine-word
sizes and decimal digit counts (for number, ratio and percentage literals and for variable texts), and strings
with characters that formatting / escaping layers treat specially. Shared by the text-level streams
(C13, C14, C15, C18) and the execution streams."""

EDGE_INTS = []
for _k in (31, 32, 53, 63, 64, 65, 127, 128):
    for _d in (-1, 0, 1):
        EDGE_INTS.append(2 ** _k + _d)
for _k in (9, 10, 15, 16, 17, 18, 19, 20, 21, 22, 38):
    for _d in (-1, 0, 1):
        EDGE_INTS.append(10 ** _k + _d)
EDGE_INTS = sorted(set(EDGE_INTS))


def digit_string(rng, allow_zero=True):
    """a non-empty string of decimal digits"""
    x = rng.random()
    if x < 0.25:
        s = str(rng.randrange(0, 1000))
    elif x < 0.35:
        s = "0" * rng.randrange(1, 4) + str(rng.randrange(0, 100))             # leading zeros (08, 007, 000)
    elif x < 0.6:
        n = rng.randrange(15, 24)                                               # around the 19/20 digits of 2^63, 2^64
        s = "".join(rng.choice("0123456789") for _ in range(n))
    elif x < 0.85:
        s = str(rng.choice(EDGE_INTS))
    elif x < 0.93:
        s = rng.choice(["9", "3", "1", "0"]) * rng.randrange(16, 30)           # 999…9, 333…3, 000…0
    else:
        s = "".join(rng.choice("0123456789") for _ in range(rng.randrange(24, 45)))
    if not allow_zero and int(s) == 0:
        s = s + "7"
    return s


def percent_parts(rng):
    """(integral, fractional) digit strings of a percentage literal `i.f%` (fractional may be empty)"""
    x = rng.random()
    if x < 0.3:
        return digit_string(rng), ""
    if x < 0.55:
        # many fractional digits: the denominator 10^(2+len) crosses 2^63/2^64 at 17..18 digits
        k = rng.choice([1, 2, 15, 16, 17, 18, 19, 20, 21, 25, 30])
        f = rng.choice(["3" * k, "0" * (k - 1) + "1", "9" * k, "".join(rng.choice("0123456789") for _ in range(k))])
        return rng.choice(["0", "1", "33", "99", "100", "050"]), f
    return digit_string(rng), digit_string(rng)


def ratio_parts(rng):
    if rng.random() < 0.06:
        # a zero denominator (also 0/0): reported by the parser and the checker, never a crash
        return rng.choice(["0", "00", "1", "7", digit_string(rng)]), rng.choice(["0", "00", "000"])
    return digit_string(rng), digit_string(rng, allow_zero=False)


# strings that formatting and escaping layers treat specially (printf verbs, JSON/HTML escapes, quotes, blanks,
# control characters, non-BMP characters, look-alikes of other syntaxes)
STRINGS = ["", "plain", "100%", "%s", "%d items", "2.5% of the amount", "%!", "%%", "a%20b", "Marks & Spencer", "<b>", "a>b",
           "back\\\\slash", "tab\\there", " lead", "trail ", "  ", "é", "日本", "🙂", " ", "'", "`", "{}", "[USD 1]",
           "@world", "$var", "1/2", "50%", "// no comment", "null", "0", "-1"]


def literal_scripts(rng, n):
    """scripts (valid except where a literal is out of the language's range) with edge numerals in every literal position"""
    out = []
    for _ in range(n):
        k = rng.randrange(6)
        if k == 0:
            i, f = percent_parts(rng)
            lit = i + ("." + f if f else "") + "%"
            out.append("send [USD 10] (\n  source = @world\n  destination = { %s to @a remaining kept }\n)\n" % lit)
        elif k == 1:
            a, b = ratio_parts(rng)
            out.append("send [USD 10] (\n  source = { %s%s/%s%s from @a remaining from @world }\n  destination = @b\n)\n" % (
                a, rng.choice(["", " "]), rng.choice(["", " "]), b))
        elif k == 2:
            out.append("send [USD %s%s] (\n  source = @world\n  destination = @a\n)\n" % (rng.choice(["", "-"]), digit_string(rng)))
        elif k == 3:
            out.append("vars { number $n }\nset_tx_meta(\"k\", %s + $n)\nset_account_meta(@a, \"q\", %s%%)\n" % (digit_string(rng), digit_string(rng)))
        elif k == 4:
            i, f = percent_parts(rng)
            out.append("send [COIN *] (\n  source = @a\n  destination = { %s.%s%% to @x %s/%s to @y remaining to @z }\n)\n" % (
                i, f or "0", *ratio_parts(rng)))
        else:
            out.append("save [USD %s] from @a\nset_tx_meta(\"p\", %s/%s)\n" % (digit_string(rng), *ratio_parts(rng)))
    return out
