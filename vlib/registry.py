"""
Theorem registry: for each property, the names (in namespace NS, file
lean/Properties/Cxx.lean) of the theorems whose build + axiom audit is the
proof obligation of the property; and the evidence level.
"""
REGISTRY = {
    "C01": [], "C02": [], "C03": [], "C04": [], "C05": [],
    "C06": ["allot_sum", "allot_leftover_lt", "allot_length", "allot_share_formula", "allot_share_bounds",
            "makeAllotment_no_remaining", "makeAllotment_with_remaining", "fillRemaining_sum", "fillRemaining_nonneg",
            "fillRemaining_no_remaining_sum"],
    "C07": ["reconcile_flow_eq_pairing", "reconcile_never_credits_kept", "reconcile_positive", "reconcile_names",
            "reconcile_merges_adjacent", "reconcile_debits_le_pulled"],
    "C08": [], "C09": [],
    "C10": [], "C11": [], "C12": [], "C13": [], "C14": [], "C15": [], "C16": [], "C17": [], "C18": [],
    "C19": [], "C20": [],
}

# evidence level per property: "proof" only when REGISTRY[pid] is non-empty and carries the property
LEVEL = {pid: ("proof" if ths else "other") for pid, ths in REGISTRY.items()}
LEVEL["C20"] = "translation_validation"
