"""
Theorem registry: for each property, the names (in namespace NS, file
lean/Properties/Cxx.lean) of the theorems whose build + axiom audit is the
proof obligation of the property; and the evidence level.
"""
REGISTRY = {
    "C01": ["no_unauthorized_overdraft", "visible_le_true", "statement_debits_bound", "specSend_debits_bound",
            "specSendAll_debits_bound", "draw_pulled_bound", "drawAll_pulled_bound", "reconcile_prefix_debits_le",
            "reconcile_prefix_credits_nonneg", "runSend_fixed_refines", "runSend_all_refines", "parseVars_wf",
            "RunProgram_ok_runs", "cache_tracks_replay"],
    "C02": ["postings_are_real", "validAccountName_real", "statement_postings_asset", "specSend_postings_real",
            "specSendAll_postings_real", "reconcile_positive", "reconcile_never_credits_kept", "reconcile_names",
            "draw_pulls_nonneg", "drawAll_pulls_nonneg"],
    "C03": ["fixed_send_exact", "fixed_send_fails_iff_short", "send_zero", "specSend_total", "specSend_fails_iff",
            "specSend_zero", "draw_err_kinds", "runSend_fixed_refines", "reconcile_total"],
    "C04": ["send_refines_draw", "sendAll_refines_drawAll", "send_ok_resolves", "sendAll_ok_resolves", "draw_account",
            "unbounded_gives_all", "draw_total_le_need", "draw_total_le_need_of_resolved", "cap_bounds",
            "inorder_sequential", "inorder_later_only_if_earlier_exhausted", "drawAll_drains",
            "sendAll_shape_ok_not_rejected", "sendAll_shape_bad_rejected", "specSend_debits", "reconcile_debits_exact"],
    "C05": ["receive_refines_distribute", "distribute_conserves", "distClauses_step", "distClauses_nonpositive_cap_skipped",
            "distribute_inorder_remaining", "distKoD_kept", "specSend_credits", "reconcile_credits"],
    "C06": ["allot_sum", "allot_leftover_lt", "allot_length", "allot_share_formula", "allot_share_bounds",
            "makeAllotment_no_remaining", "makeAllotment_with_remaining", "fillRemaining_sum", "fillRemaining_nonneg",
            "fillRemaining_no_remaining_sum"],
    "C07": ["reconcile_flow_eq_pairing", "reconcile_never_credits_kept", "reconcile_positive", "reconcile_names",
            "reconcile_merges_adjacent", "reconcile_debits_le_pulled", "reconcile_credits", "reconcile_total",
            "reconcile_debits_exact", "reconcile_prefix_debits_le", "specSend_flows"],
    "C08": ["save_visible_balance", "savedBalance_spec", "save_negative_rejected", "cacheGet_cacheSet",
            "specSend_debits_bound", "specSendAll_debits_bound", "visible_le_true"],
    "C09": ["run_append", "cache_tracks_replay", "replay_append", "replay_effect", "replay_other_asset",
            "assocSet_get_same", "assocSet_get_other", "set_tx_meta_effect", "set_account_meta_effect"],
    "C10": ["store_independent", "world_never_requested", "batchQuery_no_world", "cache_never_forgets",
            "cacheMerge_faithful"],
    "C11": ["flag_only_gates_overdraft", "overdraft_gated", "store_independent", "interpreter_keeps_no_state",
            "run_depends_only_on_declared_vars", "run_ignores_undeclared_var", "run_vars_order_irrelevant"],
    "C12": ["evalExpr_unbound_var", "evalExpr_zero_denominator", "evalExpr_infix_left_error_wins", "evalExpr_infix_right_error", "evalExpr_infix_mismatched_currency", "evalExprs_first_error", "api_failure_is_atomic", "api_is_RunProgram", "apiRun_no_flag", "api_never_panics", "text_run_never_panics", "run_never_panics", "evalExpr_never_panics", "getBalance_store_failure", "run_preload_failure",
            "meta_store_failure", "runBalancesQuery_no_call"],
    "C13": ["strBody_append", "strBody_body", "string_literal_is_one_token", "string_literal_trailing_backslash", "string_literal_value", "digitsVal_eq_posValue", "digitsVal_append_digit", "ratio_literal_exact", "percent_literal_exact",
            "percent_frac_literal_exact", "portion_var_ratio", "portion_var_percent", "portion_var_ratio_rejected",
            "roundtrip_string", "roundtrip_asset", "roundtrip_account", "roundtrip_portion", "roundtrip_number",
            "roundtrip_monetary"], "C14": ["parser_keeps_no_state", "parse_text_sound", "parse_sound", "parse_unparse", "lex_ident_not_keyword", "lex_fixed_text", "lexAll_agrees_with_lex", "lexAll_errors_in_text", "lexAll_tokens_in_text", "eofPos_in_text", "syntax_error_on_token_in_text", "syntax_error_at_eof_in_text", "lexer_error_range_in_text", "show_never_panics", "syntax_error_range_wf", "show_syntax_error_never_panics", "splitLines_ne_nil",
            "percent_literal_exact", "percent_frac_literal_exact", "ratio_literal_exact"],
    "C15": ["lex_layout_insertion_partial", "parse_layout_insertion_partial", "layout_insertion_fails_comment_after_asset", "layout_insertion_fails_newline_after_slashes", "parse_render", "parse_unparse", "parse_unparse_expr", "unparse_numbers_in_range", "lex_render", "best_of_lexable", "parse_ranges_ok", "parseTokens_ranges_ok", "parseTokens_call_ranges_nodup", "rangesOk_nested", "parseTokens_exprs_nested", "parse_left_assoc", "parse_layout_independent", "parse_complete", "lex_sorted", "lex_located", "lexLoop_fuel_irrelevant", "lex_lengths", "gtEq_refl", "gtEq_total", "gtEq_trans", "gtEq_antisymm", "gtEq_iff", "contains_mono", "contains_disjoint"],
    "C16": ["text_names_exact", "unbound_exact", "duplicate_exact", "unused_exact", "resolution_exact", "valid_expr_no_error", "valid_has_no_error"], "C17": ["text_clean_check_sound", "parse_parser_inv", "clean_check_sound", "silent_check_no_sendall_shape_error", "checkExpression_sound",
            "checkExpression_errors_mono", "checkExpression_declared"], "C18": ["analysis_state_is_its_tables", "parser_keeps_no_state", "text_check_never_panics", "check_never_panics", "check_total", "symbols_never_panic", "hover_never_panics", "goto_never_panics",
            "lspHover_never_panics", "check_keeps_parse_diags", "complete_is_benign_expr",
            "lexAll_errors_in_text", "lexAll_tokens_in_text", "eofPos_in_text", "syntax_error_on_token_in_text", "lexer_error_range_in_text"],
    "C19": ["lsp_keeps_no_package_state", "analysis_state_is_its_tables", "text_hover_complete", "lsp_state_is_latest", "lsp_hover_answers_latest", "lsp_unknown_document", "lsp_no_cross_document",
            "lsp_queries_pure", "hover_expr_sound", "hover_expr_complete", "goto_is_declaration",
            "hover_text_is_decl_type", "frame_roundtrip", "frames_roundtrip", "readFrame_ok_splits",
            "server_wire", "server_output_exact", "serverSpec_eq_lspRun", "lsp_over_the_wire"],
    "C20": ["check_exit_iff_error", "cli_exit_args_literal_one", "cli_exits_all_conditional", "check_exit_byte_iff_error",
            "sortDiags_perm", "sortDiags_sorted", "report_exit_iff", "report_exit_sorted", "report_total", "report_lists_every_diagnostic",
            "cliRun_exit_iff", "cliRun_ok_prints_result", "cliRun_error_message", "cliRun_parse_errors", "parseErrorsToString_lists"],
}

# evidence level per property: "proof" only when REGISTRY[pid] is non-empty and carries the property
LEVEL = {pid: ("proof" if ths else "other") for pid, ths in REGISTRY.items()}
LEVEL["C20"] = "proof"
LEVEL["C15"] = "proof"
LEVEL["C14"] = "proof"
