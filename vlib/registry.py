"""
Theorem registry: for each property, the names (in namespace NS, file
lean/Properties/Cxx.lean) of the theorems whose build + axiom audit is the
proof obligation of the property; and the evidence level.
"""
REGISTRY = {
    "C01": [], "C02": [], "C03": [], "C04": [], "C05": [], "C06": [], "C07": [], "C08": [], "C09": [],
    "C10": [], "C11": [], "C12": [], "C13": [], "C14": [], "C15": [], "C16": [], "C17": [], "C18": [],
    "C19": [], "C20": [],
}

# evidence level per property: "proof" only when REGISTRY[pid] is non-empty and carries the property
LEVEL = {pid: ("proof" if ths else "other") for pid, ths in REGISTRY.items()}
LEVEL["C20"] = "translation_validation"
