"""
Independent recogniser for the grammar of Numscript.g4 (lexer with ordered
longest-match rules + set-based parser), used as validity oracle by C14:
"every syntactically valid script is accepted with zero errors, every other
input is reported with at least one error".
"""
import re
import sys

sys.setrecursionlimit(10000)

KEYWORDS = ["vars", "max", "source", "destination", "send", "from", "up", "to", "remaining", "allowing", "unbounded",
            "overdraft", "kept", "save"]
PUNCT = ["(", ")", "[", "]", "{", "}", ",", "=", "*", "-", "+"]

RULES = [
    ("RATIO", re.compile(r"[0-9]+ ?/ ?[0-9]+")),
    ("PERCENT", re.compile(r"[0-9]+(\.[0-9]+)?%")),
    ("STRING", re.compile(r'"(\\"|[^\r\n"])*"')),
    ("IDENTIFIER", re.compile(r"[a-z]+[a-z_]*")),
    ("NUMBER", re.compile(r"-?[0-9]+")),
    ("VARIABLE_NAME", re.compile(r"\$[a-z_]+[a-z0-9_]*")),
    ("ACCOUNT", re.compile(r"@[a-zA-Z0-9_-]+(:[a-zA-Z0-9_-]+)*")),
    ("ASSET", re.compile(r"[A-Z/0-9]+")),
]
WS = re.compile(r"[ \t\r\n]+")


def _comment_body(text, j, depth=0):
    """end of a block comment whose opening '/*' ends at j; -1 if none.
    ANTLR's `(MULTILINE_COMMENT | .)*? '*/'`: a nested comment is tried first at every '/*'; if the
    whole match then fails, the characters are consumed one by one instead (observed behaviour)."""
    n = len(text)
    while j < n:
        if text.startswith("*/", j):
            return j + 2
        if text.startswith("/*", j) and depth < 30:
            k = _comment_body(text, j + 2, depth + 1)
            if k >= 0:
                r = _comment_body(text, k, depth)
                if r >= 0:
                    return r
        j += 1
    return -1


def match_block_comment(text, i):
    if not text.startswith("/*", i):
        return -1
    return _comment_body(text, i + 2)


def match_line_comment(text, i):
    """'//' .*? NEWLINE, NEWLINE = [\\r\\n]+"""
    if not text.startswith("//", i):
        return -1
    m = re.compile(r"[\r\n]+").search(text, i + 2)
    if not m:
        return -1
    return m.end()


def lex(text):
    """returns (tokens, ok): tokens = list of (kind, text); ok False on a token recognition error"""
    toks = []
    i, n = 0, len(text)
    ok = True
    while i < n:
        cands = []   # (length, priority, kind, skip)
        m = WS.match(text, i)
        if m:
            cands.append((m.end() - i, 0, "WS", True))
        e = match_block_comment(text, i)
        if e >= 0:
            cands.append((e - i, 2, "BC", True))
        e = match_line_comment(text, i)
        if e >= 0:
            cands.append((e - i, 3, "LC", True))
        pr = 4
        for kw in KEYWORDS:
            if text.startswith(kw, i):
                cands.append((len(kw), pr, kw, False))
            pr += 1
        for p in PUNCT[:-1]:          # '+' is an implicit token defined after all lexer rules
            if text.startswith(p, i):
                cands.append((1, pr, p, False))
            pr += 1
        for kind, rx in RULES:
            m = rx.match(text, i)
            if m and m.end() > i:
                cands.append((m.end() - i, pr, kind, False))
            pr += 1
        if text.startswith("+", i):
            cands.append((1, pr, "+", False))
        if not cands:
            ok = False
            i += 1
            continue
        best = max(cands, key=lambda c: (c[0], -c[1]))
        if not best[3]:
            toks.append((best[2], text[i:i + best[0]]))
        i += best[0]
    return toks, ok


class Parser:
    def __init__(self, toks):
        self.t = [k for k, _ in toks]
        self.memo = {}

    def tok(self, i, kind):
        return {i + 1} if i < len(self.t) and self.t[i] == kind else set()

    def seq(self, i, *parts):
        cur = {i}
        for p in parts:
            nxt = set()
            for j in cur:
                nxt |= (self.tok(j, p) if isinstance(p, str) else p(j))
            cur = nxt
            if not cur:
                break
        return cur

    def star(self, i, f):
        seen = {i}
        frontier = {i}
        while frontier:
            nxt = set()
            for j in frontier:
                nxt |= f(j)
            frontier = nxt - seen
            seen |= nxt
        return seen

    def plus(self, i, f):
        out = set()
        for j in f(i):
            out |= self.star(j, f)
        return out

    def opt(self, i, f):
        return {i} | f(i)

    def rule(self, name, i, f):
        key = (name, i)
        if key not in self.memo:
            self.memo[key] = set()      # guards left recursion (none after elimination)
            self.memo[key] = f(i)
        return self.memo[key]

    # grammar ---------------------------------------------------------
    def monetary_lit(self, i):
        return self.seq(i, "[", self.value_expr, self.value_expr, "]")

    def portion(self, i):
        return self.tok(i, "RATIO") | self.tok(i, "PERCENT")

    def atom(self, i):
        out = set()
        for k in ("VARIABLE_NAME", "ASSET", "STRING", "ACCOUNT", "NUMBER"):
            out |= self.tok(i, k)
        return out | self.monetary_lit(i) | self.portion(i)

    def value_expr(self, i):
        def f(i):
            def tail(j):
                return self.seq(j, lambda k: self.tok(k, "+") | self.tok(k, "-"), self.atom)
            out = set()
            for j in self.atom(i):
                out |= self.star(j, tail)
            return out
        return self.rule("valueExpr", i, f)

    def fn_args(self, i):
        return self.seq(i, self.value_expr, lambda j: self.star(j, lambda k: self.seq(k, ",", self.value_expr)))

    def fn_call(self, i):
        name = lambda j: self.tok(j, "overdraft") | self.tok(j, "IDENTIFIER")
        return self.seq(i, name, "(", lambda j: self.opt(j, self.fn_args), ")")

    def var_decl(self, i):
        return self.seq(i, "IDENTIFIER", "VARIABLE_NAME", lambda j: self.opt(j, lambda k: self.seq(k, "=", self.fn_call)))

    def vars_decl(self, i):
        return self.seq(i, "vars", "{", lambda j: self.star(j, self.var_decl), "}")

    def allotment(self, i):
        return self.portion(i) | self.tok(i, "VARIABLE_NAME") | self.tok(i, "remaining")

    def source(self, i):
        def f(i):
            out = self.seq(i, self.value_expr, "allowing", "unbounded", "overdraft")
            out |= self.seq(i, self.value_expr, "allowing", "overdraft", "up", "to", self.value_expr)
            out |= self.value_expr(i)
            out |= self.seq(i, "{", lambda j: self.plus(j, lambda k: self.seq(k, self.allotment, "from", self.source)), "}")
            out |= self.seq(i, "{", lambda j: self.star(j, self.source), "}")
            out |= self.seq(i, "max", self.value_expr, "from", self.source)
            return out
        return self.rule("source", i, f)

    def kod(self, i):
        return self.seq(i, "to", self.destination) | self.tok(i, "kept")

    def destination(self, i):
        def f(i):
            out = self.value_expr(i)
            out |= self.seq(i, "{", lambda j: self.plus(j, lambda k: self.seq(k, self.allotment, self.kod)), "}")
            out |= self.seq(i, "{", lambda j: self.star(j, lambda k: self.seq(k, "max", self.value_expr, self.kod)),
                            "remaining", self.kod, "}")
            return out
        return self.rule("destination", i, f)

    def sent_value(self, i):
        return self.value_expr(i) | self.seq(i, "[", self.value_expr, "*", "]")

    def statement(self, i):
        out = self.seq(i, "send", self.sent_value, "(", "source", "=", self.source, "destination", "=", self.destination, ")")
        out |= self.seq(i, "save", self.sent_value, "from", self.value_expr)
        out |= self.fn_call(i)
        return out

    def program(self):
        ends = self.seq(0, lambda j: self.opt(j, self.vars_decl), lambda j: self.star(j, self.statement))
        return len(self.t) in ends


def is_valid(text):
    toks, ok = lex(text)
    if not ok:
        return False, toks
    if len(toks) > 400:
        return None, toks       # too long for the set-based parser: undecided
    try:
        return Parser(toks).program(), toks
    except RecursionError:
        return None, toks
