"""bin/check <id> --replay <path>: re-run the recorded case on the real code and on the model"""
import json

import runner
import props_exec as P


def run(chk, path):
    r = json.load(open(path))
    case = r.get("case")
    print("reason:", r.get("reason"))
    print("oracle:", r.get("oracle"))
    if not case:
        print("no input recorded (theorem or correspondence breakage without failing input)")
        return 0
    runner.build_harness()
    c = dict(case)
    c.setdefault("id", 0)
    if "parse_sequence" in c:               # C14: results of a sequence of parses, looked at again at the end
        out = runner.run_go([{"id": 0, "op": "parseseq", "args": c["parse_sequence"]}])[0]
        print("go:", json.dumps(out)[:3000])
        return 0
    if "stream" in c:                       # C19: a framed byte stream into MessageBuffer.Read, and the frame model
        import wire
        reads = max(1, c["stream"].count("436f6e74656e742d4c656e677468") + c["stream"].count("636f6e74656e742d6c656e677468"))
        out = runner.run_go([{"id": 0, "op": "frame", "text": c["stream"], "repeat": reads}])[0]
        print("go:", json.dumps(out)[:3000])
        print("model:", wire.model_read([wire.unhex(c["stream"])])[0])
        return 0
    if "history" in c:                      # C19: an LSP session in-process
        out = runner.run_go([{"id": 0, "op": "lsp", "history": c["history"]}])[0]
        print("go:", json.dumps(out)[:3000])
        return 0
    if "op" not in c:
        c["op"] = "analyze" if "positions" in c or ("script" in c and "vars" not in c) else "exec"
    if c["op"] == "concurrent":             # C11: goroutines on one parsed script, with the race detector on
        import os
        racebin = os.path.join(runner.BUILD, "verifharness-race-replay")
        runner.build_harness(race=True, out=racebin)
        out = runner.run_go([c], binary=racebin, race=True)[0]
        os.remove(racebin)
        print("go (-race build):", json.dumps(out)[:3000])
        return 0
    out = runner.run_go([c])[0]
    print("go:", json.dumps(out.get("go", out))[:3000])
    if c["op"] == "exec" and "ast" in out:
        m = P.run_model([c], [out])[0]
        print("model:", json.dumps(m)[:3000])
    return 0
