"""bin/check <id> --replay <path>: re-run the recorded case on the real code and on the model"""
import json

import runner
import props_exec as P


def run(chk, path):
    r = json.load(open(path))
    case = r.get("case")
    print("reason:", r.get("reason"))
    print("oracle:", r.get("oracle"))
    if not case:
        print("no input recorded (theorem or correspondence breakage without failing input)")
        return 0
    runner.build_harness()
    c = dict(case)
    c.setdefault("id", 0)
    if "op" not in c:
        c["op"] = "analyze" if "positions" in c or ("script" in c and "vars" not in c) else "exec"
    out = runner.run_go([c])[0]
    print("go:", json.dumps(out.get("go", out))[:3000])
    if c["op"] == "exec" and "ast" in out:
        m = P.run_model([c], [out])[0]
        print("model:", json.dumps(m)[:3000])
    return 0
