"""C07 — first-come-first-served pairing; kept stays with the earliest sources."""
import itertools

import check_exec
import runner
import spec
import props_exec as P
from runner import enc, dec
from registry import REGISTRY


def lists(options, maxlen):
    for n in range(1, maxlen + 1):
        for combo in itertools.product(options, repeat=n):
            yield list(combo)


def run(chk):
    # 1. the script-level stream (shared machinery)
    check_exec.run(chk)
    base = dict(chk.coverage)
    # 2. direct calls of interpreter.Reconcile, exhaustive for short lists
    amax = 2 if chk.tier == "quick" else 3
    # names whose joined forms coincide: (u, v:w) and (u:v, w) both read u:v:w
    s_opts = [(n, a) for n in ("u", "u:v") for a in range(1, amax + 1)]
    r_opts = [(n, a) for n in ("v:w", "w", spec.KEPT) for a in range(1, amax + 1)]
    cases = []
    for ss in lists(s_opts, 3):
        for rs in lists(r_opts, 3):
            cases.append({"id": len(cases), "op": "reconcile", "asset": "COIN",
                          "senders": [[n, str(a)] for n, a in ss], "receivers": [[n, str(a)] for n, a in rs]})
    gos = runner.run_go(cases)
    lines = ["reconcile\t%d\t%s\t%s\t%s" % (c["id"], enc(c["asset"]),
                                           " ".join("%s %s" % (enc(n), a) for n, a in c["senders"]),
                                           " ".join("%s %s" % (enc(n), a) for n, a in c["receivers"])) for c in cases]
    louts = runner.run_lean(lines)
    fails, dis = [], []
    nontrivial = 0
    for c, o, lo in zip(cases, gos, louts):
        if o.get("outcome") != "ok":
            fails.append((c, o, None, ["Reconcile returned %s" % o.get("outcome")]))
            continue
        ss = [(n, int(a)) for n, a in c["senders"]]
        rs = [(n, int(a)) for n, a in c["receivers"]]
        want = [list(map(str, p)) for p in spec.pair(ss, rs, "COIN")]
        got = [list(p) for p in o["postings"]]
        if len(ss) >= 2 and (len(rs) >= 2):
            nontrivial += 1
        why = []
        if spec.flow_matrix(o["postings"]) != spec.flow_matrix(spec.pair(ss, rs, "COIN")):
            why.append("flows %s differ from the in-order unit pairing %s" % (spec.flow_matrix(o["postings"]), spec.flow_matrix(spec.pair(ss, rs, "COIN"))))
        elif got != want:
            why.append("postings %s, in-order pairing %s" % (got, want))
        for p in got:
            if int(p[2]) <= 0 or p[1] == spec.KEPT:
                why.append("bad posting %s" % p)
        if why:
            fails.append((c, o, None, why))
        f = lo.split("\t")
        toks = f[2].split() if len(f) > 2 else []
        mp = [[dec(toks[i]), dec(toks[i + 1]), toks[i + 2], dec(toks[i + 3])] for i in range(0, len(toks), 4)]
        if f[1] != "ok" or mp != got:
            dis.append((c, o, {"model": lo}, ["postings"]))
    for c, go, m, why in fails[:10]:
        chk.violation("oracle", case=c, go=go, model=m, oracle=why)
    if not fails and not chk.violations:
        for c, go, m, why in dis[:3]:
            chk.violation("correspondence:reconcile model and implementation differ", case=c, go=go, model=m, found_input=False)
    chk.coverage["direct_reconcile_calls"] = len(cases)
    chk.coverage["direct_reconcile_nontrivial"] = nontrivial
    chk.coverage["evaluations"] = base.get("evaluations", 0) + len(cases)
    chk.coverage["distinct_nontrivial"] = base.get("distinct_nontrivial", 0) + nontrivial
    chk.coverage["model_comparisons"] = base.get("model_comparisons", 0) + len(cases)
    chk.coverage["model_disagreements"] = base.get("model_disagreements", 0) + len(dis)
    chk.coverage["oracle_failures"] = base.get("oracle_failures", 0) + len(fails)
    chk.coverage["exhaustive"] = True
    chk.coverage["rule"] = (base.get("rule", "") + "; plus exhaustive direct calls of interpreter.Reconcile: all sender lists of length <= 3 over 2 names and "
                            "all receiver lists of length <= 3 over 2 names + kept, amounts 1..%d (non-trivial = >= 2 senders and >= 2 receivers)" % amax)
