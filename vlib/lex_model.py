"""Where errors may be: the lexer-with-recovery model (Model/LexAll.lean) against the errors parser.Parse reports.
 (a) the lexer errors (`token recognition error at: '…'`) are exactly the model's, position and quoted text;
 (b) every other reported error starts where a token of the model's stream starts, or at the model's EOF position.
`lexAll_positions_in_text` (Properties/C14lex.lean) then places all of them inside the text or at its end."""
import binascii

import runner
from runner import enc

LEXMSG = "token recognition error at: '"


def compare(texts, gos):
    """gos: results of the harness ops `parse`/`analyze`/`exec` (need "parseErrors": [[range, msg], ...]).
    returns (disagreements, stats)"""
    idx = [i for i, (t, o) in enumerate(zip(texts, gos)) if isinstance(o.get("parseErrors"), list) and "\x00" not in t]
    lines = ["lexall\t%d\t%s" % (i, enc(texts[i])) for i in idx]
    outs = runner.run_lean(lines) if lines else []
    dis = []
    stats = {"lexer_model_comparisons": 0, "lexer_errors_compared": 0, "syntax_errors_located": 0}
    for i, lo in zip(idx, outs):
        t, o = texts[i], gos[i]
        f = (lo or "").split("\t")
        if len(f) < 4 or f[0] == "CRASH" or f[1] == "drivererror":
            dis.append(({"script": t}, None, {"model": (lo or "")[:200]}, ["lexer model failed"]))
            continue
        stats["lexer_model_comparisons"] += 1
        starts = set(f[1].split()) | {f[2]}
        merrs = []
        for e in f[3].split():
            l, c, hx = e.split(":")
            txt = binascii.unhexlify(hx).decode("utf-8") if hx != "-" else ""
            merrs.append(("%s:%s" % (l, c), LEXMSG + txt + "'"))
        gerrs = []
        why = []
        for r, msg in o["parseErrors"]:
            start = r.split("-")[0]
            if msg.startswith(LEXMSG):
                gerrs.append((start, msg))
            else:
                stats["syntax_errors_located"] += 1
                if start not in starts:
                    why.append("error %r starts at %s, which is neither the start of a token nor the end of the text" % (msg[:60], start))
        stats["lexer_errors_compared"] += len(gerrs)
        if sorted(gerrs) != sorted(merrs):
            why.append("lexer errors %s, model %s" % (sorted(gerrs)[:4], sorted(merrs)[:4]))
        if why:
            dis.append(({"script": t}, {"parseErrors": o["parseErrors"][:8]}, {"model": lo[:300]}, why[:3]))
    return dis, stats
