"""
Generator of executable scripts (stream "exec", DESIGN §3/§6).

It builds its own tree first (text + resolved semantics), so that the oracles
never depend on the parser under test. Every random choice derives from one
`random.Random(seed)`; a case replays alone from (seed, index).
"""
import random

import tricky
from fractions import Fraction

ACCOUNTS = ["a", "b", "c", "d"]
DESTS = ["x", "y", "z", "a", "b", "c", "d"]
KEYWORD_NAMES = ["remaining", "kept", "max", "to", "from", "source", "destination", "send", "save", "vars", "world", "allowing",
                 "unbounded", "overdraft", "up", "portion", "monetary", "account", "asset", "number", "string", "balance", "meta"]
ASSETS = ["USD", "EUR/2"]
# strings that output layers (printf, JSON/HTML escaping) treat specially; none contains a quote, a backslash or a newline
META_STRINGS = [x for x in tricky.STRINGS if '"' not in x and "\\" not in x and "\n" not in x]
# bodies of string literals with escaped quotes and backslashes (written as the LAST literal of their line; the value is
# the body verbatim — the language does not unescape): an escaped quote first, in the middle, last; a lone backslash
# before the closing quote (the lexer backs off from reading it as an escape)
RAW_BODIES = ['say \\"hi\\"', '\\"', 'x\\"', '\\"x', 'C:\\', 'a\\\\b', '\\', 'a\\"b\\"', 'dir\\sub\\']
BIG = 2 ** 64


def boundary_ints():
    """integers around machine-word boundaries and powers of ten (where a fast path or a narrowing would break)"""
    out = set()
    for k in (7, 8, 15, 16, 31, 32, 52, 53, 61, 62, 63, 64, 65, 66, 127, 128):
        for d in (-2, -1, 0, 1, 2):
            out.add(2 ** k + d)
    for k in (9, 10, 18, 19, 20, 21, 22, 38, 39):
        for d in (-1, 0, 1):
            out.add(10 ** k + d)
    out |= {4000000000000000001, 200000000000000003, 3 * 2 ** 61 + 1, 6148914691236517205, 12297829382473034411}
    return sorted(x for x in out if x > 0)


class Ctx:
    def __init__(self, rng, profile):
        self.rng = rng
        self.p = profile
        self.decls = []          # (type, name, origin_text|None)
        self.raw = {}            # name -> raw string (plain variables)
        self.values = {}         # name -> value tuple
        self.balances = {}       # (account, asset) -> int
        self.meta = {}           # (account, key) -> text
        self.features = set()
        self.n = 0
        self.wide_budget = 2       # at most two wide constructs per script (a wide one has leaves only)
        self.extra_accounts = ["m%d" % i for i in range(profile.get("pool", 0))]

    def fresh(self, prefix):
        self.n += 1
        if self.rng.random() < self.p.get("keyword_names", 0.08):
            # a variable may be called like a keyword, a type or a built-in: `$remaining`, `$kept`, `$max`, `$world`…
            used = {n for (_, n, _) in self.decls}
            pool = [k for k in KEYWORD_NAMES if k not in used]
            if pool:
                self.features.add("keyword-like-variable-name")
                return self.rng.choice(pool)
        return "%s_%s" % (prefix, "abcdefghijklmnopqrstuvwxyz"[self.n % 26] * (1 + self.n // 26))

    def chance(self, key, default=0.0):
        return self.rng.random() < self.p.get(key, default)

    def declare(self, type_, value, raw, origin=None):
        # reuse an existing plain variable holding the same value (aliasing: one variable, several uses)
        if origin is None and self.chance("var_reuse", 0.45):
            same = [n for (t, n, o) in self.decls if t == type_ and o is None and self.values.get(n) == value]
            if same:
                self.features.add("var-reused")
                return "$" + self.rng.choice(same)
        name = self.fresh(type_[:3])
        self.decls.append((type_, name, origin))
        if origin is None:
            self.raw[name] = raw
        self.values[name] = value
        self.features.add("var:" + type_)
        return "$" + name


def render_value(v):
    k = v[0]
    if k == 'monetary':
        return "%s %d" % (v[1], v[2])
    if k == 'portion':
        return "%d/%d" % (v[1].numerator, v[1].denominator)
    if k == 'number':
        return str(v[1])
    return v[1]


def pick_amount(ctx, around=None):
    r = ctx.rng
    if ctx.p.get("small_values"):
        if r.random() < ctx.p.get("big", 0.0):
            # few distinct values, but beyond one machine word: numbers whose digits can be added to in place
            return r.choice([BIG, BIG, 2 * BIG, BIG + 5, 3 * BIG])
        return r.choice([0, 3, 5, 5, 10, 10, 10, 12])
    x = r.random()
    if around is None and ctx.balances and r.random() < ctx.p.get("exact_balance", 0.3):
        # exactly (or one off) what some account holds: boundary of every comparison with a balance
        b = r.choice(list(ctx.balances.values()))
        if b > 0:
            return b + r.choice([0, 0, 0, -1, 1])
    if around is not None and x < 0.3:
        return max(0, around + r.choice([-1, 0, 0, 1]))
    if x < 0.40:
        return 0
    if x < 0.46 and ctx.p.get("big", 0.1) > 0:
        # beyond one machine word; often an exact multiple of 2^64 (low word zero) or of 2^32
        return r.choice([BIG + r.randrange(0, 1000), BIG, 2 * BIG, 3 * BIG, BIG * BIG, 2 ** 63, 2 ** 32, 5 * 2 ** 32,
                         # just below one machine word: a product with a small numerator, or a sum of two, crosses 2^63 / 2^64
                         2 ** 62, 2 ** 62 + 1, 3 * 2 ** 61 + 1, 4 * 10 ** 18, 10 ** 19 // 3, 2 ** 63 - 1, 2 ** 61 + r.randrange(0, 1000)])
    if x < 0.85:
        return r.randrange(1, 20)
    return r.randrange(1, 120)


# ---------------------------------------------------------------- expressions

WIDE = [5, 6, 7, 8, 9, 15, 16, 17, 31, 32, 33, 63, 64, 65, 100, 129, 257]


def count(ctx, choices):
    """how many clauses / sub-sources / statements: from the given small choices, or (profile `wide`) a count around
    the sizes at which arrays turn into maps, buffers fill up and narrow counters wrap"""
    if ctx.p.get("wide") and ctx.wide_budget > 0 and ctx.chance("wide", 0.0):
        ctx.wide_budget -= 1
        ctx.features.add("wide")
        return ctx.rng.choice(WIDE)
    return ctx.rng.choice(choices)


def gen_account(ctx, pool):
    if ctx.extra_accounts:
        pool = pool + ctx.extra_accounts
    name = ctx.rng.choice(pool)
    if ctx.chance("acct_var", 0.3):
        return ctx.declare("account", ('account', name), name), name
    return "@" + name, name


def gen_number_text(ctx, n):
    """an expression of type number with value n"""
    if ctx.chance("num_var", 0.15):
        return ctx.declare("number", ('number', n), str(n))
    if ctx.chance("infix", 0.1) and abs(n) < 2 ** 62:
        a = ctx.rng.randrange(0, 10)
        ctx.features.add("infix")
        # NUMBER: MINUS? [0-9]+  — keep a blank after the operator so that it is not glued to a literal
        if ctx.rng.random() < 0.5:
            return "%s + %d" % (gen_number_text(ctx, n - a), a)
        return "%s - %d" % (gen_number_text(ctx, n + a), a)
    if n >= 0 and ctx.rng.random() < 0.08:
        ctx.features.add("leading-zero-number")
        return ctx.rng.choice(["0", "00"]) + str(n)        # decimal whatever the leading zeros
    return str(n)


def gen_asset_text(ctx, asset):
    if ctx.chance("asset_var", 0.15):
        return ctx.declare("asset", ('asset', asset), asset)
    return asset


def gen_monetary(ctx, asset, n, atomic=False):
    """text of an expression of type monetary with value [asset n]
    (atomic: no top-level infix, for the right operand of a left-associative operator)"""
    fits = -(2 ** 63) <= n < 2 ** 63
    if not atomic and not fits and ctx.chance("infix_big", 0.25) and n >= 0:
        # arithmetic on amounts beyond one machine word, the operands being variables read again elsewhere
        a = ctx.rng.choice([0, 1, 5, 2 ** 64, n // 2])
        ctx.features.add("infix-big")
        if ctx.rng.random() < 0.6:
            return "%s + %s" % (gen_monetary(ctx, asset, n - a, True), gen_monetary(ctx, asset, a, True))
        return "%s - %s" % (gen_monetary(ctx, asset, n + a, True), gen_monetary(ctx, asset, a, True))
    if ctx.chance("mon_var", 0.25) or not fits:
        return ctx.declare("monetary", ('monetary', asset, n), "%s %d" % (asset, n))
    if not atomic and ctx.chance("infix", 0.1) and n >= 0:
        a = ctx.rng.randrange(0, n + 1) if n < 1000 else ctx.rng.randrange(0, 1000)
        ctx.features.add("infix")
        if ctx.rng.random() < 0.5:
            return "%s + %s" % (gen_monetary(ctx, asset, n - a), gen_monetary(ctx, asset, a, True))
        return "%s - %s" % (gen_monetary(ctx, asset, n + a), gen_monetary(ctx, asset, a, True))
    at, nt = gen_asset_text(ctx, asset), gen_number_text(ctx, n)
    if at.startswith("$") and nt.startswith("$") and ctx.rng.random() < 0.3:
        ctx.features.add("adjacent-variables")
        return "[%s%s]" % (at, nt)          # two variable tokens with nothing between them
    return "[%s %s]" % (at, nt)


def portion_literal_text(ctx, q):
    """some spelling of the portion q as a literal, or None if only a ratio fits"""
    r = ctx.rng
    forms = []
    forms.append("%d/%d" % (q.numerator, q.denominator))
    k = r.choice([1, 2, 3, 7, 10])
    forms.append("%d/%d" % (q.numerator * k, q.denominator * k))
    forms.append("%d / %d" % (q.numerator, q.denominator))
    forms.append("0%d/0%d" % (q.numerator, q.denominator))
    pct = q * 100
    if pct.denominator == 1:
        forms.append("%d%%" % pct.numerator)
        forms.append("0%d%%" % pct.numerator)
        forms.append("%d.0%%" % pct.numerator)
    else:
        for digits in (1, 2, 3, 4):
            scaled = pct * 10 ** digits
            if scaled.denominator == 1:
                s = str(scaled.numerator).rjust(digits + 1, "0")
                forms.append("%s.%s%%" % (s[:-digits], s[-digits:]))
                break
    choice = r.choice(forms)
    if r.random() < 0.12:
        # the same value written with many digits: trailing zeros after the decimal point of a percentage (the
        # denominator 10^(2+digits) crosses 2^63/2^64 at 17–18 digits), or a ratio scaled by a power of ten / two
        z = r.choice([15, 16, 17, 18, 19, 20, 21, 25])
        if pct.denominator == 1 and r.random() < 0.6:
            choice = "%d.%s%%" % (pct.numerator, "0" * z)
        else:
            m = r.choice([10 ** z, 2 ** 63, 2 ** 64, 2 ** 64 + 1])
            choice = "%d/%d" % (q.numerator * m, q.denominator * m)
        ctx.features.add("portion-many-digits")
    return choice


def gen_portions(ctx, k):
    """k portions: list of (text, Fraction|None); sums to 1 (possibly through `remaining`)
    unless the profile asks for a bad sum"""
    r = ctx.rng
    den = r.choice([2, 3, 4, 5, 6, 8, 10, 100, 1000])
    cuts = sorted(r.randrange(0, den + 1) for _ in range(k - 1))
    nums = [b - a for a, b in zip([0] + cuts, cuts + [den])]
    qs = [Fraction(n, den) for n in nums]
    bad = ctx.chance("bad_allot_sum", 0.03)
    if bad:
        ctx.features.add("bad-allot-sum")
        i = r.randrange(k)
        qs[i] = qs[i] + Fraction(r.choice([-1, 1]), den)
        if qs[i] < 0:
            qs[i] = Fraction(2, den) + qs[i]
    use_remaining = (not bad) and r.random() < 0.5
    # several `remaining` clauses in one allotment: the last one takes the rest, the earlier ones nothing
    extra_rem = r.randrange(k - 1) if (use_remaining and k >= 2 and ctx.chance("multi_remaining", 0.0)) else None
    out = []
    for i, q in enumerate(qs):
        if extra_rem is not None and i == extra_rem:
            out.append(("remaining", None))
            ctx.features.add("remaining-twice")
        elif use_remaining and i == k - 1:
            out.append(("remaining", None))
            ctx.features.add("remaining")
        elif ctx.chance("portion_var", 0.2) and 0 <= q <= 1:
            out.append((ctx.declare("portion", ('portion', q), portion_literal_text(ctx, q)), q))
        else:
            out.append((portion_literal_text(ctx, q), q))
    return out


# ---------------------------------------------------------------- sources

def gen_source(ctx, asset, depth, need, safe=False):
    """returns (text, resolved); safe: a source acceptable under send-all (no @world, unbounded
    overdraft or allotment outside a cap)"""
    r = ctx.rng
    x = r.random()
    if safe and x >= 0.85:
        x = r.random() * 0.85
    if depth <= 0 or x < 0.45:
        # account leaf
        if not safe and ctx.chance("world", 0.12):
            txt, name = "@world", "world"
            if ctx.chance("world_var", 0.2):
                txt = ctx.declare("account", ('account', 'world'), 'world')
            ctx.features.add("world")
        else:
            txt, name = gen_account(ctx, ACCOUNTS)
        y = r.random()
        if safe and y < ctx.p.get("overdraft_unbounded", 0.08):
            y = 1.0
        if y < ctx.p.get("overdraft_unbounded", 0.08):
            ctx.features.add("unbounded-overdraft")
            return "%s allowing unbounded overdraft" % txt, ('unb', name)
        if y < ctx.p.get("overdraft_unbounded", 0.08) + ctx.p.get("overdraft_bounded", 0.2):
            od = r.choice([0, 1, 2, 5, 10, 50, -3]) if r.random() < 0.8 else pick_amount(ctx, need)
            ctx.features.add("bounded-overdraft")
            if od < 0:
                ctx.features.add("negative-overdraft")
            return "%s allowing overdraft up to %s" % (txt, gen_monetary(ctx, asset, od)), ('acct', name, od)
        return txt, ('acct', name, 0)
    if x < 0.7:
        n = count(ctx, [0, 1, 2, 2, 3, 3])
        subs = [gen_source(ctx, asset, (depth - 1) if n <= 4 else 0, need, safe) for _ in range(n)]
        if n > 4 and r.random() < 0.7:
            # many small capped draws: every sub-source contributes (as many senders as sub-sources)
            c = ((need or n) // n) + r.choice([0, 1, 1])
            # (through gen_monetary: an amount that does not fit a literal goes through a variable)
            subs = [(("max %s from %s" % (gen_monetary(ctx, asset, c), t), ('capped', c, s_)) if r.random() < 0.85 else (t, s_)) for t, s_ in subs]
        if n >= 1 and ctx.chance("free_prefix", 0.12):
            # a few draws that consult no balance (a capped @world, a capped unbounded overdraft) in front of the accounts:
            # they push senders without touching the per-account bookkeeping the later sources rely on
            pre = []
            for _ in range(r.randrange(1, 4)):
                k = r.choice([0, 1, 1, 2, 3])
                if r.random() < 0.6:
                    pre.append(("max [%s %d] from @world" % (asset, k), ('capped', k, ('acct', 'world', 0))))
                else:
                    nm = r.choice(ACCOUNTS)
                    pre.append(("max [%s %d] from @%s allowing unbounded overdraft" % (asset, k, nm), ('capped', k, ('unb', nm))))
            subs = pre + subs
            ctx.features.add("src-free-prefix")
        ctx.features.add("src-inorder")
        return "{ " + " ".join(t for t, _ in subs) + " }", ('inorder', [s for _, s in subs])
    if x < 0.85:
        cap = r.choice([0, 1, 3, 5, 10, -2]) if r.random() < 0.6 else pick_amount(ctx, need)
        t, s = gen_source(ctx, asset, depth - 1, need)
        ctx.features.add("src-capped")
        if cap < 0:
            ctx.features.add("negative-cap-src")
        return "max %s from %s" % (gen_monetary(ctx, asset, cap), t), ('capped', cap, s)
    k = count(ctx, [1, 2, 2, 3, 3, 4])
    portions = gen_portions(ctx, k)
    items = []
    for ptxt, q in portions:
        t, s = gen_source(ctx, asset, (depth - 1) if k <= 4 else 0, need)
        items.append((ptxt, q, t, s))
    ctx.features.add("src-allot")
    return "{ " + " ".join("%s from %s" % (pt, t) for pt, q, t, s in items) + " }", \
        ('allot', [(q, s) for pt, q, t, s in items])


# ---------------------------------------------------------------- destinations

def gen_kod(ctx, asset, depth, amount):
    if ctx.chance("kept", 0.2):
        ctx.features.add("kept")
        return "kept", ('kept',)
    t, d = gen_dest(ctx, asset, depth, amount)
    return "to " + t, ('to', d)


def gen_dest(ctx, asset, depth, amount):
    r = ctx.rng
    x = r.random()
    if depth <= 0 or x < 0.45:
        txt, name = gen_account(ctx, DESTS)
        return txt, ('acct', name)
    if x < 0.75:
        n = count(ctx, [0, 1, 1, 2, 3])
        if n > 4:
            depth = 1
        clauses = []
        for _ in range(n):
            cap = r.choice([0, 1, 2, 5, 10, -5]) if r.random() < 0.6 else pick_amount(ctx, amount)
            if ctx.p.get("small_values") and r.random() < 0.7:
                cap = pick_amount(ctx)           # caps from the same few values as the amounts (one variable, many roles)
            if cap < 0:
                ctx.features.add("negative-cap-dst")
            kt, kd = gen_kod(ctx, asset, depth - 1, amount)
            clauses.append(("max %s %s" % (gen_monetary(ctx, asset, cap), kt), (cap, kd)))
        rt, rd = gen_kod(ctx, asset, depth - 1, amount)
        ctx.features.add("dst-inorder")
        text = "{ " + " ".join(t for t, _ in clauses) + " remaining " + rt + " }"
        if not clauses:
            # `{ remaining X }` is read by the grammar as a one-clause allotment (first alternative),
            # whose target is evaluated even for a zero amount
            return text, ('allot', [(None, rd)])
        return text, ('inorder', [c for _, c in clauses], rd)
    k = count(ctx, [1, 2, 2, 3, 4])
    if k > 4:
        depth = 1
    portions = gen_portions(ctx, k)
    items = []
    for ptxt, q in portions:
        kt, kd = gen_kod(ctx, asset, depth - 1, amount)
        items.append((ptxt, q, kt, kd))
    ctx.features.add("dst-allot")
    return "{ " + " ".join("%s %s" % (pt, kt) for pt, q, kt, kd in items) + " }", \
        ('allot', [(q, kd) for pt, q, kt, kd in items])


# ---------------------------------------------------------------- statements

BAD_CALLS = [  # (text, called name): built-ins used where they do not belong, unknown names
    ('balance(@a, USD)', "balance"), ('meta(@b, "k")', "meta"), ('overdraft(@a, USD)', "overdraft"),
    ('foo()', "foo"), ('set_tx_metadata("k", 1)', "set_tx_metadata"), ('send_all(@a)', "send_all"),
    ('balance(@a)', "balance"), ('metadata(@a, "k", 3)', "metadata"),
]


ASSETS3 = ["USD", "EUR/2", "COIN"]


BAD_ARGS = [  # a call whose FIRST argument fails to evaluate while the later ones are fine: the first failure is the cause
    ('set_tx_meta($nope, "v")', "UnboundVariableErr", ["nope"]),
    ('set_account_meta($nope, "k", 1)', "UnboundVariableErr", ["nope"]),
    ('set_account_meta(@a, $nope_k, 42)', "UnboundVariableErr", ["nope_k"]),
    ('set_tx_meta($missing_one, $missing_two)', "UnboundVariableErr", ["missing_one"]),
]


def gen_wide_send(ctx, asset, k=None, world_tail=False, reuse=None):
    """a send that really draws on k sources: k small capped draws, the amount is what they add up to"""
    r = ctx.rng
    k = k or r.choice(WIDE + [15, 16, 17, 17, 18, 18, 19, 20])
    c = r.choice([1, 1, 2, 3])
    n = k * c - r.choice([0, 0, 0, 1, c])
    subs = []
    ub = r.choice([0.1, 0.5, 0.9])          # how many of the draws consult no balance
    for _ in range(k):
        t, s_ = gen_source(ctx, asset, 0, c)
        if reuse and r.random() < 0.85:
            nm = r.choice(reuse)                    # the accounts the previous wide statement drew on
            t, s_ = "@" + nm, ('acct', nm, 0)
        if s_[0] == 'acct' and s_[1] != 'world' and r.random() < ub:
            t, s_ = "@%s allowing unbounded overdraft" % s_[1], ('unb', s_[1])
        subs.append(("max [%s %d] from %s" % (asset, c, t), ('capped', c, s_)))
    y = r.random()
    if y < 0.35 or world_tail:
        subs.append(("@world", ('acct', 'world', 0)))
    elif y < 0.8:
        # after the k small draws, some of the same accounts without a cap, for more than the draws add up to: they are
        # drawn to what they have left (their balance, less what this statement and the earlier ones already took)
        used = [s_[2][1] for _, s_ in subs if s_[2][0] in ('acct', 'unb') and s_[2][1] != 'world'] or ["a"]
        for nm in r.sample(used, min(len(used), r.choice([1, 1, 2, 3]))):
            subs.append(("@" + nm, ('acct', nm, 0)))
        n += r.choice([1, 5, 50, 1000])
        if r.random() < 0.4:
            subs.append(("@world", ('acct', 'world', 0)))
    st, rs = "{ " + " ".join(t for t, _ in subs) + " }", ('inorder', [s_ for _, s_ in subs])
    dt, rd = gen_dest(ctx, asset, ctx.p.get("ddepth", 2), n)
    ctx.features.add("wide-send")
    ctx.features.add("send")
    return "send %s (\n  source = %s\n  destination = %s\n)" % (gen_monetary(ctx, asset, n), st, dt), \
        ('send', asset, n, rs, rd)


def gen_statement(ctx):
    r = ctx.rng
    if ctx.chance("bad_call", 0.0):
        if r.random() < 0.35:
            t, kind, payload = r.choice(BAD_ARGS)
            ctx.features.add("call-with-failing-first-argument")
            return t, ('error', kind, payload)
        t, name = r.choice(BAD_CALLS)
        ctx.features.add("call-of-non-statement-function")
        return t, ('error', "UnboundFunctionErr", [name])
    asset = ASSETS[0] if r.random() < 0.85 else ASSETS[1]
    if ctx.p.get("multi_asset"):
        # several assets of the same accounts in one script (per-account lists of assets in the balance queries)
        asset = r.choice(ASSETS3)
    x = r.random()
    if x < ctx.p.get("send", 0.55):
        n = pick_amount(ctx)
        prev = getattr(ctx, "sent_amounts", [])
        if prev and r.random() < 0.3:
            # the same amount (often the same variable) sent again by a later statement
            n = r.choice(prev)
            ctx.features.add("amount-resent")
        ctx.sent_amounts = prev + [n]
        if ctx.chance("negative_amount", 0.02):
            n = -r.randrange(1, 10)
            ctx.features.add("negative-amount")
        if ctx.p.get("wide") and ctx.wide_budget > 0 and ctx.chance("wide_send", 0.0):
            ctx.wide_budget -= 1
            return gen_wide_send(ctx, asset)
        st, rs = gen_source(ctx, asset, ctx.p.get("depth", 3), n)
        dt, rd = gen_dest(ctx, asset, ctx.p.get("ddepth", 2), n)
        if ctx.p.get("deep") and ctx.chance("deep", 0.0):
            # many levels of nesting around the source or the destination (blocks and caps that change nothing)
            levels = r.choice([9, 17, 33, 65])
            ctx.features.add("deep-nesting")
            if r.random() < 0.5:
                for i in range(levels):
                    if i % 2:
                        st, rs = "{ %s }" % st, ('inorder', [rs])
                    else:
                        st, rs = "max [%s 1000000] from %s" % (asset, st), ('capped', 1000000, rs)
            else:
                for i in range(levels):
                    dt, rd = "{ max [%s 0] to @x remaining to %s }" % (asset, dt), ('inorder', [(0, ('to', ('acct', 'x')))], ('to', rd))
        ctx.features.add("send")
        return "send %s (\n  source = %s\n  destination = %s\n)" % (gen_monetary(ctx, asset, n), st, dt), \
            ('send', asset, n, rs, rd)
    if x < ctx.p.get("send", 0.55) + ctx.p.get("sendall", 0.2):
        st, rs = gen_source(ctx, asset, ctx.p.get("depth", 3), None, safe=ctx.chance("sendall_safe", 0.5))
        dt, rd = gen_dest(ctx, asset, ctx.p.get("ddepth", 2), None)
        ctx.features.add("sendall")
        return "send [%s *] (\n  source = %s\n  destination = %s\n)" % (gen_asset_text(ctx, asset), st, dt), \
            ('sendall', asset, rs, rd)
    if x < ctx.p.get("send", 0.55) + ctx.p.get("sendall", 0.2) + ctx.p.get("save", 0.12):
        at, name = gen_account(ctx, ACCOUNTS)
        ctx.features.add("save")
        if r.random() < 0.3:
            return "save [%s *] from %s" % (gen_asset_text(ctx, asset), at), ('save', asset, None, name)
        n = pick_amount(ctx)
        b = ctx.balances.get((name, asset), 0)
        if b > 0 and r.random() < 0.45:
            n = b + r.choice([0, 0, -1, 1])
        if ctx.chance("negative_amount", 0.02):
            n = -r.randrange(1, 10)
        return "save %s from %s" % (gen_monetary(ctx, asset, n), at), ('save', asset, n, name)
    # metadata
    key = r.choice(["k", "k2", "ref"])
    vt, v = gen_meta_value(ctx)
    if r.random() < 0.5:
        ctx.features.add("set_tx_meta")
        return 'set_tx_meta("%s", %s)' % (key, vt), ('txmeta', key, (v[0], render_value(v)))
    at, name = gen_account(ctx, ACCOUNTS + ["world"])       # @world has metadata like any account
    ctx.features.add("set_account_meta")
    return 'set_account_meta(%s, "%s", %s)' % (at, key, vt), ('accmeta', name, key, render_value(v))


WORD_EDGES = [2 ** 63 - 1, 2 ** 63, 2 ** 63 + 1, 2 ** 64 - 1, 2 ** 64, 2 ** 64 + 1, -(2 ** 63), -(2 ** 63) - 1, -(2 ** 64 - 1), -(2 ** 64),
              2 ** 31, 2 ** 32, 2 ** 53 + 1, 10 ** 19, 10 ** 30, 3 * 2 ** 62]


def gen_meta_value(ctx):
    r = ctx.rng
    k = r.choice(["string", "number", "monetary", "account", "asset", "portion"])
    if k == "string":
        s = r.choice(["hello", "", "a b", "é", "x:y"] + META_STRINGS + RAW_BODIES)
        if ctx.chance("str_var", 0.3):
            return ctx.declare("string", ('string', s), s), ('string', s)
        return '"%s"' % s, ('string', s)
    if k == "number":
        if r.random() < 0.25:
            n = r.choice(WORD_EDGES)        # (through a variable: a literal that large is a known finding)
            ctx.features.add("meta-word-edge")
            return ctx.declare("number", ('number', n), str(n)), ('number', n)
        n = r.choice([0, 1, 42, -7])
        return gen_number_text(ctx, n), ('number', n)
    if k == "monetary":
        if r.random() < 0.25:
            n = r.choice(WORD_EDGES)
            ctx.features.add("meta-word-edge")
            return ctx.declare("monetary", ('monetary', "USD", n), "USD %d" % n), ('monetary', "USD", n)
        n = r.choice([0, 5, 100])
        return gen_monetary(ctx, "USD", n), ('monetary', "USD", n)
    if k == "account":
        t, name = gen_account(ctx, ACCOUNTS)
        return t, ('account', name)
    if k == "asset":
        return gen_asset_text(ctx, "USD"), ('asset', "USD")
    q = Fraction(r.randrange(0, 5), 4)
    q = min(q, Fraction(1))
    return portion_literal_text(ctx, q), ('portion', q)


# ---------------------------------------------------------------- whole case

DEFAULT_PROFILE = {
    "depth": 3, "ddepth": 2, "stmts_max": 4,
}


def gen_case(seed, index, profile=None):
    p = dict(DEFAULT_PROFILE)
    if profile:
        p.update(profile)
    rng = random.Random("%s/%s" % (seed, index))
    ctx = Ctx(rng, p)
    nst = rng.randrange(1, p["stmts_max"] + 1)
    if p.get("wide") and rng.random() < 0.15:
        nst = rng.choice([9, 17, 33, 65, 100, 130, 257, 300])          # many statements (small ones)
        ctx.wide_budget = 0
        if nst > 65:
            ctx.p = dict(p, depth=1, ddepth=1)
        ctx.features.add("many-statements")

    # balances: small pool, steered towards interesting relations
    for a in ACCOUNTS + ["x"] + ctx.extra_accounts:
        for c in (ASSETS3 if p.get("multi_asset") else ASSETS):
            x = rng.random()
            if a in ctx.extra_accounts and x < 0.8:
                ctx.balances[(a, c)] = rng.choice([3, 10, 10, 50, 100])      # the many extra accounts mostly hold something
                continue
            if x < p.get("neg_balance", 0.12):
                v = -rng.randrange(1, 30)
                ctx.features.add("negative-balance")
            elif x < 0.3:
                v = 0
            elif x < 0.35:
                v = rng.choice([BIG + rng.randrange(0, 100), BIG, 2 * BIG, BIG + rng.randrange(0, 100)])
            elif x < 0.45:
                continue      # absent entry
            elif p.get("small_values"):
                v = rng.choice([3, 7, 10, 100])
            else:
                v = rng.choice([rng.randrange(1, 30), rng.randrange(20, 300)])
            ctx.balances[(a, c)] = v

    stmts = [gen_statement(ctx) for _ in range(nst)]
    if p.get("wide") and ctx.chance("wide_pair", 0.0):
        # two wide sends of the same asset, one after the other, of nearly the same width: what the first leaves behind
        # (stacks, indexes, buffers sized for it) meets a second statement of the same size
        asset = rng.choice(ASSETS)
        k1 = rng.choice([15, 16, 17, 17, 18, 19, 31, 32, 33, 34, 63, 64, 65, 66, 100, 130])
        k2 = max(2, k1 + rng.choice([-2, -1, 0, 0, 1, 1, 2, 5, 20]))
        first = gen_wide_send(ctx, asset, k1, world_tail=rng.random() < 0.8)
        names = []
        walk_sources(first[1][3], lambda nd: names.append(nd[1]) if nd[0] in ('acct', 'unb') and nd[1] != 'world' else None)
        stmts = [first, gen_wide_send(ctx, asset, k2, reuse=(names if rng.random() < 0.7 else None))] + stmts[:1]
        ctx.features.add("wide-pair")

    # carry-over shape: an account that a later statement reads is first overdrawn without bound (or emptied),
    # often with no stored entry at all, so that the only record of the debt is the interpreter's own
    if ctx.chance("debt_first", 0.1):
        later = []
        for st in stmts:
            if st[1][0] in ('send', 'sendall'):
                rs = st[1][3] if st[1][0] == 'send' else st[1][2]
                walk_sources(rs, lambda n, a=st[1][1]: later.append((n[1], a)) if n[0] == 'acct' and n[1] != 'world' else None)
        if later:
            acc, asset = rng.choice(later)
            if rng.random() < 0.6:
                ctx.balances.pop((acc, asset), None)
            n = rng.choice([1, 5, 10, 100])
            ctx.features.add("debt-first")
            stmts.insert(0, ("send [%s %d] (\n  source = @%s allowing unbounded overdraft\n  destination = @y\n)" % (asset, n, acc),
                             ('send', asset, n, ('unb', acc), ('acct', 'y'))))

    # padded front: K filler statements before the script proper — payments out of @world into the accounts the script
    # uses (which thereby first appear as receivers), debts of accounts with unbounded overdraft, metadata — so that the
    # script's own statements come 16th, 64th, 256th… and meet accounts already credited but never fetched
    if ctx.p.get("pad_front") and ctx.chance("pad_front", 0.0):
        k = rng.choice([15, 16, 17, 31, 33, 63, 64, 65, 100, 255, 256, 257, 300])
        pool = ACCOUNTS + ["x"] + ctx.extra_accounts[:3]
        fill = []
        for j in range(k):
            a, asset = rng.choice(pool), rng.choice(ASSETS)
            y = rng.random()
            n = rng.choice([1, 1, 2, 5])
            if y < 0.6:
                fill.append(("send [%s %d] (\n  source = @world\n  destination = @%s\n)" % (asset, n, a),
                             ('send', asset, n, ('acct', 'world', 0), ('acct', a))))
            elif y < 0.8:
                fill.append(("send [%s %d] (\n  source = @%s allowing unbounded overdraft\n  destination = @fz\n)" % (asset, n, a),
                             ('send', asset, n, ('unb', a), ('acct', 'fz'))))
            else:
                fill.append(("send [%s %d] (\n  source = @world\n  destination = @fz\n)" % (asset, n),
                             ('send', asset, n, ('acct', 'world', 0), ('acct', 'fz'))))
        stmts = fill + stmts
        ctx.features.add("padded-front")

    # merge-then-reuse shape: a monetary variable caps a clause whose receiver is also the next receiver (the two
    # postings are merged into one), more is sent than the cap, and the variable is read again afterwards
    if ctx.chance("merge_shape", 0.05):
        asset = rng.choice(ASSETS)
        fee = rng.choice([5, 10, BIG, BIG + 7, 2 * BIG, BIG * BIG])
        price = fee * rng.choice([2, 3]) + rng.choice([0, 1])
        fee_t = ctx.declare("monetary", ('monetary', asset, fee), "%s %d" % (asset, fee))
        price_t = ctx.declare("monetary", ('monetary', asset, price), "%s %d" % (asset, price))
        p1, p2, p3 = rng.choice(ACCOUNTS), rng.choice(ACCOUNTS), rng.choice(ACCOUNTS)
        first = ("send %s (\n  source = @world\n  destination = { max %s to @%s remaining to @%s }\n)" % (price_t, fee_t, p1, p1),
                 ('send', asset, price, ('acct', 'world', 0), ('inorder', [(fee, ('to', ('acct', p1)))], ('to', ('acct', p1)))))
        again = ("send %s (\n  source = @world\n  destination = { max %s to @%s remaining to @%s }\n)" % (price_t, fee_t, p2, p3),
                 ('send', asset, price, ('acct', 'world', 0), ('inorder', [(fee, ('to', ('acct', p2)))], ('to', ('acct', p3)))))
        seen = ('set_tx_meta("fee_seen", %s)' % fee_t, ('txmeta', "fee_seen", ('monetary', "%s %d" % (asset, fee))))
        stmts = [first] + stmts + [again, seen]
        ctx.features.add("merge-then-reuse")

    # optional balance()/overdraft()/meta() origins (C10 stream)
    origin_lines = []
    flags = []
    if ctx.chance("origins", 0.0):
        if rng.random() < 0.3:
            ctx.balances[("world", ASSETS[0])] = rng.choice([500, -7, 0, BIG])
        for _ in range(rng.randrange(1, 3)):
            a = rng.choice(ACCOUNTS)
            c = ASSETS[0] if rng.random() < 0.6 else rng.choice(ASSETS[1:])
            if p.get("multi_asset"):
                c = rng.choice(ASSETS3)
            if getattr(ctx, "origin_account", None) and rng.random() < 0.5:
                a = ctx.origin_account          # several origins on one account (other asset, other function)
            ctx.origin_account = a
            if rng.random() < 0.12:
                # the balance of @world is never requested: it reads as zero whatever the store holds
                ctx.declare("monetary", ('monetary', c, 0), None, origin="balance(@world, %s)" % c)
                ctx.features.add("origin-balance-world")
                continue
            which = rng.random()
            if which < 0.6:
                ctx.declare("monetary", ('monetary', c, ctx.balances.get((a, c), 0)), None,
                            origin="balance(@%s, %s)" % (a, c))
                ctx.features.add("origin-balance")
            elif which < 0.8:
                b = ctx.balances.get((a, c), 0)
                ctx.declare("monetary", ('monetary', c, 0 if b > 0 else -b), None,
                            origin="overdraft(@%s, %s)" % (a, c))
                ctx.features.add("origin-overdraft")
                if "experimental-overdraft-function" not in flags:
                    flags.append("experimental-overdraft-function")
            else:
                key = "k"
                mode = rng.random()
                if mode < 0.6:
                    ctx.meta[(a, key)] = "USD 7"
                    ctx.declare("monetary", ('monetary', "USD", 7), None, origin='meta(@%s, "%s")' % (a, key))
                    ctx.features.add("origin-meta")
                else:
                    # the key is missing: the account has other metadata (mode < 0.85) or none at all
                    if mode < 0.85:
                        ctx.meta[(a, "other")] = "x"
                    missing = "absent_key"
                    ty = rng.choice(["string", "asset", "number", "monetary", "account"])
                    ctx.decls.append((ty, ctx.fresh("mis"), 'meta(@%s, "%s")' % (a, missing)))
                    ctx.features.add("origin-meta-missing")
                    ctx.meta_missing = (a, missing)

    if ctx.chance("origins", 0.0) and rng.random() < 0.35:
        # an account read from metadata: the stored text must be a well-formed account name
        a = rng.choice(ACCOUNTS)
        stored = rng.choice(["x", "d", "users:001", "x", "", "<kept>", "a b", "x:", ":x", "@x", "é"])
        ctx.meta[(a, "acct")] = stored
        nm = ctx.fresh("acc")
        ctx.decls.append(("account", nm, 'meta(@%s, "acct")' % a))
        ctx.features.add("origin-meta-account")
        import re as _re
        if _re.fullmatch(r"[a-zA-Z0-9_-]+(:[a-zA-Z0-9_-]+)*", stored):
            ctx.meta_account_var = (nm, stored)
            if rng.random() < 0.5:
                # chained origins: the balance of the account another origin produced
                cb = rng.choice(ASSETS)
                bval = ctx.balances.get((stored, cb), 0)
                if bval >= 0:
                    ctx.declare("monetary", ('monetary', cb, bval), None, origin="balance($%s, %s)" % (nm, cb))
                    ctx.features.add("origin-chained")
            if rng.random() < 0.6:
                # the same entry read a second time under another declared type (its text is valid for both)
                sn = ctx.fresh("str")
                ctx.decls.append(("string", sn, 'meta(@%s, "acct")' % a))
                ctx.meta_same_entry_string = (sn, stored)
                ctx.features.add("origin-meta-same-entry-two-types")
        else:
            ctx.meta_account_bad = (a, stored)
            ctx.features.add("origin-meta-account-invalid")

    # the values the origins produced are USED after the other statements have run (which may have credited or debited
    # the very accounts they were read from): observed in the metadata, as a destination cap, as a sent amount
    late = []
    for (ty, nm, o) in ctx.decls:
        v = ctx.values.get(nm)
        if o and ty == "monetary" and v and v[0] == 'monetary' and rng.random() < 0.6:
            c, val = v[1], v[2]
            k = rng.random()
            if k < 0.4:
                late.append(('set_tx_meta("seen_%s", $%s)' % (nm, nm), ('txmeta', "seen_" + nm, ('monetary', "%s %d" % (c, val)))))
            elif k < 0.8 and val >= 0:
                n = val + rng.choice([0, 1, 5, 50])
                late.append(("send %s (\n  source = @world\n  destination = { max $%s to @x remaining to @y }\n)" % (gen_monetary(ctx, c, n), nm),
                             ('send', c, n, ('acct', 'world', 0), ('inorder', [(val, ('to', ('acct', 'x')))], ('to', ('acct', 'y'))))))
            elif val >= 0:
                late.append(("send $%s (\n  source = @world\n  destination = @z\n)" % nm,
                             ('send', c, val, ('acct', 'world', 0), ('acct', 'z'))))
    # an entry the store holds (and an origin has read) is overwritten, then set back to what the store holds: the last
    # write is part of the result like any other
    for (a, key), stored in sorted(ctx.meta.items()):
        if stored == "USD 7" and rng.random() < 0.5:
            late.append(('set_account_meta(@%s, "%s", [USD 8])' % (a, key), ('accmeta', a, key, "USD 8")))
            late.append(('set_account_meta(@%s, "%s", [USD 7])' % (a, key), ('accmeta', a, key, "USD 7")))
            ctx.features.add("meta-written-back")
    if late:
        stmts = stmts + late
        ctx.features.add("origin-value-used-late")

    if ctx.chance("bad_origin", 0.0):
        o = rng.choice(['set_tx_meta("k", 1)', 'set_account_meta(@a, "k", 1)', 'foo(@a)', 'balances(@a, USD)', 'saves(@a)'])
        ctx.decls.append((rng.choice(["number", "monetary", "string"]), ctx.fresh("bad"), o))
        ctx.features.add("origin-of-non-origin-function")

    # use origin variables: append a send that uses the first origin monetary
    extra = []
    for (t, name, origin) in ctx.decls:
        if origin is not None and name in ctx.values:
            v = ctx.values[name]
            st, rs = gen_source(ctx, v[1], 2, v[2])
            dt, rd = gen_dest(ctx, v[1], 1, v[2])
            extra.append(("send $%s (\n  source = %s\n  destination = %s\n)" % (name, st, dt),
                          ('send', v[1], v[2], rs, rd)))
    if getattr(ctx, "meta_account_bad", None):
        # the declaration fails first (InvalidAccountName); were it accepted, the name would reach a posting
        bad_nm = [n for (t, n, o) in ctx.decls if o and o.endswith('"acct")')][0]
        extra.append(("send [USD 2] (\n  source = @world\n  destination = $%s\n)" % bad_nm,
                      ('error', "InvalidAccountName", [ctx.meta_account_bad[1]])))
    if getattr(ctx, "meta_account_var", None):
        nm, stored = ctx.meta_account_var
        extra.append(("send [USD 2] (\n  source = @world\n  destination = $%s\n)" % nm,
                      ('send', 'USD', 2, ('acct', 'world', 0), ('acct', stored))))
    if getattr(ctx, "meta_same_entry_string", None):
        sn, stored = ctx.meta_same_entry_string
        extra.append(('set_tx_meta("same_entry", $%s)' % sn, ('txmeta', "same_entry", ('string', stored))))
    stmts = extra + stmts if rng.random() < 0.5 else stmts + extra

    # aligned boundaries: the first source runs dry exactly where the first destination is full, so that consecutive
    # postings change source AND destination at the same point (nothing to merge, nothing to split)
    if not any(o for _, _, o in ctx.decls) and ctx.chance("aligned_shape", 0.04):
        asset = rng.choice(ASSETS)
        if rng.random() < 0.5:
            s1, s2, d1, d2 = "a", "b", "c", "d"
        else:
            s1, s2 = rng.sample(ACCOUNTS, 2)
            d1, d2 = rng.sample(DESTS, 2)
        b1, b2 = rng.choice([3, 5, 10]), rng.choice([4, 6, 20])
        ctx.balances[(s1, asset)] = b1
        ctx.balances[(s2, asset)] = b2 + rng.choice([0, 0, 5])
        n = b1 + rng.choice([1, b2, b2 // 2])
        stmts.insert(0, ("send [%s %d] (\n  source = { @%s @%s }\n  destination = { max [%s %d] to @%s remaining to @%s }\n)" % (
            asset, n, s1, s2, asset, b1, d1, d2),
            ('send', asset, n, ('inorder', [('acct', s1, 0), ('acct', s2, 0)]),
             ('inorder', [(b1, ('to', ('acct', d1)))], ('to', ('acct', d2))))))
        ctx.features.add("aligned-boundaries")

    # a literal of 19 digits above 2^63-1: the parser rejects it (a known finding says so for every literal that large);
    # what must never happen is that it is accepted and stands for another number
    if ctx.chance("over_literal", 0.0):
        asset = rng.choice(ASSETS)
        n = rng.choice([2 ** 63, 2 ** 63 + 5, 9999999999999999999, 9300000000000000000, 10 ** 19 - 1, 2 ** 63 + rng.randrange(10 ** 18)])
        stmts.insert(0, ("send [%s %d] (\n  source = @world\n  destination = @x\n)" % (asset, n),
                         ('send', asset, n, ('acct', 'world', 0), ('acct', 'x'))))
        ctx.features.add("literal-over-int64")

    vars_block = ""
    if ctx.decls:
        rng.shuffle(ctx.decls) if not any(o for _, _, o in ctx.decls) else None
        vars_block = "vars {\n" + "\n".join(
            "  %s $%s%s" % (t, n, (" = " + o) if o else "") for t, n, o in ctx.decls) + "\n}\n"
    text = vars_block + "\n".join(t for t, _ in stmts) + "\n"

    # expected failure at variable initialisation (balance() of a negative balance, missing metadata)
    var_error = None
    for (t, name, origin) in ctx.decls:
        if origin and origin.split("(")[0] not in ("meta", "balance", "overdraft"):
            var_error = ("UnboundFunctionErr", [origin.split("(")[0]])
            break
        if origin and origin.endswith('"acct")') and getattr(ctx, "meta_account_bad", None):
            var_error = ("InvalidAccountName", [ctx.meta_account_bad[1]])
            break
        if origin and origin.startswith("meta(") and "absent_key" in origin:
            a = origin[len("meta(@"):].split(",")[0]
            var_error = ("MetadataNotFound", [a, "absent_key"])
            break
        if origin and origin.startswith("balance("):
            a = origin[len("balance(@"):].split(",")[0]
            oc = origin.split(",")[1].strip(" )")
            b = 0 if a == "world" else ctx.balances.get((a, oc), 0)
            if b < 0:
                var_error = ("NegativeBalanceError", [a, str(b)])
                break

    # amounts the store holds as nil (`null` in JSON): on pairs that have no other entry, they read as absent
    nil_bal = {}
    if ctx.chance("nil_balances", 0.08):
        for a in rng.sample(ACCOUNTS + ["escrow", "x"], 2):
            for c in ASSETS3:
                if (a, c) not in ctx.balances and rng.random() < 0.7:
                    nil_bal.setdefault(a, []).append(c)
        if nil_bal:
            ctx.features.add("nil-amount-in-store")

    case = {
        "script": text,
        "vars": dict(ctx.raw),
        "balances": nest(ctx.balances),
        "meta": nest(ctx.meta),
        "flags": flags,
    }
    if nil_bal:
        case["nilBalances"] = nil_bal
    gen = {
        "stmts": [s for _, s in stmts],
        "features": sorted(ctx.features),
        "var_error": var_error,
        "vars_block": vars_block,
        "stmt_texts": [t for t, _ in stmts],
        "has_origins": any(o for _, _, o in ctx.decls),
    }
    if p.get("lookalike_names") and rng.random() < p["lookalike_names"] and not ctx.meta:
        return rename_lookalike(case, gen)
    return case, gen


LOOKALIKE_ACCOUNTS = {"a": "v", "b": "vU", "c": "vUS", "d": "v:U", "x": "x"}
LOOKALIKE_ASSETS = {"USD": "USD", "COIN": "SD", "EUR/2": "D"}


def rename_lookalike(case, gen):
    """the same case under names whose concatenations coincide: (v, USD), (vU, SD) and (vUS, D) all spell `vUSD`"""
    import re
    am, sm = LOOKALIKE_ACCOUNTS, LOOKALIKE_ASSETS
    if len(case["script"]) % 3 == 1:
        # second family: segments shifted by one — (u, v:w) and (u:v, w) both read `u:v:w` once joined with a colon
        am = {"a": "u", "b": "u:v", "c": "v:w", "d": "w", "x": "x"}
    elif len(case["script"]) % 3 == 2:
        # third family: ordinary accounts whose names resemble the special one (other case, a prefix, a segment)
        am = {"a": "World", "b": "WORLD", "c": "worlds", "d": "world:a", "x": "x"}
        sm = {"USD": "USD", "COIN": "COIN", "EUR/2": "EUR/2"}

    def txt(t):
        t = re.sub(r"@(a|b|c|d|x)(?![a-zA-Z0-9_:-])", lambda m: "@" + am[m.group(1)], t)
        return re.sub(r"(?<![A-Z/0-9$a-z_@\"])(USD|EUR/2|COIN)(?![A-Z/0-9])", lambda m: sm[m.group(1)], t)

    def val(v):
        if v in am:
            return am[v]
        if v in sm:
            return sm[v]
        m = re.fullmatch(r"(USD|EUR/2|COIN) (-?\d+)", v)
        if m:
            return sm[m.group(1)] + " " + m.group(2)
        return v

    def tup(x):
        if isinstance(x, tuple):
            return tuple(tup(y) for y in x)
        if isinstance(x, list):
            return [tup(y) for y in x]
        if isinstance(x, str):
            return val(x)
        return x
    case = dict(case)
    case["script"] = txt(case["script"])
    case["vars"] = {k: val(v) for k, v in case["vars"].items()}
    case["balances"] = {am.get(a, a): {sm.get(c, c): v for c, v in m.items()} for a, m in case["balances"].items()}
    case["meta"] = {am.get(a, a): {k: val(v) for k, v in m.items()} for a, m in case["meta"].items()}
    if case.get("nilBalances"):
        case["nilBalances"] = {am.get(a, a): [sm.get(c, c) for c in cs] for a, cs in case["nilBalances"].items()}
    gen = dict(gen)
    gen["stmts"] = tup(gen["stmts"])
    gen["stmt_texts"] = [txt(t) for t in gen["stmt_texts"]]
    gen["vars_block"] = txt(gen["vars_block"])
    if gen.get("var_error"):
        gen["var_error"] = (gen["var_error"][0], [val(x) for x in gen["var_error"][1]])
    gen["features"] = sorted(set(gen["features"]) | {"look-alike-names"})
    return case, gen


def nest(d):
    out = {}
    for (a, b), v in d.items():
        out.setdefault(a, {})[b] = str(v) if isinstance(v, int) else v
    return out


def walk_sources(node, f):
    f(node)
    k = node[0]
    if k == 'inorder':
        for s in node[1]:
            walk_sources(s, f)
    elif k == 'capped':
        walk_sources(node[2], f)
    elif k == 'allot':
        for _, s in node[1]:
            walk_sources(s, f)


def grants_of(stmts):
    """C01: largest bounded overdraft granted per (account, asset); set of unbounded (account, asset)"""
    grants, unb = {}, set()
    for st in stmts:
        if st[0] in ('send', 'sendall'):
            asset = st[1]
            rs = st[3] if st[0] == 'send' else st[2]

            def f(n):
                if n[0] == 'acct':
                    grants[(n[1], asset)] = max(grants.get((n[1], asset), 0), n[2])
                elif n[0] == 'unb':
                    unb.add((n[1], asset))
            walk_sources(rs, f)
    return grants, unb
