"""C14 — the parser is total: any text yields a tree and located errors, never a crash."""
import random

import gen_check
import gen_parse
import ns_recognizer
import parse_model
import runner
from registry import REGISTRY


def start_ok(r, text):
    s = r.split("-")[0]
    sl, sc = map(int, s.split(":"))
    lines = text.split("\n")
    return sl <= len(lines) - 1 and sc <= len(lines[sl])


def big_texts(rng, per_size):
    """documents of 4 KiB, 16 KiB, 64 KiB (one byte less, exactly, one byte more) and beyond: valid ones, and ones whose only
    defect is one character the lexer rejects, one missing token, or garbage at the very end"""
    stmts = ["send [USD 1] (source = @a destination = @b)\n", "set_tx_meta(\"k\", 42)\n",
             "send [EUR/2 *] (\n  source = { @a @b }\n  destination = { 1/2 to @x remaining kept }\n)\n", "// a comment line\n",
             "save [USD 10] from @a\n", "/* block\n   comment */\n"]
    out = []
    for size in (4096, 16384, 65536):
        for delta in [-1, 0, 1][:per_size] + ([4000] if per_size > 3 else []):
            target = size + delta
            parts, n = [], 0
            while n < target - 120:
                t = rng.choice(stmts)
                parts.append(t)
                n += len(t.encode())
            pad = target - n - 3
            parts.append("//" + "x" * max(0, pad) + "\n")
            valid = "".join(parts)
            out.append(valid)
            k = rng.randrange(len(parts) - 1)
            bad_char = rng.choice([";", "#", "!", "\u00e9", "?"])
            out.append("".join(parts[:k]) + bad_char + "".join(parts[k:]))                       # an illegal character only
            out.append("".join(parts[:k]) + bad_char + "\n" + "".join(parts[k:]))
            j = max(i for i, t in enumerate(parts) if t.startswith("send [USD"))
            out.append("".join(parts[:j]) + parts[j].replace(")", "", 1) + "".join(parts[j + 1:]))   # a missing token
            out.append(valid + rng.choice(["}", "send", "[", "\"open", "$"]))                     # garbage at the very end
    return out


def run(chk):
    broken = chk.obligations(REGISTRY["C14"])
    runner.build_harness()
    rng = random.Random("C14-%d" % chk.seed)
    nbase = chk.size(150, 3000)
    texts = []
    for i in range(nbase):
        t, sexp, k, lk = gen_parse.gen_script(chk.seed + 31, i, fancy=(i % 3 != 0), depth=2)
        texts.append(t)
        if i < (8 if chk.tier == "quick" else 80):
            texts += gen_check.all_prefixes(t)
        texts += gen_check.broken_variants(t, rng, 25)
    texts += ["", " ", "\n", "send", "send [USD 99999999999999999999999] (source = @a destination = @b)", "08%", "1/0",
              "vars { portion $p }\nsend [USD 1] (source = @world destination = { 08% to @a remaining kept })",
              "\"unterminated", "/* unterminated", "// no newline", "@", "$", "%", "send [USD 1] (source = @a destination = @b) )",
              "é", "\x00", "send [USD 1] (source = @a destination = @b" + ")" * 50, "{" * 200, "[" * 200 + "]" * 200,
              "send " + "[USD 1] + " * 300 + "[USD 1] (source = @a destination = @b)",
              "1" * 5000, "-" * 300, "9" * 30 + "/" + "9" * 30, "9" * 40 + "." + "9" * 40 + "%"]
    import gen_exec
    for n in gen_exec.boundary_ints():
        a = str(n)
        for lit in (a + "%", a[:2] + "." + a[2:] + "%" if len(a) > 2 else a + "%", a + "/" + a, "1/" + a, a, "-" + a):
            texts.append("send [USD 1] (\n source = @world\n destination = { %s to @a remaining kept }\n)\n" % lit
                         if not lit.lstrip("-").isdigit() else "send [USD %s] (\n source = @world\n destination = @a\n)\n" % lit)
    import tricky
    texts += tricky.literal_scripts(rng, chk.size(300, 5000))
    # a string literal whose last character is a backslash: `\"` is tried as an escaped quote first, the lexer backs off
    # when no closing quote follows on the line
    texts += ['set_tx_meta("dir", "C:\\")\n', 'vars { string $s = meta(@acc, "\\") }\nset_tx_meta("k", $s)\n', 'set_tx_meta("k", "x\\")',
              'set_tx_meta("a\\", "b")\n', 'set_tx_meta("\\\\", "\\\\\\")\n', 'set_account_meta(@a, "k", "\\\"\\")\n']
    texts += ["send [USD 1] (source = @world destination = { %s to @a remaining kept })" % z for z in ("0/0", "00 / 000", "0 /0", "0/ 00")]
    texts += ["set_tx_meta(\"k\", 0/0)", "send [USD 1] (source = { 0/0 from @a remaining from @world } destination = @b)"]
    # texts that look blank: only characters some library calls whitespace; the grammar skips blank, tab, CR, LF only
    lookalikes = ["\f", "\v", "\u0085", "\u00a0", "\u1680", "\u2000", "\u2003", "\u2028", "\u2029", "\u202f", "\u205f", "\u3000", "\ufeff", "\u200b"]
    for w in lookalikes:
        texts += [w, " " + w + "\n", w * 3, "\n\t" + w + " \r\n", w + "send [USD 1] (source = @a destination = @b)", "send [USD 1] (source = @a destination = @b)" + w]
    texts += ["".join(rng.choice(lookalikes + [" ", "\n", "\t"]) for _ in range(rng.randrange(1, 6))) for _ in range(40)]
    for i in range(0, min(len(texts), 3000), max(1, len(texts) // chk.size(25, 300))):
        texts += gen_check.crlf_cuts(texts[i], rng)          # CR LF documents cut right after the carriage return
    texts += big_texts(rng, chk.size(2, 6))
    texts = list(dict.fromkeys(texts))
    gos = runner.run_go([{"id": i, "op": "parse", "script": t} for i, t in enumerate(texts)])
    fails = []
    stats = {"evaluations": len(texts), "distinct_nontrivial": 0, "valid_accepted": 0, "invalid_rejected": 0, "undecided": 0}
    for t, o in zip(texts, gos):
        why = []
        site = None
        if "harnessCrash" in o or "harnessPanic" in o:
            why.append("harness crashed: %s" % str(o)[:200])
        if "parsePanic" in o:
            why.append("Parse panics: %s" % o["parsePanic"][:200])
        if "showPanic" in o:
            why.append("ParseErrorsToString panics: %s" % o["showPanic"][:200])
        errs = o.get("parseErrors")
        if errs is not None:
            for r, msg in errs:
                if not start_ok(r, t):
                    why.append("error %r reported at %s, outside the text" % (msg[:60], r))
            valid, toks = ns_recognizer.is_valid(t)
            if valid is None:
                stats["undecided"] += 1
            elif valid and errs:
                if all(m.startswith("number literal out of range") for _, m in errs):
                    site = "number-literal-out-of-range"
                why.append("syntactically valid script reported with errors: %s" % errs[:2])
            elif not valid and not errs:
                why.append("invalid text accepted without any error")
            elif valid:
                stats["valid_accepted"] += 1
            else:
                stats["invalid_rejected"] += 1
                stats["distinct_nontrivial"] += 1
        if why:
            fails.append(({"script": t}, {"parseErrors": errs}, None, why[:3], site))
    # a parse result is a value: what Parse returned for one text (tree, errors, their ranges and display) must not
    # change because other texts are parsed afterwards
    seqs = []
    pool_bad = [t for t, o in zip(texts, gos) if o.get("parseErrors")]
    pool_ok = [t for t, o in zip(texts, gos) if o.get("parseErrors") == []]
    for _ in range(chk.size(400, 6000)):
        k = rng.randrange(2, 6)
        seq = [rng.choice(pool_bad) if (pool_bad and rng.random() < 0.7) else rng.choice(pool_ok or pool_bad or [""]) for _ in range(k)]
        if rng.random() < 0.5:
            seq.sort(key=len)            # a short text first, longer ones later: stale positions would fall outside it
        seqs.append(seq)
    sres = runner.run_go([{"id": i, "op": "parseseq", "args": sq} for i, sq in enumerate(seqs)])
    stats["parse_sequences"] = len(seqs)
    stats["evaluations"] += len(seqs)
    for sq, o in zip(seqs, sres):
        if o.get("changed"):
            fails.append(({"parse_sequence": sq}, {"changed": o["changed"], "detail": o.get("detail")}, None,
                          ["the result of parsing text #%d changed after later texts were parsed (its errors or tree are shared with another parse): %s"
                           % (o["changed"][0], (o.get("detail") or [""])[0][:300])], None))
        elif "changed" not in o:
            fails.append(({"parse_sequence": sq}, o, None, ["parsing a sequence of texts crashed: %s" % str(o)[:200]], None))
    # correspondence of the display model (Model/Show.lean) with Range.ShowOnSource: random ranges,
    # displayable or not, over sources with non-ASCII lines, CR/LF, empty lines
    from runner import enc, dec
    srcs = [t for t in texts[:40] if t] + ["a\nbb\n\nccc", "é🙂\nx", "one line", "\n\n", "tab\there\r\nnext"]
    show_cases, show_lines = [], []
    for sidx, src in enumerate(srcs):
        nl = src.count("\n") + 1
        for _ in range(12 if chk.tier == "quick" else 120):
            l1 = rng.randrange(0, nl + 1)
            l2 = rng.choice([l1, l1, rng.randrange(0, nl + 2)])
            c1, c2 = rng.randrange(0, 12), rng.randrange(0, 14)
            i = len(show_cases)
            show_cases.append({"id": i, "op": "show", "script": src, "positions": [[l1, c1], [l2, c2]]})
            show_lines.append("show\t%d\t%s\t%d:%d-%d:%d" % (i, enc(src), l1, c1, l2, c2))
    sg = runner.run_go(show_cases)
    sl = runner.run_lean(show_lines)
    show_dis = []
    for c, g, l in zip(show_cases, sg, sl):
        f = l.split("\t")
        stats["model_comparisons"] = stats.get("model_comparisons", 0) + 1
        if "panic" in g:
            if f[1] != "panic":
                show_dis.append((c, g, {"model": l[:200]}, ["ShowOnSource panics, the model does not"]))
        elif f[1] != "ok" or dec(f[2]) != g.get("out"):
            show_dis.append((c, g, {"model": l[:300]}, ["ShowOnSource output differs from the model"]))
    stats["show_comparisons"] = len(show_cases)
    # the parser model on every text: same acceptance, same tree
    pdis, pstats = parse_model.compare(texts, gos)
    stats.update(pstats)
    stats["model_comparisons"] = stats.get("model_comparisons", 0) + pstats["parser_model_comparisons"]
    show_dis = show_dis + pdis
    # the lexer with its error recovery: the lexer errors are the model's; every other error starts at a token or at EOF
    import lex_model
    ldis, lstats = lex_model.compare(texts, gos)
    stats.update(lstats)
    stats["model_comparisons"] += lstats["lexer_model_comparisons"]
    show_dis = show_dis + ldis
    stats["model_disagreements"] = len(show_dis)
    unknown = [f for f in fails if not f[4]]
    known = [f for f in fails if f[4]]
    for c, go, m, why, site in unknown[:10] + known[:3]:
        chk.violation("oracle", case=c, go=go, model=m, oracle=why, site=site)
    if not [f for f in fails if True] or all(f[4] for f in fails):
        for t in broken:
            chk.violation("theorem:%s no longer checks" % t, found_input=False, site="theorem:" + t)
    if not unknown:
        for c, go, m, why in show_dis[:3]:
            chk.violation("correspondence:model and implementation differ: %s" % why, case=c, go=go, model=m, found_input=False)
    stats["oracle_failures"] = len([f for f in fails if not f[4]])
    chk.coverage.update(stats)
    chk.coverage["rule"] = ("generated valid scripts, every prefix (subset), token deletion/duplication/insertion/replacement, bracket removal, inserted non-ASCII and control "
                            "characters, token soups, huge numerals, deep nesting; validity decided by an independent recogniser of Numscript.g4 (vlib/ns_recognizer.py); "
                            "non-trivial = invalid text (rejected with located errors)")
    chk.coverage["samples"] = [{"script": texts[5][:200]}, {"script": texts[-3][:80]}]
    chk.coverage["explanation"] = ("recover() around parser.Parse and ParseErrorsToString on the real code; acceptance compared with an independent recogniser; "
                                   "ANTLR's prediction and recovery are observed, not modelled; the literal converters are proved total on their token languages (C13 theorems)")
