"""
Grammar-complete generator for the parser properties (C14, C15).

Every script is produced from the generator's own tree by a printer that
chooses the layout (blanks, tabs, CR/LF, line and block comments between any
two tokens, non-ASCII text in strings and comments) and records, for every
node, the position of its first token and the position just past its last
token, counted in characters.  From the tree and the recorded spans it builds
the S-expression that the harness's serialiser (harness/sexp.go) would write
for the tree the parser *should* return; equality of the two strings validates
structure, literal values and every range at once.
"""
import random

import tricky

from runner import enc

PUNCT = set("()[]{},=*")


class Printer:
    def __init__(self, rng, fancy):
        self.rng = rng
        self.fancy = fancy
        self.parts = []
        self.line = 0
        self.col = 0
        self.prev = None
        self.layout_kinds = {}

    def _write(self, s):
        self.parts.append(s)
        for ch in s:
            if ch == "\n":
                self.line += 1
                self.col = 0
            else:
                self.col += 1

    def sep(self, required):
        r = self.rng
        if not self.fancy:
            if required:
                self._write(" ")
            return
        choices = [" ", " ", "  ", "\t", "\n", "\r\n", "\n  ", " /* c */ ", "/* é 🙂 */", " // note\n", "//x\n\t", " /* a */ /* b */ ",
                   # a lone carriage return is whitespace (and ends a line comment) but does not start a new line
                   "\r", " \r ", "\n\r", "//y\r", "\r\r\n"]
        if not required and r.random() < 0.5:
            return
        s = r.choice(choices)
        # '/' is an ASSET character: a comment glued to an asset, number or ratio token would be lexed as
        # part of it (recorded as a known finding, probed separately in check_c15): keep a blank in between
        if s.startswith("/") and self.prev and self.prev[-1] in "ABCDEFGHIJKLMNOPQRSTUVWXYZ0123456789/" \
                and not self.prev.startswith(("$", "@", '"')):
            s = " " + s
        kind = "comment" if "/" in s else ("newline" if "\n" in s else "blank")
        self.layout_kinds[kind] = self.layout_kinds.get(kind, 0) + 1
        self._write(s)

    def tok(self, text):
        """emit one token; returns (start, end) positions"""
        if self.prev is not None:
            required = not (self.prev in PUNCT or text in PUNCT)
            # a '-' directly followed by digits would lex as a negative NUMBER; '/' starts comments
            if self.prev == "-" or text == "-" or self.prev == "+" or text == "+":
                required = True
            self.sep(required)
        start = (self.line, self.col)
        self._write(text)
        end = (self.line, self.col)
        self.prev = text
        return start, end

    def text(self):
        return "".join(self.parts)


def rng_str(s, e):
    return "%d:%d-%d:%d" % (s[0], s[1], e[0], e[1])


class Gen:
    def __init__(self, rng, depth):
        self.rng = rng
        self.depth = depth
        self.kinds = {}
        self.varnames = []
        self.wide_budget = 1

    def count(self, choices):
        """how many clauses: a few, or (once per script, rarely) many — 5…100, the widths at which a depth counter mistaken
        for a width counter, an inline array or a narrow index would show"""
        if self.wide_budget > 0 and self.rng.random() < 0.04:
            self.wide_budget -= 1
            self.hit("wide")
            return self.rng.choice([5, 9, 17, 31, 32, 33, 34, 65, 100])
        return self.rng.choice(choices)

    def hit(self, k):
        self.kinds[k] = self.kinds.get(k, 0) + 1

    # ----- expressions: return a function p -> (sexp, start, end)
    def atom(self, types=None):
        r = self.rng
        k = r.choice(types or ["var", "asset", "str", "acct", "num", "mon", "ratio", "pct"])
        self.hit("expr:" + k)
        if k == "var":
            name = r.choice(["x", "amt", "acc_1", "_u", "a0", "dest_account"])
            return lambda p: self._leaf(p, "$" + name, lambda R: "(var %s %s)" % (R, enc(name)))
        if k == "asset":
            a = r.choice(["USD", "EUR/2", "COIN", "A/B/9", "X"])
            return lambda p: self._leaf(p, a, lambda R: "(asset %s %s)" % (R, enc(a)))
        if k == "str":
            s = r.choice(["", "hello", "a b", "é", "日本", "x\\\"y", "// not a comment", "/* nor this */", "🙂",
                          "say \\\"hi\\\"", "\\\"", "\\\"\\\"", "\\\"lead", "trail\\\"", " ", "  pad  ", "'"])
            return lambda p: self._leaf(p, '"%s"' % s, lambda R: "(str %s %s)" % (R, enc(s)))
        if k == "acct":
            a = r.choice(["a", "world", "users:001", "a-b_c:D-9", "x:y:z", "W0rld"])
            return lambda p: self._leaf(p, "@" + a, lambda R: "(acct %s %s)" % (R, enc(a)))
        if k == "num":
            # decimal numerals in every spelling: leading zeros, signed zero, digits 8 and 9 after a leading zero
            t = r.choice(["0", "1", "42", "-7", "9007199254740993", "-1", "10", "010", "0100", "-010", "08", "09", "007",
                          "00", "-0", "0777", "9223372036854775807", "-9223372036854775808"])
            if r.random() < 0.4:
                t2 = r.choice(["", "-"]) + tricky.digit_string(r)
                # beyond a machine integer the literal is reported (known finding number-literal-out-of-range, C14);
                # a few are kept: what must never happen is that one is accepted with another value
                if -2 ** 63 <= int(t2) <= 2 ** 63 - 1 or r.random() < 0.25:
                    t = t2
            n = int(t)
            return lambda p: self._leaf(p, t, lambda R: "(num %s %d)" % (R, n))
        if k == "ratio":
            a, b = r.choice([("1", "2"), ("0", "1"), ("01", "010"), ("3", "3"), ("7", "0"), ("123456789012345678901", "999999999999999999999")])
            if r.random() < 0.5:
                a, b = tricky.ratio_parts(r)
            spl, spr = r.choice(["", " "]), r.choice(["", " "])
            return lambda p: self._leaf(p, a + spl + "/" + spr + b, lambda R: "(ratio %s %d %d)" % (R, int(a), int(b)))
        if k == "pct":
            a, b = r.choice([("50", ""), ("0", ""), ("08", ""), ("12", "5"), ("0", "10"), ("100", "000"), ("99999999999999999999", "1")])
            if r.random() < 0.6:
                a, b = tricky.percent_parts(r)
            text = a + ("." + b if b else "") + "%"
            return lambda p: self._leaf(p, text, lambda R: "(ratio %s %d %d)" % (R, int(a + b), 10 ** (2 + len(b))))
        # monetary
        ea = self.expr(self.depth - 1, ["asset", "var"])
        en = self.expr(self.depth - 1, ["num", "var"])

        def mon(p):
            s, _ = p.tok("[")
            sa, _, _ = ea(p)
            sn, _, _ = en(p)
            _, e = p.tok("]")
            return "(mon %s %s %s)" % (rng_str(s, e), sa, sn), s, e
        return mon

    def _leaf(self, p, text, mk):
        s, e = p.tok(text)
        return mk(rng_str(s, e)), s, e

    def expr(self, depth=None, types=None):
        r = self.rng
        depth = self.depth if depth is None else depth
        if depth > 0 and r.random() < 0.25:
            # left-associative chain a op b op c
            n = r.choice([2, 2, 3])
            parts = [self.atom(types) for _ in range(n)]
            ops = [r.choice(["+", "-"]) for _ in range(n - 1)]
            self.hit("expr:infix")

            def chain(p):
                sx, s0, e = parts[0](p)
                for op, part in zip(ops, parts[1:]):
                    p.tok(op)
                    sy, _, e2 = part(p)
                    sx = "(infix %s %s %s %s)" % (rng_str(s0, e2), op, sx, sy)
                    e = e2
                return sx, s0, e
            return chain
        return self.atom(types)

    # ----- allotment
    def allot(self, last):
        r = self.rng
        x = r.random()
        if last and x < 0.4:
            self.hit("allot:remaining")
            return lambda p: self._leaf(p, "remaining", lambda R: "(rem %s)" % R)
        if x < 0.6:
            self.hit("allot:var")
            name = r.choice(["p", "por_x"])
            return lambda p: self._leaf(p, "$" + name, lambda R: "(por (var %s %s))" % (R, enc(name)))
        self.hit("allot:portion")
        at = self.atom(["ratio", "pct"])

        def por(p):
            sx, s, e = at(p)
            return "(por %s)" % sx, s, e
        return por

    # ----- sources
    def source(self, depth):
        r = self.rng
        x = r.random()
        if depth <= 0 or x < 0.3:
            k = r.random()
            ev = self.expr(0 if depth <= 0 else 1, ["acct", "var"])
            if k < 0.5:
                self.hit("src:account")

                def acct(p):
                    sx, s, e = ev(p)
                    return "(sacct %s)" % sx, s, e
                return acct
            if k < 0.75:
                self.hit("src:unbounded")

                def unb(p):
                    sx, s, _ = ev(p)
                    p.tok("allowing")
                    p.tok("unbounded")
                    _, e = p.tok("overdraft")
                    return "(sover %s %s)" % (rng_str(s, e), sx), s, e
                return unb
            self.hit("src:bounded")
            eb = self.expr(1, ["mon", "var"])

            def bnd(p):
                sx, s, _ = ev(p)
                for t in ("allowing", "overdraft", "up", "to"):
                    p.tok(t)
                sb, _, e = eb(p)
                return "(sover %s %s %s)" % (rng_str(s, e), sx, sb), s, e
            return bnd
        if x < 0.55:
            self.hit("src:inorder")
            nsub = self.count([0, 1, 2, 3])
            subs = [self.source(depth - 1 if nsub <= 3 else 0) for _ in range(nsub)]

            def ino(p):
                s, _ = p.tok("{")
                xs = [sub(p)[0] for sub in subs]
                _, e = p.tok("}")
                return "(sin %s%s)" % (rng_str(s, e), "".join(" " + x for x in xs)), s, e
            return ino
        if x < 0.75:
            self.hit("src:capped")
            ec = self.expr(1, ["mon", "var"])
            sub = self.source(depth - 1)

            def cap(p):
                s, _ = p.tok("max")
                sc, _, _ = ec(p)
                p.tok("from")
                sx, _, e = sub(p)
                return "(scap %s %s %s)" % (rng_str(s, e), sc, sx), s, e
            return cap
        self.hit("src:allotment")
        n = self.count([1, 2, 3])
        items = [(self.allot(i == n - 1), self.source(depth - 1 if n <= 3 else 0)) for i in range(n)]

        def allo(p):
            s, _ = p.tok("{")
            xs = []
            for al, sub in items:
                sa, s1, _ = al(p)
                p.tok("from")
                sx, _, e1 = sub(p)
                xs.append("(item %s %s %s)" % (rng_str(s1, e1), sa, sx))
            _, e = p.tok("}")
            return "(sallot %s%s)" % (rng_str(s, e), "".join(" " + x for x in xs)), s, e
        return allo

    # ----- destinations
    def kod(self, depth):
        r = self.rng
        if r.random() < 0.3:
            self.hit("kod:kept")
            return lambda p: self._leaf(p, "kept", lambda R: "(kept %s)" % R)
        self.hit("kod:to")
        d = self.dest(depth)

        def to(p):
            s, _ = p.tok("to")
            sx, _, e = d(p)
            return "(to %s)" % sx, s, e
        return to

    def dest(self, depth):
        r = self.rng
        x = r.random()
        if depth <= 0 or x < 0.4:
            self.hit("dst:account")
            ev = self.expr(0 if depth <= 0 else 1, ["acct", "var"])

            def acct(p):
                sx, s, e = ev(p)
                return "(dacct %s)" % sx, s, e
            return acct
        if x < 0.7:
            self.hit("dst:inorder")
            # at least one `max` clause: `{ remaining to X }` alone is read as an allotment by the grammar
            n = self.count([1, 1, 2, 3])
            clauses = [(self.expr(1, ["mon", "var"]), self.kod(depth - 1 if n <= 3 else 0)) for _ in range(n)]
            rest = self.kod(depth - 1)

            def ino(p):
                s, _ = p.tok("{")
                xs = []
                for ec, k in clauses:
                    s1, _ = p.tok("max")
                    sc, _, _ = ec(p)
                    sk, _, e1 = k(p)
                    xs.append("(clause %s %s %s)" % (rng_str(s1, e1), sc, sk))
                p.tok("remaining")
                sr, _, _ = rest(p)
                _, e = p.tok("}")
                return "(din %s %s%s)" % (rng_str(s, e), sr, "".join(" " + x for x in xs)), s, e
            return ino
        self.hit("dst:allotment")
        n = self.count([1, 2, 3])
        items = [(self.allot(i == n - 1), self.kod(depth - 1 if n <= 3 else 0)) for i in range(n)]

        def allo(p):
            s, _ = p.tok("{")
            xs = []
            for al, k in items:
                sa, s1, _ = al(p)
                sk, _, e1 = k(p)
                xs.append("(item %s %s %s)" % (rng_str(s1, e1), sa, sk))
            _, e = p.tok("}")
            return "(dallot %s%s)" % (rng_str(s, e), "".join(" " + x for x in xs)), s, e
        return allo

    # ----- statements
    def sent_value(self):
        r = self.rng
        if r.random() < 0.35:
            self.hit("sent:all")
            ea = self.expr(0, ["asset", "var"])

            def al(p):
                s, _ = p.tok("[")
                sa, _, _ = ea(p)
                p.tok("*")
                _, e = p.tok("]")
                return "(all %s %s)" % (rng_str(s, e), sa), s, e
            return al
        self.hit("sent:lit")
        em = self.expr(None, ["mon", "var"])

        def lit(p):
            sx, s, e = em(p)
            return "(lit %s %s)" % (rng_str(s, e), sx), s, e
        return lit

    def call(self, names):
        r = self.rng
        name = r.choice(names)
        args = [self.expr() for _ in range(r.choice([0, 1, 2, 3]))]
        self.hit("call:" + name)

        def c(p):
            s, ne = p.tok(name)
            p.tok("(")
            xs = []
            for i, a in enumerate(args):
                if i:
                    p.tok(",")
                xs.append(a(p)[0])
            _, e = p.tok(")")
            return "(call %s %s %s%s)" % (rng_str(s, e), rng_str(s, ne), enc(name), "".join(" " + x for x in xs)), s, e
        return c

    def statement(self):
        r = self.rng
        x = r.random()
        if x < 0.6:
            self.hit("stmt:send")
            sv = self.sent_value()
            src = self.source(self.depth)
            dst = self.dest(self.depth)

            def send(p):
                s, _ = p.tok("send")
                ssv = sv(p)[0]
                for t in ("(", "source", "="):
                    p.tok(t)
                ss = src(p)[0]
                p.tok("destination")
                p.tok("=")
                sd = dst(p)[0]
                _, e = p.tok(")")
                return "(send %s %s %s %s)" % (rng_str(s, e), ssv, ss, sd), s, e
            return send
        if x < 0.8:
            self.hit("stmt:save")
            sv = self.sent_value()
            ea = self.expr(1, ["acct", "var"])

            def save(p):
                s, _ = p.tok("save")
                ssv = sv(p)[0]
                p.tok("from")
                sa, _, e = ea(p)
                return "(save %s %s %s)" % (rng_str(s, e), ssv, sa), s, e
            return save
        self.hit("stmt:call")
        return self.call(["set_tx_meta", "set_account_meta", "overdraft", "my_fn", "f"])

    def program(self):
        r = self.rng
        decls = []
        has_vars = r.random() < 0.6
        if has_vars:
            for _ in range(r.choice([0, 1, 2, 4])):
                ty = r.choice(["monetary", "account", "portion", "asset", "number", "string", "weird_type"])
                name = r.choice(["x", "amt", "acc_1", "_u", "p", "por_x"])
                origin = self.call(["meta", "balance", "overdraft"]) if r.random() < 0.3 else None
                self.hit("decl:" + ("origin" if origin else "plain"))
                decls.append((ty, name, origin))
        stmts = [self.statement() for _ in range(r.choice([0, 1, 1, 2, 3]))]

        def prog(p):
            ds = []
            if has_vars:
                p.tok("vars")
                p.tok("{")
                for ty, name, origin in decls:
                    ts, te = p.tok(ty)
                    ns, ne = p.tok("$" + name)
                    end = ne
                    so = "nil"
                    if origin:
                        p.tok("=")
                        so, _, end = origin(p)
                    ds.append("(decl %s (name %s %s) (type %s %s) %s)" % (
                        rng_str(ts, end), rng_str(ns, ne), enc(name), rng_str(ts, te), enc(ty), so))
                p.tok("}")
            ss = [st(p)[0] for st in stmts]
            return "(prog (vars%s) (stmts%s))" % ("".join(" " + d for d in ds), "".join(" " + s for s in ss))
        return prog


def gen_script(seed, index, fancy=True, depth=3):
    rng = random.Random("parse-%s/%s" % (seed, index))
    g = Gen(rng, depth)
    prog = g.program()
    p = Printer(rng, fancy)
    sexp = prog(p)
    text = p.text()
    if fancy and rng.random() < 0.5:
        text += rng.choice(["\n", " ", "\n// end\n", "\t/* bye */"])
    return text, sexp, g.kinds, p.layout_kinds
