"""C20 — the CLI reports exactly what the library computes (translation validation of the built binary)."""
import binascii
import json
import os
import random
import re
import shutil
import subprocess
import tempfile
from concurrent.futures import ThreadPoolExecutor

import analysis_common as A
import gen_check
import props_exec as P
import runner
from registry import REGISTRY

ANSI = re.compile(r"\x1b\[[0-9;]*m")


def build_cli(name="numscript-cli"):
    out = os.path.join(runner.BUILD, name)
    if os.path.exists(out):
        os.remove(out)
    r = runner.sh(["go", "build", "-o", out, "./internal/numscript"], cwd=runner.REPO, env=runner.GOENV)
    if r.returncode != 0:
        raise runner.BuildFailure("CLI-BUILD-FAILED\n" + r.stdout)
    return out


def run_cli(args, stdin=None, cwd=None):
    """bytes in, bytes out (no newline translation: a message may contain a CR)"""
    try:
        p = subprocess.run(args, input=None if stdin is None else stdin.encode("utf-8"), stdout=subprocess.PIPE, stderr=subprocess.PIPE, timeout=30, cwd=cwd)
        return p.returncode, p.stdout.decode("utf-8", "replace"), p.stderr.decode("utf-8", "replace")
    except subprocess.TimeoutExpired:
        return -99, "", "timeout"


def bal_json(case):
    out = {a: {c: int(v) for c, v in m.items()} for a, m in case.get("balances", {}).items()}
    for a, cs in (case.get("nilBalances") or {}).items():
        for c in cs:
            out.setdefault(a, {}).setdefault(c, None)         # `null`: decoded as a nil amount
    return out


def run(chk):
    broken = chk.obligations(REGISTRY["C20"])
    runner.build_harness()
    cli = build_cli()
    rng = random.Random("C20-%d" % chk.seed)
    tmp = tempfile.mkdtemp(prefix="nscli")
    fails = []
    model_dis = []
    stats = {"programs": 0, "disagreements_checked": 0, "check_runs": 0, "run_runs": 0, "distinct_nontrivial": 0, "evaluations": 0}
    samples = []
    try:
        # ---------------- numscript run
        n = chk.size(150, 2500)
        cases, gens = P.make_cases("C20", chk.seed, n, profile_override={"origins": 0.4, "stmts_max": 3})
        # texts with parse errors too (the CLI must display them and exit 1)
        for k, c0 in enumerate(list(cases[: chk.size(15, 200)])):
            for b in gen_check.broken_variants(c0["script"], rng, 2):
                if "\x00" not in b:
                    cases.append({"id": len(cases), "op": "exec", "script": b, "vars": dict(c0.get("vars", {})), "balances": c0.get("balances", {}),
                                  "meta": c0.get("meta", {}), "failAt": -1})
        # scripts that need a feature, run WITHOUT it (flag absent, or given as `=false`): the library's
        # ExperimentalFeature error is what the CLI must show
        for c0 in [c for c in cases if c.get("flags")][: chk.size(20, 200)]:
            c1 = {k: v for k, v in c0.items() if k != "flags"}
            c1["id"] = len(cases)
            cases.append(c1)
        for c in cases:
            c["store"] = "static"
            c["perStmt"] = False
        gos = runner.run_go(cases)
        jobs = []
        for i, (c, o) in enumerate(zip(cases, gos)):
            if "go" not in o:
                continue
            raw = json.dumps({"script": c["script"], "variables": c["vars"], "balances": bal_json(c), "metadata": c.get("meta", {})})
            # the flag bare, or with an explicit value (absent and `=false` mean the same)
            flags = [["--experimental-overdraft-function"], ["--experimental-overdraft-function=true"]][i % 2] if c.get("flags") else \
                [[], ["--experimental-overdraft-function=false"]][i % 2]
            d = os.path.join(tmp, "c%d" % i)
            os.makedirs(d)
            open(os.path.join(d, "s.num"), "w").write(c["script"])
            json.dump(c["vars"], open(os.path.join(d, "v.json"), "w"))
            json.dump(bal_json(c), open(os.path.join(d, "b.json"), "w"))
            json.dump(c.get("meta", {}), open(os.path.join(d, "m.json"), "w"))
            common = ["--output-format", "json"] + flags
            jobs.append((i, "raw", [cli, "run", "--raw", raw] + common, None))
            # every fourth document on stdin is larger than a pipe buffer (it arrives in several reads); unknown
            # fields are ignored by the decoder
            big_raw = raw if i % 4 else json.dumps(dict(json.loads(raw), _padding="x" * 300000))
            jobs.append((i, "stdin", [cli, "run", "--stdin"] + common, big_raw))
            jobs.append((i, "files", [cli, "run", os.path.join(d, "s.num"), "-v", os.path.join(d, "v.json"),
                                      "-b", os.path.join(d, "b.json"), "-m", os.path.join(d, "m.json")] + common, None))
        with ThreadPoolExecutor(max_workers=runner.NPROC) as ex:
            results = list(ex.map(lambda j: run_cli(j[2], j[3]), jobs))
        # the model of `run` (Model/CliRun.lean) on what the library computed: stdout, stderr and status, byte for byte
        mlines, midx = [], {}
        for i, (c, o) in enumerate(zip(cases, gos)):
            if "go" not in o:
                continue
            go = o["go"]
            if o.get("parseErrorList"):
                kind, payload = "parse", " ".join("%s %s" % (r, runner.enc(m)) for r, m in o["parseErrorList"])
            elif go["outcome"] == "err":
                kind, payload = "fail", "%s %s" % (go.get("errRange", "0:0-0:0"), runner.enc(go.get("errMsg", "")))
            elif go["outcome"] == "ok" and go.get("resultJson"):
                kind, payload = "ok", runner.enc(go["resultJson"])
            else:
                continue
            midx[i] = len(mlines)
            mlines.append("clirun\t%d\t%s\t%s\t%s" % (i, runner.enc(c["script"]), kind, payload))
        mouts = runner.run_lean(mlines) if mlines else []
        for (i, chan, argv, _), (code, out, err) in zip(jobs, results):
            c, go = cases[i], gos[i]["go"]
            if i in midx:
                f = (mouts[midx[i]] or "").split("\t")
                stats["model_comparisons"] = stats.get("model_comparisons", 0) + 1
                if len(f) >= 5 and f[1] == "ok":
                    unh = lambda h: binascii.unhexlify(h).decode("utf-8", "replace") if h != "-" else ""
                    if (unh(f[2]), unh(f[3]), int(f[4])) != (out, err, code):
                        model_dis.append((dict(c, _argv=argv[1:4]), {"exit": code, "stdout": out[:600], "stderr": err[:600]},
                                          {"exit": f[4], "stdout": unh(f[2])[:600], "stderr": unh(f[3])[:600]},
                                          ["[%s] what `run` wrote differs from the model's output for the library's outcome" % chan]))
                elif len(f) >= 2 and f[1] == "panic":
                    if code == 0:
                        model_dis.append((dict(c, _argv=argv[1:4]), {"exit": code}, mouts[midx[i]][:200], ["model: displaying the error panics; the CLI exits 0"]))
                else:
                    model_dis.append((dict(c, _argv=argv[1:4]), {"exit": code}, (mouts[midx[i]] or "")[:200], ["run model failed"]))
            stats["run_runs"] += 1
            stats["disagreements_checked"] += 1
            why = []
            if gos[i].get("parseErrors"):
                if code == 0:
                    why.append("script with parse errors: exit 0")
            elif go["outcome"] == "ok":
                if code != 0:
                    why.append("[%s] library succeeds, CLI exits %d: %s" % (chan, code, err[:200]))
                else:
                    try:
                        j = json.loads(out)
                    except Exception as e:
                        why.append("[%s] output is not JSON: %s" % (chan, out[:200]))
                        j = None
                    if j is not None:
                        ps = [[p["source"], p["destination"], str(p["amount"]), p["asset"]] for p in (j.get("postings") or [])]
                        if ps != go["postings"]:
                            why.append("[%s] postings %s, library %s" % (chan, ps, go["postings"]))
                        tx = {k: v for k, v in (j.get("txMeta") or {}).items()}
                        want = {k: v[1] for k, v in (go.get("txMeta") or {}).items()}
                        if tx != want:
                            why.append("[%s] txMeta %s, library %s" % (chan, tx, want))
                        am = {a: m for a, m in (j.get("accountsMeta") or {}).items() if m}
                        wam = {a: m for a, m in (go.get("accMeta") or {}).items() if m}
                        if am != wam:
                            why.append("[%s] accountsMeta %s, library %s" % (chan, am, wam))
                        if ps:
                            stats["distinct_nontrivial"] += 1
            elif go["outcome"] == "err":
                if code == 0:
                    why.append("[%s] library fails with %s, CLI exits 0" % (chan, go.get("errKind")))
                elif go.get("errMsg") and go["errMsg"] not in err:
                    why.append("[%s] error message %r not in stderr %r" % (chan, go["errMsg"], err[:200]))
                else:
                    stats["distinct_nontrivial"] += 1
            elif go["outcome"] == "panic" and code == 0:
                why.append("[%s] library panics, CLI exits 0" % chan)
            if why:
                fails.append((dict(c, _argv=argv[1:4]), {"exit": code, "stdout": out[:500], "stderr": err[:500]}, go, why))
            if len(samples) < 2 and go["outcome"] == "ok" and go["postings"]:
                samples.append({"argv": ["numscript"] + argv[1:3], "script": c["script"], "stdout": out[:300]})
        stats["programs"] += len(cases)

        # ---------------- numscript check
        m = chk.size(120, 2000)
        texts = []
        for i in range(m):
            c, g = gen_check.valid_script(chk.seed + 9, i, {"stmts_max": 2})
            texts.append(c["script"])
            for fn in (gen_check.name_edit, gen_check.type_edit):
                e = fn(c["script"], rng)
                if e:
                    texts.append(e[0])
            texts += gen_check.broken_variants(c["script"], rng, 1)
        # every kind of diagnostic as the ONLY one of a text: zero denominators, edge literals, each static error alone
        import tricky
        texts += tricky.literal_scripts(rng, chk.size(30, 400))
        for z in ("1/0", "0/0", "7 / 0", "00/000"):
            texts.append("send [USD 10] (\n  source = @world\n  destination = { %s to @a remaining to @b }\n)\n" % z)
            texts.append("send [USD 10] (\n  source = { %s from @a remaining from @world }\n  destination = @b\n)\n" % z)
            texts.append("set_tx_meta(\"k\", %s)\n" % z)
        # boundary numbers of error diagnostics (an exit status keeps 8 bits)
        for k in (1, 2, 255, 256, 257, 512, 1024):
            texts.append("".join('set_tx_meta("k%d", $u%d)\n' % (j % 7, j) for j in range(k)))
        texts = [t for t in texts if "\x00" not in t]
        gos2, _ = A.analyze_both([{"script": t} for t in texts]) if False else (runner.run_go(
            [{"id": i, "op": "analyze", "script": t} for i, t in enumerate(texts)]), None)
        cjobs = []
        for i, t in enumerate(texts):
            p = os.path.join(tmp, "k%d.num" % i)
            open(p, "w", encoding="utf-8").write(t)
            cjobs.append([cli, "check", p])
        with ThreadPoolExecutor(max_workers=runner.NPROC) as ex:
            cres = list(ex.map(lambda a: run_cli(a), cjobs))
        report_jobs = []
        for t, o, argv, (code, out, err) in zip(texts, gos2, cjobs, cres):
            stats["check_runs"] += 1
            stats["disagreements_checked"] += 1
            if "diags" not in o:
                if code == 0:
                    fails.append(({"script": t}, {"exit": code}, o, ["analysis panics in the library, CLI exits 0"]))
                continue
            why = []
            # counted here from the severities of the diagnostics themselves, not taken from GetErrorsCount()
            nerr = sum(1 for d in o["diags"] if d[1] == "1")
            if o.get("errorCount") != nerr:
                why.append("GetErrorsCount() = %s with %d error-severity diagnostics" % (o.get("errorCount"), nerr))
            if (code != 0) != (nerr > 0):
                why.append("exit status %d with %d error-severity diagnostics" % (code, nerr))
            clean = ANSI.sub("", out)
            listed = re.findall(r"^%s:(\d+):(\d+) - (Error|Warning|Info|Hint)$" % re.escape(argv[2]), clean, re.M)
            want = sorted((d[2].split("-")[0].split(":")[0], d[2].split("-")[0].split(":")[1], {"1": "Error", "2": "Warning"}.get(d[1], "?")) for d in o["diags"])
            if sorted(listed) != want:
                why.append("listed diagnostics %s, library %s" % (sorted(listed)[:6], want[:6]))
            elif [(int(a), int(b)) for a, b, _ in listed] != sorted((int(a), int(b)) for a, b, _ in listed):
                why.append("diagnostics are not listed in position order: %s" % listed[:8])
            elif o.get("messages") is not None and len(o["messages"]) == len(o["diags"]):
                # the whole report: the model prints the library's diagnostics (position, severity, message) in the
                # order the CLI chose among equal positions; stdout must be exactly that
                pool = {}
                for d, msg in zip(o["diags"], o["messages"]):
                    l, ch = d[2].split("-")[0].split(":")
                    pool.setdefault((l, ch, {"1": "Error", "2": "Warning"}.get(d[1], "?")), []).append((d[1], msg))
                ordered = []
                blocks = re.split(r"(?m)^(?=%s:\d+:\d+ - )" % re.escape(argv[2]), clean)
                ok_order = True
                for key, blk in zip(listed, [b for b in blocks if b.startswith(argv[2] + ":")]):
                    cands = pool.get(key, [])
                    body = blk.split("\n", 1)[1] if "\n" in blk else ""
                    pick = next((i for i, (sv, msg) in enumerate(cands) if body.startswith(msg + "\n")), None)
                    if pick is None:
                        ok_order = False
                        why.append("diagnostic at %s:%s is not printed with the library's message (one of %s); printed %r" % (key[0], key[1], [m for _, m in cands][:3], body[:120]))
                        break
                    sv, msg = cands.pop(pick)
                    ordered.append((key[0], key[1], sv, msg))
                if ok_order:
                    report_jobs.append((t, argv, code, out, ordered, o))
            if o["diags"]:
                stats["distinct_nontrivial"] += 1
            if why:
                fails.append(({"script": t}, {"exit": code, "stdout": clean[:600]}, {"diags": o["diags"]}, why))
        stats["programs"] += len(texts)
        # model of the report (Model/CliReport.lean) on the same diagnostics: byte-identical stdout, same status
        lines = ["checkreport\t%d\t%s\t%s" % (i, runner.enc(argv[2]), " ".join("%s %s %s %s" % (l, ch, sv, runner.enc(msg)) for l, ch, sv, msg in ordered))
                 for i, (t, argv, code, out, ordered, o) in enumerate(report_jobs)]
        for (t, argv, code, out, ordered, o), ml in zip(report_jobs, runner.run_lean(lines) if lines else []):
            f = (ml or "").split("\t")
            stats["model_comparisons"] = stats.get("model_comparisons", 0) + 1
            if len(f) >= 4 and f[1] == "ok":
                mout = binascii.unhexlify(f[2]).decode("utf-8") if f[2] != "-" else ""
                if mout != out or int(f[3]) != code:
                    model_dis.append(({"script": t}, {"exit": code, "stdout": out[:800]}, {"exit": f[3], "stdout": mout[:800]},
                                      ["the report printed by `check` differs from the model's report of the library's diagnostics"]))
            else:
                model_dis.append(({"script": t}, {"exit": code, "stdout": out[:300]}, ml, ["report model failed"]))
    finally:
        shutil.rmtree(tmp, ignore_errors=True)
        try:
            os.remove(cli)
        except OSError:
            pass
    for c, go, m_, why in fails[:10]:
        chk.violation("oracle", case=c, go=go, model=m_, oracle=why)
    stats["model_disagreements"] = len(model_dis)
    if not fails:
        for c, go, m_, why in model_dis[:3]:
            chk.violation("correspondence:" + why[0], case=c, go=go, model=m_, found_input=False)
        for t in broken:
            chk.violation("theorem:%s no longer checks" % t, found_input=False, site="theorem:" + t)
    stats["evaluations"] = stats["run_runs"] + stats["check_runs"]
    stats["oracle_failures"] = len(fails)
    chk.coverage.update(stats)
    chk.coverage["samples"] = samples or [{"argv": ["numscript", "check", "FILE"]}]
    chk.coverage["rule"] = ("generated scripts (succeeding, failing, with metadata and origins, amounts beyond 2^64) through --raw, --stdin and file flags in JSON mode; "
                            "generated clean / warning-only / erroneous / broken texts through `check`; non-trivial = run with postings or error, check with diagnostics")
    chk.coverage["explanation"] = "the binary built from the working tree vs the library called in-process (exit status, stdout JSON, stderr message, listed diagnostics)"
