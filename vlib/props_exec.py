"""
Checks for the execution properties C01–C12 (stream "exec" and its variants):
correspondence Lean model ↔ Go interpreter on the property's projection, and the
property's oracle evaluated on the real code.
"""
import copy
import hashlib
import json
import re
from fractions import Fraction

import gen_exec
import spec
from runner import (run_go, run_lean, lean_exec_line, parse_lean_exec, diff_exec, go_projection)

ACCOUNT_RE = re.compile(r"^[a-zA-Z0-9_-]+(:[a-zA-Z0-9_-]+)*$")

PROFILES = {
    "C01": {"neg_balance": 0.25, "overdraft_bounded": 0.3, "save": 0.15, "acct_var": 0.3},
    "C02": {"neg_balance": 0.2, "kept": 0.35},
    "C03": {"send": 0.8, "sendall": 0.05, "save": 0.08, "over_literal": 0.02},
    "C04": {"send": 0.5, "sendall": 0.35, "save": 0.05, "depth": 4},
    "C05": {"ddepth": 3, "kept": 0.25, "send": 0.6, "sendall": 0.25},
    "C06": {"send": 0.7, "sendall": 0.1},
    "C07": {"kept": 0.3, "ddepth": 3, "depth": 3},
    "C08": {"save": 0.35, "send": 0.4, "sendall": 0.15, "stmts_max": 5, "neg_balance": 0.25},
    "C09": {"stmts_max": 5, "save": 0.2},
    "C10": {"origins": 0.6, "save": 0.15},
    "C11": {"origins": 0.3},
    "C12": {"origins": 0.4, "bad_allot_sum": 0.1, "negative_amount": 0.08, "bad_call": 0.05, "bad_origin": 0.06},
    "C20": {"origins": 0.4},
}

KEYS = {
    "C01": ["postings"], "C02": ["postings"], "C03": ["postings", "errKind", "errPayload"],
    "C04": ["postings"], "C05": ["postings"], "C06": ["postings", "errKind"], "C07": ["postings"],
    "C08": ["postings"], "C09": ["postings", "txMeta", "accMeta"],
    "C10": ["postings", "queries", "errKind", "errPayload", "txMeta", "accMeta"],
    "C11": ["postings", "txMeta", "accMeta", "errKind", "errPayload", "queries"],
    "C12": ["errKind", "errPayload", "postings"],
}


def flat_balances(case):
    return {(a, c): int(v) for a, m in case.get("balances", {}).items() for c, v in m.items()}


def expected(case, gen):
    """reference outcome from the generator's own tree"""
    if gen.get("var_error"):
        return {"outcome": "err", "kind": gen["var_error"][0], "payload": gen["var_error"][1], "stmt": -1}
    try:
        r = spec.run_statements(gen["stmts"], flat_balances(case))
        r["outcome"] = "ok"
        return r
    except spec.SpecError as e:
        return {"outcome": "err", "kind": e.kind, "payload": e.payload, "stmt": getattr(e, "stmt", None)}


def stmt_postings(go):
    """split Go's flat posting list per statement using the prefix runs"""
    ends = go.get("stmtEnds")
    if ends is None:
        return None
    out, prev = [], 0
    for e in ends:
        out.append([tuple(p) for p in go["postings"][prev:e]])
        prev = e
    return out


# ---------------------------------------------------------------- oracles (on the real code's output)

def oracle_C01(case, gen, go, exp):
    if go["outcome"] != "ok":
        return []
    grants, unb = gen_exec.grants_of(gen["stmts"])
    v = spec.replay_floor_violations([tuple(p) for p in go["postings"]], flat_balances(case), grants, unb)
    return ["posting %d drives %s/%s to %d below floor %d" % x for x in v[:3]]


def oracle_C02(case, gen, go, exp):
    if go["outcome"] != "ok":
        return []
    out = []
    per = stmt_postings(go)
    for i, (s, d, m, a) in enumerate(go["postings"]):
        if int(m) <= 0:
            out.append("posting %d has non-positive amount %s" % (i, m))
        for nme in (s, d):
            if nme == "" or nme == spec.KEPT or not ACCOUNT_RE.match(nme):
                out.append("posting %d names %r" % (i, nme))
    if per is not None:
        for k, ps in enumerate(per):
            st = gen["stmts"][k]
            for p in ps:
                if st[0] not in ("send", "sendall"):
                    out.append("statement %d (%s) produced a posting" % (k, st[0]))
                elif p[3] != st[1]:
                    out.append("posting of statement %d carries asset %s, statement sends %s" % (k, p[3], st[1]))
    return out


def oracle_C03(case, gen, go, exp):
    out = []
    if go["outcome"] == "err" and (go.get("postings") or go.get("bothResultAndError")):
        out.append("error returned together with a result")
    if exp["outcome"] == "ok":
        if go["outcome"] != "ok":
            out.append("spurious failure %s %s: the reference draw finds the funds" % (go.get("errKind"), go.get("errPayload")))
            return out
        per = stmt_postings(go)
        if per is None:
            return out
        for k, st in enumerate(gen["stmts"]):
            if st[0] == "send":
                total = sum(int(p[2]) for p in per[k])
                want = st[2] - exp["kept"][k]
                if total != want:
                    out.append("statement %d: postings sum %d, expected %d (= %d - kept %d)" % (k, total, want, st[2], exp["kept"][k]))
    elif exp["kind"] == "MissingFundsErr":
        if go["outcome"] == "ok":
            out.append("succeeded although the sources cannot supply the amount (reference: %s)" % exp["payload"])
        elif go.get("errKind") != "MissingFundsErr":
            out.append("failed with %s instead of insufficient funds" % go.get("errKind"))
    return out


def _per_stmt_compare(gen, go, exp, f, what):
    if exp["outcome"] != "ok" or go["outcome"] != "ok":
        return []
    per = stmt_postings(go)
    if per is None:
        return []
    out = []
    for k, ps in enumerate(per):
        g = {a: v for a, v in f(ps).items() if v != 0}
        e = {a: v for a, v in f(exp["per_stmt"][k]).items() if v != 0}
        if g != e:
            out.append("statement %d: %s %s, reference %s" % (k, what, g, e))
    return out


def oracle_C04(case, gen, go, exp):
    out = _per_stmt_compare(gen, go, exp, spec.debits, "debits")
    if exp["outcome"] == "err" and exp["kind"] in ("InvalidUnboundedInSendAll", "InvalidAllotmentInSendAll"):
        if go["outcome"] == "ok":
            out.append("send-all accepted an unbounded/allotment source outside a cap")
    if exp["outcome"] == "ok" and go["outcome"] == "err" and go.get("errKind") in ("InvalidUnboundedInSendAll", "InvalidAllotmentInSendAll"):
        out.append("send-all rejected a bounded source: %s" % go.get("errKind"))
    return out


def oracle_C05(case, gen, go, exp):
    out = _per_stmt_compare(gen, go, exp, spec.credits, "credits")
    if exp["outcome"] == "ok" and go["outcome"] == "ok":
        per = stmt_postings(go)
        if per is not None:
            for k, st in enumerate(gen["stmts"]):
                if st[0] in ("send", "sendall"):
                    sent = sum(g for _, g in exp["pulls"][k])
                    credited = sum(int(p[2]) for p in per[k])
                    if credited + exp["kept"][k] != sent:
                        out.append("statement %d: credited %d + kept %d != sent %d" % (k, credited, exp["kept"][k], sent))
    return out


def oracle_C07(case, gen, go, exp):
    return _per_stmt_compare(gen, go, exp, spec.flow_matrix, "flows")


def oracle_C08(case, gen, go, exp):
    # postings of the statements following a save must be the reference's (which draws from the reduced visible balance)
    if exp["outcome"] != "ok" or go["outcome"] != "ok":
        if exp["outcome"] == "err" and exp["kind"] == "NegativeAmountErr" and go["outcome"] == "ok":
            return ["negative save/send accepted"]
        if exp["outcome"] == "err" and exp["kind"] == "MissingFundsErr" and go["outcome"] == "ok" and any(s[0] == "save" for s in gen["stmts"]):
            return ["a later statement moved funds that the reference holds as saved/missing"]
        return []
    per = stmt_postings(go)
    out = []
    if per is not None:
        seen_save = False
        for k, st in enumerate(gen["stmts"]):
            if st[0] == "save":
                seen_save = True
                if per[k]:
                    out.append("save statement %d produced postings" % k)
            elif seen_save and [tuple(p) for p in per[k]] != [(s, d, str(m), a) for s, d, m, a in exp["per_stmt"][k]]:
                out.append("statement %d after a save: postings %s, reference %s" % (k, per[k], exp["per_stmt"][k]))
    return out


def oracle_C09(case, gen, go, exp):
    """every statement sees what the earlier ones left: the metadata at the end is the last write of each entry, and
    each statement's net effect per account is the reference's (which runs the statements one after the other)"""
    if exp["outcome"] != "ok" or go["outcome"] != "ok":
        return []
    out = []
    tx = {k: tuple(v) for k, v in (go.get("txMeta") or {}).items()}
    if tx != {k: tuple(v) for k, v in exp["tx"].items()}:
        out.append("transaction metadata %s, the last writes are %s" % (tx, exp["tx"]))
    am = {a: m for a, m in (go.get("accMeta") or {}).items() if m}
    if am != {a: m for a, m in exp["acc"].items() if m}:
        out.append("account metadata %s, the last writes are %s" % (am, exp["acc"]))
    per = stmt_postings(go)
    if per is not None and len(per) == len(exp["per_stmt"]):
        for k, ps in enumerate(per):
            net_g, net_e = {}, {}
            for s, d, m, a in ps:
                net_g[(s, a)] = net_g.get((s, a), 0) - int(m)
                net_g[(d, a)] = net_g.get((d, a), 0) + int(m)
            for s, d, m, a in exp["per_stmt"][k]:
                net_e[(s, a)] = net_e.get((s, a), 0) - int(m)
                net_e[(d, a)] = net_e.get((d, a), 0) + int(m)
            net_g = {x: v for x, v in net_g.items() if v}
            net_e = {x: v for x, v in net_e.items() if v}
            if net_g != net_e:
                out.append("statement %d: net effect %s, run after its predecessors the reference gives %s" % (k, sorted(net_g.items())[:6], sorted(net_e.items())[:6]))
                break
    return out


def oracle_C12(case, gen, go, exp):
    out = []
    if go["outcome"] == "panic":
        out.append("panic: %s" % go.get("panic"))
    if go.get("bothResultAndError"):
        out.append("result returned together with an error")
    if case.get("failAt", -1) >= 0 and go["outcome"] != "panic":
        # a store failure must surface with the store's message
        k = case["failAt"]
        base_calls = case.get("_base_calls")
        if base_calls is not None and k < base_calls:
            if go["outcome"] != "err" or go.get("errKind") not in ("QueryBalanceError", "QueryMetadataError") \
                    or go.get("errPayload") != ["injected-fault-%d" % k]:
                out.append("store failure at call %d did not surface: %s %s %s" % (k, go["outcome"], go.get("errKind"), go.get("errPayload")))
    elif go["outcome"] == "err" and exp["outcome"] == "err":
        if go.get("errKind") != exp["kind"] and exp["kind"] not in ("?",):
            # the reference stops at the first cause in source→destination, left-to-right order
            out.append("error kind %s, reference cause %s %s" % (go.get("errKind"), exp["kind"], exp["payload"]))
    elif go["outcome"] == "err" and exp["outcome"] == "ok":
        out.append("failed with %s %s on a script the reference executes" % (go.get("errKind"), go.get("errPayload")))
    elif go["outcome"] == "ok" and exp["outcome"] == "err":
        out.append("succeeded although the reference fails with %s" % exp["kind"])
    return out


ORACLES = {"C01": oracle_C01, "C02": oracle_C02, "C03": oracle_C03, "C04": oracle_C04, "C05": oracle_C05,
           "C07": oracle_C07, "C08": oracle_C08, "C09": oracle_C09, "C12": oracle_C12}


def nontrivial(pid, case, gen, go, exp):
    f = set(gen["features"])
    ok = go["outcome"] == "ok"
    n = len(go.get("postings") or [])
    if pid == "C01":
        return ok and n >= 1 and any(p[0] != "world" for p in go["postings"])
    if pid == "C02":
        return ok and n >= 1
    if pid == "C03":
        return any(s[0] == "send" and s[2] > 0 for s in gen["stmts"]) and (ok or go.get("errKind") == "MissingFundsErr")
    if pid == "C04":
        return ok and n >= 1 and ("src-inorder" in f or "src-capped" in f or "src-allot" in f)
    if pid == "C05":
        return ok and n >= 1 and ("dst-inorder" in f or "dst-allot" in f)
    if pid == "C06":
        return ok and n >= 2 and ("dst-allot" in f or "src-allot" in f)
    if pid == "C07":
        return ok and n >= 2
    if pid == "C08":
        return "save" in f and (ok and n >= 1 or go.get("errKind") == "MissingFundsErr")
    if pid == "C09":
        return ok and len(gen["stmts"]) >= 2 and n >= 1
    if pid == "C10":
        return len(go.get("queries") or []) >= 1
    if pid == "C11":
        return ok and n >= 1
    if pid == "C12":
        return go["outcome"] == "err"
    return ok


def case_key(case):
    return hashlib.sha256(json.dumps({k: case[k] for k in ("script", "vars", "balances", "meta", "store", "failAt", "flags") if k in case},
                                     sort_keys=True).encode()).hexdigest()


def make_cases(pid, seed, n, start=0, profile_override=None):
    cases, gens = [], []
    prof = dict(PROFILES.get(pid, {}))
    if profile_override:
        prof.update(profile_override)
    prof.setdefault("multi_remaining", 0.06)     # run-time streams only: statically it is an error (RemainingIsNotLast)
    for i in range(start, start + n):
        c, g = gen_exec.gen_case("%s-%d" % (pid, seed), i, prof)
        # every stream alternates the store behaviour: answers exactly what was asked (zeros included), the
        # caller-owned static store (whole accounts), everything it holds, or only the non-zero entries asked for
        # (C10 keeps the exact store as base: its extra runs derive the set of requested pairs from the base run)
        store = ["exact", "static", "superset", "sparse"][i % 4] if pid in ("C11", "C12") else \
            "exact" if pid == "C10" else ["exact", "sparse", "exact", "static", "exact", "superset"][i % 6]
        c.update({"id": i, "op": "exec", "store": store, "failAt": -1, "perStmt": True})
        if i % 3 == 0:
            alt_inputs(c, i)
        cases.append(c)
        gens.append(g)
    return cases, gens


def alt_inputs(c, i):
    """other inputs for a second run of the same parse result: every numeric variable text and every balance moved"""
    import re
    av = {}
    for k, v in c.get("vars", {}).items():
        m = re.fullmatch(r"(.*?)(-?\d+)", v)
        av[k] = (m.group(1) + str(int(m.group(2)) + 1 + i % 5)) if m and "/" not in v and "%" not in v else v
    swap = {"USD": "COIN", "COIN": "USD", "EUR/2": "EUR/2"} if i % 2 else {}
    if swap:
        # the second run also moves to another asset (what was cached or memoised for the first run's asset is stale)
        for k, v in list(av.items()):
            parts = v.split(" ")
            if parts[0] in swap and len(parts) <= 2:
                av[k] = " ".join([swap[parts[0]]] + parts[1:])
    c["altVars"] = av
    c["altBalances"] = {a: {swap.get(k, k): str(int(v) + 3 + i % 7) for k, v in m.items()} for a, m in c.get("balances", {}).items()}


def run_model(cases, gos):
    """run the Lean model on the ASTs produced by the real parser; returns list of parsed model outputs (or None)"""
    lines, idx = [], []
    for i, (c, g) in enumerate(zip(cases, gos)):
        if "ast" in g and not g.get("unsupported"):
            lines.append(lean_exec_line(c, g["ast"]))
            idx.append(i)
    outs = run_lean(lines) if lines else []
    res = [None] * len(cases)
    for i, o in zip(idx, outs):
        res[i] = parse_lean_exec(o) if o and not o.startswith("CRASH") else {"outcome": "drivercrash", "detail": o}
    return res


def histogram(gens, gos):
    feat, outcomes, errs = {}, {}, {}
    for g, o in zip(gens, gos):
        for f in g["features"]:
            feat[f] = feat.get(f, 0) + 1
        go = o.get("go", {})
        oc = go.get("outcome", "harness")
        outcomes[oc] = outcomes.get(oc, 0) + 1
        if oc == "err":
            errs[go.get("errKind")] = errs.get(go.get("errKind"), 0) + 1
    return {"features": feat, "outcomes": outcomes, "error_kinds": errs}
