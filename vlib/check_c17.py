"""C17 — a clean static check means no static-class failure at run time."""
import random

import analysis_common as A
import gen_check
import props_exec as P
import runner
from registry import REGISTRY

STATIC_CLASS = {"TypeError", "UnboundVariableErr", "UnboundFunctionErr", "BadArityErr", "InvalidTypeErr"}
SHAPE_CLASS = {"InvalidAllotmentInSendAll", "InvalidUnboundedInSendAll"}


def run(chk):
    broken = chk.obligations(REGISTRY["C17"])
    runner.build_harness()
    rng = random.Random("C17-%d" % chk.seed)
    n = chk.size(1200, 25000)
    texts, base, kinds = [], [], []
    for i in range(n):
        c, g = gen_check.valid_script(chk.seed + 1000, i, {"sendall_safe": 0.7})
        texts.append(c["script"])
        base.append(c)
        kinds.append("unedited")
        for _ in range(2):
            e = gen_check.name_edit(c["script"], rng)
            if e:
                texts.append(e[0])
                base.append(c)
                kinds.append("name:" + e[1])
        for _ in range(3):
            e = gen_check.type_edit(c["script"], rng)
            if e:
                texts.append(e[0])
                base.append(c)
                kinds.append(e[1])
                if rng.random() < 0.3:
                    e2 = gen_check.type_edit(e[0], rng)
                    if e2:
                        texts.append(e2[0])
                        base.append(c)
                        kinds.append(e[1] + "+" + e2[1])
    # sizes: the same (edited) scripts with many more declared-but-unused variables (so many more warnings)
    for i in range(0, len(texts), 23):
        t = gen_check.pad_vars(texts[i], rng)
        if t:
            texts.append(t)
            base.append(base[i])
            kinds.append(kinds[i] + "+padvars")
    gos, models = A.analyze_both([{"script": t} for t in texts])
    # execute every script that parses
    ecases, eidx = [], []
    for i, (t, c, o) in enumerate(zip(texts, base, gos)):
        if "diags" not in o or o.get("parseErrors"):
            continue
        vars_ = gen_check.vars_for(t, c.get("vars", {}))
        meta = {a: dict(m) for a, m in c.get("meta", {}).items()}
        meta.setdefault("a", {}).setdefault("k", "USD 7")      # the key read by inserted `meta(@a, "k")` origins exists
        ecases.append({"id": len(ecases), "op": "exec", "script": t, "vars": vars_, "balances": c.get("balances", {}),
                       "meta": meta, "store": "exact", "failAt": -1,
                       "flags": ["experimental-overdraft-function"]})
        eidx.append(i)
    egos = runner.run_go(ecases)
    emods = P.run_model(ecases, egos)
    fails, dis = [], []
    stats = {"evaluations": len(texts), "distinct_nontrivial": 0, "model_comparisons": 0, "executed": len(ecases),
             "clean_checks": 0, "silent_checks": 0}
    edit_hist, rt_errs = {}, {}
    for k in kinds:
        edit_hist[k.split("+")[0]] = edit_hist.get(k.split("+")[0], 0) + 1
    for j, (ec, eo, em) in enumerate(zip(ecases, egos, emods)):
        i = eidx[j]
        o = gos[i]
        go = eo.get("go")
        if go is None:
            continue
        errs = [d for d in o["diags"] if d[1] == "1"]
        kind = go.get("errKind") if go["outcome"] == "err" else None
        if kind:
            rt_errs[kind] = rt_errs.get(kind, 0) + 1
        why = []
        if go["outcome"] == "panic":
            why.append("execution panics: %s" % go.get("panic"))
        if not errs:
            stats["clean_checks"] += 1
            if kinds[i] != "unedited":
                stats["distinct_nontrivial"] += 1
            if kind in STATIC_CLASS:
                why.append("static analysis reports no error, execution fails with %s %s" % (kind, go.get("errPayload")))
        if not o["diags"]:
            stats["silent_checks"] += 1
            if kind in SHAPE_CLASS:
                # the shape is fine when the culprit is an account *variable* whose value is world
                if not (kind == "InvalidUnboundedInSendAll" and go.get("errPayload") == ["world"] and "world" in ec["vars"].values()):
                    why.append("static analysis reports nothing, execution fails with %s" % kind)
        if why:
            fails.append((ec, {"diags": o["diags"], "run": go}, em, why))
        if em is not None and em.get("outcome") not in ("drivererror", "drivercrash"):
            stats["model_comparisons"] += 1
            d = runner.diff_exec(go, em, ["errKind", "errPayload", "postings"])
            if d:
                dis.append((ec, go, em, d))
    for t, o, m in zip(texts, gos, models):
        if m is not None and "diags" in o:
            stats["model_comparisons"] += 1
            d = A.diff_analysis(o, m, compare_hovers=False)
            if d:
                dis.append(({"script": t}, {"diags": o.get("diags")}, m, d))
    for c, go, m, why in fails[:10]:
        chk.violation("oracle", case=c, go=go, model=m, oracle=why)
    if not fails:
        for t in broken:
            chk.violation("theorem:%s no longer checks" % t, found_input=False, site="theorem:" + t)
        for c, go, m, why in dis[:3]:
            chk.violation("correspondence:check/run model and implementation differ on %s" % why, case=c, go=go, model=m, found_input=False)
    stats["model_disagreements"] = len(dis)
    stats["oracle_failures"] = len(fails)
    chk.coverage.update(stats)
    chk.coverage["distribution"] = {"edits": edit_hist, "runtime_error_kinds": rt_errs}
    chk.coverage["rule"] = ("well-typed generated scripts and their type-breaking edits (literal of another type, changed/unknown declared type, removed declaration, "
                            "wrong arity, unknown or misplaced function, mixed infix operands, allotment/unbounded source under send-all), each both checked and run "
                            "with values of the declared types; non-trivial = edited script whose check reports no error (so the run matters)")
    chk.coverage["samples"] = [{"script": texts[1] if len(texts) > 1 else texts[0], "edit": kinds[1] if len(kinds) > 1 else ""}]
    chk.coverage["explanation"] = "analysis.CheckSource vs interpreter.RunProgram on the same text, on the Go code; both also compared with the Lean models (Model/Check.lean, Model/Run.lean)"
