"""C06 — allotments split exactly."""
import itertools
import random
from fractions import Fraction

import runner
import spec
import props_exec as P
from registry import REGISTRY


def compositions(total, k):
    if k == 1:
        yield (total,)
        return
    for i in range(total + 1):
        for rest in compositions(total - i, k - 1):
            yield (i,) + rest


def portion_text(q, style):
    if style == 0:
        return "%d/%d" % (q.numerator, q.denominator)
    if style == 1:
        pct = q * 100
        if pct.denominator == 1:
            return "%d%%" % pct.numerator
        for digits in range(1, 8):
            sc = pct * 10 ** digits
            if sc.denominator == 1:
                s = str(sc.numerator).rjust(digits + 1, "0")
                return "%s.%s%%" % (s[:-digits], s[-digits:])
        return "%d/%d" % (q.numerator, q.denominator)
    if style == 3:
        # leading zeros on both sides (decimal whatever they look like): 01/010 is one tenth
        return "0%d/0%d" % (q.numerator, q.denominator) if q.denominator % 2 else "%d/00%d" % (q.numerator, q.denominator)
    return "%d / %d" % (q.numerator * 3, q.denominator * 3)


def mk_case(i, n, qs, remaining_last, side, var_idx=None, style=0):
    """qs: list of Fractions (None for remaining)"""
    names = ["p%d" % j for j in range(len(qs))]
    vars_, decls = {}, []
    parts = []
    for j, q in enumerate(qs):
        if q is None:
            parts.append("remaining")
        elif var_idx == j and 0 <= q <= 1:
            decls.append("portion $v%d" % j)
            vars_["v%d" % j] = portion_text(q, style)
            parts.append("$v%d" % j)
        else:
            parts.append(portion_text(q, style))
    big = n >= 2 ** 63
    amount = "[COIN %d]" % n
    if big:
        decls.append("monetary $amt")
        vars_["amt"] = "COIN %d" % n
        amount = "$amt"
    vb = ("vars {\n" + "\n".join("  " + d for d in decls) + "\n}\n") if decls else ""
    if side == "dst":
        body = "send %s (\n  source = @world\n  destination = { %s }\n)\n" % (
            amount, " ".join("%s to @%s" % (p, nm) for p, nm in zip(parts, names)))
        rs = ('acct', 'world', 0)
        rd = ('allot', [(q, ('to', ('acct', nm))) for q, nm in zip(qs, names)])
    else:
        body = "send %s (\n  source = { %s }\n  destination = @dest\n)\n" % (
            amount, " ".join("%s from @%s allowing unbounded overdraft" % (p, nm) for p, nm in zip(parts, names)))
        rs = ('allot', [(q, ('unb', nm)) for q, nm in zip(qs, names)])
        rd = ('acct', 'dest')
    case = {"id": i, "op": "exec", "script": vb + body, "vars": vars_, "balances": {}, "meta": {}, "store": "exact",
            "failAt": -1, "perStmt": False}
    gen = {"stmts": [('send', 'COIN', n, rs, rd)], "features": ["allot-" + side], "var_error": None,
           "qs": qs, "n": n, "side": side, "names": names}
    return case, gen


def mk_nested_case(i, rng):
    """an allotment inside a clause of an allotment (in the first, a middle or the last clause; in a source or in a
    destination; directly or under `max … from` / an ordered block): every account must be debited / credited the share
    of the share"""
    def vec(k):
        den = rng.choice([2, 3, 4, 5, 10])
        cuts = sorted(rng.randrange(0, den + 1) for _ in range(k - 1))
        return [Fraction(b - a, den) for a, b in zip([0] + cuts, cuts + [den])]
    side = rng.choice(["src", "dst"])
    n = rng.choice([rng.randrange(0, 200), 101, 100, 7, 2 ** 64 + rng.randrange(0, 50),
                    rng.choice([2 ** 62, 2 ** 62 + 1, 3 * 2 ** 61 + 1, 4 * 10 ** 18, 10 ** 19 // 3, 2 ** 63 - 1, 2 ** 61 + 7])])
    counter = [0]
    need_cap = [False]

    def leaf():
        counter[0] += 1
        nm = "n%d" % counter[0]
        x = rng.random()
        if x < 0.2 and counter[0] > 1:
            nm = "n%d" % rng.randrange(1, counter[0])         # an account that already stands in an earlier clause
        elif x < 0.3 and side == "src":
            return "@world", ('acct', 'world', 0)               # (several times too)
        if side == "src":
            return "@%s allowing unbounded overdraft" % nm, ('unb', nm)
        return "@%s" % nm, ('acct', nm)

    def allot(depth):
        k = rng.choice([2, 2, 3])
        qs = vec(k)
        use_rem = rng.random() < 0.3
        # several `remaining` clauses in one split (accepted at run time): the last one takes the rest, the others nothing
        extra_rem = rng.randrange(k - 1) if (use_rem and k >= 2 and rng.random() < 0.3) else None
        texts, nodes = [], []
        for j, q in enumerate(qs):
            nested = depth > 0 and rng.random() < (0.6 if j < k - 1 else 0.3)
            if nested:
                t, node = allot(depth - 1)
                wrap = rng.random()
                if side == "src" and wrap < 0.25:
                    t, node = "max $cap from %s" % t, ('capped', 10 ** 40, node)      # (a literal that large is a known finding)
                    need_cap[0] = True
                elif side == "src" and wrap < 0.4:
                    t, node = "{ %s }" % t, ('inorder', [node])
            else:
                t, node = leaf()
            is_rem = (use_rem and j == k - 1) or j == extra_rem
            pt = "remaining" if is_rem else portion_text(q, rng.randrange(4))
            qq = None if is_rem else q
            if side == "src":
                texts.append("%s from %s" % (pt, t))
                nodes.append((qq, node))
            else:
                texts.append("%s to %s" % (pt, t))
                nodes.append((qq, ('to', node)))
        return "{ " + " ".join(texts) + " }", ('allot', nodes)

    t, node = allot(rng.choice([1, 1, 2]))
    if side == "src" and rng.random() < 0.15:
        # an allotment whose portions do not add up to one is rejected wherever it stands, also behind a source that
        # already covers the whole amount
        bad = rng.choice(["{ 1/2 from @q1 1/3 from @q2 }", "{ 3/4 from @q1 3/4 from @q2 }", "{ 10% from @q1 remaining from @q2 100% from @q3 }"])
        bsum = {"{ 1/2": Fraction(5, 6), "{ 3/4": Fraction(3, 2), "{ 10%": Fraction(11, 10)}[bad[:5]]
        cover = rng.choice(["@world", "@c0 allowing unbounded overdraft", "max $amt2 from @world"])
        t = "{ %s %s }" % (cover, bad)
        node = ('reject', "InvalidAllotmentSum", ["%d/%d" % (bsum.numerator, bsum.denominator)])
        if "amt2" in cover:
            need_cap[0] = "amt2"
    elif side == "dst" and rng.random() < 0.15:
        # the destination counterpart: a clause of a split that is itself a split with a wrong sum fails the whole
        # statement, whether it is the first, a middle or the last clause, and whatever its own share is
        bad = rng.choice(["{ 1/2 to @q1 1/3 to @q2 }", "{ 3/4 to @q1 3/4 to @q2 }", "{ 10% to @q1 remaining kept 100% to @q3 }"])
        bsum = {"{ 1/2": Fraction(5, 6), "{ 3/4": Fraction(3, 2), "{ 10%": Fraction(11, 10)}[bad[:5]]
        pos = rng.randrange(3)
        parts = ["1/4 to @z1", "1/4 kept", "0% to @z3"]
        shares = ["1/2", "50%", "2/4"]
        parts.insert(pos, "%s to %s" % (rng.choice(shares), bad))
        t = "{ %s }" % " ".join(parts)
        node = ('reject', "InvalidAllotmentSum", ["%d/%d" % (bsum.numerator, bsum.denominator)])
    vars_, decls = {}, []
    amount = "[COIN %d]" % n
    if n >= 2 ** 63:
        vars_["amt"] = "COIN %d" % n
        decls.append("monetary $amt")
        amount = "$amt"
    if need_cap[0] == "amt2":
        vars_["amt2"] = "COIN %d" % (n + 5)
        decls.append("monetary $amt2")
    elif need_cap[0]:
        vars_["cap"] = "COIN %d" % 10 ** 40
        decls.append("monetary $cap")
    vb = ("vars {\n" + "".join("  %s\n" % d for d in decls) + "}\n") if decls else ""
    if side == "src":
        script = vb + "send %s (\n  source = %s\n  destination = @dest\n)\n" % (amount, t)
        stmt = ('send', 'COIN', n, node, ('acct', 'dest'))
    else:
        script = vb + "send %s (\n  source = @world\n  destination = %s\n)\n" % (amount, t)
        stmt = ('send', 'COIN', n, ('acct', 'world', 0), node)
    case = {"id": i, "op": "exec", "script": script, "vars": vars_, "balances": {}, "meta": {}, "store": "exact",
            "failAt": -1, "perStmt": False}
    gen = {"stmts": [stmt], "features": ["allot-nested-" + side], "var_error": None, "nested": True, "side": side, "n": n}
    return case, gen


def nested_oracle(case, gen, go):
    st = gen["stmts"][0]
    rej = st[3] if st[3][0] == 'reject' else (st[4] if st[4][0] == 'reject' else None)
    if rej:
        if go["outcome"] == "ok":
            return ["portions summing to %s were accepted (%s)" % (rej[2][0], "behind a source that covers the amount" if rej is st[3] else "as a clause of a destination split")]
        if go.get("errKind") != rej[1]:
            return ["portions summing to %s rejected with %s" % (rej[2][0], go.get("errKind"))]
        if go.get("postings"):
            return ["a rejected statement left postings"]
        return []
    try:
        exp = spec.run_statements(gen["stmts"], {})
    except spec.SpecError as e:
        return [] if go["outcome"] == "err" else ["reference fails with %s, the interpreter succeeds" % e.kind]
    if go["outcome"] != "ok":
        return ["valid nested split failed: %s %s" % (go.get("errKind"), go.get("errPayload"))]
    want, got = {}, {}
    key = (lambda p: p[0]) if gen["side"] == "src" else (lambda p: p[1])
    for p in exp["per_stmt"][0]:
        want[key(p)] = want.get(key(p), 0) + int(p[2])
    for p in go["postings"]:
        got[key(p)] = got.get(key(p), 0) + int(p[2])
    out = []
    if sum(got.values()) != gen["n"]:
        out.append("shares add up to %d, not %d" % (sum(got.values()), gen["n"]))
    if got != want:
        out.append("per-account shares %s, the share of the share gives %s" % (sorted(got.items())[:6], sorted(want.items())[:6]))
    return out


def mk_shared_case(i, rng):
    """one portion variable read several times: in two clauses of one allotment, in a source and a destination
    allotment, and in two statements; every text style. Account names are disjoint between statements."""
    p = rng.choice([Fraction(1, 2), Fraction(1, 4), Fraction(1, 3), Fraction(3, 10), Fraction(1, 8), Fraction(2, 5), Fraction(0), Fraction(1, 1000)])
    style = rng.randrange(3)
    vn = rng.choice(["p", "p", "remaining", "kept", "max", "portion"])        # a variable may be called like a keyword
    vars_ = {vn: portion_text(p, style)}
    stmts, parts, texts, decls = [], [], [], ["portion $" + vn]
    for k in range(rng.randrange(1, 4)):
        n = rng.choice([rng.randrange(0, 40), 11, 10, 7, 2 ** 64 + rng.randrange(0, 50)])
        uses = 2 if 2 * p <= 1 and rng.random() < 0.6 else 1
        qs = [p] * uses
        rest = 1 - sum(qs)
        if rest > 0 and rng.random() < 0.5:
            qs.append(rest)
            tail = [portion_text(rest, rng.randrange(3))]
        else:
            qs.append(None)
            tail = ["remaining"]
        if rng.random() < 0.5:
            qs.reverse()
            ptexts = tail + ["$" + vn] * uses
        else:
            ptexts = ["$" + vn] * uses + tail
        names = ["s%dp%d" % (k, j) for j in range(len(qs))]
        side = rng.choice(["dst", "src"])
        amount = "[COIN %d]" % n
        if n >= 2 ** 63:                      # a literal that large is the known finding number-literal-out-of-range
            vars_["amt%d" % k] = "COIN %d" % n
            decls.append("monetary $amt%d" % k)
            amount = "$amt%d" % k
        if side == "dst":
            texts.append("send %s (\n  source = @world\n  destination = { %s }\n)" % (
                amount, " ".join("%s to @%s" % (t, nm) for t, nm in zip(ptexts, names))))
            stmts.append(('send', 'COIN', n, ('acct', 'world', 0), ('allot', [(q, ('to', ('acct', nm))) for q, nm in zip(qs, names)])))
        else:
            texts.append("send %s (\n  source = { %s }\n  destination = @dest%d\n)" % (
                amount, " ".join("%s from @%s allowing unbounded overdraft" % (t, nm) for t, nm in zip(ptexts, names)), k))
            stmts.append(('send', 'COIN', n, ('allot', [(q, ('unb', nm)) for q, nm in zip(qs, names)]), ('acct', 'dest%d' % k)))
        parts.append({"qs": qs, "n": n, "names": names, "side": side})
    case = {"id": i, "op": "exec", "script": "vars {\n" + "".join("  %s\n" % d for d in decls) + "}\n" + "\n".join(texts) + "\n", "vars": vars_, "balances": {}, "meta": {},
            "store": "exact", "failAt": -1, "perStmt": False}
    gen = {"stmts": stmts, "features": ["allot-shared-variable"], "var_error": None, "parts": parts,
           "qs": parts[0]["qs"], "n": parts[0]["n"], "side": parts[0]["side"], "names": parts[0]["names"]}
    return case, gen


def oracle(case, gen, go):
    if gen.get("nested"):
        return nested_oracle(case, gen, go)
    if gen.get("parts"):
        out = []
        for part in gen["parts"]:
            out += oracle(case, dict(gen, parts=None, **part), go)
        return out
    qs, n, names, side = gen["qs"], gen["n"], gen["names"], gen["side"]
    out = []
    total = sum((q for q in qs if q is not None), Fraction(0))
    has_rem = any(q is None for q in qs)
    valid = (total <= 1) if has_rem else (total == 1)
    if not valid:
        if go["outcome"] == "ok":
            out.append("portions summing to %s were accepted" % total)
        elif go.get("errKind") != "InvalidAllotmentSum":
            out.append("portions summing to %s rejected with %s" % (total, go.get("errKind")))
        return out
    if go["outcome"] != "ok":
        return ["valid split failed: %s %s" % (go.get("errKind"), go.get("errPayload"))]
    ps = [(1 - total) if q is None else q for q in qs]
    shares = {nm: 0 for nm in names}
    for s, d, m, a in go["postings"]:
        key = d if side == "dst" else s
        shares[key] = shares.get(key, 0) + int(m)
    got = [shares[nm] for nm in names]
    if sum(got) != n:
        out.append("shares %s add up to %d, not %d" % (got, sum(got), n))
    floors = [(p * n).__floor__() for p in ps]
    left = n - sum(floors)
    for i, (g, f) in enumerate(zip(got, floors)):
        if g not in (f, f + 1):
            out.append("share %d is %d, exact portion rounded down is %d" % (i, g, f))
        if g != f + (1 if i < left else 0):
            out.append("share %d is %d, expected %d (leftover %d goes to the earliest clauses)" % (i, g, f + (1 if i < left else 0), left))
    return out


def run(chk):
    broken = chk.obligations(REGISTRY["C06"])
    runner.build_harness()
    rng = random.Random("C06-%d" % chk.seed)
    cases, gens = [], []
    max_total = 12 if chk.tier == "quick" else 30
    max_den = 5 if chk.tier == "quick" else 6
    vectors = []
    for d in range(1, max_den + 1):
        for k in range(1, 5):
            for comp in compositions(d, k):
                vectors.append([Fraction(c, d) for c in comp])
    exhaustive_count = 0
    for qs in vectors:
        for n in range(0, max_total + 1):
            for rem in (False, True):
                q2 = list(qs)
                if rem:
                    q2[-1] = None
                side = "dst" if (len(cases) % 3) else "src"
                c, g = mk_case(len(cases), n, q2, rem, side, var_idx=(len(cases) % 5 if len(cases) % 2 else None),
                               style=len(cases) % 3)
                cases.append(c)
                gens.append(g)
                exhaustive_count += 1
    # random: big totals, many clauses, fine denominators, invalid sums
    nrand = chk.size(3000, 40000)
    for _ in range(nrand):
        k = rng.randrange(1, 7)
        if rng.random() < 0.12:
            k = rng.choice([8, 9, 15, 16, 17, 18, 24, 31, 32, 33, 48, 64, 65, 100, 129, 257])       # many clauses
        den = rng.choice([3, 7, 9, 100, 1000, 10000, 64, 97])
        cuts = sorted(rng.randrange(0, den + 1) for _ in range(k - 1))
        nums = [b - a for a, b in zip([0] + cuts, cuts + [den])]
        qs = [Fraction(x, den) for x in nums]
        if rng.random() < 0.15:
            j = rng.randrange(k)
            qs[j] = qs[j] + Fraction(rng.choice([1, -1, 2]), den)
            if qs[j] < 0:
                qs[j] = -qs[j]
        if rng.random() < 0.4:
            qs[-1] = None
        n = rng.choice([rng.randrange(0, 1000), 2 ** 64 + rng.randrange(0, 10 ** 6), 10 ** 30 + rng.randrange(0, 10 ** 9),
                        rng.choice([2 ** 62, 2 ** 62 + 1, 3 * 2 ** 61 + 1, 4 * 10 ** 18, 10 ** 19 // 3, 2 ** 63 - 1, 2 ** 61 + 7, 3 * 10 ** 16])])
        c, g = mk_case(len(cases), n, qs, qs[-1] is None, rng.choice(["dst", "src"]),
                       var_idx=rng.choice([None, 0, k - 1]), style=rng.randrange(4))
        cases.append(c)
        gens.append(g)

    # boundary amounts (machine-word edges) x portion vectors whose numerators/denominators are small and large
    import gen_exec
    bvecs = [[Fraction(3, 4), Fraction(1, 4)], [Fraction(63, 100), None], [Fraction(1, 3), Fraction(1, 3), Fraction(1, 3)],
             [Fraction(2, 3), None], [Fraction(999, 1000), Fraction(1, 1000)], [Fraction(1, 7), Fraction(6, 7)],
             [Fraction(2 ** 31 - 1, 2 ** 31), None], [Fraction(1, 2 ** 33), None], [Fraction(7, 8), Fraction(1, 16), None]]
    for n in gen_exec.boundary_ints():
        for qs in bvecs:
            c, g = mk_case(len(cases), n, list(qs), qs[-1] is None, "dst" if len(cases) % 2 else "src",
                           var_idx=(0 if len(cases) % 3 == 0 else None), style=len(cases) % 3)
            cases.append(c)
            gens.append(g)

    # allotments nested in allotment clauses
    for _ in range(chk.size(800, 10000)):
        c, g = mk_nested_case(len(cases), rng)
        cases.append(c)
        gens.append(g)
    # one portion variable read at several places and in several statements
    for _ in range(chk.size(600, 8000)):
        c, g = mk_shared_case(len(cases), rng)
        cases.append(c)
        gens.append(g)

    gos = runner.run_go(cases)
    models = P.run_model(cases, gos)
    # the model's allotParts against independent rational arithmetic as well
    lines = []
    for i, g in enumerate(gens):
        if g.get("nested"):
            continue
        qs = g["qs"]
        total = sum((q for q in qs if q is not None), Fraction(0))
        ps = [(1 - total) if q is None else q for q in qs]
        if all(p >= 0 for p in ps) and sum(ps) == 1:
            lines.append("allot\t%d\t%d\t%s" % (i, g["n"], " ".join("%d %d" % (p.numerator, p.denominator) for p in ps)))
    louts = runner.run_lean(lines)
    fails, dis = [], []
    nontrivial = set()
    for line, lo in zip(lines, louts):
        f = lo.split("\t")
        i = int(f[0])
        g = gens[i]
        qs = g["qs"]
        total = sum((q for q in qs if q is not None), Fraction(0))
        ps = [(1 - total) if q is None else q for q in qs]
        want = spec.allot(g["n"], ps)
        got = [int(x) for x in f[2].split()] if len(f) > 2 and f[1] == "ok" else None
        if got != want:
            dis.append((cases[i], None, {"allotParts": lo}, ["model allotParts %s vs exact arithmetic %s" % (got, want)]))
    for c, g, o, m in zip(cases, gens, gos, models):
        if "go" not in o:
            dis.append((c, o, m, ["harness"]))
            continue
        go = o["go"]
        if go["outcome"] == "ok" and len(go["postings"]) >= 2:
            nontrivial.add(P.case_key(c))
        v = oracle(c, g, go)
        if v:
            fails.append((c, go, m, v))
        if m is not None:
            d = runner.diff_exec(go, m, ["postings", "errKind", "errPayload"])
            if d:
                dis.append((c, go, m, d))
    for c, go, m, why in fails[:10]:
        chk.violation("oracle", case=c, go=go, model=m, oracle=why)
    if not fails:
        for t in broken:
            chk.violation("theorem:%s no longer checks (build or axiom audit)" % t, found_input=False, site="theorem:" + t)
        for c, go, m, why in dis[:3]:
            chk.violation("correspondence:allot model and implementation differ on %s" % why, case=c, go=go, model=m, found_input=False)
    chk.coverage.update({
        "evaluations": len(cases), "distinct_nontrivial": len(nontrivial), "model_comparisons": len(cases) + len(lines),
        "model_disagreements": len(dis), "oracle_failures": len(fails),
        "exhaustive": True, "exhaustive_cases": exhaustive_count,
        "rule": "exhaustive: all portion vectors with denominators <= %d and <= 4 clauses x totals 0..%d x with/without remaining, "
                "as source and as destination allotments, literal and variable portions; random: up to 6 clauses, fine denominators, "
                "totals up to 10^30, invalid sums; non-trivial = succeeds with >= 2 postings" % (max_den, max_total),
        "samples": [{"script": cases[i]["script"], "vars": cases[i]["vars"], "go": gos[i].get("go", {}).get("postings")} for i in (7, len(cases) // 2, len(cases) - 1)],
        "explanation": "single-allotment scripts run on the Go interpreter and on the Lean model; shares compared with exact rational arithmetic (Python fractions)",
    })
