"""C19 over the wire: the LSP framing of internal/lsp/server.go (MessageBuffer.Read, encodeMessage, RunServer)
against the Lean model (Model/Frame.lean) and an independent strict frame parser.

 A. reader:   lsp.MessageBuffer.Read in-process (harness op `frame`) on framed request streams — header spellings
              a client may legitimately use, bodies with CR/LF/header look-alikes/non-ASCII, and malformed
              streams — vs `readFrame` of the model; oracle: the bodies read are the bodies framed.
 B. sessions: the real binary `numscript lsp` fed whole framed histories; its stdout must (oracle) split into
              exact frames (announced length = bytes of the body), carry for every request its notifications
              then its response — the same JSON a server driven in-process (`lsp.Handle`) gives —, and
              (model) be byte-identical to `encodeFrame` of the bodies `readFrames` extracts.
"""
import binascii
import json
import os
import random
import subprocess

import gen_check
import runner


def hexs(b):
    return binascii.hexlify(b).decode() if b else "-"


def unhex(t):
    return b"" if t == "-" else binascii.unhexlify(t)


HEADER_STYLES = [
    "Content-Length: %d\r\n\r\n",
    "Content-Length: %d\r\n\r\n",
    "Content-Length: %d\r\n\r\n",
    "content-length:%d\r\n\r\n",
    "CONTENT-LENGTH: \t%d \r\n\r\n",
    "Content-Type: application/vscode-jsonrpc; charset=utf-8\r\nContent-Length: %d\r\n\r\n",
    "Content-Length: %d\r\nContent-Type: application/vscode-jsonrpc; charset=utf-8\r\n\r\n",
    "Content-Length: %d\n\n",
    "Content-Length: +%d\r\n\r\n",
    "Content-Length: 00%d\r\n\r\n",
    "Content-Length: %d\r\nContent-Length: 1\r\n\r\n",
    "X-Note: Content-Length: 3\r\nContent-Length: %d\r\n\r\n",
]

TRICKY = ["\r\n\r\n", "Content-Length: 3\r\n\r\nabc", "é", "€", "😀", " ", "\\", "\"", "a\nb", "\t", "ÿ", "\x7f", " "]


def frame(body, style=None):
    return ((style or HEADER_STYLES[0]) % len(body)).encode() + body


def strict_split(stream):
    """independent, strict decoder of what the server writes: `Content-Length: <n>\\r\\n\\r\\n` + n bytes, repeated.
    returns (bodies, error or None)"""
    bodies = []
    i = 0
    while i < len(stream):
        j = stream.find(b"\r\n\r\n", i)
        if j < 0:
            return bodies, "no header terminator after byte %d" % i
        head = stream[i:j]
        if not head.startswith(b"Content-Length: ") or not head[16:].isdigit() or (len(head) > 17 and head[16:17] == b"0"):
            return bodies, "header %r is not `Content-Length: <decimal>`" % head[:60]
        n = int(head[16:])
        body = stream[j + 4:j + 4 + n]
        if len(body) != n:
            return bodies, "announced %d bytes, %d left" % (n, len(body))
        try:
            json.loads(body.decode("utf-8"))
        except Exception as e:
            return bodies, "body of announced length %d is not a JSON document (%s): the length is not the byte length" % (n, str(e)[:60])
        bodies.append(body)
        i = j + 4 + n
    return bodies, None


def model_read(streams):
    lines = ["readframes\t%d\t%s" % (i, hexs(s)) for i, s in enumerate(streams)]
    res = []
    for o in runner.run_lean(lines):
        f = (o or "").split("\t")
        if len(f) < 2 or f[1] in ("drivererror", "CRASH") or f[0] == "CRASH":
            res.append(("drivererror", []))
            continue
        bodies = [unhex(t) for t in (f[2].split() if len(f) > 2 and f[2] else [])]
        res.append((f[1], bodies))
    return res


def model_encode(body_lists):
    lines = ["encodeframes\t%d\t%s" % (i, " ".join(hexs(b) for b in bl)) for i, bl in enumerate(body_lists)]
    res = []
    for o in runner.run_lean(lines):
        f = (o or "").split("\t")
        res.append(unhex(f[1]) if len(f) == 2 and f[0] != "CRASH" else None)
    return res


def gen_request(rng, k):
    meth = rng.choice(["textDocument/hover", "initialize", "x/" + rng.choice(TRICKY), "shutdown", "textDocument/didOpen"])
    params = {"textDocument": {"uri": "file:///" + rng.choice(["a", "é", "b c"]) + ".num",
                               "text": "".join(rng.choice(TRICKY + ["send", " ", "[USD 1]", "\n"]) for _ in range(rng.randrange(0, 6)))}}
    rq = {"jsonrpc": "2.0", "method": meth, "params": params}
    if rng.random() < 0.8:
        rq["id"] = rng.choice([k, str(k), 0, 2 ** 40 + k])
    ensure = rng.random() < 0.5
    return json.dumps(rq, ensure_ascii=ensure, separators=rng.choice([(",", ":"), (", ", ": ")])).encode("utf-8")


MALFORMED_TAILS = [
    b"Content-Length: abc\r\n\r\n{}", b"Content-Type: x\r\n\r\n{}", b"Content-Length: -5\r\n\r\n{}",
    b" Content-Length: 2\r\n\r\n{}", b"Content-Length 2\r\n\r\n{}", b"Content(Length: 2\r\n\r\n{}",
    b"Content-Length: 2\x01\r\n\r\n{}", b"Content-Length: 99999999999999999999\r\n\r\n{}",
    b"Content-Length: 9223372036854775808\r\n\r\n{}", b"Content-Length: 1_0\r\n\r\n{}",
    b"Content-Length : 2\r\n\r\n{}", b": 2\r\n\r\n{}", b"Content-Length: 0x2\r\n\r\n{}", b"Content-Length: 2 2\r\n\r\n{}",
    b"Content-Length: \r\n\r\n{}", b"Content-Length: 40\r\n\r\n{\"jsonrpc\":\"2.0\",\"method\":\"m\"}",
    b"\rContent-Length: 2\r\n\r\n{}", b"Content-Length: 2\r\r\n\r\n{}", b"Content-Length: 2\r\n\r{}",
]


def reader_check(chk, fails, dis, stats, cli):
    rng = random.Random("C19wire-%d" % chk.seed)
    n = chk.size(300, 6000)
    streams, plans = [], []
    for i in range(n):
        k = rng.randrange(1, 5)
        bodies = [gen_request(rng, j) for j in range(k)]
        s = b"".join(frame(b, rng.choice(HEADER_STYLES)) for b in bodies)
        kind = "valid"
        r = rng.random()
        if r < 0.25:
            s += rng.choice(MALFORMED_TAILS)
            kind = "malformed-tail"
        elif r < 0.32:
            s = s[:-rng.randrange(1, min(len(bodies[-1]), 8))]
            kind = "truncated-body"
        elif r < 0.38:
            cut = rng.randrange(1, 16)
            s += b"Content-Length: 10\r\n\r\n"[:cut]
            kind = "truncated-header"
        streams.append(s)
        plans.append((bodies, kind))
    models = model_read(streams)
    jobs, idx = [], []
    eof_jobs = []
    for i, (s, (bodies, kind), (status, mb)) in enumerate(zip(streams, plans, models)):
        stats["model_comparisons"] += 1
        stats["stream_kinds"][kind] = stats["stream_kinds"].get(kind, 0) + 1
        stats["model_status"][status] = stats["model_status"].get(status, 0) + 1
        if status in ("unsupported", "drivererror", "fuel"):
            if status != "unsupported":
                dis.append(({"stream": hexs(s)}, None, status, ["model driver failed on a frame stream"]))
            continue
        # oracle on the model itself (a wrong model must not mask the code): the frames Python wrote come back
        if mb != bodies[:len(mb)] or (kind == "valid" and (status != "eof" or len(mb) != len(bodies))):
            dis.append(({"stream": hexs(s)}, None, [status, [hexs(b) for b in mb]], ["model does not read back the framed bodies"]))
            continue
        if status == "eof":
            # reading past the last frame exits the process: stop one read before, in-process
            reads = len(mb)
            if kind != "valid":
                eof_jobs.append((i, s, mb))
        else:
            reads = len(mb) + 1
        if reads:
            jobs.append({"id": len(jobs), "op": "frame", "text": hexs(s), "repeat": reads})
            idx.append(i)
    outs = runner.run_go(jobs)
    stats["evaluations"] += len(jobs)
    for job, i, out in zip(jobs, idx, outs):
        status, mb = models[i]
        bodies, kind = plans[i]
        reads = out.get("reads")
        if reads is None:
            fails.append(({"stream": job["text"], "kind": kind}, out, None, ["the reader crashed the process (or exited) on a stream the model reads: %s" % str(out)[:160]]))
            continue
        why = []
        for j, body in enumerate(mb):
            if j >= len(reads) or "panic" in reads[j]:
                why.append("frame %d (%d bytes, header style as sent) was not read: %s" % (j, len(body), str(reads[j] if j < len(reads) else None)[:120]))
                break
            want = json.loads(body.decode("utf-8"))
            got = reads[j]
            if got.get("method") != want["method"] or got.get("params") != want.get("params") or got.get("notif") != ("id" not in want) \
                    or ("id" in want and got.get("reqid") != want["id"]):
                why.append("frame %d decoded to %s, sent %s" % (j, json.dumps(got)[:150], json.dumps(want)[:150]))
                break
        if not why and status.startswith("error:"):
            last = reads[len(mb)] if len(reads) > len(mb) else None
            if last is None or "panic" not in last:
                # the model says the reader must fail here; the code read something
                dis.append(({"stream": job["text"], "kind": kind}, reads, status, ["malformed frame accepted by the reader: model %s, code read %s" % (status, str(last)[:120])]))
        if why:
            if kind == "valid":
                fails.append(({"stream": job["text"], "kind": kind}, reads, [status, len(mb)], why))
            else:
                dis.append(({"stream": job["text"], "kind": kind}, reads, [status, len(mb)], why))
        else:
            stats["distinct_nontrivial"] += 1
    # end of input inside a header block: the server must stop quietly (exit status 0) after answering what it read
    for (i, s, mb) in eof_jobs[: chk.size(10, 80)]:
        p = subprocess.run([cli, "lsp"], input=s, stdout=subprocess.PIPE, stderr=subprocess.PIPE, timeout=30)
        stats["evaluations"] += 1
        got, err = strict_split(p.stdout)
        nresp = sum(1 for b in got if "method" not in json.loads(b.decode("utf-8")))
        if p.returncode != 0 or err or nresp != len(mb):
            dis.append(({"stream": hexs(s), "kind": plans[i][1]}, {"exit": p.returncode, "responses": nresp, "stderr": p.stderr[-200:].decode("utf-8", "replace")},
                        ["eof", len(mb)], ["end of input inside a header block: model says quiet exit after %d responses" % len(mb)]))


WIRE_TEXTS = [
    "vars { account $a }\nsend [USD 1] (source = $a destination = @b)\n",
    "// é😀 commentaire\nvars { monetary $m string $s }\nsend $m (source = @world destination = @b)\nset_tx_meta(\"clé\", $s)\n",
    "send [EUR/2 10] (\n  source = @a\n  destination = @ü\n)\n",
    "vars { number $n }\nset_tx_meta(\"k\", \"  €  \\\" \")\nset_tx_meta(\"n\", $n)\n",
    "send [USD 1] (source = ",
    "",
]


def session_check(chk, fails, dis, stats, cli):
    from check_c19 import req_open, req_change, req_hover, req_def, req_sym, canon, canon_notif
    rng = random.Random("C19sess-%d" % chk.seed)
    n = chk.size(40, 600)
    texts = list(WIRE_TEXTS)
    for i in range(4):
        c, g = gen_check.valid_script(chk.seed + 991, i, {"stmts_max": 2, "depth": 2, "origins": 0.5})
        texts.append(c["script"])
    uris = ["file:///a.num", "file:///dossier/é.num"]
    sessions = []
    for i in range(n):
        reqs = []
        latest = {}
        for k in range(rng.randrange(1, 9)):
            uri = rng.choice(uris)
            r = rng.random()
            if r < 0.45 or uri not in latest:
                t = rng.choice(texts)
                latest[uri] = t
                reqs.append((req_open if rng.random() < 0.5 else req_change)(uri, t))
            else:
                t = latest[uri]
                uses = gen_check.scan_vars(t)[1]
                if uses and rng.random() < 0.8:
                    pos = list(gen_check.line_col(t, rng.choice(uses)["start"] + 1))
                else:
                    pos = [0, 0]
                reqs.append(rng.choice([req_hover(uri, pos), req_def(uri, pos), req_sym(uri)]))
        sessions.append(reqs)
    # in-process reference
    ref = runner.run_go([{"id": i, "op": "lsp", "history": reqs} for i, reqs in enumerate(sessions)])
    outs = []
    for i, reqs in enumerate(sessions):
        stream = b""
        for k, rq in enumerate(reqs):
            m = dict(rq, jsonrpc="2.0", id=k + 1)
            body = json.dumps(m, ensure_ascii=(i % 2 == 0)).encode("utf-8")
            stream += frame(body, HEADER_STYLES[(i + k) % 8])
        p = subprocess.run([cli, "lsp"], input=stream, stdout=subprocess.PIPE, stderr=subprocess.PIPE, timeout=60)
        outs.append((stream, p))
    stats["evaluations"] += len(sessions)
    stats["wire_sessions"] = len(sessions)
    models = model_read([p.stdout for _, p in outs])
    reenc = model_encode([mb for _, mb in models])
    for i, (reqs, (stream, p), r, (status, mb), re_) in enumerate(zip(sessions, outs, ref, models, reenc)):
        case = {"history": reqs, "stdin": hexs(stream)}
        steps = r.get("steps")
        if steps is None or any("panic" in s for s in steps):
            continue            # the in-process run itself fails: C18/C19 proper report that
        got, err = strict_split(p.stdout)
        why = []
        if p.returncode != 0:
            why.append("server exit status %d; stderr %s" % (p.returncode, p.stderr[-200:].decode("utf-8", "replace")))
        if err:
            why.append("stdout is not a sequence of exact frames: " + err)
        expect = []
        for k, st in enumerate(steps):
            for nf in st.get("notifs", []):
                expect.append(("notif", nf))
            expect.append(("resp", k + 1, st.get("result")))
        if not why:
            if len(got) != len(expect):
                why.append("%d messages on the wire, %d expected (per request: notifications, then the response)" % (len(got), len(expect)))
            else:
                for b, e in zip(got, expect):
                    m = json.loads(b.decode("utf-8"))
                    if e[0] == "notif":
                        if "id" in m or json.dumps(canon_notif(m), sort_keys=True) != json.dumps(canon_notif(e[1]), sort_keys=True):
                            why.append("notification on the wire differs from the one the handler sent: %s" % json.dumps(m)[:160])
                            break
                    else:
                        if m.get("id") != e[1] or canon(m.get("result")) != canon(e[2]):
                            why.append("response on the wire %s; the handler answered request %d with %s" % (json.dumps(m)[:160], e[1], json.dumps(e[2])[:160]))
                            break
        if why:
            fails.append((case, {"stdout": hexs(p.stdout[:4000])}, None, why[:3]))
            continue
        stats["distinct_nontrivial"] += 1 if any(ord(ch) > 127 for ch in p.stdout.decode("utf-8", "replace")) else 0
        # model: decoding and re-encoding with the model gives the same bytes
        stats["model_comparisons"] += 1
        if status != "eof" or mb != got or re_ != p.stdout:
            dis.append((case, {"stdout": hexs(p.stdout[:4000])}, [status, len(mb)], ["model framing differs from the bytes the server wrote"]))


def run(chk, fails, dis, stats):
    import check_c20
    cli = check_c20.build_cli("numscript-cli-c19")
    stats.setdefault("stream_kinds", {})
    stats.setdefault("model_status", {})
    reader_check(chk, fails, dis, stats, cli)
    session_check(chk, fails, dis, stats, cli)
