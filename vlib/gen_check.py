"""
Texts for the static-analysis properties (C16, C17, C18, C19): statically valid
scripts (from the exec generator with a profile that keeps them valid), an
independent token scanner for variable occurrences, name edits, type-breaking
edits and broken texts.
"""
import random
import re

import gen_exec

VALID_PROFILE = {
    "bad_allot_sum": 0.0, "negative_amount": 0.05, "sendall_safe": 1.0, "origins": 0.3,
    "stmts_max": 3, "depth": 3, "ddepth": 2, "big": 0.0,
}

VAR_RE = re.compile(r"\$[a-z_]+[a-z0-9_]*")
TYPES = ["monetary", "account", "portion", "asset", "number", "string"]
DEFAULTS = {"account": "acc", "asset": "USD", "number": "3", "monetary": "USD 3", "portion": "1/2", "string": "s"}


def valid_script(seed, index, profile=None):
    p = dict(VALID_PROFILE)
    if profile:
        p.update(profile)
    case, gen = gen_exec.gen_case("chk-%s" % seed, index, p)
    return case, gen


def line_col(text, offset):
    """(line, character) counted in characters"""
    line = text.count("\n", 0, offset)
    last = text.rfind("\n", 0, offset)
    return line, offset - (last + 1)


def rng_of(text, start, end):
    l1, c1 = line_col(text, start)
    l2, c2 = line_col(text, end)
    return "%d:%d-%d:%d" % (l1, c1, l2, c2)


def strip_comments_mask(text):
    """same length text with comments and string literals blanked (so that `$x` inside them is ignored)"""
    out = list(text)
    i = 0
    n = len(text)
    while i < n:
        if text.startswith("//", i):
            j = text.find("\n", i)
            j = n if j < 0 else j
            for k in range(i, j):
                out[k] = " "
            i = j
        elif text.startswith("/*", i):
            j = text.find("*/", i + 2)
            j = n if j < 0 else j + 2
            for k in range(i, j):
                if out[k] != "\n":
                    out[k] = " "
            i = j
        elif text[i] == '"':
            j = i + 1
            while j < n and text[j] != '"' and text[j] != "\n":
                j += 2 if text[j] == "\\" and j + 1 < n and text[j + 1] == '"' else 1
            j = min(n, j + 1)
            for k in range(i, j):
                out[k] = " "
            i = j
        else:
            i += 1
    return "".join(out)


def scan_vars(text):
    """independent scanner: returns (decls, uses) in text order.
    decls: list of dict(name, type, start, end) for `type $name` entries of the vars block
    uses:  list of dict(name, start, end) for every other `$name` occurrence"""
    masked = strip_comments_mask(text)
    decls, uses = [], []
    m = re.match(r"\s*vars\s*\{", masked)
    block_end = -1
    decl_spans = set()
    if m:
        # the vars block ends at the first '}' (no braces inside declarations)
        block_end = masked.find("}", m.end())
        body = masked[m.end():block_end if block_end >= 0 else len(masked)]
        for dm in re.finditer(r"([a-z]+[a-z_]*)\s+(\$[a-z_]+[a-z0-9_]*)", body):
            # `type $name` — but not `overdraft $x`-like argument positions: a declaration starts the
            # block or follows a complete declaration; the generator's layouts keep one declaration per line
            s = m.end() + dm.start(2)
            e = m.end() + dm.end(2)
            decls.append({"name": dm.group(2)[1:], "type": dm.group(1), "start": s, "end": e})
            decl_spans.add(s)
    for vm in VAR_RE.finditer(masked):
        if vm.start() in decl_spans:
            continue
        uses.append({"name": vm.group(0)[1:], "start": vm.start(), "end": vm.end()})
    return decls, uses


def expected_name_diags(text):
    """what C16 demands: unbound uses, duplicate declarations, unused first declarations — as multisets of
    (kind, range, name)"""
    decls, uses = scan_vars(text)
    out = []
    first = {}
    for d in decls:
        if d["name"] in first:
            out.append(("DuplicateVariable", rng_of(text, d["start"], d["end"]), d["name"]))
        else:
            first[d["name"]] = d
    masked = strip_comments_mask(text)
    m = re.match(r"\s*vars\s*\{", masked)
    block_end = masked.find("}", m.end()) if m else -1

    def own_decl(u):
        """a use inside the vars block sits in the origin of the nearest preceding declaration"""
        if block_end < 0 or u["start"] > block_end:
            return None
        prev = [d for d in decls if d["start"] < u["start"]]
        return prev[-1] if prev else None

    def bound(u):
        d = first.get(u["name"])
        if d is None or d["start"] > u["start"]:
            return False
        return own_decl(u) is not d          # a declaration is not visible in its own origin

    for u in uses:
        if not bound(u):
            out.append(("UnboundVariable", rng_of(text, u["start"], u["end"]), u["name"]))
    for name, d in first.items():
        # used = referenced after the declaration is complete
        if not any(u["name"] == name and u["start"] > d["start"] and own_decl(u) is not d for u in uses):
            out.append(("UnusedVar", rng_of(text, d["start"], d["end"]), name))
    return sorted(out)


# ------------------------------------------------------------------ name edits (C16)

def name_edit(text, rng):
    """delete / duplicate / rename a declaration or a use; returns (new text, description) or None"""
    decls, uses = scan_vars(text)
    if not decls:
        return None
    kind = rng.choice(["del-decl", "dup-decl", "rename-decl", "rename-use", "self-ref", "forward-ref", "origin-var", "add-unused"])
    if kind in ("self-ref", "forward-ref", "origin-var"):
        masked = strip_comments_mask(text)
        origins = [d for d in decls if "=" in masked[d["end"]:masked.find("\n", d["end"])]]
        if not origins:
            # add a declaration with an origin
            m0 = re.match(r"\s*vars\s*\{\n?", text)
            if not m0:
                return None
            if kind == "self-ref":
                return text[:m0.end()] + '  account $selfish = meta($selfish, "k")\n' + text[m0.end():], kind
            if kind == "forward-ref":
                return text[:m0.end()] + '  monetary $fwd = balance($later, USD)\n  account $later\n' + text[m0.end():], kind
            return text[:m0.end()] + '  account $before\n  monetary $fromvar = balance($before, USD)\n' + text[m0.end():], kind
        d = rng.choice(origins)
        le = text.find("\n", d["end"])
        line = text[d["end"]:le]
        am = re.search(r"\(@[a-zA-Z0-9_:-]+", line)
        if not am:
            return None
        if kind == "self-ref":
            repl = "($" + d["name"]
        elif kind == "forward-ref":
            later = [x for x in decls if x["start"] > d["start"] and x["type"] == "account"]
            if not later:
                return None
            repl = "($" + rng.choice(later)["name"]
        else:
            earlier = [x for x in decls if x["start"] < d["start"] and x["type"] == "account"]
            if not earlier:
                return None
            repl = "($" + rng.choice(earlier)["name"]
        return text[:d["end"] + am.start()] + repl + text[d["end"] + am.end():], kind
    if kind == "del-decl":
        d = rng.choice(decls)
        # remove the whole line of the declaration
        ls = text.rfind("\n", 0, d["start"]) + 1
        le = text.find("\n", d["end"])
        # only plain declarations (no origin) so that we do not delete uses in origin arguments... keep simple: delete anyway
        return text[:ls] + text[le + 1:], kind
    if kind == "dup-decl":
        d = rng.choice(decls)
        ls = text.rfind("\n", 0, d["start"]) + 1
        le = text.find("\n", d["end"])
        line = text[ls:le + 1]
        if "=" in line:
            line = "  %s $%s\n" % (d["type"], d["name"])
        return text[:le + 1] + line + text[le + 1:], kind
    if kind == "rename-decl":
        d = rng.choice(decls)
        return text[:d["start"]] + "$renamed_x" + text[d["end"]:], kind
    if kind == "rename-use" and uses:
        u = rng.choice(uses)
        return text[:u["start"]] + "$nobody" + text[u["end"]:], kind
    if kind == "move-decl-last":
        return None
    if kind == "add-unused":
        m = re.match(r"\s*vars\s*\{\n?", text)
        if m:
            return text[:m.end()] + "  string $never_used\n" + text[m.end():], kind
    return None


# ------------------------------------------------------------------ type-breaking edits (C17)

LITERALS = {"account": "@acc", "asset": "EUR", "number": "7", "monetary": "[USD 7]", "portion": "1/4", "string": '"txt"'}


def type_edit(text, rng):
    """replace a literal by one of another type, change a declared type, break an arity, misplace a function"""
    kind = rng.choice(["lit-swap", "decl-type", "arity", "unknown-fn", "misplaced-fn", "undeclare", "infix-mix",
                       "sendall-shape", "unknown-type"])
    if kind == "lit-swap":
        cands = [(m.start(), m.end()) for m in re.finditer(r"@[a-zA-Z0-9_:-]+|\[[A-Z/0-9]+ -?[0-9]+\]|\b[0-9]+/[0-9]+\b|\b[0-9]+%", text)]
        if not cands:
            return None
        s, e = rng.choice(cands)
        return text[:s] + rng.choice(list(LITERALS.values())) + text[e:], kind
    if kind == "decl-type":
        decls, _ = scan_vars(text)
        if not decls:
            return None
        d = rng.choice(decls)
        ts = text.rfind(d["type"], 0, d["start"])
        return text[:ts] + rng.choice(TYPES + ["money", "acount"]) + text[ts + len(d["type"]):], kind
    if kind == "arity":
        m = re.search(r'set_tx_meta\("[a-z0-9]*", ', text)
        if m:
            return text[:m.end()] + '"extra", ' + text[m.end():], kind
        return text + 'set_tx_meta("k")\n', kind
    if kind == "unknown-fn":
        return text + 'set_nothing("k", 1)\n', kind
    if kind == "misplaced-fn":
        return text + rng.choice(['balance(@a, USD)\n', 'meta(@a, "k")\n']), kind
    if kind == "undeclare":
        decls, uses = scan_vars(text)
        if not decls:
            return None
        d = rng.choice(decls)
        ls = text.rfind("\n", 0, d["start"]) + 1
        le = text.find("\n", d["end"])
        return text[:ls] + text[le + 1:], kind
    if kind == "infix-mix":
        m = re.search(r"send (\[[A-Z/0-9]+ [0-9]+\])", text)
        if m:
            return text[:m.end(1)] + rng.choice([" + @a", " - 3", ' + "s"', " + [EUR 1]", " + 1/2"]) + text[m.end(1):], kind
        return None
    if kind == "sendall-shape":
        m = re.search(r"send \[([A-Z/0-9]+) \*\] \(\n  source = ", text)
        if m:
            return text[:m.end()] + rng.choice(["{ 1/2 from @a remaining from @b }\n  destination = @c\n)\nsend [USD *] (\n  source = ",
                                                "@world\n  destination = @c\n)\nsend [USD *] (\n  source = ",
                                                "@a allowing unbounded overdraft\n  destination = @c\n)\nsend [USD *] (\n  source = "]) + text[m.end():], kind
        return text + "send [USD *] (\n  source = { 50% from @a 50% from @b }\n  destination = @c\n)\n", kind
    if kind == "unknown-type":
        # a declaration whose type name does not exist: plain, or initialised by a function call (the store
        # holds the key, see check_c17); unused, or used where any type is accepted
        decl = rng.choice(["money $weird", "money $weird", 'acount $weird = meta(@a, "k")', 'money $weird = balance(@a, USD)',
                           'strin $weird = meta(@a, "k")'])
        use = 'set_tx_meta("w", $weird)\n' if rng.random() < 0.5 else ""
        if "=" in decl:
            kind = "unknown-type-origin"
        m = re.match(r"\s*vars\s*\{\n?", text)
        if m:
            return text[:m.end()] + "  " + decl + "\n" + text[m.end():] + use, kind
        return "vars {\n  " + decl + "\n}\n" + text + use, kind
    return None


def vars_for(text, base_vars):
    """values of the declared types for every plain declaration of the (possibly edited) text"""
    decls, _ = scan_vars(text)
    out = {}
    masked = strip_comments_mask(text)
    for d in decls:
        le = masked.find("\n", d["end"])
        rest = masked[d["end"]:le if le >= 0 else len(masked)]
        if "=" in rest:
            continue
        raw = base_vars.get(d["name"])
        if raw is None or not value_has_type(raw, d["type"]):
            raw = DEFAULTS.get(d["type"], "whatever")
        out[d["name"]] = raw
    return out


def value_has_type(raw, t):
    if t == "number":
        return re.fullmatch(r"-?[0-9]+", raw) is not None
    if t == "monetary":
        return re.fullmatch(r"[A-Z/0-9]+ -?[0-9]+", raw) is not None
    if t == "portion":
        return re.fullmatch(r"[0-9]+\s?/\s?[0-9]+|[0-9]+(\.[0-9]+)?%", raw) is not None
    if t == "account":
        return re.fullmatch(r"[a-zA-Z0-9_-]+(:[a-zA-Z0-9_-]+)*", raw) is not None
    if t == "asset":
        return re.fullmatch(r"[A-Z/0-9]+", raw) is not None
    return True


# ------------------------------------------------------------------ broken texts (C14, C18)

PAD_COUNTS = [12, 15, 16, 17, 20, 31, 33, 64, 65, 99, 100, 101, 130, 257]


def pad_vars(text, rng, k=None):
    """the same script with K more declared variables nobody uses (K around the sizes where tables, buffers and
    limits of a checker would change behaviour): K more `unused variable` warnings, nothing else changes"""
    k = k or rng.choice(PAD_COUNTS)
    lines = "".join("  %s $pad_%d\n" % (rng.choice(TYPES), i) for i in range(k))
    masked = strip_comments_mask(text)
    m = re.match(r"\s*vars\s*\{[ \t]*\n?", masked)
    if m:
        # at the top, or at the bottom of the block
        if rng.random() < 0.5:
            return text[:m.end()] + lines + text[m.end():]
        e = masked.find("}", m.end())
        if e >= 0:
            return text[:e] + "\n" + lines + text[e:]
        return None
    return "vars {\n" + lines + "}\n" + text


def pad_text(text, rng, size=None):
    """the same script made long: comment lines and blank lines in front of it or behind it, up to a few KiB / 64 KiB,
    or one very long comment line (longer than the usual line buffers)"""
    size = size or rng.choice([4096, 16384, 65536, 70000])
    x = rng.random()
    if x < 0.35:
        pad = "//" + "x" * size + "\n"
    elif x < 0.5:
        pad = "/*" + "y" * size + "*/\n"
    else:
        pad = "".join("// line %d\n" % i if i % 3 else "\n" for i in range(size // 9))
    return pad + text if rng.random() < 0.6 else text + ("\n" if not text.endswith("\n") else "") + pad


def crlf_cuts(text, rng, n=6):
    """the text with CR LF line ends, and what an editor holds while such a text is being typed or received in pieces:
    cut right after a carriage return, right after the line feed, and in the middle of a line; also with lone CRs"""
    t = text.replace("\n", "\r\n")
    out = [t, text.replace("\n", "\r")]
    crs = [i for i, ch in enumerate(t) if ch == "\r"]
    for i in rng.sample(crs, min(n, len(crs))):
        out += [t[:i + 1], t[:i + 2], t[:max(0, i - 1)] + "\r"]
    return out


TOKENS = ["vars", "{", "}", "(", ")", "[", "]", "send", "save", "source", "destination", "=", "from", "to", "max",
          "remaining", "kept", "allowing", "unbounded", "overdraft", "up", "*", "-", "+", ",", "@a", "@world", "$x", "$",
          "USD", "EUR/2", "10", "-3", "1/2", "1/0", "50%", "12.5%", '"str"', '"é"', "monetary", "account", "number",
          "portion", "string", "asset", "balance", "meta", "set_tx_meta", "set_account_meta", "99999999999999999999",
          "08%", "//c\n", "/* c */", "\n", "@", "%", "/", ".", "é", "\t", "1 / 2", "#", "'", '"']

TOKEN_RE = re.compile(r'"[^"\n]*"|//[^\n]*|/\*.*?\*/|\$[a-z_0-9]*|@[a-zA-Z0-9_:-]*|[0-9]+\s?/\s?[0-9]+|[0-9.]+%|[A-Za-z_]+|[0-9]+|\S', re.S)


def broken_variants(text, rng, n):
    """texts reachable by editing `text`"""
    out = []
    toks = [(m.start(), m.end()) for m in TOKEN_RE.finditer(text)]
    for _ in range(n):
        k = rng.randrange(8)
        if k == 0:
            out.append(text[:rng.randrange(0, len(text) + 1)])
        elif k == 1 and toks:
            s, e = rng.choice(toks)
            out.append(text[:s] + text[e:])
        elif k == 2 and toks:
            s, e = rng.choice(toks)
            out.append(text[:e] + " " + text[s:e] + text[e:])
        elif k == 3 and toks:
            s, e = rng.choice(toks)
            out.append(text[:s] + rng.choice(TOKENS) + " " + text[s:])
        elif k == 4 and toks:
            s, e = rng.choice(toks)
            out.append(text[:s] + rng.choice(TOKENS) + text[e:])
        elif k == 5:
            out.append(" ".join(rng.choice(TOKENS) for _ in range(rng.randrange(1, 12))))
        elif k == 6 and toks:
            # delete a bracket
            br = [(s, e) for s, e in toks if text[s:e] in "{}()[]"]
            if br:
                s, e = rng.choice(br)
                out.append(text[:s] + text[e:])
        else:
            i = rng.randrange(0, len(text) + 1)
            out.append(text[:i] + rng.choice(["é", " ", "\x00", "🙂", "\r\n", "\\", "\""]) + text[i:])
    return out


def all_prefixes(text):
    return [text[:i] for i in range(len(text) + 1)]


def all_positions(text, cap=400):
    lines = text.split("\n")
    out = []
    for i, l in enumerate(lines):
        for c in range(0, len(l) + 2):
            out.append([i, c])
    if len(out) > cap:
        step = len(out) / cap
        out = [out[int(i * step)] for i in range(cap)]
    # positions no text has: past the last line, far past the end of a line
    n = len(lines)
    out += [[n, 0], [n + 3, 2], [0, 100000], [n - 1, len(lines[-1]) + 7], [2 ** 31 - 1, 2 ** 31 - 1]]
    return out
