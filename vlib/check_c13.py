"""C13 — values keep their exact meaning across literal, variable and metadata text."""
import itertools
import json
import random
from fractions import Fraction

import runner
import props_exec as P
from runner import enc, dec
from registry import REGISTRY


def portion_texts(max_digits):
    D = "0123456789"
    out = []
    for L in range(2, max_digits + 1):
        for ds in itertools.product(D, repeat=L):
            s = "".join(ds)
            for cut in range(1, L):
                a, b = s[:cut], s[cut:]
                out.append(("ratio", a + "/" + b, a, b))
    # spacing variants on a subset
    for L in range(1, max_digits + 1):
        for ds in itertools.product(D, repeat=L):
            s = "".join(ds)
            out.append(("pct", s + "%", s, ""))
            for cut in range(1, L):
                out.append(("pct", s[:cut] + "." + s[cut:] + "%", s[:cut], s[cut:]))
    return out


def exact(kind, a, b):
    if kind == "ratio":
        return None if int(b) == 0 else Fraction(int(a), int(b))
    return Fraction(int(a + b), 10 ** (2 + len(b)))


def check_portions(chk, fails, dis, stats):
    rng = random.Random("C13-%d" % chk.seed)
    max_digits = 3 if chk.tier == "quick" else 4
    texts = portion_texts(max_digits)
    # spacing variants
    extra = []
    for kind, t, a, b in texts:
        if kind == "ratio" and rng.random() < 0.08:
            extra.append((kind, a + " /" + b, a, b))
            extra.append((kind, a + "/ " + b, a, b))
            extra.append((kind, a + " / " + b, a, b))
    stats["portion_texts_exhaustive"] = len(texts)
    texts += extra
    # random long numerals
    for _ in range(chk.size(2000, 30000)):
        la, lb = rng.randrange(1, 40), rng.randrange(1, 40)
        a = "".join(rng.choice("0123456789") for _ in range(la))
        b = "".join(rng.choice("0123456789") for _ in range(lb))
        if rng.random() < 0.5:
            if rng.random() < 0.7:      # make it <= 1 most of the time
                a, b = sorted([a, b], key=lambda x: (len(x.lstrip("0")), x.lstrip("0")))
            texts.append(("ratio", a + rng.choice(["/", " / "]) + b, a, b))
        else:
            if rng.random() < 0.5:
                texts.append(("pct", a[:2] + "." + b + "%", a[:2], b))
            else:
                texts.append(("pct", a + "%", a, ""))
    import gen_exec
    for n in gen_exec.boundary_ints():
        a = str(n)
        texts.append(("pct", a + "%", a, ""))
        texts.append(("pct", a[:-3] + "." + a[-3:] + "%", a[:-3], a[-3:])) if len(a) > 3 else None
        texts.append(("pct", "0." + a + "%", "0", a))
        texts.append(("ratio", a + "/" + a, a, a))
        texts.append(("ratio", "1/" + a, "1", a))
        texts.append(("ratio", str(n - 1) + " / " + a, str(n - 1), a))
    cases = [{"id": i, "op": "portion", "text": t} for i, (k, t, a, b) in enumerate(texts)]
    gos = runner.run_go(cases)
    lines = []
    for i, (k, t, a, b) in enumerate(texts):
        lines.append("portionlit\t%d\t%s" % (i, enc(t)))
        lines.append("parsevar\t%d\t%s\t%s" % (i, enc("portion"), enc(t)))
    louts = runner.run_lean(lines)
    stats["evaluations"] += len(cases)
    for i, ((k, t, a, b), o) in enumerate(zip(texts, gos)):
        q = exact(k, a, b)
        lit, var = o.get("lit", {}), o.get("var", {})
        c = cases[i]
        why = []
        # literal: exactly that fraction in base ten
        if lit.get("outcome") == "panic":
            why.append("literal %r makes the parser panic: %s" % (t, lit.get("panic")))
        elif lit.get("outcome") != "ok":
            why.append("literal %r is not read as a portion (%s, %s parse errors)" % (t, lit.get("outcome"), lit.get("parseErrors")))
        elif q is not None:
            if int(lit["den"]) == 0 or Fraction(int(lit["num"]), int(lit["den"])) != q:
                why.append("literal %r denotes %s/%s, exact value %s" % (t, lit["num"], lit["den"], q))
        elif int(lit["den"]) != 0:
            why.append("literal %r with zero denominator read as %s/%s" % (t, lit["num"], lit["den"]))
        # variable: same number, or rejected when outside [0,1] / zero denominator
        if var.get("outcome") == "panic":
            why.append("portion variable %r panics: %s" % (t, var.get("panic")))
        elif q is not None and 0 <= q <= 1:
            if var.get("outcome") != "ok" or Fraction(int(var["num"]), int(var["den"])) != q:
                why.append("portion variable %r gives %s, exact value %s" % (t, var, q))
            else:
                stats["distinct_nontrivial"] += 1
        else:
            if var.get("outcome") != "err" or var.get("errKind") != "BadPortionParsingErr":
                why.append("portion variable %r (value %s) not rejected: %s" % (t, q, var))
        if why:
            fails.append((c, o, None, why))
        # model
        ml, mv = louts[2 * i].split("\t"), louts[2 * i + 1].split("\t")
        stats["model_comparisons"] += 2
        if lit.get("outcome") == "ok":
            if ml[1] != "ok" or ml[2] != lit["num"] or ml[3] != lit["den"]:
                dis.append((c, o, {"model": louts[2 * i]}, ["literal conversion"]))
        if var.get("outcome") == "ok":
            want = "%s/%s" % (var["num"], var["den"])
            if mv[1] != "ok" or dec(mv[3]) != want:
                dis.append((c, o, {"model": louts[2 * i + 1]}, ["portion variable value"]))
        elif var.get("outcome") == "err":
            if mv[1] != "err" or mv[2] != var.get("errKind") or [dec(x) for x in mv[3].split()] != var.get("errPayload"):
                dis.append((c, o, {"model": louts[2 * i + 1]}, ["portion variable error"]))


VALUES = {
    "account": ["a", "users:001", "a-b_c:D-9", "world", "x:y:z"],
    "asset": ["USD", "EUR/2", "COIN", "A/B/9", "007"],
    "string": ["", "hello", "a b", "é", "<kept>", "with \"quote", "tab\there", "&<>", "日本語", "  "],
    "number": ["0", "1", "-1", "42", "18446744073709551616", "-340282366920938463463374607431768211456", "007", "+5"],
    "monetary": ["USD 0", "USD 100", "EUR/2 -5", "COIN 340282366920938463463374607431768211456", "USD 007"],
    "portion": ["0/1", "1/1", "1/2", "2/4", "50%", "12.5%", "0.001%", "100%", "1/3", "3/9", "010%"],
}


def check_roundtrip(chk, fails, dis, stats):
    """value text --(plain variable)--> value --(set_account_meta)--> text --(meta())--> value: identical"""
    rng = random.Random("C13rt-%d" % chk.seed)
    items = [(t, v) for t, vs in VALUES.items() for v in vs]
    for _ in range(chk.size(300, 5000)):
        t = rng.choice(list(VALUES))
        if t == "number":
            v = str(rng.choice([1, -1]) * rng.randrange(0, 10 ** rng.randrange(1, 40)))
        elif t == "monetary":
            v = "%s %d" % (rng.choice(["USD", "EUR/2", "X9"]), rng.choice([1, -1]) * rng.randrange(0, 10 ** rng.randrange(1, 40)))
        elif t == "portion":
            d = rng.randrange(1, 10 ** rng.randrange(1, 12))
            v = "%d/%d" % (rng.randrange(0, d + 1), d)
        elif t == "string":
            v = "".join(rng.choice("ab \"\\<>&é\t%$@{}") for _ in range(rng.randrange(0, 8)))
        elif t == "account":
            v = ":".join("".join(rng.choice("abzAZ09_-") for _ in range(rng.randrange(1, 5))) for _ in range(rng.randrange(1, 4)))
        else:
            v = "".join(rng.choice("ABZ/09") for _ in range(rng.randrange(1, 6)))
        items.append((t, v))
    # step 1: plain variable -> value, account metadata text, JSON of tx metadata
    c1 = [{"id": i, "op": "parsevar", "type": t, "text": v} for i, (t, v) in enumerate(items)]
    g1 = runner.run_go(c1)
    # model for step 1
    l1 = []
    for c, o in zip(c1, g1):
        l1.append(runner.lean_exec_line({"id": c["id"], "vars": {"v": c["text"]}, "store": "exact"}, o["ast"]))
    m1 = [runner.parse_lean_exec(x) for x in runner.run_lean(l1)]
    # step 2: feed the account metadata back through meta()
    c2, idx = [], []
    for i, ((t, v), o) in enumerate(zip(items, g1)):
        go = o["go"]
        if go["outcome"] != "ok":
            continue
        stored = go["accMeta"]["acc"]["k"]
        # the metadata of @world and of segmented accounts is metadata like any other
        acc = ["acc", "world", "users:001", "acc"][i % 4]
        script = "vars { %s $w = meta(@%s, \"k\") }\nset_tx_meta(\"k\", $w)\nset_account_meta(@%s, \"k\", $w)\n" % (t, acc, acc)
        c2.append({"id": len(c2), "op": "exec", "script": script, "vars": {}, "balances": {}, "meta": {acc: {"k": stored}}, "_acc": acc,
                   "store": "exact", "failAt": -1})
        c2.append(dict(c2[-1], id=len(c2), store="static"))          # the bundled store adapter too
        idx.append(i)
        idx.append(i)
    g2 = runner.run_go(c2)
    m2 = P.run_model(c2, g2)
    stats["evaluations"] += len(c1) + len(c2)
    for c, o, m in zip(c1, g1, m1):
        go = o["go"]
        stats["model_comparisons"] += 1
        d = runner.diff_exec(go, m, ["txMeta", "accMeta", "errKind", "errPayload"])
        if d:
            dis.append((c, go, m, d))
        if go["outcome"] == "panic":
            fails.append((c, go, m, ["panic while reading a variable: %s" % go.get("panic")]))
        if go["outcome"] == "ok":
            ty, s = go["txMeta"]["k"]
            if ty != c["type"]:
                fails.append((c, go, m, ["variable of type %s holds a %s" % (c["type"], ty)]))
            if ty in ("string", "asset", "account") and s != c["text"]:
                fails.append((c, go, m, ["%s variable given the text %r holds %r" % (ty, c["text"], s)]))
            if ty == "number" and s != str(int(c["text"])):
                fails.append((c, go, m, ["number variable given the text %r holds %r" % (c["text"], s)]))
            if go["accMeta"]["acc"]["k"] != s:
                fails.append((c, go, m, ["account metadata text %r differs from the value's text %r" % (go["accMeta"]["acc"]["k"], s)]))
            if ty in ("number", "portion", "monetary") and o.get("json") != '"%s"' % s:
                fails.append((c, go, m, ["transaction metadata serialises to %s, expected the quoted text %r" % (o.get("json"), s)]))
            if ty in ("string", "asset", "account") and o.get("json") is not None:
                # whatever escapes the serialiser chooses, a JSON reader must get the text back
                try:
                    back = json.loads(o["json"])
                except Exception:
                    back = None
                    fails.append((c, go, m, ["transaction metadata serialises to %s, which is not JSON" % o["json"][:80]]))
                if back is not None and back != s:
                    fails.append((c, go, m, ["transaction metadata serialises to %s, which reads back as %r, not %r" % (o["json"][:80], back, s)]))
    for j, (c, o, m) in enumerate(zip(c2, g2, m2)):
        i = idx[j]
        go = o.get("go")
        first = g1[i]["go"]
        if go is None:
            continue
        if m is not None:
            stats["model_comparisons"] += 1
            d = runner.diff_exec(go, m, ["txMeta", "accMeta", "errKind", "errPayload"])
            if d:
                dis.append((c, go, m, d))
        if go["outcome"] != "ok":
            fails.append((dict(c, _first=c1[i]), go, m, ["value written to account metadata (%r) cannot be read back as %s: %s %s" % (
                c["meta"][c["_acc"]]["k"], items[i][0], go.get("errKind"), go.get("errPayload"))]))
        elif go["txMeta"]["k"] != first["txMeta"]["k"]:
            fails.append((dict(c, _first=c1[i]), go, m, ["read back %s, written %s" % (go["txMeta"]["k"], first["txMeta"]["k"])]))
        elif (go.get("accMeta") or {}).get(c["_acc"], {}).get("k") != c["meta"][c["_acc"]]["k"]:
            fails.append((dict(c, _first=c1[i]), go, m, ["value written back to the metadata of @%s: %r, read %r" % (
                c["_acc"], (go.get("accMeta") or {}).get(c["_acc"], {}).get("k"), c["meta"][c["_acc"]]["k"])]))
        else:
            stats["distinct_nontrivial"] += 1


def check_observed_around_arithmetic(chk, fails, dis, stats):
    """a variable keeps the value of its text wherever it is observed: before and after being an operand of + or -,
    in transaction metadata and in account metadata; the result of the operation is the exact sum / difference"""
    rng = random.Random("C13arith-%d" % chk.seed)
    import tricky
    cases, exps = [], []
    for i in range(chk.size(300, 4000)):
        mon = rng.random() < 0.6
        a = rng.choice(tricky.EDGE_INTS + [0, 1, 7, 10 ** 30, 25 * 10 ** 18]) * rng.choice([1, 1, -1])
        b = rng.choice(tricky.EDGE_INTS + [0, 1, 5, 2 ** 64]) * rng.choice([1, 1, -1])
        op = rng.choice(["+", "+", "-"])
        res = a + b if op == "+" else a - b
        if mon:
            asset = rng.choice(["USD", "ETH/18", "COIN"])
            ty, ta, tb, tr = "monetary", "%s %d" % (asset, a), "%s %d" % (asset, b), "%s %d" % (asset, res)
        else:
            ty, ta, tb, tr = "number", str(a), str(b), str(res)
        right = "$q" if rng.random() < 0.6 else ("$p" if rng.random() < 0.3 else None)
        if right is None:
            right, tb2 = (("[%s %d]" % (asset, b)) if mon else str(b)), None
            if (not mon and b < 0) or not (-2 ** 63 <= b < 2 ** 63):
                right = "$q"       # a literal beyond a machine integer is the known finding number-literal-out-of-range
        if right == "$p":
            res = a + a if op == "+" else 0
            tr = ("%s %d" % (asset, res)) if mon else str(res)
        script = ("vars {\n  %s $p\n  %s $q\n}\n" % (ty, ty) +
                  "set_tx_meta(\"before\", $p)\nset_account_meta(@acc, \"before\", $p)\n" +
                  "set_tx_meta(\"res\", $p %s %s)\nset_account_meta(@acc, \"res\", $p %s %s)\n" % (op, right, op, right) +
                  "set_tx_meta(\"after\", $p)\nset_account_meta(@acc, \"after\", $p)\nset_account_meta(@acc, \"other\", $q)\n")
        cases.append({"id": i, "op": "exec", "script": script, "vars": {"p": ta, "q": tb}, "balances": {}, "meta": {},
                      "store": "exact", "failAt": -1})
        exps.append({"before": ta, "after": ta, "res": tr, "other": tb})
    gos = runner.run_go(cases)
    mods = P.run_model(cases, gos)
    stats["evaluations"] += len(cases)
    for c, e, o, m in zip(cases, exps, gos, mods):
        go = o.get("go")
        if go is None:
            continue
        if m is not None:
            stats["model_comparisons"] += 1
            d = runner.diff_exec(go, m, ["txMeta", "accMeta", "errKind", "errPayload"])
            if d:
                dis.append((c, go, m, d))
        if go["outcome"] != "ok":
            fails.append((c, go, m, ["arithmetic on well-typed values failed: %s %s" % (go.get("errKind"), go.get("errPayload"))]))
            continue
        why = []
        for k in ("before", "res", "after"):
            if go["txMeta"][k][1] != e[k]:
                why.append("transaction metadata %r is %r, the value written was %r" % (k, go["txMeta"][k][1], e[k]))
        for k in ("before", "res", "after", "other"):
            if go["accMeta"]["acc"][k] != e[k]:
                why.append("account metadata %r is %r, the value written was %r" % (k, go["accMeta"]["acc"][k], e[k]))
        if why:
            fails.append((c, go, m, why[:3]))
        else:
            stats["distinct_nontrivial"] += 1


def check_metadata_entries_apart(chk, fails, dis, stats):
    """several metadata-backed variables in one script, on (account, key) pairs that look alike once joined (an account
    segment that is also the head of a key, the same key on two accounts, the same account with two keys): each
    variable gets the text of ITS entry"""
    rng = random.Random("C13meta-%d" % chk.seed)
    cases, exps = [], []
    tys = {"string": ["v-one", "v two", "3/4"], "number": ["1", "22", "-3"], "monetary": ["USD/2 100", "USD/2 999", "COIN 0"],
           "portion": ["1/4", "3/4", "1/2"], "account": ["x", "y:z", "w"], "asset": ["USD", "EUR/2", "A"]}
    for i in range(chk.size(200, 3000)):
        sep = rng.choice([":", ":", "/", ".", " ", "-", "_", ""])
        head, mid, tail = rng.choice(["users", "u", "a-b"]), rng.choice(["alice", "k", "001"]), rng.choice(["rate", "r", "x_y"])
        pairs = [(head + ":" + mid, tail), (head, mid + sep + tail)]
        if sep != ":":
            pairs[1] = (head, mid + ":" + tail) if rng.random() < 0.5 else pairs[1]
        extra = rng.choice([(head + ":" + mid, tail + "2"), (head, tail), (mid, tail), (head + ":" + mid + ":" + tail, "k")])
        pairs.append(extra)
        rng.shuffle(pairs)
        ty = rng.choice(sorted(tys))
        vals = list(tys[ty])
        rng.shuffle(vals)
        meta, decls, body, exp = {}, [], [], {}
        for j, ((acc, key), v) in enumerate(zip(pairs, vals)):
            if not all(ch.isalnum() or ch in "_-:" for ch in acc) or '"' in key:
                continue
            meta.setdefault(acc, {})[key] = v
            decls.append('  %s $m%d = meta(@%s, "%s")' % (ty, j, acc, key))
            body.append('set_tx_meta("m%d", $m%d)' % (j, j))
            exp["m%d" % j] = (acc, key)
        if len(decls) < 2:
            continue
        script = "vars {\n" + "\n".join(decls) + "\n}\n" + "\n".join(body) + "\n"
        cases.append({"id": len(cases), "op": "exec", "script": script, "vars": {}, "balances": {}, "meta": meta,
                      "store": rng.choice(["exact", "static", "superset", "sparse"]), "failAt": -1})
        exps.append((exp, meta, ty))
    gos = runner.run_go(cases)
    mods = P.run_model(cases, gos)
    stats["evaluations"] += len(cases)
    for c, (exp, meta, ty), o, m in zip(cases, exps, gos, mods):
        go = o.get("go")
        if go is None:
            continue
        if m is not None:
            stats["model_comparisons"] += 1
            d = runner.diff_exec(go, m, ["txMeta", "errKind", "errPayload"])
            if d:
                dis.append((c, go, m, d))
        if go["outcome"] != "ok":
            fails.append((c, go, m, ["reading well-formed metadata entries failed: %s %s" % (go.get("errKind"), go.get("errPayload"))]))
            continue
        why = []
        for name, (acc, key) in exp.items():
            want = meta[acc][key]
            got = go["txMeta"][name][1]
            wantv = want if ty in ("string", "account", "asset", "monetary") else None
            if ty == "number":
                wantv = str(int(want))
            if ty == "portion":
                from fractions import Fraction
                q = Fraction(want)
                wantv = "%d/%d" % (q.numerator, q.denominator)
            if got != wantv:
                why.append("variable read from meta(@%s, %r) holds %r, the entry holds %r" % (acc, key, got, want))
        if why:
            fails.append((c, go, m, why[:3]))
        else:
            stats["distinct_nontrivial"] += 1


def check_string_literals(chk, fails, dis, stats):
    """a string literal denotes the text between its quotes, verbatim (escaped quotes and backslashes included): written
    as a literal or handed in as a string variable, the same text reaches the metadata"""
    import gen_exec
    import parse_model
    rng = random.Random("C13str-%d" % chk.seed)
    pieces = ['\\"', "\\", "a", " ", "é", "%", "<", "'", "日", "}", "$x", "@y", "//", "/*"]
    bodies = list(gen_exec.RAW_BODIES) + VALUES["string"][:2] + ["é", "&<>", "日本語", "  ", "// not a comment", "/* nor this */"]
    for _ in range(chk.size(200, 3000)):
        bodies.append("".join(rng.choice(pieces) for _ in range(rng.randrange(1, 7))))
    bodies = list(dict.fromkeys(bodies))
    cases = []
    for b in bodies:
        cases.append({"id": len(cases), "op": "exec", "script": 'set_tx_meta("k", "%s")\nset_account_meta(@acc, "k", "%s")\n' % (b, b),
                      "vars": {}, "balances": {}, "meta": {}, "store": "exact", "failAt": -1, "_body": b})
        cases.append({"id": len(cases), "op": "exec", "script": 'vars { string $s }\nset_tx_meta("k", $s)\nset_account_meta(@acc, "k", $s)\n',
                      "vars": {"s": b}, "balances": {}, "meta": {}, "store": "exact", "failAt": -1, "_body": b})
    gos = runner.run_go([{k: v for k, v in c.items() if k != "_body"} for c in cases])
    mods = P.run_model(cases, gos)
    pdis, pstats = parse_model.compare([c["script"] for c in cases], gos)
    stats["model_comparisons"] += pstats["parser_model_comparisons"]
    dis += [(c, go, m, why) for c, go, m, why in pdis]
    stats["evaluations"] += len(cases)
    stats["string_literal_bodies"] = len(bodies)
    for c, o, m in zip(cases, gos, mods):
        go = o.get("go")
        if go is None:
            if o.get("parseErrors"):
                fails.append((c, o, None, ["a string literal with the body %r is not accepted: %s" % (c["_body"], o["parseErrors"][:1])]))
            continue
        if o.get("parseErrors"):
            fails.append((c, go, None, ["a string literal with the body %r is not accepted: %s" % (c["_body"], o["parseErrors"][:1])]))
            continue
        if go["outcome"] != "ok":
            fails.append((c, go, m, ["writing the string %r to the metadata fails: %s %s" % (c["_body"], go.get("errKind"), go.get("panic"))]))
            continue
        got = (go["txMeta"]["k"], go["accMeta"]["acc"]["k"])
        if got != (["string", c["_body"]], c["_body"]):
            fails.append((c, go, m, ["the string %r reaches the metadata as %r" % (c["_body"], got)]))
        else:
            stats["distinct_nontrivial"] += 1
        if m is not None:
            stats["model_comparisons"] += 1
            d = runner.diff_exec(go, m, ["txMeta", "accMeta"])
            if d:
                dis.append((c, go, m, d))


def check_modular_twins(chk, fails, dis, stats):
    """portion literals that agree modulo a machine word (2^64, 2^32) or modulo 10^19 — numerator with numerator and
    denominator with denominator — in ONE script: each keeps its own exact value"""
    from fractions import Fraction
    rng = random.Random("C13twins-%d" % chk.seed)
    cases, exps = [], []
    for _ in range(chk.size(120, 1500)):
        b = rng.randrange(2, 50)
        a = rng.randrange(0, b + 1)
        m = rng.choice([2 ** 64, 2 ** 32, 10 ** 19, 2 ** 63, 2 ** 128])
        k = rng.randrange(1, 4)
        j = rng.randrange(k, 2 * k + 1) + (1 if a > b * k else 0)
        a2, b2 = a + k * m, b + max(j, k) * m
        if a2 > b2:
            a2, b2 = a, b + k * m
        lits = [(a, b), (a2, b2)]
        if rng.random() < 0.5:
            lits.reverse()
        script = "".join('set_tx_meta("p%d", %d/%d)\n' % (i, x, y) for i, (x, y) in enumerate(lits))
        cases.append({"id": len(cases), "op": "exec", "script": script, "vars": {}, "balances": {}, "meta": {}, "store": "exact", "failAt": -1})
        exps.append([Fraction(x, y) for x, y in lits])
    gos = runner.run_go(cases)
    mods = P.run_model(cases, gos)
    stats["evaluations"] += len(cases)
    stats["modular_twin_scripts"] = len(cases)
    for c, e, o, m in zip(cases, exps, gos, mods):
        go = o.get("go")
        if go is None or o.get("parseErrors"):
            continue            # (a literal above 2^63-1 … is the known finding of C14; these are ratio literals, which are not)
        if go["outcome"] != "ok":
            fails.append((c, go, m, ["portion literals rejected: %s %s" % (go.get("errKind"), go.get("errPayload"))]))
            continue
        for i, q in enumerate(e):
            got = go["txMeta"].get("p%d" % i)
            want = ["portion", "%d/%d" % (q.numerator, q.denominator)]
            if got != want:
                fails.append((c, go, m, ["literal %d of the script denotes %s, the metadata holds %s" % (i, want[1], got)]))
                break
        else:
            stats["distinct_nontrivial"] += 1
        if m is not None:
            stats["model_comparisons"] += 1
            d = runner.diff_exec(go, m, ["txMeta"])
            if d:
                dis.append((c, go, m, d))


def run(chk):
    broken = chk.obligations(REGISTRY["C13"])
    runner.build_harness()
    stats = {"evaluations": 0, "distinct_nontrivial": 0, "model_comparisons": 0}
    fails, dis = [], []
    check_portions(chk, fails, dis, stats)
    check_roundtrip(chk, fails, dis, stats)
    check_observed_around_arithmetic(chk, fails, dis, stats)
    check_metadata_entries_apart(chk, fails, dis, stats)
    check_string_literals(chk, fails, dis, stats)
    check_modular_twins(chk, fails, dis, stats)
    for c, go, m, why in fails[:10]:
        chk.violation("oracle", case=c, go=go, model=m, oracle=why)
    if not fails:
        for t in broken:
            chk.violation("theorem:%s no longer checks" % t, found_input=False, site="theorem:" + t)
        for c, go, m, why in dis[:3]:
            chk.violation("correspondence:values model and implementation differ on %s" % why, case=c, go=go, model=m, found_input=False)
    stats["model_disagreements"] = len(dis)
    stats["oracle_failures"] = len(fails)
    chk.coverage.update(stats)
    chk.coverage["exhaustive"] = True
    chk.coverage["rule"] = ("all portion texts n/d, p%%, p.q%% with at most %d digit characters (leading zeros included) + spacing variants + random numerals up to 40 digits, "
                            "each as literal (through the real lexer) and as portion variable; values of the six types written to account metadata and read back through meta(); "
                            "non-trivial = portion in [0,1] read exactly / value read back identical" % (3 if chk.tier == "quick" else 4))
    chk.coverage["samples"] = [{"text": "0.10%", "expect": "1/1000"}, {"text": "1/010", "expect": "1/10"},
                               {"type": "monetary", "text": "EUR/2 -5"}]
    chk.coverage["explanation"] = "literal and variable readers and value renderings of the Lean model (Model/Text.lean) compared with the Go code; exact values from Python fractions"
