"""shared plumbing for the static-analysis checks (C16–C19): run `analyze` on the Go side and on the Lean model"""
import runner
from runner import enc, dec


def lean_analyze_line(i, o, positions):
    perrs = " ".join("%s %s" % (r, enc(m)) for r, m in o.get("parseErrors", []))
    poss = " ".join("%d:%d" % (p[0], p[1]) for p in positions)
    return "analyze\t%d\t%s\t%s\t%s" % (i, o["ast"], perrs, poss)


def parse_lean_analyze(line):
    f = line.split("\t")
    out = {"outcome": f[1] if len(f) > 1 else "drivererror"}
    if out["outcome"] != "ok":
        out["detail"] = "\t".join(f[1:])[:300]
        if out["outcome"] == "panic" and len(f) > 2:
            out["panic"] = dec(f[2])
        return out
    diags = []
    for d in [x for x in f[2].split(";") if x.strip()]:
        t = d.split(" ")
        diags.append([t[0], t[1], t[2]] + [dec(x) for x in t[3:]])
    out["diags"] = diags
    sy = f[3]
    if sy.startswith("ok"):
        syms = []
        for s in [x for x in sy[2:].strip().split(";") if x.strip()]:
            t = s.split(" ")
            syms.append([dec(t[0]), dec(t[1]), t[2]])
        out["symbols"] = syms
    else:
        out["symbolsPanic"] = sy
    hovers = []
    for h in [x for x in f[4].split(";") if x != ""] if len(f) > 4 else []:
        hh, g, l = h.split("|")
        ent = {}
        if hh.startswith("panic"):
            ent["hoverPanic"] = hh
        elif hh != "none":
            t = hh.split(" ")
            ent["h"] = [t[0], t[1], dec(t[2])]
        if g.startswith("panic"):
            ent["gotoPanic"] = g
        elif g != "none":
            ent["goto"] = g
        if l.startswith("panic"):
            ent["lspPanic"] = l
        elif l != "none":
            t = l.split(" ")
            ent["lsp"] = [dec(t[0]), t[1]]
        hovers.append(ent)
    out["hovers"] = hovers
    out["errorCount"] = int(f[5]) if len(f) > 5 else None
    return out


def go_panics(o):
    return [k for k in ("parsePanic", "checkPanic", "symbolsPanic", "messagePanic") if k in o] + \
        [k for h in o.get("hovers", []) for k in ("hoverPanic", "gotoPanic") if k in h]


def diff_analysis(o, m, compare_hovers=True):
    """Go result o vs model m (parsed). returns list of differences"""
    d = []
    gp = go_panics(o)
    if "checkPanic" in o or "parsePanic" in o:
        if "checkPanic" in o and m.get("outcome") != "panic":
            d.append("go check panics (%s), model %s" % (o["checkPanic"][:80], m.get("outcome")))
        return d
    if m.get("parserModel"):
        d.append("parser model: " + m["parserModel"])
    if m.get("outcome") == "parse-only":
        return d
    if m.get("outcome") != "ok":
        d.append("model %s %s, go ok" % (m.get("outcome"), m.get("detail", "")[:100]))
        return d
    if sorted(map(tuple, o["diags"])) != sorted(map(tuple, m["diags"])):
        d.append("diagnostics")
    if "symbolsPanic" in o:
        if "symbolsPanic" not in m:
            d.append("go GetSymbols panics, model does not")
    elif "symbolsPanic" in m:
        d.append("model GetSymbols panics, go does not")
    elif sorted([s[0], s[1], s[2]] for s in o["symbols"]) != sorted(m["symbols"]):
        d.append("symbols")
    if compare_hovers:
        for gh, mh in zip(o.get("hovers", []), m.get("hovers", [])):
            for k in ("h", "goto"):
                if gh.get(k) != mh.get(k) and not ((k + "Panic") in gh or ("hoverPanic") in gh):
                    d.append("%s at %s: go %s model %s" % (k, gh.get("pos"), gh.get(k), mh.get(k)))
            if ("hoverPanic" in gh) != ("hoverPanic" in mh):
                d.append("hover panic at %s: go %s model %s" % (gh.get("pos"), gh.get("hoverPanic"), mh.get("hoverPanic")))
            if ("gotoPanic" in gh) != ("gotoPanic" in mh):
                d.append("goto panic at %s" % (gh.get("pos"),))
    return d[:5]


def analyze_both(cases):
    """cases: list of dict(script, positions). returns (gos, models)"""
    jobs = [{"id": i, "op": "analyze", "script": c["script"], "positions": c.get("positions", [])} for i, c in enumerate(cases)]
    gos = runner.run_go(jobs)
    lines, idx = [], []
    for i, (c, o) in enumerate(zip(cases, gos)):
        if "ast" in o and not o.get("unsupported"):
            lines.append(lean_analyze_line(i, o, c.get("positions", [])))
            idx.append(i)
    louts = runner.run_lean(lines) if lines else []
    models = [None] * len(cases)
    for i, lo in zip(idx, louts):
        models[i] = parse_lean_analyze(lo) if lo and not lo.startswith("CRASH") else {"outcome": "drivercrash", "detail": lo}
    # the parser model on the same texts (same acceptance, same tree): a disagreement is attached to the model's
    # answer and shows up in diff_analysis
    import parse_model
    pdis, pstats = parse_model.compare([c["script"] for c in cases], gos)
    by_text = {d[0]["script"]: d[3][0] for d in pdis}
    if by_text:
        for i, c in enumerate(cases):
            if c["script"] in by_text:
                if models[i] is None:
                    models[i] = {"outcome": "parse-only"}
                models[i]["parserModel"] = by_text[c["script"]]
    analyze_both.last_parser_stats = pstats
    return gos, models
