"""
Build + execution plumbing shared by all checks:
  - builds the Go harness into the module with `go build -overlay` (no change to /repo)
  - builds the Lean project (`lake build`) and audits the axioms of registered theorems
  - runs cases through the real code (Go harness) and through the Lean driver, sharded
"""
import binascii
import glob
import hashlib
import json
import os
import re
import shutil
import subprocess
import sys
import tempfile
import time

VERIF = os.path.dirname(os.path.dirname(os.path.abspath(__file__)))   # /verif, or a snapshot of it (vp run)
REPO = os.environ.get("VERIF_REPO", "/repo")
# build output: one directory per tree under check, so that a check of a private copy (seeded change, sweep) can run
# at the same time as a check of /repo without replacing its harness binary
BUILD = os.path.join(VERIF, "build") if REPO == "/repo" else \
    os.path.join(VERIF, "build", "alt-" + hashlib.md5(REPO.encode()).hexdigest()[:10])
LEAN_SRC = os.path.join(VERIF, "lean")
# the Lean project: /verif/lean for /repo; for another tree (a seeded change, a sweep copy) a private copy of it next to
# that tree's other build output — the regenerated Model/Tables.lean and the relinked driver of one tree must never
# be seen by a check of another tree running at the same time
LEAN = LEAN_SRC if REPO == "/repo" else os.path.join(BUILD, "lean")
if LEAN != LEAN_SRC:
    os.makedirs(BUILD, exist_ok=True)
    subprocess.run(["rsync", "-a", "--delete", "--exclude", "Model/Tables.lean", LEAN_SRC + "/", LEAN + "/"], check=True)
    if not os.path.exists(os.path.join(LEAN, "Model", "Tables.lean")):
        shutil.copy(os.path.join(LEAN_SRC, "Model", "Tables.lean"), os.path.join(LEAN, "Model", "Tables.lean"))
HARNESS_BIN = os.path.join(BUILD, "verifharness")
DRIVER_BUILT = os.path.join(LEAN, ".lake", "build", "bin", "nsdriver")
# the driver that is run is a private copy of the one `lake build` linked (taken after the build of this process), so
# that a relink started by another process cannot take it away in the middle of a stream
DRIVER_BIN = os.path.join(BUILD, "nsdriver-%d" % os.getpid())
NPROC = min(16, os.cpu_count() or 4)

GOENV = dict(os.environ, GOFLAGS="-mod=mod", GOPROXY="off", GOSUMDB="off", GOTOOLCHAIN="local",
             GOMEMLIMIT="2GiB")


class BuildFailure(Exception):
    pass


def sh(cmd, **kw):
    return subprocess.run(cmd, stdout=subprocess.PIPE, stderr=subprocess.STDOUT, text=True, **kw)


# ------------------------------------------------------------------ builds

def build_harness(tags=None, race=False, out=None):
    os.makedirs(BUILD, exist_ok=True)
    pre = os.environ.get("VERIF_HARNESS_BIN")
    if pre and not race and out is None:
        # bin/tiecoverage: a cover-instrumented harness built from a scratch copy of the same tree
        global HARNESS_BIN
        HARNESS_BIN = pre
        return pre
    files = sorted(glob.glob(os.path.join(VERIF, "harness", "*.go")))
    ov = {"Replace": {os.path.join(REPO, "internal", "verifharness", os.path.basename(f)): f for f in files}}
    ovpath = os.path.join(BUILD, "overlay.json")
    with open(ovpath, "w") as f:
        json.dump(ov, f)
    out = out or HARNESS_BIN
    if os.path.exists(out):
        os.remove(out)          # never run a stale binary
    cmd = ["go", "build", "-overlay", ovpath, "-o", out]
    if race:
        cmd.append("-race")
    cmd.append("./internal/verifharness")
    r = sh(cmd, cwd=REPO, env=GOENV)
    if r.returncode != 0:
        raise BuildFailure("HARNESS-BUILD-FAILED\n" + r.stdout)
    return out


def build_cli():
    out = os.path.join(BUILD, "numscript-cli")
    if os.path.exists(out):
        os.remove(out)
    r = sh(["go", "build", "-o", out, "./internal/cmd/..."], cwd=REPO, env=GOENV)
    return out, r


def lean_sources_hash():
    h = hashlib.sha256()
    for p in sorted(glob.glob(os.path.join(LEAN, "**", "*.lean"), recursive=True)):
        if "/.lake/" in p:
            continue
        h.update(p.encode())
        h.update(open(p, "rb").read())
    return h.hexdigest()


def lean_str(x):
    out = ['"']
    for ch in x:
        if ch == '"':
            out.append('\\"')
        elif ch == "\\":
            out.append("\\\\")
        elif ch == "\n":
            out.append("\\n")
        elif ch == "\t":
            out.append("\\t")
        elif ch == "\r":
            out.append("\\r")
        elif ord(ch) < 32 or ord(ch) == 127:
            out.append("\\x%02x" % ord(ch))
        else:
            out.append(ch)
    out.append('"')
    return "".join(out)


def lean_list(l):
    return "[" + ", ".join(lean_str(x) for x in l) + "]"


TABLES_TAIL = """def builtinDocs (name : String) : String :=
  match builtinDocsTable.find? (fun p => p.1 == name) with
  | some p => p.2
  | none => ""

def builtinEntry (name : String) : Option (String × String × List String × String) :=
  builtinsTable.find? (fun p => p.1 == name)

def isStatementBuiltin (name : String) : Bool :=
  match builtinEntry name with
  | some (_, ctx, _, _) => ctx == "statement"
  | none => false

def isOriginBuiltin (name : String) : Bool :=
  match builtinEntry name with
  | some (_, ctx, _, _) => ctx == "origin"
  | none => false

def builtinParams (name : String) : List String :=
  match builtinEntry name with
  | some (_, _, ps, _) => ps
  | none => []

def builtinReturn (name : String) : String :=
  match builtinEntry name with
  | some (_, _, _, r) => r
  | none => ""

end NS
"""


def regenerate_tables():
    """translator tie: Model/Tables.lean is regenerated from the tree under check on every run (written only when
    its content changes, so that an unchanged tree costs no rebuild):
      * builtin signatures, allowed types, diagnostic severities: dumped AT RUN TIME by /verif/extract/rt (compiled
        into the module with `go build -overlay`), i.e. what the program holds, however the source spells it;
      * the os.Exit sites of internal/cmd: read from the source with go/ast (conditions canonicalised).
    Returns None on success, or an error text."""
    os.makedirs(BUILD, exist_ok=True)
    ovpath = os.path.join(BUILD, "overlay-tables.json")
    with open(ovpath, "w") as f:
        json.dump({"Replace": {os.path.join(REPO, "internal", "veriftables", "main.go"): os.path.join(VERIF, "extract", "rt", "main.go")}}, f)
    r = subprocess.run(["go", "run", "-overlay", ovpath, "./internal/veriftables"], cwd=REPO, env=GOENV,
                       stdout=subprocess.PIPE, stderr=subprocess.PIPE, text=True)
    if r.returncode != 0:
        return "run-time table dump failed: " + r.stderr[-500:]
    try:
        t = json.loads(r.stdout)
    except Exception as e:
        return "run-time table dump unreadable: %s" % e
    r2 = subprocess.run(["go", "run", ".", REPO, "--exits"], cwd=os.path.join(VERIF, "extract"), env=GOENV,
                        stdout=subprocess.PIPE, stderr=subprocess.PIPE, text=True)
    if r2.returncode != 0:
        return "exit-site extraction failed: " + r2.stderr[-500:]
    try:
        exits = json.loads(r2.stdout)
    except Exception as e:
        return "exit-site extraction unreadable: %s" % e
    r3 = subprocess.run(["go", "run", ".", REPO, "--state"], cwd=os.path.join(VERIF, "extract"), env=GOENV,
                        stdout=subprocess.PIPE, stderr=subprocess.PIPE, text=True)
    if r3.returncode != 0:
        return "package-state extraction failed: " + r3.stderr[-500:]
    try:
        state = json.loads(r3.stdout)
    except Exception as e:
        return "package-state extraction unreadable: %s" % e
    b = []
    b.append("/-\n  Model/Tables.lean — REGENERATED from the tree under check on every run of bin/check (do not edit): builtin\n"
             "  signatures, allowed types and diagnostic severities as the program holds them at run time (/verif/extract/rt),\n"
             "  CLI exit sites from the source of internal/cmd (/verif/extract --exits).\n-/\nnamespace NS\n\n")
    b.append("def allowedTypes : List String := %s\n\n" % lean_list(t["allowedTypes"]))
    b.append("/-- (name, context, parameter types, return type) ; context: \"statement\" | \"origin\" -/\n"
             "def builtinsTable : List (String × String × List String × String) := [\n")
    b.append(",\n".join("  (%s, %s, %s, %s)" % (lean_str(x["name"]), lean_str(x["ctx"]), lean_list(x["params"] or []), lean_str(x["ret"]))
                        for x in t["builtins"]))
    b.append("\n]\n\ndef builtinDocsTable : List (String × String) := [\n")
    b.append(",\n".join("  (%s, %s)" % (lean_str(x["name"]), lean_str(x["docs"])) for x in t["builtins"]))
    b.append("\n]\n\n/-- (diagnostic kind, severity) ; 1 = error, 2 = warning -/\ndef severityTable : List (String × Nat) := [\n")
    b.append(",\n".join("  (%s, %d)" % (lean_str(k), v) for k, v in sorted(t["severities"].items())))
    b.append("\n]\n\n/-- os.Exit sites of internal/cmd: (function, nearest enclosing if-condition, argument), as source text -/\n"
             "def cliExitTable : List (String × String × String) := [\n")
    b.append(",\n".join("  (%s, %s, %s)" % (lean_str(e["fn"]), lean_str(e["guard"]), lean_str(e["arg"])) for e in exits))
    b.append("\n]\n\n/-- package-level variables of the hand-written packages: (package, name, kind) -/\n"
             "def packageStateTable : List (String × String × String) := [\n")
    b.append(",\n".join("  (%s, %s, %s)" % (lean_str(e["pkg"]), lean_str(e["name"]), lean_str(e["kind"])) for e in state))
    b.append("\n]\n\n")
    b.append(TABLES_TAIL)
    text = "".join(b)
    path = os.path.join(LEAN, "Model", "Tables.lean")
    old = open(path).read() if os.path.exists(path) else ""
    if old != text:
        tmp = path + ".%d.tmp" % os.getpid()
        with open(tmp, "w") as f:
            f.write(text)
        os.replace(tmp, path)          # never a half-written file for a build running next to this one
    return None


def code_drift():
    """functions / declaration blocks of the modelled Go packages whose normalised source differs from the
    inventory recorded for the tree the model was written against (model_inventory.json); [] on that tree.
    A drift is not a violation: it makes the quick tier look harder (Check.size)."""
    inv_path = os.path.join(VERIF, "model_inventory.json")
    if not os.path.exists(inv_path):
        return []
    r = subprocess.run(["go", "run", ".", REPO, "--funcs"], cwd=os.path.join(VERIF, "extract"), env=GOENV,
                       stdout=subprocess.PIPE, stderr=subprocess.PIPE, text=True)
    if r.returncode != 0:
        return ["<extractor failed: %s>" % r.stderr[-200:]]
    try:
        cur = json.loads(r.stdout)
        ref = json.load(open(inv_path))
    except Exception as e:
        return ["<inventory unreadable: %s>" % e]
    return sorted(k for k in set(cur) | set(ref) if cur.get(k) != ref.get(k))


def theorem_modules(theorems):
    """the Properties modules in which the registered theorems are stated (by name): the obligations of a property
    are these modules, so that a module of ANOTHER property that no longer builds does not break this one"""
    mods = {}
    for path in sorted(glob.glob(os.path.join(LEAN, "Properties", "*.lean"))):
        body = open(path).read()
        mod = "Properties." + os.path.basename(path)[:-5]
        for t in theorems:
            if t not in mods and re.search(r"^theorem %s\b" % re.escape(t), body, re.M):
                mods[t] = mod
    return mods


def _private_driver():
    if not os.path.exists(DRIVER_BIN):
        os.makedirs(BUILD, exist_ok=True)
        for _ in range(50):
            try:
                shutil.copy2(DRIVER_BUILT, DRIVER_BIN + ".tmp")
                os.replace(DRIVER_BIN + ".tmp", DRIVER_BIN)
                break
            except FileNotFoundError:
                time.sleep(0.2)        # being relinked right now
        import atexit
        atexit.register(lambda: os.path.exists(DRIVER_BIN) and os.remove(DRIVER_BIN))


def build_lean(targets=None):
    """lake build (incremental). Returns (ok, log)."""
    cmd = ["lake", "build"] + (targets or [])
    r = sh(cmd, cwd=LEAN)
    return r.returncode == 0, r.stdout


FORBIDDEN = re.compile(r"sorry|\badmit\b|^axiom |native_decide|bv_decide|implemented_by|unsafe |maxHeartbeats 0|panic!|get!|\bpartial def\b")
ALLOWED_AXIOMS = {"propext", "Classical.choice", "Quot.sound"}


def strip_comments(src):
    # remove /- ... -/ (nested not handled beyond one level: fine for our files) and -- comments
    out = []
    depth = 0
    i = 0
    while i < len(src):
        if src.startswith("/-", i):
            depth += 1
            i += 2
        elif src.startswith("-/", i) and depth > 0:
            depth -= 1
            i += 2
        elif depth > 0:
            i += 1
        elif src.startswith("--", i):
            j = src.find("\n", i)
            i = len(src) if j < 0 else j
        else:
            out.append(src[i])
            i += 1
    return "".join(out)


def grep_forbidden():
    hits = []
    for p in sorted(glob.glob(os.path.join(LEAN, "**", "*.lean"), recursive=True)):
        if "/.lake/" in p:
            continue
        rel = os.path.relpath(p, LEAN)
        if rel == "Driver.lean":
            continue            # IO loop: the one allowed `partial def`; not part of any theorem
        body = strip_comments(open(p).read())
        for ln, line in enumerate(body.split("\n"), 1):
            if FORBIDDEN.search(line):
                hits.append("%s:%d: %s" % (rel, ln, line.strip()))
    return hits


def audit_axioms(theorems, imports=None):
    """#print axioms for each theorem; returns dict name -> (ok, axioms list or error)"""
    if not theorems:
        return {}
    os.makedirs(BUILD, exist_ok=True)
    cache_path = os.path.join(BUILD, "audit_cache.json")
    key = lean_sources_hash()
    cache = {}
    if os.path.exists(cache_path):
        try:
            cache = json.load(open(cache_path))
        except Exception:
            cache = {}
    if cache.get("key") != key:
        cache = {"key": key, "results": {}}
    missing = [t for t in theorems if t not in cache["results"]]
    if missing:
        src = "".join("import %s\n" % m for m in (imports or ["Properties"])) + "open NS\n" + \
            "\n".join("#print axioms %s" % t for t in missing) + "\n"
        d = tempfile.mkdtemp(prefix="nsaudit")
        try:
            fp = os.path.join(d, "Audit.lean")
            open(fp, "w").write(src)
            r = sh(["lake", "env", "lean", fp], cwd=LEAN)
            out = r.stdout
        finally:
            shutil.rmtree(d, ignore_errors=True)
        # parse: "'NS.foo' depends on axioms: [propext, ...]" or "'NS.foo' does not depend on any axioms"
        flat = re.sub(r"\s+", " ", out)
        for t in missing:
            m = re.search(r"'(?:NS\.)?%s' depends on axioms: \[([^\]]*)\]" % re.escape(t), flat)
            if m:
                axs = [a.strip() for a in m.group(1).split(",") if a.strip()]
                cache["results"][t] = [set(axs) <= ALLOWED_AXIOMS, axs]
            elif re.search(r"'(?:NS\.)?%s' does not depend on any axioms" % re.escape(t), flat):
                cache["results"][t] = [True, []]
            else:
                cache["results"][t] = [False, ["<not found or error: %s>" % flat[:300]]]
        json.dump(cache, open(cache_path, "w"))
    return {t: tuple(cache["results"][t]) for t in theorems}


# ------------------------------------------------------------------ sharded execution

def _run_sharded(argv, lines, env=None, timeout=600):
    """feed `lines` (list of str without newline) to N copies of argv; returns list of output lines
    in input order (each process answers one line per input line). A crashed shard is re-run line
    by line so that the crashing input is identified."""
    n = max(1, min(NPROC, (len(lines) + 199) // 200))
    shards = [lines[i::n] for i in range(n)]
    procs = []
    for sh_lines in shards:
        p = subprocess.Popen(argv, stdin=subprocess.PIPE, stdout=subprocess.PIPE, stderr=subprocess.PIPE,
                             text=True, env=env)
        procs.append(p)
    # write in threads to avoid deadlocks
    import threading
    outs = [None] * n
    errs = [None] * n

    def feed(i):
        try:
            o, e = procs[i].communicate("\n".join(shards[i]) + "\n", timeout=timeout)
        except subprocess.TimeoutExpired:
            procs[i].kill()
            o, e = procs[i].communicate()
        outs[i], errs[i] = o, e
    ths = [threading.Thread(target=feed, args=(i,)) for i in range(n)]
    for t in ths:
        t.start()
    for t in ths:
        t.join()
    result = [None] * len(lines)
    for i in range(n):
        got = outs[i].split("\n")
        if got and got[-1] == "":
            got.pop()
        if len(got) != len(shards[i]):
            # crashed or timed out: the answers are written and flushed one per line, so the line that has no
            # answer is the one that crashed; it is re-run alone (for its message) and the rest is resumed
            got = _resume(argv, shards[i], got, env)
        for j, g in enumerate(got):
            result[i + j * n] = g
    return result


def _run_alone(argv, l, env):
    try:
        r = subprocess.run(argv, input=l + "\n", stdout=subprocess.PIPE, stderr=subprocess.PIPE, text=True, env=env, timeout=60)
    except subprocess.TimeoutExpired:
        return "CRASH\ttimeout"
    o = r.stdout.strip("\n")
    er = r.stderr or ""
    k = er.find("DATA RACE")
    if k >= 0 and r.returncode == 66:
        return "CRASH\t" + er[k:k + 700]                    # even if an answer was written
    return o if o else "CRASH\t" + (er[-400:] if er else "no output")


def _resume(argv, lines, got, env, max_crashes=40):
    got = list(got[:len(lines)])
    crashes = 0
    while len(got) < len(lines):
        got.append(_run_alone(argv, lines[len(got)], env))
        crashes += 1
        rest = lines[len(got):]
        if not rest:
            break
        if crashes >= max_crashes:
            got += [_run_alone(argv, l, env) for l in rest]
            break
        try:
            r = subprocess.run(argv, input="\n".join(rest) + "\n", stdout=subprocess.PIPE, stderr=subprocess.PIPE, text=True,
                               env=env, timeout=600)
            more = r.stdout.split("\n")
        except subprocess.TimeoutExpired as e:
            more = (e.stdout or b"").decode("utf-8", "replace").split("\n") if isinstance(e.stdout, bytes) else (e.stdout or "").split("\n")
        if more and more[-1] == "":
            more.pop()
        got += more[:len(rest)]
    return got


PROBE_DIFFS = []          # cases after which the harness's fixed probe changed (process-wide state was modified)
PROBE_CASES = [0]


def run_go(cases, binary=None, race=False):
    lines = [json.dumps(c) for c in cases]
    # on a -race build the first report ends the process (exit 66): the shard is then re-run case by case and the
    # case that races is reported as a crash carrying the detector's report (without this the report would only
    # go to stderr and the outputs would look fine)
    env = dict(GOENV, GORACE="halt_on_error=1 exitcode=66") if race else GOENV
    outs = _run_sharded([binary or HARNESS_BIN], lines, env=env)
    res = []
    for c, o in zip(cases, outs):
        try:
            res.append(json.loads(o))
        except Exception:
            res.append({"id": c.get("id"), "harnessCrash": (o or "")[:500]})
        PROBE_CASES[0] += 1
        if isinstance(res[-1], dict) and res[-1].get("probeDiff") and len(PROBE_DIFFS) < 20:
            PROBE_DIFFS.append((c, res[-1]["probeDiff"]))
    return res


def run_lean(lines):
    _private_driver()
    return _run_sharded([DRIVER_BIN], lines)


# ------------------------------------------------------------------ wire encoding (same as harness/sexp.go)

SAFE = set("abcdefghijklmnopqrstuvwxyzABCDEFGHIJKLMNOPQRSTUVWXYZ0123456789_./:-")


def enc(s):
    if all(ch in SAFE for ch in s):
        return "'" + s
    return "%" + binascii.hexlify(s.encode("utf-8")).decode()


def dec(tok):
    if tok.startswith("'"):
        return tok[1:]
    if tok.startswith("%"):
        return binascii.unhexlify(tok[1:]).decode("utf-8")
    raise ValueError("bad token " + tok)


def lean_exec_line(case, ast):
    vars_ = " ".join("%s %s" % (enc(k), enc(v)) for k, v in sorted(case.get("vars", {}).items()))
    bal = " ".join("%s %s %s" % (enc(a), enc(c), v)
                   for a, m in sorted(case.get("balances", {}).items()) for c, v in sorted(m.items()))
    meta = " ".join("%s %s %s" % (enc(a), enc(k), enc(v))
                    for a, m in sorted(case.get("meta", {}).items()) for k, v in sorted(m.items()))
    flags = " ".join(case.get("flags", []))
    return "\t".join(["exec", str(case["id"]), ast, vars_, bal, meta, case.get("store", "exact"),
                      str(case.get("failAt", -1)), flags])


def parse_lean_exec(line):
    """-> dict(outcome, errKind, errPayload, postings, txMeta, accMeta, queries)"""
    f = line.split("\t")
    out = {"id": f[0], "outcome": f[1] if len(f) > 1 else "drivererror"}
    if out["outcome"] == "ok":
        toks = f[2].split()
        out["postings"] = [[dec(toks[i]), dec(toks[i + 1]), toks[i + 2], dec(toks[i + 3])]
                           for i in range(0, len(toks), 4)]
        toks = f[3].split()
        out["txMeta"] = {dec(toks[i]): [toks[i + 1], dec(toks[i + 2])] for i in range(0, len(toks), 3)}
        toks = f[4].split()
        am = {}
        for i in range(0, len(toks), 3):
            am.setdefault(dec(toks[i]), {})[dec(toks[i + 1])] = dec(toks[i + 2])
        out["accMeta"] = am
        out["queries"] = parse_queries(f[5] if len(f) > 5 else "")
    elif out["outcome"] == "err":
        out["errKind"] = f[2]
        out["errPayload"] = [dec(t) for t in (f[3].split() if len(f) > 3 else [])]
    elif out["outcome"] == "panic":
        out["panic"] = dec(f[2]) if len(f) > 2 else ""
    else:
        out["detail"] = "\t".join(f[1:])
    return out


def parse_queries(s):
    qs = []
    for part in s.split(";"):
        part = part.strip()
        if not part:
            continue
        if part.startswith("B "):
            q = {}
            body = part[2:].strip()
            if body:
                for ent in body.split(","):
                    a, cs = ent.split("=")
                    q[dec(a)] = sorted(dec(c) for c in cs.split("+") if c)
            qs.append(("B", tuple(sorted((a, tuple(cs)) for a, cs in q.items()))))
        elif part.startswith("M "):
            t = part.split()
            qs.append(("M", dec(t[1]), dec(t[2])))
    return qs


def canon_go_queries(qs):
    out = []
    for q in qs or []:
        if q["kind"] == "B":
            out.append(("B", tuple(sorted((a, tuple(sorted(cs))) for a, cs in (q.get("q") or {}).items()))))
        else:
            out.append(("M", q.get("account", ""), q.get("key", "")))
    return out


def go_projection(go):
    """canonical view of the Go outcome, same shape as parse_lean_exec"""
    out = {"outcome": go["outcome"]}
    if go["outcome"] == "ok":
        out["postings"] = [list(p) for p in go.get("postings") or []]
        out["txMeta"] = {k: list(v) for k, v in (go.get("txMeta") or {}).items()}
        out["accMeta"] = {a: dict(m) for a, m in (go.get("accMeta") or {}).items() if True}
        out["queries"] = canon_go_queries(go.get("queries"))
    elif go["outcome"] == "err":
        out["errKind"] = go.get("errKind")
        out["errPayload"] = list(go.get("errPayload") or [])
    else:
        out["panic"] = go.get("panic")
    return out


def diff_exec(go, model, keys):
    """compare the projections on `keys`; returns list of differing keys"""
    g = go_projection(go)
    diffs = []
    if g["outcome"] != model.get("outcome"):
        return ["outcome"]
    for k in keys:
        if k in ("postings", "txMeta", "accMeta", "queries") and g["outcome"] == "ok":
            mv = model.get(k)
            gv = g.get(k)
            if k == "accMeta":
                gv = {a: m for a, m in gv.items() if m}
                mv = {a: m for a, m in (mv or {}).items() if m}
            if k == "queries":
                mv = list(mv or [])
            if gv != mv:
                diffs.append(k)
        if k in ("errKind", "errPayload") and g["outcome"] == "err":
            if g.get(k) != model.get(k):
                diffs.append(k)
    return diffs
