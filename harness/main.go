package main

// verifharness: runs cases (one JSON object per line on stdin) against the real
// numscript packages in-process and writes one JSON result per line on stdout.
// Compiled into the module with `go build -overlay` (see /verif/bin/check).

import (
	"bufio"
	"encoding/json"
	"fmt"
	"os"
)

type json_RawMessage = json.RawMessage

func handle(line []byte) (res map[string]any) {
	var c ExecCase
	c.FailAt = -1
	if err := json.Unmarshal(line, &c); err != nil {
		return map[string]any{"harnessError": "bad case: " + err.Error()}
	}
	defer func() {
		if r := recover(); r != nil {
			res = map[string]any{"id": c.ID, "harnessPanic": fmt.Sprint(r)}
		}
	}()
	switch c.Op {
	case "exec":
		return execCase(&c)
	default:
		if h, ok := extraOps[c.Op]; ok {
			return h(&c)
		}
		return map[string]any{"id": c.ID, "harnessError": "unknown op " + c.Op}
	}
}

var extraOps = map[string]func(*ExecCase) map[string]any{}

func main() {
	in := bufio.NewReaderSize(os.Stdin, 1<<20)
	out := bufio.NewWriterSize(os.Stdout, 1<<20)
	defer out.Flush()
	enc := json.NewEncoder(out)
	enc.SetEscapeHTML(false)
	for {
		line, err := in.ReadBytes('\n')
		if len(line) > 1 {
			if probeBase == "" {
				probeBase = probeNow()
			}
			res := handle(line)
			if now := probeNow(); now != probeBase && res != nil {
				res["probeDiff"] = "the fixed probe gave\n" + probeBase + "\nwhen the process started and gives\n" + now + "\nafter this case"
				probeBase = now // report the case that changed it, once
			}
			if e := enc.Encode(res); e != nil {
				fmt.Fprintln(os.Stderr, "encode error:", e)
			}
			out.Flush()
		}
		if err != nil {
			break
		}
	}
}
