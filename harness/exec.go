package main

// Execution of a case on the real interpreter, with the harness's own Store
// implementations (recording every call) and observation of purity.

import (
	"context"
	"encoding/json"
	"errors"
	"fmt"
	"math/big"
	"reflect"
	"sort"

	numscript "github.com/formancehq/numscript"
	"github.com/formancehq/numscript/internal/interpreter"
	"github.com/formancehq/numscript/internal/parser"
)

type ExecCase struct {
	ID       int                          `json:"id"`
	Op       string                       `json:"op"`
	Script   string                       `json:"script"`
	Vars     map[string]string            `json:"vars"`
	Balances map[string]map[string]string `json:"balances"`
	Meta     map[string]map[string]string `json:"meta"`
	Store    string                       `json:"store"` // exact | sparse | superset | static
	FailAt   int                          `json:"failAt"`
	Flags    []string                     `json:"flags"`
	flagSet  map[string]struct{}          // the caller's own feature-flag map, handed to every run of this case
	Repeat   int                          `json:"repeat"`
	PerStmt  bool                         `json:"perStmt"`
	// other ops
	Positions [][2]int          `json:"positions,omitempty"`
	Senders   [][2]string       `json:"senders,omitempty"`
	Receivers [][2]string       `json:"receivers,omitempty"`
	Asset     string            `json:"asset,omitempty"`
	Type      string            `json:"type,omitempty"`
	Text      string            `json:"text,omitempty"`
	History   []json_RawMessage `json:"history,omitempty"`
	Args      []string          `json:"args,omitempty"`
	Stdin     string            `json:"stdin,omitempty"`
	Files     map[string]string `json:"files,omitempty"`
	Goroutines int              `json:"goroutines,omitempty"`
	// a second run of the SAME parse result with other inputs (must equal a run of a fresh parse with them)
	// (account, asset) pairs for which the store's content holds a nil amount (`null` in JSON): read as absent
	NilBalances map[string][]string `json:"nilBalances,omitempty"`
	AltVars     map[string]string            `json:"altVars,omitempty"`
	AltBalances map[string]map[string]string `json:"altBalances,omitempty"`
}

type StoreCallLog struct {
	Kind    string              `json:"kind"` // B | M
	Query   map[string][]string `json:"q,omitempty"`
	Account string              `json:"account,omitempty"`
	Key     string              `json:"key,omitempty"`
}

type recStore struct {
	policy   string
	balances interpreter.Balances
	meta     interpreter.AccountsMetadata
	failAt   int
	calls    int
	log      []StoreCallLog
	static   interpreter.StaticStore
}

func (s *recStore) GetBalances(ctx context.Context, q interpreter.BalanceQuery) (interpreter.Balances, error) {
	idx := s.calls
	s.calls++
	logged := map[string][]string{}
	for a, cs := range q {
		cp := append([]string{}, cs...)
		sort.Strings(cp)
		logged[a] = cp
	}
	if idx == s.failAt {
		return nil, errors.New(fmt.Sprintf("injected-fault-%d", idx))
	}
	s.log = append(s.log, StoreCallLog{Kind: "B", Query: logged})
	switch s.policy {
	case "static":
		return s.static.GetBalances(ctx, q)
	case "superset":
		out := interpreter.Balances{}
		for a, m := range s.balances {
			out[a] = interpreter.AccountBalance{}
			for c, v := range m {
				if v == nil {
					out[a][c] = nil
					continue
				}
				out[a][c] = new(big.Int).Set(v)
			}
		}
		return out, nil
	case "sparse":
		out := interpreter.Balances{}
		for a, cs := range q {
			for _, c := range cs {
				if v, ok := s.balances[a][c]; ok && v != nil && v.Sign() != 0 {
					if out[a] == nil {
						out[a] = interpreter.AccountBalance{}
					}
					out[a][c] = new(big.Int).Set(v)
				}
			}
		}
		return out, nil
	default: // exact
		out := interpreter.Balances{}
		for a, cs := range q {
			out[a] = interpreter.AccountBalance{}
			for _, c := range cs {
				if v, ok := s.balances[a][c]; ok && v == nil {
					out[a][c] = nil
				} else if ok {
					out[a][c] = new(big.Int).Set(v)
				} else {
					out[a][c] = big.NewInt(0)
				}
			}
		}
		return out, nil
	}
}

func (s *recStore) GetAccountsMetadata(ctx context.Context, q interpreter.MetadataQuery) (interpreter.AccountsMetadata, error) {
	idx := s.calls
	s.calls++
	if idx == s.failAt {
		return nil, errors.New(fmt.Sprintf("injected-fault-%d", idx))
	}
	for a, ks := range q {
		for _, k := range ks {
			s.log = append(s.log, StoreCallLog{Kind: "M", Account: a, Key: k})
		}
	}
	switch s.policy {
	case "static":
		return s.static.GetAccountsMetadata(ctx, q)
	case "superset":
		out := interpreter.AccountsMetadata{}
		for a, m := range s.meta {
			out[a] = interpreter.AccountMetadata{}
			for k, v := range m {
				out[a][k] = v
			}
		}
		return out, nil
	default: // exact, sparse: only what was asked and exists
		out := interpreter.AccountsMetadata{}
		for a, ks := range q {
			for _, k := range ks {
				if v, ok := s.meta[a][k]; ok {
					if out[a] == nil {
						out[a] = interpreter.AccountMetadata{}
					}
					out[a][k] = v
				}
			}
		}
		return out, nil
	}
}

func mkBalances(in map[string]map[string]string) interpreter.Balances {
	out := interpreter.Balances{}
	for a, m := range in {
		out[a] = interpreter.AccountBalance{}
		for c, v := range m {
			n, ok := new(big.Int).SetString(v, 10)
			if !ok {
				panic("bad balance " + v)
			}
			// spare capacity behind the digits: arithmetic done in place on this number, or on a shallow copy of it
			// (a struct copy shares the digit array), then writes into the store's own memory instead of reallocating
			words := n.Bits()
			room := make([]big.Word, len(words), len(words)+4)
			copy(room, words)
			neg := n.Sign() < 0
			n = new(big.Int).SetBits(room)
			if neg {
				n.Neg(n)
			}
			out[a][c] = n
		}
	}
	return out
}

// balances of a case, plus its nil entries
func mkBal(c *ExecCase) interpreter.Balances {
	out := mkBalances(c.Balances)
	for a, cs := range c.NilBalances {
		if out[a] == nil {
			out[a] = interpreter.AccountBalance{}
		}
		for _, cur := range cs {
			if _, ok := out[a][cur]; !ok {
				out[a][cur] = nil
			}
		}
	}
	return out
}

func mkMeta(in map[string]map[string]string) interpreter.AccountsMetadata {
	out := interpreter.AccountsMetadata{}
	for a, m := range in {
		out[a] = interpreter.AccountMetadata{}
		for k, v := range m {
			out[a][k] = v
		}
	}
	return out
}

func balancesEqual(a, b interpreter.Balances) bool {
	if len(a) != len(b) {
		return false
	}
	for k, m := range a {
		m2, ok := b[k]
		if !ok || len(m) != len(m2) {
			return false
		}
		for c, v := range m {
			v2, ok := m2[c]
			if !ok || (v == nil) != (v2 == nil) || (v != nil && v.Cmp(v2) != 0) {
				return false
			}
		}
	}
	return true
}

type ExecOut struct {
	Outcome    string              `json:"outcome"` // ok | err | panic
	ErrKind    string              `json:"errKind,omitempty"`
	ErrPayload []string            `json:"errPayload,omitempty"`
	ErrMsg     string              `json:"errMsg,omitempty"`
	ErrRange   string              `json:"errRange,omitempty"`
	Panic      string              `json:"panic,omitempty"`
	Postings   [][4]string         `json:"postings"`
	StmtEnds   []int               `json:"stmtEnds,omitempty"` // postings[:StmtEnds[k]] = postings of statements 0..k
	TxMeta     map[string][2]string `json:"txMeta,omitempty"`
	AccMeta    map[string]map[string]string `json:"accMeta,omitempty"`
	Queries    []StoreCallLog      `json:"queries"`
	ResultJson string              `json:"resultJson,omitempty"` // json.Marshal of the library's result (C20)
	Mutated    []string            `json:"mutated,omitempty"` // inputs modified by the run (C11)
	BothResultAndError bool        `json:"bothResultAndError,omitempty"`
}

func valueType(v interpreter.Value) string {
	switch v.(type) {
	case interpreter.String:
		return "string"
	case interpreter.Asset:
		return "asset"
	case interpreter.Portion:
		return "portion"
	case interpreter.AccountAddress:
		return "account"
	case interpreter.MonetaryInt:
		return "number"
	case interpreter.Monetary:
		return "monetary"
	default:
		return fmt.Sprintf("%T", v)
	}
}

func errPayload(err interpreter.InterpreterError) (string, []string) {
	switch e := err.(type) {
	case interpreter.MissingFundsErr:
		return "MissingFundsErr", []string{e.Asset, e.Needed.String(), e.Available.String()}
	case interpreter.InvalidMonetaryLiteral:
		return "InvalidMonetaryLiteral", []string{e.Source}
	case interpreter.InvalidNumberLiteral:
		return "InvalidNumberLiteral", []string{e.Source}
	case interpreter.MetadataNotFound:
		return "MetadataNotFound", []string{e.Account, e.Key}
	case interpreter.TypeError:
		return "TypeError", []string{e.Expected, e.Value.String()}
	case interpreter.UnboundVariableErr:
		return "UnboundVariableErr", []string{e.Name}
	case interpreter.BadPortionParsingErr:
		return "BadPortionParsingErr", []string{e.Reason}
	case interpreter.MissingVariableErr:
		return "MissingVariableErr", []string{e.Name}
	case interpreter.UnboundFunctionErr:
		return "UnboundFunctionErr", []string{e.Name}
	case interpreter.BadArityErr:
		return "BadArityErr", []string{fmt.Sprint(e.ExpectedArity), fmt.Sprint(e.GivenArguments)}
	case interpreter.InvalidTypeErr:
		return "InvalidTypeErr", []string{e.Name}
	case interpreter.NegativeBalanceError:
		return "NegativeBalanceError", []string{e.Account, e.Amount.String()}
	case interpreter.NegativeAmountErr:
		return "NegativeAmountErr", []string{e.Amount.String()}
	case interpreter.InvalidAllotmentInSendAll:
		return "InvalidAllotmentInSendAll", []string{}
	case interpreter.InvalidUnboundedInSendAll:
		return "InvalidUnboundedInSendAll", []string{e.Name}
	case interpreter.MismatchedCurrencyError:
		return "MismatchedCurrencyError", []string{e.Expected, e.Got}
	case interpreter.InvalidAllotmentSum:
		return "InvalidAllotmentSum", []string{e.ActualSum.String()}
	case interpreter.QueryBalanceError:
		return "QueryBalanceError", []string{e.Error()}
	case interpreter.QueryMetadataError:
		return "QueryMetadataError", []string{e.Error()}
	case interpreter.ExperimentalFeature:
		return "ExperimentalFeature", []string{e.FlagName}
	default:
		// error types added by later changes: name from the Go type, payload from well-known fields
		rv := reflect.ValueOf(err)
		name := rv.Type().Name()
		var payload []string
		for _, f := range []string{"Numerator", "Name"} {
			if fv := rv.FieldByName(f); fv.IsValid() {
				if s, ok := fv.Interface().(fmt.Stringer); ok && !isNilPtr(fv.Interface()) {
					payload = append(payload, s.String())
				} else {
					payload = append(payload, fmt.Sprint(fv.Interface()))
				}
			}
		}
		return name, payload
	}
}

type runOutput struct {
	res *interpreter.ExecutionResult
	err interpreter.InterpreterError
	pan string
	log []StoreCallLog
}

func runOnce(prog parser.Program, c *ExecCase, vars map[string]string, bal interpreter.Balances, meta interpreter.AccountsMetadata) (out runOutput) {
	store := &recStore{policy: c.Store, balances: bal, meta: meta, failAt: c.FailAt,
		static: interpreter.StaticStore{Balances: bal, Meta: meta}}
	if c.flagSet == nil {
		c.flagSet = map[string]struct{}{}
		for _, f := range c.Flags {
			c.flagSet[f] = struct{}{}
		}
	}
	flags := c.flagSet // one map for all the runs of the case: it is the caller's, a run only reads it
	defer func() {
		out.log = store.log
		if r := recover(); r != nil {
			out.pan = fmt.Sprint(r)
		}
	}()
	res, err := interpreter.RunProgram(context.Background(), prog, vars, store, flags)
	out.res = res
	out.err = err
	return
}

func fillOut(o *ExecOut, r runOutput) {
	o.Queries = r.log
	if o.Queries == nil {
		o.Queries = []StoreCallLog{}
	}
	o.Postings = [][4]string{}
	if r.pan != "" {
		o.Outcome = "panic"
		o.Panic = r.pan
		return
	}
	if r.err != nil {
		o.Outcome = "err"
		o.ErrKind, o.ErrPayload = errPayload(r.err)
		o.ErrMsg = r.err.Error()
		o.ErrRange = rng(r.err.GetRange())
		if r.res != nil {
			o.BothResultAndError = true
		}
		return
	}
	o.Outcome = "ok"
	if jb, jerr := json.Marshal(r.res); jerr == nil {
		o.ResultJson = string(jb)
	}
	for _, p := range r.res.Postings {
		o.Postings = append(o.Postings, [4]string{p.Source, p.Destination, p.Amount.String(), p.Asset})
	}
	o.TxMeta = map[string][2]string{}
	for k, v := range r.res.Metadata {
		o.TxMeta[k] = [2]string{valueType(v), v.String()}
	}
	o.AccMeta = map[string]map[string]string{}
	for a, m := range r.res.AccountsMetadata {
		o.AccMeta[a] = map[string]string{}
		for k, v := range m {
			o.AccMeta[a][k] = v
		}
	}
}

func copyVars(m map[string]string) map[string]string {
	out := map[string]string{}
	for k, v := range m {
		out[k] = v
	}
	return out
}

func execCase(c *ExecCase) map[string]any {
	result := map[string]any{"id": c.ID}
	pr := parser.Parse(c.Script)
	result["parseErrors"] = len(pr.Errors)
	if len(pr.Errors) > 0 {
		pl := [][]string{}
		for _, e := range pr.Errors {
			pl = append(pl, []string{rng(e.Range), e.Msg})
		}
		result["parseErrorList"] = pl
	}
	sexp, unsup := programToSexp(pr.Value)
	result["ast"] = sexp
	if len(unsup) > 0 {
		result["unsupported"] = unsup
	}

	bal := mkBal(c)
	meta := mkMeta(c.Meta)
	vars := copyVars(c.Vars)

	var o ExecOut
	first := runOnce(pr.Value, c, vars, bal, meta)
	fillOut(&o, first)

	// C11: inputs must not be modified
	if !balancesEqual(bal, mkBal(c)) {
		o.Mutated = append(o.Mutated, "balances")
	}
	if !reflect.DeepEqual(meta, mkMeta(c.Meta)) {
		o.Mutated = append(o.Mutated, "meta")
	}
	if !reflect.DeepEqual(vars, copyVars(c.Vars)) && !(len(vars) == 0 && len(c.Vars) == 0) {
		o.Mutated = append(o.Mutated, "vars")
	}
	wantFlags := map[string]struct{}{}
	for _, f := range c.Flags {
		wantFlags[f] = struct{}{}
	}
	if !reflect.DeepEqual(c.flagSet, wantFlags) {
		o.Mutated = append(o.Mutated, "feature flags")
	}
	result["go"] = o

	// the public API of the root package (what library users call) must give what RunProgram gives
	if d := apiDiffs(c, o); len(d) > 0 {
		result["apiDiff"] = d
	}

	// a parse result carries no memory of the runs made with it: the same tree run with OTHER variable values and
	// balances gives what a fresh parse of the text gives with them
	if c.AltVars != nil || c.AltBalances != nil {
		av, ab := c.AltVars, c.AltBalances
		if av == nil {
			av = c.Vars
		}
		if ab == nil {
			ab = c.Balances
		}
		var reused, fresh ExecOut
		fillOut(&reused, runOnce(pr.Value, c, copyVars(av), mkBalances(ab), mkMeta(c.Meta)))
		pr2 := parser.Parse(c.Script)
		fillOut(&fresh, runOnce(pr2.Value, c, copyVars(av), mkBalances(ab), mkMeta(c.Meta)))
		if !reflect.DeepEqual(canonOut(reused), canonOut(fresh)) {
			ja, _ := json.Marshal(canonOut(reused))
			jb, _ := json.Marshal(canonOut(fresh))
			result["altDiff"] = "re-used parse result: " + string(ja) + " ; fresh parse: " + string(jb)
		}
	}

	// C11: repeated runs on the same ParseResult and the same (caller-owned) inputs
	if c.Repeat > 1 {
		diffs := []string{}
		for i := 1; i < c.Repeat; i++ {
			var o2 ExecOut
			fillOut(&o2, runOnce(pr.Value, c, vars, bal, meta))
			if !reflect.DeepEqual(canonOut(o), canonOut(o2)) {
				diffs = append(diffs, fmt.Sprintf("run %d differs", i))
			}
		}
		// the result of the first run is a value: later runs must not change it (pooled or shared numbers)
		var o3 ExecOut
		fillOut(&o3, first)
		o3.Mutated = o.Mutated
		if !reflect.DeepEqual(canonOut(o), canonOut(o3)) {
			diffs = append(diffs, "the result returned by the first run changed while later runs were made")
		}
		result["repeatDiffs"] = diffs
	}

	// per-statement grouping of the postings (prefix runs)
	if c.PerStmt && o.Outcome == "ok" {
		ends := []int{}
		okPrefix := true
		for k := 1; k <= len(pr.Value.Statements); k++ {
			sub := parser.Program{Vars: pr.Value.Vars, Statements: pr.Value.Statements[:k]}
			var ok2 ExecOut
			fillOut(&ok2, runOnce(sub, c, copyVars(c.Vars), mkBal(c), mkMeta(c.Meta)))
			if ok2.Outcome != "ok" || len(ok2.Postings) > len(o.Postings) || !reflect.DeepEqual(ok2.Postings, o.Postings[:len(ok2.Postings)]) {
				okPrefix = false
				break
			}
			ends = append(ends, len(ok2.Postings))
		}
		if okPrefix {
			o.StmtEnds = ends
			result["go"] = o
		} else {
			result["prefixMismatch"] = true
		}
	}
	return result
}

// canonical form for comparing two runs (maps compare by content already)
func canonOut(o ExecOut) ExecOut {
	o.Queries = nil // the query log may legitimately come in any map order; compared separately as sets
	return o
}

// apiDiffs runs the case through numscript.Parse(..).Run / RunWithFeatureFlags (fresh inputs, fresh store) and
// lists how the outcome differs from the direct interpreter.RunProgram call.
func apiDiffs(c *ExecCase, direct ExecOut) (diffs []string) {
	defer func() {
		if r := recover(); r != nil {
			if direct.Outcome != "panic" {
				diffs = append(diffs, "public API panicked: "+fmt.Sprint(r))
			}
		}
	}()
	pr := numscript.Parse(c.Script)
	if pr.GetSource() != c.Script {
		diffs = append(diffs, "GetSource differs from the text parsed")
	}
	if len(pr.GetParsingErrors()) != len(parser.Parse(c.Script).Errors) {
		diffs = append(diffs, "GetParsingErrors differs from parser.Parse")
	}
	bal := mkBal(c)
	meta := mkMeta(c.Meta)
	store := &recStore{policy: c.Store, balances: bal, meta: meta, failAt: c.FailAt,
		static: interpreter.StaticStore{Balances: bal, Meta: meta}}
	var res numscript.ExecutionResult
	var err numscript.InterpreterError
	apiVars := copyVars(c.Vars)
	if len(c.Vars) == 0 {
		apiVars = nil // a caller without variables passes a nil map
	}
	if len(c.Flags) == 0 {
		res, err = pr.Run(context.Background(), apiVars, store)
	} else {
		flags := map[string]struct{}{}
		for _, f := range c.Flags {
			flags[f] = struct{}{}
		}
		res, err = pr.RunWithFeatureFlags(context.Background(), copyVars(c.Vars), store, flags)
	}
	var o ExecOut
	r := runOutput{err: err, log: store.log}
	if err == nil {
		r.res = &res
	} else if len(res.Postings) != 0 || len(res.Metadata) != 0 || len(res.AccountsMetadata) != 0 {
		diffs = append(diffs, "public API returns a result together with an error")
	}
	fillOut(&o, r)
	a, b := canonOut(direct), canonOut(o)
	a.StmtEnds, b.StmtEnds = nil, nil
	a.Mutated, b.Mutated = nil, nil
	a.BothResultAndError, b.BothResultAndError = false, false
	if !reflect.DeepEqual(a, b) {
		ja, _ := json.Marshal(a)
		jb, _ := json.Marshal(b)
		diffs = append(diffs, "RunProgram gives "+string(ja)+" , the public API gives "+string(jb))
	}
	return diffs
}
