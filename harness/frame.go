package main

// frame: drives lsp.MessageBuffer.Read (the reader side of the LSP wire format) in-process.
// Text = hex of the byte stream, Repeat = number of reads. Each read is run under recover();
// the op stops at the first panic. A stream on which the model predicts end of input is never
// sent here (Read calls os.Exit(0) there): the runner sends those to the CLI binary instead.

import (
	"bytes"
	"encoding/hex"
	"encoding/json"

	"github.com/formancehq/numscript/internal/lsp"
	"github.com/formancehq/numscript/internal/parser"
)

func init() {
	extraOps["frame"] = opFrame
}

func opFrame(c *ExecCase) map[string]any {
	res := map[string]any{"id": c.ID}
	stream, err := hex.DecodeString(c.Text)
	if err != nil {
		res["harnessError"] = err.Error()
		return res
	}
	mb := lsp.NewMessageBuffer(bytes.NewReader(stream))
	reads := []map[string]any{}
	for i := 0; i < c.Repeat; i++ {
		step := map[string]any{}
		pan := safely(func() {
			rq := mb.Read()
			step["method"] = rq.Method
			step["notif"] = rq.Notif
			if rq.Params != nil {
				step["params"] = json.RawMessage(*rq.Params)
			}
			idb, _ := json.Marshal(rq.ID)
			step["reqid"] = json.RawMessage(idb)
		})
		if pan != "" {
			step = map[string]any{"panic": pan}
			reads = append(reads, step)
			break
		}
		reads = append(reads, step)
	}
	res["reads"] = reads
	return res
}

// parseseq: parses Args one after the other keeping every ParseResult, then looks at all of them again:
// what a parse returned (errors, their ranges and display, the tree) must not change because other texts
// were parsed afterwards. Reports the indices whose second look differs from the first.
func init() {
	extraOps["parseseq"] = opParseSeq
}

func parseView(pr parser.ParseResult, src string) string {
	sexp, _ := programToSexp(pr.Value)
	out := sexp
	for _, e := range pr.Errors {
		out += "|" + rng(e.Range) + " " + e.Msg
	}
	shown := ""
	if p := safely(func() { shown = parser.ParseErrorsToString(pr.Errors, src) }); p != "" {
		shown = "PANIC " + p
	}
	return out + "|" + shown
}

func opParseSeq(c *ExecCase) map[string]any {
	res := map[string]any{"id": c.ID}
	results := make([]parser.ParseResult, len(c.Args))
	first := make([]string, len(c.Args))
	for i, t := range c.Args {
		if p := safely(func() { results[i] = parser.Parse(t) }); p != "" {
			res["parsePanic"] = p
			return res
		}
		first[i] = parseView(results[i], t)
	}
	changed := []int{}
	detail := []string{}
	for i, t := range c.Args {
		again := parseView(results[i], t)
		if again != first[i] {
			changed = append(changed, i)
			if len(detail) < 2 {
				detail = append(detail, "first: "+first[i]+" ;; later: "+again)
			}
		}
	}
	res["changed"] = changed
	res["detail"] = detail
	return res
}
