package main

// frame: drives lsp.MessageBuffer.Read (the reader side of the LSP wire format) in-process.
// Text = hex of the byte stream, Repeat = number of reads. Each read is run under recover();
// the op stops at the first panic. A stream on which the model predicts end of input is never
// sent here (Read calls os.Exit(0) there): the runner sends those to the CLI binary instead.

import (
	"bytes"
	"encoding/hex"
	"encoding/json"

	"github.com/formancehq/numscript/internal/lsp"
)

func init() {
	extraOps["frame"] = opFrame
}

func opFrame(c *ExecCase) map[string]any {
	res := map[string]any{"id": c.ID}
	stream, err := hex.DecodeString(c.Text)
	if err != nil {
		res["harnessError"] = err.Error()
		return res
	}
	mb := lsp.NewMessageBuffer(bytes.NewReader(stream))
	reads := []map[string]any{}
	for i := 0; i < c.Repeat; i++ {
		step := map[string]any{}
		pan := safely(func() {
			rq := mb.Read()
			step["method"] = rq.Method
			step["notif"] = rq.Notif
			if rq.Params != nil {
				step["params"] = json.RawMessage(*rq.Params)
			}
			idb, _ := json.Marshal(rq.ID)
			step["reqid"] = json.RawMessage(idb)
		})
		if pan != "" {
			step = map[string]any{"panic": pan}
			reads = append(reads, step)
			break
		}
		reads = append(reads, step)
	}
	res["reads"] = reads
	return res
}
