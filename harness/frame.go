package main

// frame: drives lsp.MessageBuffer.Read (the reader side of the LSP wire format) in-process.
// Text = hex of the byte stream, Repeat = number of reads. Each read is run under recover();
// the op stops at the first panic. A stream on which the model predicts end of input is never
// sent here (Read calls os.Exit(0) there): the runner sends those to the CLI binary instead.

import (
	"bytes"
	"context"
	"encoding/hex"
	"encoding/json"
	"fmt"
	"math/big"

	"github.com/formancehq/numscript/internal/analysis"
	"github.com/formancehq/numscript/internal/interpreter"
	"github.com/formancehq/numscript/internal/lsp"
	"github.com/formancehq/numscript/internal/parser"
)

func init() {
	extraOps["frame"] = opFrame
}

func opFrame(c *ExecCase) map[string]any {
	res := map[string]any{"id": c.ID}
	stream, err := hex.DecodeString(c.Text)
	if err != nil {
		res["harnessError"] = err.Error()
		return res
	}
	mb := lsp.NewMessageBuffer(bytes.NewReader(stream))
	reads := []map[string]any{}
	for i := 0; i < c.Repeat; i++ {
		step := map[string]any{}
		pan := safely(func() {
			rq := mb.Read()
			step["method"] = rq.Method
			step["notif"] = rq.Notif
			if rq.Params != nil {
				step["params"] = json.RawMessage(*rq.Params)
			}
			idb, _ := json.Marshal(rq.ID)
			step["reqid"] = json.RawMessage(idb)
		})
		if pan != "" {
			step = map[string]any{"panic": pan}
			reads = append(reads, step)
			break
		}
		reads = append(reads, step)
	}
	res["reads"] = reads
	return res
}

// parseseq: parses Args one after the other keeping every ParseResult, then looks at all of them again:
// what a parse returned (errors, their ranges and display, the tree) must not change because other texts
// were parsed afterwards. Reports the indices whose second look differs from the first.
func init() {
	extraOps["parseseq"] = opParseSeq
}

func parseView(pr parser.ParseResult, src string) string {
	sexp, _ := programToSexp(pr.Value)
	out := sexp
	for _, e := range pr.Errors {
		out += "|" + rng(e.Range) + " " + e.Msg
	}
	shown := ""
	if p := safely(func() { shown = parser.ParseErrorsToString(pr.Errors, src) }); p != "" {
		shown = "PANIC " + p
	}
	return out + "|" + shown
}

func opParseSeq(c *ExecCase) map[string]any {
	res := map[string]any{"id": c.ID}
	results := make([]parser.ParseResult, len(c.Args))
	first := make([]string, len(c.Args))
	for i, t := range c.Args {
		if p := safely(func() { results[i] = parser.Parse(t) }); p != "" {
			res["parsePanic"] = p
			return res
		}
		first[i] = parseView(results[i], t)
	}
	changed := []int{}
	detail := []string{}
	for i, t := range c.Args {
		again := parseView(results[i], t)
		if again != first[i] {
			changed = append(changed, i)
			if len(detail) < 2 {
				detail = append(detail, "first: "+first[i]+" ;; later: "+again)
			}
		}
	}
	res["changed"] = changed
	res["detail"] = detail
	return res
}

// ---- probe: the packages keep no state between calls. After every case the harness parses, analyses and runs
// one fixed script (all six types, an allotment with a leftover unit, a zero portion, metadata, a parse error in a
// second text) and compares with what the same probe gave when the process started: any difference means that an
// earlier case changed process-wide state (a package-level table, cache or shared number).
const probeScript = `vars {
  account $a
  asset $s
  number $n
  monetary $m
  portion $p
  string $t
}
send [$s $n] (
  source = $a allowing overdraft up to $m
  destination = { 0% to @z $p to @x remaining to @y }
)
send [COIN 10] (
  source = @world
  destination = { 1/3 to @u 2/3 to @v }
)
set_tx_meta("k", $t)
set_account_meta(@x, "q", 1/4)
`

var probeBase string

func probeNow() (out string) {
	defer func() {
		if r := recover(); r != nil {
			out = "PANIC " + fmt.Sprint(r)
		}
	}()
	chk := analysis.CheckSource(probeScript)
	for _, d := range chk.Diagnostics {
		out += diagName(d.Kind) + "@" + rng(d.Range) + ":" + d.Kind.Message() + ";"
	}
	bad := analysis.CheckSource("vars { acount $x }\nsend [USD 1] (source = @a destination = ")
	for _, d := range bad.Diagnostics {
		out += diagName(d.Kind) + "@" + rng(d.Range) + ":" + d.Kind.Message() + ";"
	}
	pr := parser.Parse(probeScript)
	res, err := interpreter.RunProgram(context.Background(), pr.Value,
		map[string]string{"a": "acc", "s": "USD", "n": "11", "m": "USD 5", "p": "1/2", "t": "text"},
		interpreter.StaticStore{Balances: interpreter.Balances{"acc": {"USD": big.NewInt(7)}}}, nil)
	if err != nil {
		return out + "ERR " + err.Error()
	}
	for _, p := range res.Postings {
		out += p.Source + ">" + p.Destination + ":" + p.Amount.String() + p.Asset + ";"
	}
	jb, _ := json.Marshal(res)
	return out + string(jb)
}
