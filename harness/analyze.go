package main

// Static analysis, navigation and language-server operations.

import (
	"encoding/json"
	"fmt"
	"io"
	"math/big"
	"os"
	"reflect"
	"strings"

	"github.com/formancehq/numscript/internal/analysis"
	"github.com/formancehq/numscript/internal/lsp"
	"github.com/formancehq/numscript/internal/parser"
	"github.com/sourcegraph/jsonrpc2"
)

func init() {
	extraOps["analyze"] = opAnalyze
	extraOps["lsp"] = opLsp
	extraOps["parse"] = opParse
	extraOps["show"] = opShow
}

// Range.ShowOnSource on an arbitrary range (c.Positions = [[startLine, startChar], [endLine, endChar]])
func opShow(c *ExecCase) map[string]any {
	res := map[string]any{"id": c.ID}
	if len(c.Positions) != 2 {
		res["harnessError"] = "show needs two positions"
		return res
	}
	r := parser.Range{Start: parser.Position{Line: c.Positions[0][0], Character: c.Positions[0][1]},
		End: parser.Position{Line: c.Positions[1][0], Character: c.Positions[1][1]}}
	if p := safely(func() { res["out"] = r.ShowOnSource(c.Script) }); p != "" {
		res["panic"] = p
	}
	return res
}

func diagPayload(k analysis.DiagnosticKind) []string {
	rv := reflect.ValueOf(k)
	if rv.Kind() == reflect.Ptr {
		rv = rv.Elem()
	}
	out := []string{}
	for i := 0; i < rv.NumField(); i++ {
		f := rv.Field(i).Interface()
		switch v := f.(type) {
		case big.Rat:
			out = append(out, v.String())
		case string:
			out = append(out, v)
		default:
			out = append(out, fmt.Sprint(v))
		}
	}
	return out
}

func diagName(k analysis.DiagnosticKind) string {
	t := reflect.TypeOf(k)
	if t.Kind() == reflect.Ptr {
		t = t.Elem()
	}
	return t.Name()
}

func safely(f func()) (pan string) {
	defer func() {
		if r := recover(); r != nil {
			pan = fmt.Sprint(r)
		}
	}()
	f()
	return ""
}

func opAnalyze(c *ExecCase) map[string]any {
	res := map[string]any{"id": c.ID}
	var check analysis.CheckResult
	var pr parser.ParseResult
	if p := safely(func() { pr = parser.Parse(c.Script) }); p != "" {
		res["parsePanic"] = p
		return res
	}
	sexp, unsup := programToSexp(pr.Value)
	res["ast"] = sexp
	if len(unsup) > 0 {
		res["unsupported"] = unsup
	}
	perrs := [][]string{}
	for _, e := range pr.Errors {
		perrs = append(perrs, []string{rng(e.Range), e.Msg})
	}
	res["parseErrors"] = perrs
	if p := safely(func() { check = analysis.CheckSource(c.Script) }); p != "" {
		res["checkPanic"] = p
		return res
	}
	diags := [][]string{}
	for _, d := range check.Diagnostics {
		row := []string{diagName(d.Kind), fmt.Sprint(d.Kind.Severity()), rng(d.Range)}
		row = append(row, diagPayload(d.Kind)...)
		diags = append(diags, row)
	}
	res["diags"] = diags
	res["errorCount"] = check.GetErrorsCount()
	// message rendering must not panic either
	msgs := []string{}
	if p := safely(func() {
		for _, d := range check.Diagnostics {
			msgs = append(msgs, d.Kind.Message())
		}
		res["messages"] = msgs
	}); p != "" {
		res["messagePanic"] = p
	}
	// second analysis of the same text: same sets
	var check2 analysis.CheckResult
	if p := safely(func() { check2 = analysis.CheckSource(c.Script) }); p == "" {
		d2 := [][]string{}
		for _, d := range check2.Diagnostics {
			row := []string{diagName(d.Kind), fmt.Sprint(d.Kind.Severity()), rng(d.Range)}
			row = append(row, diagPayload(d.Kind)...)
			d2 = append(d2, row)
		}
		res["diags2"] = d2
	}
	if p := safely(func() {
		syms := [][]string{}
		for _, s := range check.GetSymbols() {
			syms = append(syms, []string{s.Name, s.Detail, rng(s.Range), rng(s.SelectionRange), fmt.Sprint(s.Kind)})
		}
		res["symbols"] = syms
	}); p != "" {
		res["symbolsPanic"] = p
	}
	hovers := []map[string]any{}
	for _, pos := range c.Positions {
		h := map[string]any{"pos": pos}
		position := parser.Position{Line: pos[0], Character: pos[1]}
		if p := safely(func() {
			hv := analysis.HoverOn(check.Program, position)
			switch hv := hv.(type) {
			case *analysis.VariableHover:
				h["h"] = []string{"var", rng(hv.Range), hv.Node.Name}
			case *analysis.BuiltinFnHover:
				h["h"] = []string{"fn", rng(hv.Range), hv.Node.Caller.Name}
			}
		}); p != "" {
			h["hoverPanic"] = p
		}
		if p := safely(func() {
			g := analysis.GotoDefinition(check.Program, position, check)
			if g != nil {
				h["goto"] = rng(g.Range)
			}
		}); p != "" {
			h["gotoPanic"] = p
		}
		hovers = append(hovers, h)
	}
	res["hovers"] = hovers
	return res
}

type lspReq struct {
	Method string          `json:"method"`
	Params json.RawMessage `json:"params"`
}

// captures what Handle prints on stdout (notifications) and silences its stderr copy
func captureStdout(f func()) string {
	oldOut, oldErr := os.Stdout, os.Stderr
	r, w, err := os.Pipe()
	if err != nil {
		panic(err)
	}
	devnull, _ := os.OpenFile(os.DevNull, os.O_WRONLY, 0)
	os.Stdout, os.Stderr = w, devnull
	done := make(chan string)
	go func() {
		b, _ := io.ReadAll(r)
		done <- string(b)
	}()
	func() {
		defer func() {
			os.Stdout, os.Stderr = oldOut, oldErr
			w.Close()
			devnull.Close()
		}()
		f()
	}()
	return <-done
}

func splitFrames(s string) []json.RawMessage {
	out := []json.RawMessage{}
	for len(s) > 0 {
		i := strings.Index(s, "\r\n\r\n")
		if i < 0 {
			break
		}
		var n int
		fmt.Sscanf(strings.TrimPrefix(s[:i], "Content-Length: "), "%d", &n)
		body := s[i+4:]
		if n > len(body) {
			n = len(body)
		}
		out = append(out, json.RawMessage(body[:n]))
		s = body[n:]
	}
	return out
}

func opLsp(c *ExecCase) map[string]any {
	res := map[string]any{"id": c.ID}
	state := lsp.InitialState()
	steps := []map[string]any{}
	for _, raw := range c.History {
		var rq lspReq
		if err := json.Unmarshal(raw, &rq); err != nil {
			steps = append(steps, map[string]any{"harnessError": err.Error()})
			continue
		}
		step := map[string]any{}
		params := json.RawMessage(rq.Params)
		var result any
		var pan string
		out := captureStdout(func() {
			pan = safely(func() {
				result = lsp.Handle(jsonrpc2.Request{Method: rq.Method, Params: &params}, &state)
			})
		})
		if pan != "" {
			step["panic"] = pan
		} else {
			b, err := json.Marshal(result)
			if err != nil {
				step["marshalError"] = err.Error()
			} else {
				step["result"] = json.RawMessage(b)
			}
		}
		step["notifs"] = splitFrames(out)
		steps = append(steps, step)
	}
	res["steps"] = steps
	return res
}

func opParse(c *ExecCase) map[string]any {
	res := map[string]any{"id": c.ID}
	var pr parser.ParseResult
	if p := safely(func() { pr = parser.Parse(c.Script) }); p != "" {
		res["parsePanic"] = p
		return res
	}
	sexp, unsup := programToSexp(pr.Value)
	res["ast"] = sexp
	if len(unsup) > 0 {
		res["unsupported"] = unsup
	}
	perrs := [][]string{}
	for _, e := range pr.Errors {
		perrs = append(perrs, []string{rng(e.Range), e.Msg})
	}
	res["parseErrors"] = perrs
	if p := safely(func() { res["shown"] = len(parser.ParseErrorsToString(pr.Errors, c.Script)) }); p != "" {
		res["showPanic"] = p
	}
	return res
}
