package main

// Additional operations: direct calls of exported functions (Reconcile,
// ParsePortionSpecific), literal conversion observed through the parser,
// variable parsing observed through a one-line script, concurrent runs.

import (
	"context"
	"fmt"
	"math/big"
	"reflect"
	"sync"

	numscript "github.com/formancehq/numscript"
	"github.com/formancehq/numscript/internal/interpreter"
	"github.com/formancehq/numscript/internal/parser"
)

func init() {
	extraOps["reconcile"] = opReconcile
	extraOps["portion"] = opPortion
	extraOps["parsevar"] = opParseVar
	extraOps["concurrent"] = opConcurrent
}

func opReconcile(c *ExecCase) (res map[string]any) {
	res = map[string]any{"id": c.ID}
	var snd []interpreter.Sender
	var rcv []interpreter.Receiver
	for _, s := range c.Senders {
		n, _ := new(big.Int).SetString(s[1], 10)
		snd = append(snd, interpreter.Sender{Name: s[0], Monetary: n})
	}
	for _, r := range c.Receivers {
		n, _ := new(big.Int).SetString(r[1], 10)
		rcv = append(rcv, interpreter.Receiver{Name: r[0], Monetary: n})
	}
	defer func() {
		if r := recover(); r != nil {
			res["outcome"] = "panic"
			res["panic"] = fmt.Sprint(r)
		}
	}()
	ps, err := interpreter.Reconcile(c.Asset, snd, rcv)
	if err != nil {
		res["outcome"] = "err"
		res["errMsg"] = err.Error()
		return
	}
	out := [][4]string{}
	for _, p := range ps {
		out = append(out, [4]string{p.Source, p.Destination, p.Amount.String(), p.Asset})
	}
	res["outcome"] = "ok"
	res["postings"] = out
	return
}

func findRatio(e parser.ValueExpr) *parser.RatioLiteral {
	if r, ok := e.(*parser.RatioLiteral); ok && r != nil {
		return r
	}
	return nil
}

// the portion text as a literal (through the real lexer/parser) and as a variable
func opPortion(c *ExecCase) map[string]any {
	res := map[string]any{"id": c.ID}
	// literal
	func() {
		defer func() {
			if r := recover(); r != nil {
				res["lit"] = map[string]any{"outcome": "panic", "panic": fmt.Sprint(r)}
			}
		}()
		script := "set_tx_meta(\"k\", " + c.Text + ")"
		pr := parser.Parse(script)
		lit := map[string]any{"parseErrors": len(pr.Errors)}
		if len(pr.Errors) == 0 && len(pr.Value.Statements) == 1 {
			if fn, ok := pr.Value.Statements[0].(*parser.FnCall); ok && fn != nil && len(fn.Args) == 2 {
				if r := findRatio(fn.Args[1]); r != nil {
					lit["outcome"] = "ok"
					lit["num"] = r.Numerator.String()
					lit["den"] = r.Denominator.String()
					lit["range"] = rng(r.Range)
				}
			}
		}
		if _, ok := lit["outcome"]; !ok {
			lit["outcome"] = "notportion"
		}
		res["lit"] = lit
	}()
	// variable
	func() {
		defer func() {
			if r := recover(); r != nil {
				res["var"] = map[string]any{"outcome": "panic", "panic": fmt.Sprint(r)}
			}
		}()
		v := map[string]any{}
		rat, err := interpreter.ParsePortionSpecific(c.Text)
		if err != nil {
			v["outcome"] = "err"
			v["errKind"], v["errPayload"] = errPayload(err)
		} else {
			v["outcome"] = "ok"
			v["num"] = rat.Num().String()
			v["den"] = rat.Denom().String()
		}
		res["var"] = v
	}()
	return res
}

// a value of type c.Type read from the text c.Text (plain variable), observed
// through set_tx_meta; and written back through set_account_meta
func opParseVar(c *ExecCase) map[string]any {
	res := map[string]any{"id": c.ID}
	script := fmt.Sprintf("vars { %s $v }\nset_tx_meta(\"k\", $v)\nset_account_meta(@acc, \"k\", $v)\n", c.Type)
	pr := parser.Parse(script)
	res["parseErrors"] = len(pr.Errors)
	sexp, unsup := programToSexp(pr.Value)
	res["ast"] = sexp
	if len(unsup) > 0 {
		res["unsupported"] = unsup
	}
	ec := &ExecCase{Store: "exact", FailAt: -1}
	var o ExecOut
	fillOut(&o, runOnce(pr.Value, ec, map[string]string{"v": c.Text}, interpreter.Balances{}, interpreter.AccountsMetadata{}))
	res["go"] = o
	if o.Outcome == "ok" {
		// JSON form of the transaction metadata value
		if r, err := interpreter.RunProgram(context.Background(), pr.Value, map[string]string{"v": c.Text}, interpreter.StaticStore{}, nil); err == nil {
			if v, ok := r.Metadata["k"]; ok {
				if m, ok := v.(interface{ MarshalJSON() ([]byte, error) }); ok {
					b, _ := m.MarshalJSON()
					res["json"] = string(b)
				}
			}
		}
	}
	return res
}

// many goroutines running the same parsed script against one store (C11; meaningful with -race)
func opConcurrent(c *ExecCase) map[string]any {
	res := map[string]any{"id": c.ID}
	pr := parser.Parse(c.Script)
	bal := mkBalances(c.Balances)
	meta := mkMeta(c.Meta)
	vars := copyVars(c.Vars)
	n := c.Goroutines
	if n <= 0 {
		n = 4
	}
	outs := make([]ExecOut, n)
	var wg sync.WaitGroup
	for i := 0; i < n; i++ {
		wg.Add(1)
		go func(i int) {
			defer wg.Done()
			// one shared caller-owned store content, one shared variables map, one shared parse result
			store := interpreter.StaticStore{Balances: bal, Meta: meta}
			flags := map[string]struct{}{}
			for _, f := range c.Flags {
				flags[f] = struct{}{}
			}
			var r runOutput
			func() {
				defer func() {
					if p := recover(); p != nil {
						r.pan = fmt.Sprint(p)
					}
				}()
				r.res, r.err = interpreter.RunProgram(context.Background(), pr.Value, vars, store, flags)
			}()
			fillOut(&outs[i], r)
		}(i)
	}
	wg.Wait()
	// a call is over when it returns: through the public API with a context that is cancelled while the store is
	// answering its first call; afterwards the caller writes to the maps it had handed over (under -race, a run
	// that is still going on behind the caller's back shows as a data race)
	func() {
		defer func() { _ = recover() }()
		ctx, cancel := context.WithCancel(context.Background())
		defer cancel()
		ownVars := copyVars(c.Vars)
		ownBal := mkBalances(c.Balances)
		ownMeta := mkMeta(c.Meta)
		cs := &cancellingStore{inner: interpreter.StaticStore{Balances: ownBal, Meta: ownMeta}, cancel: cancel}
		flags := map[string]struct{}{}
		for _, f := range c.Flags {
			flags[f] = struct{}{}
		}
		pr2 := numscript.Parse(c.Script)
		_, _ = pr2.RunWithFeatureFlags(ctx, ownVars, cs, flags)
		for k, v := range ownVars {
			ownVars[k] = v + " "
		}
		ownVars["after_the_call"] = "x"
		ownBal["after_the_call"] = interpreter.AccountBalance{"USD": big.NewInt(1)}
		ownMeta["after_the_call"] = interpreter.AccountMetadata{"k": "v"}
	}()
	diffs := []string{}
	for i := 1; i < n; i++ {
		if !reflect.DeepEqual(canonOut(outs[0]), canonOut(outs[i])) {
			diffs = append(diffs, fmt.Sprintf("goroutine %d differs from goroutine 0", i))
		}
	}
	if len(diffs) > 0 {
		res["diffs"] = diffs
	}
	if !balancesEqual(bal, mkBalances(c.Balances)) {
		res["diffs"] = append(diffs, "shared balances modified")
	}
	res["go"] = outs[0]
	return res
}


// cancellingStore cancels the caller's context once its first answer is ready
type cancellingStore struct {
	inner  interpreter.StaticStore
	cancel context.CancelFunc
	once   sync.Once
}

func (s *cancellingStore) GetBalances(ctx context.Context, q interpreter.BalanceQuery) (interpreter.Balances, error) {
	b, err := s.inner.GetBalances(ctx, q)
	s.once.Do(s.cancel)
	return b, err
}

func (s *cancellingStore) GetAccountsMetadata(ctx context.Context, q interpreter.MetadataQuery) (interpreter.AccountsMetadata, error) {
	m, err := s.inner.GetAccountsMetadata(ctx, q)
	s.once.Do(s.cancel)
	return m, err
}
