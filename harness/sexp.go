package main

// Serialisation of the AST produced by the real parser into the S-expression
// format read by the Lean driver. Nil interfaces and typed-nil pointers left
// by the fault-tolerant converter are written explicitly.

import (
	"encoding/hex"
	"fmt"
	"reflect"
	"strings"

	"github.com/formancehq/numscript/internal/parser"
)

func safeChar(c byte) bool {
	return (c >= 'a' && c <= 'z') || (c >= 'A' && c <= 'Z') || (c >= '0' && c <= '9') ||
		c == '_' || c == '.' || c == '/' || c == ':' || c == '-'
}

// enc: readable when possible, hex otherwise; never contains blanks or parens
func enc(s string) string {
	ok := true
	for i := 0; i < len(s); i++ {
		if !safeChar(s[i]) {
			ok = false
			break
		}
	}
	if ok {
		return "'" + s
	}
	return "%" + hex.EncodeToString([]byte(s))
}

func rng(r parser.Range) string {
	return fmt.Sprintf("%d:%d-%d:%d", r.Start.Line, r.Start.Character, r.End.Line, r.End.Character)
}

func isNilPtr(v any) bool {
	if v == nil {
		return true
	}
	rv := reflect.ValueOf(v)
	return rv.Kind() == reflect.Ptr && rv.IsNil()
}

type sexpWriter struct {
	b           strings.Builder
	unsupported []string // shapes the Lean AST cannot express (reported, never silently dropped)
}

func (w *sexpWriter) unsup(what string) {
	w.unsupported = append(w.unsupported, what)
}

func (w *sexpWriter) expr(e parser.ValueExpr) {
	if e == nil {
		w.b.WriteString("nil")
		return
	}
	if isNilPtr(e) {
		if _, ok := e.(*parser.MonetaryLiteral); ok {
			w.b.WriteString("monnil")
			return
		}
		w.unsup(fmt.Sprintf("typed-nil expr %T", e))
		w.b.WriteString("nil")
		return
	}
	switch e := e.(type) {
	case *parser.Variable:
		fmt.Fprintf(&w.b, "(var %s %s)", rng(e.Range), enc(e.Name))
	case *parser.AssetLiteral:
		fmt.Fprintf(&w.b, "(asset %s %s)", rng(e.Range), enc(e.Asset))
	case *parser.AccountLiteral:
		fmt.Fprintf(&w.b, "(acct %s %s)", rng(e.Range), enc(e.Name))
	case *parser.StringLiteral:
		fmt.Fprintf(&w.b, "(str %s %s)", rng(e.Range), enc(e.String))
	case *parser.NumberLiteral:
		fmt.Fprintf(&w.b, "(num %s %d)", rng(e.Range), e.Number)
	case *parser.RatioLiteral:
		if e.Numerator == nil || e.Denominator == nil || e.Numerator.Sign() < 0 || e.Denominator.Sign() < 0 {
			w.unsup("ratio with nil/negative parts")
			w.b.WriteString("nil")
			return
		}
		fmt.Fprintf(&w.b, "(ratio %s %s %s)", rng(e.Range), e.Numerator.String(), e.Denominator.String())
	case *parser.MonetaryLiteral:
		fmt.Fprintf(&w.b, "(mon %s ", rng(e.Range))
		w.expr(e.Asset)
		w.b.WriteString(" ")
		w.expr(e.Amount)
		w.b.WriteString(")")
	case *parser.BinaryInfix:
		op := string(e.Operator)
		if op != "+" && op != "-" {
			w.unsup("infix operator " + op)
		}
		fmt.Fprintf(&w.b, "(infix %s %s ", rng(e.Range), op)
		w.expr(e.Left)
		w.b.WriteString(" ")
		w.expr(e.Right)
		w.b.WriteString(")")
	default:
		w.unsup(fmt.Sprintf("expr %T", e))
		w.b.WriteString("nil")
	}
}

func (w *sexpWriter) allot(a parser.AllotmentValue) {
	if a == nil {
		w.b.WriteString("nil")
		return
	}
	if isNilPtr(a) {
		w.unsup(fmt.Sprintf("typed-nil allotment %T", a))
		w.b.WriteString("nil")
		return
	}
	switch a := a.(type) {
	case *parser.RemainingAllotment:
		fmt.Fprintf(&w.b, "(rem %s)", rng(a.Range))
	case *parser.RatioLiteral:
		w.b.WriteString("(por ")
		w.expr(a)
		w.b.WriteString(")")
	case *parser.Variable:
		w.b.WriteString("(por ")
		w.expr(a)
		w.b.WriteString(")")
	default:
		w.unsup(fmt.Sprintf("allotment %T", a))
		w.b.WriteString("nil")
	}
}

func (w *sexpWriter) source(s parser.Source) {
	if s == nil {
		w.b.WriteString("nil")
		return
	}
	if isNilPtr(s) {
		w.unsup(fmt.Sprintf("typed-nil source %T", s))
		w.b.WriteString("nil")
		return
	}
	switch s := s.(type) {
	case *parser.SourceAccount:
		w.b.WriteString("(sacct ")
		w.expr(s.ValueExpr)
		w.b.WriteString(")")
	case *parser.SourceOverdraft:
		fmt.Fprintf(&w.b, "(sover %s ", rng(s.Range))
		w.expr(s.Address)
		if s.Bounded != nil {
			w.b.WriteString(" ")
			w.expr(*s.Bounded)
		}
		w.b.WriteString(")")
	case *parser.SourceInorder:
		fmt.Fprintf(&w.b, "(sin %s", rng(s.Range))
		for _, sub := range s.Sources {
			w.b.WriteString(" ")
			w.source(sub)
		}
		w.b.WriteString(")")
	case *parser.SourceCapped:
		fmt.Fprintf(&w.b, "(scap %s ", rng(s.Range))
		w.expr(s.Cap)
		w.b.WriteString(" ")
		w.source(s.From)
		w.b.WriteString(")")
	case *parser.SourceAllotment:
		fmt.Fprintf(&w.b, "(sallot %s", rng(s.Range))
		for _, it := range s.Items {
			fmt.Fprintf(&w.b, " (item %s ", rng(it.Range))
			w.allot(it.Allotment)
			w.b.WriteString(" ")
			w.source(it.From)
			w.b.WriteString(")")
		}
		w.b.WriteString(")")
	default:
		w.unsup(fmt.Sprintf("source %T", s))
		w.b.WriteString("nil")
	}
}

func (w *sexpWriter) kod(k parser.KeptOrDestination) {
	if k == nil {
		w.b.WriteString("nil")
		return
	}
	if isNilPtr(k) {
		w.unsup(fmt.Sprintf("typed-nil keptOrDest %T", k))
		w.b.WriteString("nil")
		return
	}
	switch k := k.(type) {
	case *parser.DestinationKept:
		fmt.Fprintf(&w.b, "(kept %s)", rng(k.Range))
	case *parser.DestinationTo:
		w.b.WriteString("(to ")
		w.dest(k.Destination)
		w.b.WriteString(")")
	default:
		w.unsup(fmt.Sprintf("keptOrDest %T", k))
		w.b.WriteString("nil")
	}
}

func (w *sexpWriter) dest(d parser.Destination) {
	if d == nil {
		w.b.WriteString("nil")
		return
	}
	if isNilPtr(d) {
		w.unsup(fmt.Sprintf("typed-nil destination %T", d))
		w.b.WriteString("nil")
		return
	}
	switch d := d.(type) {
	case *parser.DestinationAccount:
		w.b.WriteString("(dacct ")
		w.expr(d.ValueExpr)
		w.b.WriteString(")")
	case *parser.DestinationInorder:
		fmt.Fprintf(&w.b, "(din %s ", rng(d.Range))
		w.kod(d.Remaining)
		for _, c := range d.Clauses {
			fmt.Fprintf(&w.b, " (clause %s ", rng(c.Range))
			w.expr(c.Cap)
			w.b.WriteString(" ")
			w.kod(c.To)
			w.b.WriteString(")")
		}
		w.b.WriteString(")")
	case *parser.DestinationAllotment:
		fmt.Fprintf(&w.b, "(dallot %s", rng(d.Range))
		for _, it := range d.Items {
			fmt.Fprintf(&w.b, " (item %s ", rng(it.Range))
			w.allot(it.Allotment)
			w.b.WriteString(" ")
			w.kod(it.To)
			w.b.WriteString(")")
		}
		w.b.WriteString(")")
	default:
		w.unsup(fmt.Sprintf("destination %T", d))
		w.b.WriteString("nil")
	}
}

func (w *sexpWriter) sentValue(sv parser.SentValue) {
	if sv == nil {
		w.b.WriteString("nil")
		return
	}
	if isNilPtr(sv) {
		w.unsup(fmt.Sprintf("typed-nil sentValue %T", sv))
		w.b.WriteString("nil")
		return
	}
	switch sv := sv.(type) {
	case *parser.SentValueLiteral:
		fmt.Fprintf(&w.b, "(lit %s ", rng(sv.Range))
		w.expr(sv.Monetary)
		w.b.WriteString(")")
	case *parser.SentValueAll:
		fmt.Fprintf(&w.b, "(all %s ", rng(sv.Range))
		w.expr(sv.Asset)
		w.b.WriteString(")")
	default:
		w.unsup(fmt.Sprintf("sentValue %T", sv))
		w.b.WriteString("nil")
	}
}

func (w *sexpWriter) fnCall(c *parser.FnCall) {
	if c == nil {
		w.b.WriteString("nil")
		return
	}
	if c.Caller == nil {
		w.unsup("fnCall with nil caller")
		w.b.WriteString("nil")
		return
	}
	fmt.Fprintf(&w.b, "(call %s %s %s", rng(c.Range), rng(c.Caller.Range), enc(c.Caller.Name))
	for _, a := range c.Args {
		w.b.WriteString(" ")
		w.expr(a)
	}
	w.b.WriteString(")")
}

func (w *sexpWriter) statement(s parser.Statement) {
	if s == nil {
		w.b.WriteString("nil")
		return
	}
	if isNilPtr(s) {
		if _, ok := s.(*parser.FnCall); ok {
			w.b.WriteString("callnil")
			return
		}
		w.unsup(fmt.Sprintf("typed-nil statement %T", s))
		w.b.WriteString("nil")
		return
	}
	switch s := s.(type) {
	case *parser.SendStatement:
		fmt.Fprintf(&w.b, "(send %s ", rng(s.Range))
		w.sentValue(s.SentValue)
		w.b.WriteString(" ")
		w.source(s.Source)
		w.b.WriteString(" ")
		w.dest(s.Destination)
		w.b.WriteString(")")
	case *parser.SaveStatement:
		fmt.Fprintf(&w.b, "(save %s ", rng(s.Range))
		w.sentValue(s.SentValue)
		w.b.WriteString(" ")
		w.expr(s.Amount)
		w.b.WriteString(")")
	case *parser.FnCall:
		w.fnCall(s)
	default:
		w.unsup(fmt.Sprintf("statement %T", s))
		w.b.WriteString("nil")
	}
}

func programToSexp(p parser.Program) (string, []string) {
	w := &sexpWriter{}
	w.b.WriteString("(prog (vars")
	for _, d := range p.Vars {
		fmt.Fprintf(&w.b, " (decl %s ", rng(d.Range))
		if d.Name == nil {
			w.b.WriteString("nil")
		} else {
			fmt.Fprintf(&w.b, "(name %s %s)", rng(d.Name.Range), enc(d.Name.Name))
		}
		w.b.WriteString(" ")
		if d.Type == nil {
			w.b.WriteString("nil")
		} else {
			fmt.Fprintf(&w.b, "(type %s %s)", rng(d.Type.Range), enc(d.Type.Name))
		}
		w.b.WriteString(" ")
		w.fnCall(d.Origin)
		w.b.WriteString(")")
	}
	w.b.WriteString(") (stmts")
	for _, s := range p.Statements {
		w.b.WriteString(" ")
		w.statement(s)
	}
	w.b.WriteString("))")
	return w.b.String(), w.unsupported
}
