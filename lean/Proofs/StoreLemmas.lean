/-
  Proofs/StoreLemmas.lean — helper lemmas for Properties/C1011.lean:
  the cache under `cacheMerge`/`cacheEnsure`, the pending query under `batchQuery`,
  the query phase against a faithful store, and the frame property of the statement phase
  (a statement reads the cache only at the pairs its preload lists).
-/
import Spec.StoreSpec
import Proofs.LedgerLemmas

namespace NS

/-! ## Relating two outcomes -/

/-- both fail identically, or both succeed with related results -/
def sr_ORel {α β : Type} (R : α → β → Prop) : Outcome α → Outcome β → Prop
  | .ok a, .ok b => R a b
  | .err e, .err e' => e = e'
  | .panic s, .panic s' => s = s'
  | _, _ => False

theorem sr_ORel_ok_right {α β : Type} {R : α → β → Prop} {x : Outcome α} {b : β}
    (h : sr_ORel R x (.ok b)) : ∃ a, x = .ok a ∧ R a b := by
  cases x with
  | ok a => exact ⟨a, rfl, h⟩
  | err e => exact h.elim
  | panic s => exact h.elim

theorem sr_ORel_err_right {α β : Type} {R : α → β → Prop} {x : Outcome α} {e : Err}
    (h : sr_ORel R x (.err e : Outcome β)) : x = .err e := by
  cases x with
  | ok a => exact h.elim
  | err e' => simp only [sr_ORel] at h; rw [h]
  | panic s => exact h.elim

theorem sr_ORel_panic_right {α β : Type} {R : α → β → Prop} {x : Outcome α} {s : String}
    (h : sr_ORel R x (.panic s : Outcome β)) : x = .panic s := by
  cases x with
  | ok a => exact h.elim
  | err e' => exact h.elim
  | panic s' => simp only [sr_ORel] at h; rw [h]

theorem sr_ORel_ok_left {α β : Type} {R : α → β → Prop} {y : Outcome β} {a : α}
    (h : sr_ORel R (.ok a) y) : ∃ b, y = .ok b ∧ R a b := by
  cases y with
  | ok b => exact ⟨b, rfl, h⟩
  | err e => exact h.elim
  | panic s => exact h.elim

theorem sr_ORel_err_left {α β : Type} {R : α → β → Prop} {y : Outcome β} {e : Err}
    (h : sr_ORel R (.err e : Outcome α) y) : y = .err e := by
  cases y with
  | ok a => exact h.elim
  | err e' => simp only [sr_ORel] at h; rw [h]
  | panic s => exact h.elim

theorem sr_ORel_panic_left {α β : Type} {R : α → β → Prop} {y : Outcome β} {s : String}
    (h : sr_ORel R (.panic s : Outcome α) y) : y = .panic s := by
  cases y with
  | ok a => exact h.elim
  | err e' => exact h.elim
  | panic s' => simp only [sr_ORel] at h; rw [h]

theorem sr_ORel_mono {α β : Type} {R R' : α → β → Prop} {x : Outcome α} {y : Outcome β}
    (hr : ∀ a b, R a b → R' a b) (h : sr_ORel R x y) : sr_ORel R' x y := by
  cases x <;> cases y <;> first | exact hr _ _ h | exact h

/-! ## The cache -/

theorem sr_cacheHas_append (c : Cache) (a s : String) (v : Int) (a' s' : String) :
    cacheHas (c ++ [((a, s), v)]) a' s' = (cacheHas c a' s' || decide ((a, s) = (a', s'))) := by
  unfold cacheHas
  rw [List.any_append]
  by_cases h : (a, s) = (a', s')
  · simp [h]
  · simp [h]

theorem sr_cacheHas_merge_mono (ans : BalanceAnswer) : ∀ (c : Cache) (a s : String),
    cacheHas c a s = true → cacheHas (cacheMerge c ans) a s = true := by
  induction ans with
  | nil => intro c a s h; exact h
  | cons e t ih =>
    intro c a s h
    obtain ⟨⟨a', s'⟩, v⟩ := e
    rw [cacheMerge]
    apply ih
    split
    · exact h
    · rw [sr_cacheHas_append, h]; rfl

theorem sr_cacheGet_merge_of_has (ans : BalanceAnswer) : ∀ (c : Cache) (a s : String),
    cacheHas c a s = true → cacheGet (cacheMerge c ans) a s = cacheGet c a s := by
  induction ans with
  | nil => intro c a s _; rfl
  | cons e t ih =>
    intro c a s h
    obtain ⟨⟨a', s'⟩, v⟩ := e
    rw [cacheMerge]
    split
    · exact ih c a s h
    · rw [ih _ a s (by rw [sr_cacheHas_append, h]; rfl), lg_cacheGet_append, if_pos h]

/-- an entry that is not cached is taken from the first matching entry of the answer -/
theorem sr_cacheMerge_of_not_has (ans : BalanceAnswer) : ∀ (c : Cache) (a s : String),
    a ≠ WORLD → cacheHas c a s = false →
    cacheGet (cacheMerge c ans) a s = (ansFind ans a s).getD 0 ∧
    cacheHas (cacheMerge c ans) a s = (ansFind ans a s).isSome := by
  induction ans with
  | nil =>
    intro c a s _ h
    exact ⟨lg_cacheGet_of_not_has c a s h, h⟩
  | cons e t ih =>
    intro c a s ha h
    obtain ⟨⟨a', s'⟩, v⟩ := e
    rw [cacheMerge]
    by_cases hk : (a', s') = (a, s)
    · obtain ⟨rfl, rfl⟩ := Prod.mk.inj hk
      have hf : ansFind (((a', s'), v) :: t) a' s' = some v := by
        simp [ansFind]
      have hc : cacheHas (c ++ [((a', s'), v)]) a' s' = true := by
        rw [sr_cacheHas_append]; simp
      rw [hf, if_neg (by simp [ha, h])]
      refine ⟨?_, sr_cacheHas_merge_mono t _ _ _ hc⟩
      rw [sr_cacheGet_merge_of_has t _ _ _ hc, lg_cacheGet_append, h]
      simp
    · have hf : ansFind (((a', s'), v) :: t) a s = ansFind t a s := by
        simp [ansFind, hk]
      rw [hf]
      apply ih _ a s ha
      split
      · exact h
      · rw [sr_cacheHas_append, h]
        simp [hk]

/-- `cacheMerge` never touches the entries of @world -/
theorem sr_cacheMerge_world (ans : BalanceAnswer) : ∀ (c : Cache) (s : String),
    cacheGet (cacheMerge c ans) WORLD s = cacheGet c WORLD s ∧
    cacheHas (cacheMerge c ans) WORLD s = cacheHas c WORLD s := by
  induction ans with
  | nil => intro c s; exact ⟨rfl, rfl⟩
  | cons e t ih =>
    intro c s
    obtain ⟨⟨a', s'⟩, v⟩ := e
    rw [cacheMerge]
    by_cases hw : a' = WORLD ∨ cacheHas c a' s' = true
    · rw [if_pos hw]; exact ih c s
    · rw [if_neg hw]
      have ha : ¬ WORLD = a' := fun e => hw (Or.inl e.symm)
      have hk : ¬ (a', s') = (WORLD, s) := fun e => ha (Prod.mk.inj e).1.symm
      obtain ⟨h1, h2⟩ := ih (c ++ [((a', s'), v)]) s
      rw [h1, h2, sr_cacheHas_append, lg_cacheGet_append]
      refine ⟨?_, by simp [hk]⟩
      by_cases hh : cacheHas c WORLD s = true
      · simp [hh]
      · have hh' : cacheHas c WORLD s = false := by simpa using hh
        simp [hh', ha, lg_cacheGet_of_not_has c WORLD s hh']

/-! ## The pending query -/

/-- the pair `(a, s)` is requested by the query `p` -/
def sr_Pairs (p : BalanceQuery) (a s : String) : Prop := ∃ cs, (a, cs) ∈ p ∧ s ∈ cs

/-- every pair requested by `p1` is requested by `p2` -/
def sr_Sub (p1 p2 : BalanceQuery) : Prop := ∀ a s, sr_Pairs p1 a s → sr_Pairs p2 a s

def sr_NoWorld (p : BalanceQuery) : Prop := ∀ e ∈ p, e.1 ≠ WORLD

theorem sr_batchQuery_noWorld (p : BalanceQuery) (account asset : String) (h : sr_NoWorld p) :
    sr_NoWorld (batchQuery p account asset) := by
  unfold batchQuery
  split
  · exact h
  · rename_i hw
    split
    · intro e he
      obtain ⟨e0, he0, rfl⟩ := List.mem_map.mp he
      split
      · exact h e0 he0
      · exact h e0 he0
    · intro e he
      rcases List.mem_append.mp he with he | he
      · exact h e he
      · simp only [List.mem_singleton] at he
        subst he
        exact hw

theorem sr_pairs_batchQuery (p : BalanceQuery) (account asset a s : String) :
    sr_Pairs (batchQuery p account asset) a s ↔
      (sr_Pairs p a s ∨ (account ≠ WORLD ∧ a = account ∧ s = asset)) := by
  unfold batchQuery
  by_cases hw : account = WORLD
  · simp [hw]
  · rw [if_neg hw]
    by_cases hany : (p.any (fun e => e.1 == account)) = true
    · rw [if_pos hany]
      constructor
      · rintro ⟨cs, hmem, hs⟩
        obtain ⟨e0, he0, he⟩ := List.mem_map.mp hmem
        split at he
        · rename_i hc
          obtain ⟨h1, h2⟩ := Prod.mk.inj he
          subst h2
          rcases List.mem_append.mp hs with hs | hs
          · exact Or.inl ⟨e0.2, by rw [← h1]; exact he0, hs⟩
          · simp only [List.mem_singleton] at hs
            refine Or.inr ⟨hw, ?_, hs⟩
            rw [← h1]
            simpa using hc.1
        · subst he
          exact Or.inl ⟨cs, he0, hs⟩
      · rintro (⟨cs, hmem, hs⟩ | ⟨_, rfl, rfl⟩)
        · by_cases hc : ((a, cs).1 == account) = true ∧ ¬ ((a, cs).2.contains asset) = true
          · refine ⟨cs ++ [asset], List.mem_map.mpr ⟨(a, cs), hmem, ?_⟩, List.mem_append_left _ hs⟩
            rw [if_pos hc]
          · refine ⟨cs, List.mem_map.mpr ⟨(a, cs), hmem, ?_⟩, hs⟩
            rw [if_neg hc]
        · obtain ⟨e0, he0, hacc⟩ := List.any_eq_true.mp hany
          have hacc' : e0.1 = a := by simpa using hacc
          by_cases hc : (e0.1 == a) = true ∧ ¬ (e0.2.contains s) = true
          · refine ⟨e0.2 ++ [s], List.mem_map.mpr ⟨e0, he0, ?_⟩, by simp⟩
            rw [if_pos hc, hacc']
          · have hs : s ∈ e0.2 := by
              have : (e0.2.contains s) = true := by
                by_cases h' : (e0.2.contains s) = true
                · exact h'
                · exact absurd ⟨hacc, h'⟩ hc
              simpa using this
            refine ⟨e0.2, List.mem_map.mpr ⟨e0, he0, ?_⟩, hs⟩
            rw [if_neg hc]
            cases e0
            simp only at hacc'
            rw [hacc']
    · rw [if_neg hany]
      constructor
      · rintro ⟨cs, hmem, hs⟩
        rcases List.mem_append.mp hmem with hmem | hmem
        · exact Or.inl ⟨cs, hmem, hs⟩
        · simp only [List.mem_singleton] at hmem
          obtain ⟨h1, h2⟩ := Prod.mk.inj hmem
          subst h2
          simp only [List.mem_singleton] at hs
          exact Or.inr ⟨hw, h1, hs⟩
      · rintro (⟨cs, hmem, hs⟩ | ⟨_, rfl, rfl⟩)
        · exact ⟨cs, List.mem_append_left _ hmem, hs⟩
        · exact ⟨[s], List.mem_append_right _ (by simp), by simp⟩

theorem sr_sub_refl (p : BalanceQuery) : sr_Sub p p := fun _ _ h => h

theorem sr_sub_trans {p1 p2 p3 : BalanceQuery} (h1 : sr_Sub p1 p2) (h2 : sr_Sub p2 p3) : sr_Sub p1 p3 :=
  fun a s h => h2 a s (h1 a s h)

theorem sr_sub_nil (p : BalanceQuery) : sr_Sub [] p := by
  rintro a s ⟨cs, h, _⟩
  cases h

theorem sr_sub_batchQuery (p : BalanceQuery) (account asset : String) :
    sr_Sub p (batchQuery p account asset) :=
  fun a s h => (sr_pairs_batchQuery p account asset a s).mpr (Or.inl h)

theorem sr_sub_batchQuery_both {p1 p2 : BalanceQuery} (account asset : String) (h : sr_Sub p1 p2) :
    sr_Sub (batchQuery p1 account asset) (batchQuery p2 account asset) := by
  intro a s hp
  rw [sr_pairs_batchQuery] at hp ⊢
  rcases hp with hp | hp
  · exact Or.inl (h a s hp)
  · exact Or.inr hp

/-! ## The query phase against a faithful store -/

/-- every cached entry of an account other than @world carries the content's value, and @world
    reads as zero -/
def sr_CacheOK (ct : Content) (c : Cache) : Prop :=
  (∀ a s, a ≠ WORLD → cacheHas c a s = true → cacheGet c a s = ct.bal a s) ∧
  (∀ s, cacheGet c WORLD s = 0)

theorem sr_cacheOK_nil (ct : Content) : sr_CacheOK ct [] :=
  ⟨fun _ _ _ h => (by cases h), fun _ => rfl⟩

theorem sr_cacheMerge_faithful (ct : Content) (q : BalanceQuery) (c : Cache) (ans : BalanceAnswer)
    (hf : FaithfulAnswer ct q ans)
    (hc : ∀ a s, a ≠ WORLD → cacheHas c a s = true → cacheGet c a s = ct.bal a s) :
    ∀ a s, a ≠ WORLD → cacheHas (cacheMerge c ans) a s = true →
      cacheGet (cacheMerge c ans) a s = ct.bal a s := by
  intro a s ha hh
  by_cases h : cacheHas c a s = true
  · rw [sr_cacheGet_merge_of_has ans c a s h]
    exact hc a s ha h
  · have h' : cacheHas c a s = false := by simpa using h
    obtain ⟨h1, h2⟩ := sr_cacheMerge_of_not_has ans c a s ha h'
    rw [h2] at hh
    rw [h1]
    cases hfind : ansFind ans a s with
    | none => rw [hfind] at hh; cases hh
    | some v => exact hf.1 a s v hfind

/-- the value `getBalance` returns for a pair, as a function of the content -/
def sr_balVal (ct : Content) (a s : String) : Int := if a = WORLD then 0 else ct.bal a s

/-- after `runBalancesQuery` against a faithful store, every pending pair reads as the content's
    value, and is cached unless that value is zero -/
theorem sr_runBalancesQuery_faithful (store : Store) (ct : Content) (hf : Faithful store ct) (q : QState)
    (hc : sr_CacheOK ct q.cache) :
    ∃ q', runBalancesQuery store q = .ok q' ∧ sr_CacheOK ct q'.cache ∧
      ∀ a s, a ≠ WORLD → sr_Pairs q.pending a s →
        cacheGet q'.cache a s = ct.bal a s ∧ (cacheHas q'.cache a s = true ∨ ct.bal a s = 0) := by
  unfold runBalancesQuery
  simp only
  split
  · rename_i hemp
    refine ⟨q, rfl, hc, ?_⟩
    rintro a s ha ⟨cs, hmem, hs⟩
    have hhas : cacheHas q.cache a s = true := by
      by_cases hh : cacheHas q.cache a s = true
      · exact hh
      · exfalso
        have : (a, cs) ∈ q.pending.filter (fun p => p.2.any (fun c => ! cacheHas q.cache p.1 c)) := by
          refine List.mem_filter.mpr ⟨hmem, ?_⟩
          exact List.any_eq_true.mpr ⟨s, hs, by simpa using hh⟩
        rw [List.isEmpty_iff.mp hemp] at this
        cases this
    exact ⟨hc.1 a s ha hhas, Or.inl hhas⟩
  · obtain ⟨ans, hans, hfa⟩ := hf.1 q.calls
      (q.pending.filter (fun p => p.2.any (fun c => ! cacheHas q.cache p.1 c)))
    rw [hans]
    refine ⟨_, rfl, ⟨sr_cacheMerge_faithful ct _ q.cache ans hfa hc.1, ?_⟩, ?_⟩
    · intro s
      simp only
      rw [(sr_cacheMerge_world ans q.cache s).1]
      exact hc.2 s
    · rintro a s ha ⟨cs, hmem, hs⟩
      simp only
      by_cases hh : cacheHas q.cache a s = true
      · rw [sr_cacheGet_merge_of_has ans _ a s hh]
        exact ⟨hc.1 a s ha hh, Or.inl (sr_cacheHas_merge_mono ans _ a s hh)⟩
      · have hh' : cacheHas q.cache a s = false := by simpa using hh
        have hfil : (a, cs) ∈ q.pending.filter (fun p => p.2.any (fun c => ! cacheHas q.cache p.1 c)) := by
          refine List.mem_filter.mpr ⟨hmem, ?_⟩
          exact List.any_eq_true.mpr ⟨s, hs, by simpa using hh⟩
        obtain ⟨h1, h2⟩ := sr_cacheMerge_of_not_has ans q.cache a s ha hh'
        rw [h1, h2]
        cases hfind : ansFind ans a s with
        | none =>
          have := hfa.2 a cs hfil s hs hfind
          exact ⟨by simp [this], Or.inr this⟩
        | some v =>
          have := hfa.1 a s v hfind
          exact ⟨by simp [this], Or.inl rfl⟩

theorem sr_cacheOK_ensure (ct : Content) (c : Cache) (a s : String) (hc : sr_CacheOK ct c)
    (h0 : a ≠ WORLD → cacheHas c a s = true ∨ ct.bal a s = 0) :
    sr_CacheOK ct (cacheEnsure c a s) := by
  unfold cacheEnsure
  by_cases hh : cacheHas c a s = true
  · rw [if_pos hh]; exact hc
  · rw [if_neg hh]
    have hh' : cacheHas c a s = false := by simpa using hh
    constructor
    · intro a' s' ha' hhas
      rw [sr_cacheHas_append] at hhas
      rw [lg_cacheGet_append]
      by_cases h2 : cacheHas c a' s' = true
      · rw [if_pos h2]; exact hc.1 a' s' ha' h2
      · rw [if_neg h2]
        have h2' : cacheHas c a' s' = false := by simpa using h2
        rw [h2'] at hhas
        have hk : (a, s) = (a', s') := by simpa using hhas
        obtain ⟨rfl, rfl⟩ := Prod.mk.inj hk
        rcases h0 ha' with h | h
        · exact absurd h hh
        · simp [h]
    · intro s'
      rw [lg_cacheGet_append]
      by_cases h2 : cacheHas c WORLD s' = true
      · rw [if_pos h2]; exact hc.2 s'
      · rw [if_neg h2]; split <;> rfl

/-- `getBalance` against a faithful store returns the content's value (zero for @world) -/
theorem sr_getBalance_faithful (store : Store) (ct : Content) (hf : Faithful store ct) (q : QState)
    (hc : sr_CacheOK ct q.cache) (a s : String) :
    ∃ q', getBalance store q a s = .ok (sr_balVal ct a s, q') ∧ sr_CacheOK ct q'.cache := by
  unfold getBalance
  simp only
  obtain ⟨q2, hq2, hc2, hp2⟩ := sr_runBalancesQuery_faithful store ct hf
    { q with pending := batchQuery q.pending a s } hc
  rw [hq2]
  have hval : cacheGet q2.cache a s = sr_balVal ct a s := by
    unfold sr_balVal
    by_cases ha : a = WORLD
    · rw [if_pos ha, ha]; exact hc2.2 s
    · rw [if_neg ha]
      exact (hp2 a s ha ((sr_pairs_batchQuery _ _ _ _ _).mpr (Or.inr ⟨ha, rfl, rfl⟩))).1
  simp only
  refine ⟨_, by rw [hval], ?_⟩
  apply sr_cacheOK_ensure ct q2.cache a s hc2
  intro ha
  exact (hp2 a s ha ((sr_pairs_batchQuery _ _ _ _ _).mpr (Or.inr ⟨ha, rfl, rfl⟩))).2

/-! ## The variable phase against a faithful store -/

/-- `handleOrigin` with the store replaced by the content -/
def sr_originSpec (ct : Content) (flagOverdraft : Bool) (vars : Vars) (type_ : String) (fn : FnCall) :
    Outcome Value :=
  match evalExprs vars fn.args with
  | .panic s => .panic s
  | .err e => .err e
  | .ok args =>
    if fn.name = "meta" then
      match parseArgs2 args expectAccount expectString with
      | .panic s => .panic s
      | .err e => .err e
      | .ok (account, key) =>
        match ct.meta_ account key with
        | none => .err (.metadataNotFound account key)
        | some raw =>
          match parseVar type_ raw with
          | .panic s => .panic s
          | .err e => .err e
          | .ok v => .ok v
    else if fn.name = "balance" then
      match parseArgs2 args expectAccount expectAsset with
      | .panic s => .panic s
      | .err e => .err e
      | .ok (account, asset) =>
        if sr_balVal ct account asset < 0 then .err (.negativeBalance account (sr_balVal ct account asset))
        else .ok (.monetary asset (sr_balVal ct account asset))
    else if fn.name = "overdraft" then
      if ! flagOverdraft then .err (.experimentalFeature FLAG_OVERDRAFT)
      else
      match parseArgs2 args expectAccount expectAsset with
      | .panic s => .panic s
      | .err e => .err e
      | .ok (account, asset) =>
        if sr_balVal ct account asset > 0 then .ok (.monetary asset 0)
        else .ok (.monetary asset (- sr_balVal ct account asset))
    else .err (.unboundFunction fn.name)

theorem sr_handleOrigin_spec (store : Store) (ct : Content) (hf : Faithful store ct) (flag : Bool)
    (vars : Vars) (q : QState) (hc : sr_CacheOK ct q.cache) (ty : String) (fn : FnCall) :
    sr_ORel (fun x v => x.1 = v ∧ sr_CacheOK ct x.2.cache)
      (handleOrigin store flag vars q ty fn) (sr_originSpec ct flag vars ty fn) := by
  unfold handleOrigin sr_originSpec
  cases hargs : evalExprs vars fn.args with
  | panic s => exact rfl
  | err e => exact rfl
  | ok args =>
    simp only
    by_cases hm : fn.name = "meta"
    · simp only [hm, if_true]
      cases hp : parseArgs2 args expectAccount expectString with
      | panic s => exact rfl
      | err e => exact rfl
      | ok ak =>
        obtain ⟨account, key⟩ := ak
        simp only
        obtain ⟨ans, hans, hlk⟩ := hf.2 q.calls account key
        rw [hans]
        simp only [hlk]
        cases ct.meta_ account key with
        | none => exact rfl
        | some raw =>
          simp only
          cases parseVar ty raw with
          | panic s => exact rfl
          | err e => exact rfl
          | ok v => exact ⟨rfl, hc⟩
    · simp only [hm, if_false]
      by_cases hb : fn.name = "balance"
      · simp only [hb, if_true]
        cases hp : parseArgs2 args expectAccount expectAsset with
        | panic s => exact rfl
        | err e => exact rfl
        | ok ak =>
          obtain ⟨account, asset⟩ := ak
          simp only
          obtain ⟨q', hq', hc'⟩ := sr_getBalance_faithful store ct hf q hc account asset
          rw [hq']
          simp only
          by_cases hneg : sr_balVal ct account asset < 0
          · simp only [hneg, if_true]; exact rfl
          · simp only [hneg, if_false]; exact ⟨rfl, hc'⟩
      · simp only [hb, if_false]
        by_cases ho : fn.name = "overdraft"
        · simp only [ho, if_true]
          cases flag with
          | false => exact rfl
          | true =>
            simp only [Bool.not_true, Bool.false_eq_true, if_false]
            cases hp : parseArgs2 args expectAccount expectAsset with
            | panic s => exact rfl
            | err e => exact rfl
            | ok ak =>
              obtain ⟨account, asset⟩ := ak
              simp only
              obtain ⟨q', hq', hc'⟩ := sr_getBalance_faithful store ct hf q hc account asset
              rw [hq']
              simp only
              by_cases hpos : sr_balVal ct account asset > 0
              · simp only [hpos, if_true]; exact ⟨rfl, hc'⟩
              · simp only [hpos, if_false]; exact ⟨rfl, hc'⟩
        · simp only [ho, if_false]; exact rfl

/-- `parseVars` with the store replaced by the content -/
def sr_parseVarsSpec (ct : Content) (flagOverdraft : Bool) (rawVars : List (String × String)) :
    List VarDecl → Vars → Outcome Vars
  | [], vars => .ok vars
  | d :: rest, vars =>
    match d.name, d.type with
    | none, _ => .panic "parseVars:nil Name"
    | some _, none => .panic "parseVars:nil Type"
    | some (_, name), some (_, ty) =>
      match d.origin with
      | none =>
        match (rawVars.find? (fun p => p.1 == name)).map (·.2) with
        | none => .err (.missingVariable name)
        | some raw =>
          match parseVar ty raw with
          | .panic s => .panic s
          | .err e => .err e
          | .ok v => sr_parseVarsSpec ct flagOverdraft rawVars rest ((name, v) :: vars)
      | some fn =>
        match sr_originSpec ct flagOverdraft vars ty fn with
        | .panic s => .panic s
        | .err e => .err e
        | .ok v => sr_parseVarsSpec ct flagOverdraft rawVars rest ((name, v) :: vars)

theorem sr_parseVars_spec (store : Store) (ct : Content) (hf : Faithful store ct) (flag : Bool)
    (rawVars : List (String × String)) : ∀ (decls : List VarDecl) (vars : Vars) (q : QState),
    sr_CacheOK ct q.cache →
    sr_ORel (fun x v => x.1 = v ∧ sr_CacheOK ct x.2.cache)
      (parseVars store flag rawVars decls vars q) (sr_parseVarsSpec ct flag rawVars decls vars)
  | [], vars, q, hc => by
      rw [parseVars, sr_parseVarsSpec]
      exact ⟨rfl, hc⟩
  | d :: rest, vars, q, hc => by
      rw [parseVars, sr_parseVarsSpec]
      cases hn : d.name with
      | none => exact rfl
      | some nm =>
        cases ht : d.type with
        | none => exact rfl
        | some tyy =>
          obtain ⟨r1, name⟩ := nm
          obtain ⟨r2, ty⟩ := tyy
          simp only
          cases ho : d.origin with
          | none =>
            simp only
            cases (rawVars.find? (fun p => p.1 == name)).map (·.2) with
            | none => exact rfl
            | some raw =>
              simp only
              cases parseVar ty raw with
              | panic s => exact rfl
              | err e => exact rfl
              | ok v => exact sr_parseVars_spec store ct hf flag rawVars rest _ q hc
          | some fn =>
            simp only
            have h := sr_handleOrigin_spec store ct hf flag vars q hc ty fn
            cases hs : sr_originSpec ct flag vars ty fn with
            | panic s => rw [hs] at h; rw [sr_ORel_panic_right h]; exact rfl
            | err e => rw [hs] at h; rw [sr_ORel_err_right h]; exact rfl
            | ok v =>
              rw [hs] at h
              obtain ⟨x, hx, hv, hc'⟩ := sr_ORel_ok_right h
              rw [hx]
              obtain ⟨v', q'⟩ := x
              simp only at hv hc' ⊢
              subst hv
              exact sr_parseVars_spec store ct hf flag rawVars rest _ q' hc'

/-! ## Preloading: `findBalancesQueries*` only ever apply `batchQuery` -/

theorem sr_ORel_refl_ok {α : Type} {R : α → α → Prop} {x : Outcome α}
    (h : ∀ a, x = .ok a → R a a) : sr_ORel R x x := by
  cases x with
  | ok a => exact h a rfl
  | err e => exact rfl
  | panic s => exact rfl

mutual
  theorem sr_find_rel (Rl : BalanceQuery → BalanceQuery → Prop)
      (hR : ∀ p1 p2 a s, Rl p1 p2 → Rl (batchQuery p1 a s) (batchQuery p2 a s))
      (vars : Vars) (asset : String) : ∀ (src : Source) (p1 p2 : BalanceQuery), Rl p1 p2 →
      sr_ORel Rl (findBalancesQueries vars asset src p1) (findBalancesQueries vars asset src p2)
    | .nil, p1, p2, _ => by
        simp only [findBalancesQueries]; exact rfl
    | .account e, p1, p2, h => by
        simp only [findBalancesQueries]
        cases evalAs vars e expectAccount with
        | panic s => exact rfl
        | err e => exact rfl
        | ok account => exact hR _ _ _ _ h
    | .overdraft _ _ none, p1, p2, h => by
        simp only [findBalancesQueries]; exact h
    | .overdraft _ addr (some _), p1, p2, h => by
        simp only [findBalancesQueries]
        cases evalAs vars addr expectAccount with
        | panic s => exact rfl
        | err e => exact rfl
        | ok account => exact hR _ _ _ _ h
    | .inorder _ srcs, p1, p2, h => by
        simp only [findBalancesQueries]
        exact sr_findList_rel Rl hR vars asset srcs p1 p2 h
    | .capped _ _ src, p1, p2, h => by
        simp only [findBalancesQueries]
        exact sr_find_rel Rl hR vars asset src p1 p2 h
    | .allotment _ items, p1, p2, h => by
        simp only [findBalancesQueries]
        exact sr_findItems_rel Rl hR vars asset items p1 p2 h

  theorem sr_findList_rel (Rl : BalanceQuery → BalanceQuery → Prop)
      (hR : ∀ p1 p2 a s, Rl p1 p2 → Rl (batchQuery p1 a s) (batchQuery p2 a s))
      (vars : Vars) (asset : String) : ∀ (srcs : List Source) (p1 p2 : BalanceQuery), Rl p1 p2 →
      sr_ORel Rl (findQueriesList vars asset srcs p1) (findQueriesList vars asset srcs p2)
    | [], p1, p2, h => by
        simp only [findQueriesList]; exact h
    | s :: ss, p1, p2, h => by
        simp only [findQueriesList]
        have h1 := sr_find_rel Rl hR vars asset s p1 p2 h
        cases hx : findBalancesQueries vars asset s p1 with
        | panic x => rw [hx] at h1; cases hy : findBalancesQueries vars asset s p2 <;> rw [hy] at h1 <;>
            first | exact h1.elim | exact h1
        | err x => rw [hx] at h1; cases hy : findBalancesQueries vars asset s p2 <;> rw [hy] at h1 <;>
            first | exact h1.elim | exact h1
        | ok p1' =>
          rw [hx] at h1
          obtain ⟨p2', hy, h'⟩ := sr_ORel_ok_left h1
          rw [hy]
          exact sr_findList_rel Rl hR vars asset ss p1' p2' h'

  theorem sr_findItems_rel (Rl : BalanceQuery → BalanceQuery → Prop)
      (hR : ∀ p1 p2 a s, Rl p1 p2 → Rl (batchQuery p1 a s) (batchQuery p2 a s))
      (vars : Vars) (asset : String) : ∀ (items : List SrcItem) (p1 p2 : BalanceQuery), Rl p1 p2 →
      sr_ORel Rl (findQueriesItems vars asset items p1) (findQueriesItems vars asset items p2)
    | [], p1, p2, h => by
        simp only [findQueriesItems]; exact h
    | (.mk _ _ s) :: ss, p1, p2, h => by
        simp only [findQueriesItems]
        have h1 := sr_find_rel Rl hR vars asset s p1 p2 h
        cases hx : findBalancesQueries vars asset s p1 with
        | panic x => rw [hx] at h1; cases hy : findBalancesQueries vars asset s p2 <;> rw [hy] at h1 <;>
            first | exact h1.elim | exact h1
        | err x => rw [hx] at h1; cases hy : findBalancesQueries vars asset s p2 <;> rw [hy] at h1 <;>
            first | exact h1.elim | exact h1
        | ok p1' =>
          rw [hx] at h1
          obtain ⟨p2', hy, h'⟩ := sr_ORel_ok_left h1
          rw [hy]
          exact sr_findItems_rel Rl hR vars asset ss p1' p2' h'
end

theorem sr_findStmt_rel (Rl : BalanceQuery → BalanceQuery → Prop)
    (hR : ∀ p1 p2 a s, Rl p1 p2 → Rl (batchQuery p1 a s) (batchQuery p2 a s))
    (vars : Vars) (st : Statement) (p1 p2 : BalanceQuery) (h : Rl p1 p2) :
    sr_ORel Rl (findBalancesQueriesInStatement vars st p1) (findBalancesQueriesInStatement vars st p2) := by
  cases st with
  | nil => exact rfl
  | fnCallNil => exact h
  | fnCall _ => exact h
  | save _ sv amount =>
    simp only [findBalancesQueriesInStatement]
    cases evaluateSentAmt vars sv with
    | panic s => exact rfl
    | err e => exact rfl
    | ok x =>
      obtain ⟨asset, _⟩ := x
      simp only
      cases evalAs vars amount expectAccount with
      | panic s => exact rfl
      | err e => exact rfl
      | ok account => exact hR _ _ _ _ h
  | send _ sv src _ =>
    simp only [findBalancesQueriesInStatement]
    cases evaluateSentAmt vars sv with
    | panic s => exact rfl
    | err e => exact rfl
    | ok x =>
      obtain ⟨asset, _⟩ := x
      exact sr_find_rel Rl hR vars asset src p1 p2 h

theorem sr_preload_rel (Rl : BalanceQuery → BalanceQuery → Prop)
    (hR : ∀ p1 p2 a s, Rl p1 p2 → Rl (batchQuery p1 a s) (batchQuery p2 a s))
    (vars : Vars) : ∀ (stmts : List Statement) (p1 p2 : BalanceQuery), Rl p1 p2 →
    sr_ORel Rl (preload vars stmts p1) (preload vars stmts p2)
  | [], p1, p2, h => by
      simp only [preload]; exact h
  | s :: ss, p1, p2, h => by
      simp only [preload]
      have h1 := sr_findStmt_rel Rl hR vars s p1 p2 h
      cases hx : findBalancesQueriesInStatement vars s p1 with
      | panic x => rw [hx] at h1; cases hy : findBalancesQueriesInStatement vars s p2 <;> rw [hy] at h1 <;>
          first | exact h1.elim | exact h1
      | err x => rw [hx] at h1; cases hy : findBalancesQueriesInStatement vars s p2 <;> rw [hy] at h1 <;>
          first | exact h1.elim | exact h1
      | ok p1' =>
        rw [hx] at h1
        obtain ⟨p2', hy, h'⟩ := sr_ORel_ok_left h1
        rw [hy]
        exact sr_preload_rel Rl hR vars ss p1' p2' h'

/-- the queries only grow -/
theorem sr_find_sub (vars : Vars) (asset : String) (src : Source) (p p' : BalanceQuery)
    (h : findBalancesQueries vars asset src p = .ok p') : sr_Sub p p' := by
  have := sr_find_rel (fun _ p2 => sr_Sub p p2)
    (fun _ p2 a s h => sr_sub_trans h (sr_sub_batchQuery p2 a s)) vars asset src p p (sr_sub_refl p)
  rw [h] at this
  exact this

theorem sr_findList_sub (vars : Vars) (asset : String) (srcs : List Source) (p p' : BalanceQuery)
    (h : findQueriesList vars asset srcs p = .ok p') : sr_Sub p p' := by
  have := sr_findList_rel (fun _ p2 => sr_Sub p p2)
    (fun _ p2 a s h => sr_sub_trans h (sr_sub_batchQuery p2 a s)) vars asset srcs p p (sr_sub_refl p)
  rw [h] at this
  exact this

theorem sr_findItems_sub (vars : Vars) (asset : String) (items : List SrcItem) (p p' : BalanceQuery)
    (h : findQueriesItems vars asset items p = .ok p') : sr_Sub p p' := by
  have := sr_findItems_rel (fun _ p2 => sr_Sub p p2)
    (fun _ p2 a s h => sr_sub_trans h (sr_sub_batchQuery p2 a s)) vars asset items p p (sr_sub_refl p)
  rw [h] at this
  exact this

theorem sr_preload_sub (vars : Vars) (stmts : List Statement) (p p' : BalanceQuery)
    (h : preload vars stmts p = .ok p') : sr_Sub p p' := by
  have := sr_preload_rel (fun _ p2 => sr_Sub p p2)
    (fun _ p2 a s h => sr_sub_trans h (sr_sub_batchQuery p2 a s)) vars stmts p p (sr_sub_refl p)
  rw [h] at this
  exact this

theorem sr_preload_noWorld (vars : Vars) (stmts : List Statement) (p p' : BalanceQuery)
    (hp : sr_NoWorld p) (h : preload vars stmts p = .ok p') : sr_NoWorld p' := by
  have := sr_preload_rel (fun _ p2 => sr_NoWorld p2)
    (fun _ p2 a s h => sr_batchQuery_noWorld p2 a s h) vars stmts p p hp
  rw [h] at this
  exact this

/-! ## The statement phase reads the cache only where the preload asked -/

/-- two caches read the same at every pair requested by `p` -/
def sr_AgreeQ (p : BalanceQuery) (c1 c2 : Cache) : Prop :=
  ∀ a s, a ≠ WORLD → sr_Pairs p a s → cacheGet c1 a s = cacheGet c2 a s

theorem sr_agreeQ_sub {p p' : BalanceQuery} {c1 c2 : Cache} (hs : sr_Sub p p') (h : sr_AgreeQ p' c1 c2) :
    sr_AgreeQ p c1 c2 := fun a s ha hp => h a s ha (hs a s hp)

theorem sr_trySendingToAccount_frame (vars : Vars) (asset : String) (c1 c2 : Cache) (addr : Expr)
    (amount : Int) (od : Option Int) (snd : Senders)
    (h : ∀ account, evalAs vars addr expectAccount = .ok account → account ≠ WORLD → od ≠ none →
      cacheGet c1 account asset = cacheGet c2 account asset) :
    trySendingToAccount ⟨vars, c1, asset⟩ addr amount od snd =
      trySendingToAccount ⟨vars, c2, asset⟩ addr amount od snd := by
  unfold trySendingToAccount
  simp only
  cases hev : evalAs vars addr expectAccount with
  | panic s => rfl
  | err e => rfl
  | ok account =>
    simp only
    by_cases hw : account = WORLD
    · simp only [hw, if_true]
    · simp only [hw, if_false]
      cases od with
      | none => rfl
      | some o =>
        simp only [availableFunds, h account hev hw (by simp)]

theorem sr_sendAllToAccount_frame (vars : Vars) (asset : String) (c1 c2 : Cache) (addr : Expr)
    (od : Option Int) (snd : Senders)
    (h : ∀ account, evalAs vars addr expectAccount = .ok account → account ≠ WORLD → od ≠ none →
      cacheGet c1 account asset = cacheGet c2 account asset) :
    sendAllToAccount ⟨vars, c1, asset⟩ addr od snd = sendAllToAccount ⟨vars, c2, asset⟩ addr od snd := by
  unfold sendAllToAccount
  simp only
  cases hev : evalAs vars addr expectAccount with
  | panic s => rfl
  | err e => rfl
  | ok account =>
    simp only
    cases od with
    | none => rfl
    | some o =>
      simp only
      by_cases hw : account = WORLD
      · simp only [hw, if_true]
      · simp only [hw, if_false, availableFunds, h account hev hw (by simp)]

mutual
  theorem sr_trySendingUpTo_frame (vars : Vars) (asset : String) (c1 c2 : Cache) :
      ∀ (src : Source) (p p' : BalanceQuery) (amount : Int) (snd : Senders),
      findBalancesQueries vars asset src p = .ok p' → sr_AgreeQ p' c1 c2 →
      trySendingUpTo ⟨vars, c1, asset⟩ src amount snd = trySendingUpTo ⟨vars, c2, asset⟩ src amount snd
    | .nil, p, p', amount, snd, _, _ => by
        simp only [trySendingUpTo]
    | .account e, p, p', amount, snd, hf, hag => by
        simp only [trySendingUpTo]
        apply sr_trySendingToAccount_frame
        intro account hev hw _
        simp only [findBalancesQueries, hev, Outcome.ok.injEq] at hf
        subst hf
        exact hag account asset hw ((sr_pairs_batchQuery _ _ _ _ _).mpr (Or.inr ⟨hw, rfl, rfl⟩))
    | .overdraft _ addr none, p, p', amount, snd, _, _ => by
        simp only [trySendingUpTo]
        apply sr_trySendingToAccount_frame
        intro account _ _ h
        exact absurd rfl h
    | .overdraft _ addr (some b), p, p', amount, snd, hf, hag => by
        simp only [trySendingUpTo]
        cases evalAs vars b (expectMonetaryOfAsset asset) with
        | panic s => rfl
        | err e => rfl
        | ok cap =>
          simp only
          apply sr_trySendingToAccount_frame
          intro account hev hw _
          simp only [findBalancesQueries, hev, Outcome.ok.injEq] at hf
          subst hf
          exact hag account asset hw ((sr_pairs_batchQuery _ _ _ _ _).mpr (Or.inr ⟨hw, rfl, rfl⟩))
    | .inorder _ srcs, p, p', amount, snd, hf, hag => by
        simp only [findBalancesQueries] at hf
        simp only [trySendingUpTo]
        rw [sr_sendInorder_frame vars asset c1 c2 srcs p p' amount snd hf hag]
    | .allotment _ items, p, p', amount, snd, hf, hag => by
        simp only [findBalancesQueries] at hf
        simp only [trySendingUpTo]
        cases makeAllotment vars amount (items.map SrcItem.allot) with
        | panic s => rfl
        | err e => rfl
        | ok parts =>
          simp only
          rw [sr_sendAllotItems_frame vars asset c1 c2 items p p' parts snd hf hag]
    | .capped _ cap src, p, p', amount, snd, hf, hag => by
        simp only [findBalancesQueries] at hf
        simp only [trySendingUpTo]
        cases evalAs vars cap (expectMonetaryOfAsset asset) with
        | panic s => rfl
        | err e => rfl
        | ok c =>
          simp only
          exact sr_trySendingUpTo_frame vars asset c1 c2 src p p' _ snd hf hag

  theorem sr_sendInorder_frame (vars : Vars) (asset : String) (c1 c2 : Cache) :
      ∀ (srcs : List Source) (p p' : BalanceQuery) (left : Int) (snd : Senders),
      findQueriesList vars asset srcs p = .ok p' → sr_AgreeQ p' c1 c2 →
      sendInorder ⟨vars, c1, asset⟩ srcs left snd = sendInorder ⟨vars, c2, asset⟩ srcs left snd
    | [], p, p', left, snd, _, _ => by
        simp only [sendInorder]
    | s :: ss, p, p', left, snd, hf, hag => by
        simp only [findQueriesList] at hf
        cases hx : findBalancesQueries vars asset s p with
        | panic x => rw [hx] at hf; cases hf
        | err x => rw [hx] at hf; cases hf
        | ok p1 =>
          rw [hx] at hf
          simp only at hf
          have hag1 : sr_AgreeQ p1 c1 c2 := sr_agreeQ_sub (sr_findList_sub vars asset ss p1 p' hf) hag
          simp only [sendInorder]
          rw [sr_trySendingUpTo_frame vars asset c1 c2 s p p1 left snd hx hag1]
          cases trySendingUpTo ⟨vars, c2, asset⟩ s left snd with
          | panic x => rfl
          | err x => rfl
          | ok r =>
            obtain ⟨sent, snd'⟩ := r
            exact sr_sendInorder_frame vars asset c1 c2 ss p1 p' _ snd' hf hag

  theorem sr_sendAllotItems_frame (vars : Vars) (asset : String) (c1 c2 : Cache) :
      ∀ (items : List SrcItem) (p p' : BalanceQuery) (parts : List Int) (snd : Senders),
      findQueriesItems vars asset items p = .ok p' → sr_AgreeQ p' c1 c2 →
      sendAllotItems ⟨vars, c1, asset⟩ items parts snd = sendAllotItems ⟨vars, c2, asset⟩ items parts snd
    | [], p, p', parts, snd, _, _ => by
        simp only [sendAllotItems]
    | _ :: _, p, p', [], snd, _, _ => by
        simp only [sendAllotItems]
    | (.mk _ _ s) :: ss, p, p', pt :: pts, snd, hf, hag => by
        simp only [findQueriesItems] at hf
        cases hx : findBalancesQueries vars asset s p with
        | panic x => rw [hx] at hf; cases hf
        | err x => rw [hx] at hf; cases hf
        | ok p1 =>
          rw [hx] at hf
          simp only at hf
          have hag1 : sr_AgreeQ p1 c1 c2 := sr_agreeQ_sub (sr_findItems_sub vars asset ss p1 p' hf) hag
          simp only [sendAllotItems]
          rw [sr_trySendingUpTo_frame vars asset c1 c2 s p p1 pt snd hx hag1]
          cases trySendingUpTo ⟨vars, c2, asset⟩ s pt snd with
          | panic x => rfl
          | err x => rfl
          | ok r =>
            obtain ⟨sent, snd'⟩ := r
            simp only
            by_cases hs : sent = pt
            · simp only [hs, if_true]
              exact sr_sendAllotItems_frame vars asset c1 c2 ss p1 p' pts snd' hf hag
            · simp only [hs, if_false]
end

mutual
  theorem sr_sendAll_frame (vars : Vars) (asset : String) (c1 c2 : Cache) :
      ∀ (src : Source) (p p' : BalanceQuery) (snd : Senders),
      findBalancesQueries vars asset src p = .ok p' → sr_AgreeQ p' c1 c2 →
      sendAll ⟨vars, c1, asset⟩ src snd = sendAll ⟨vars, c2, asset⟩ src snd
    | .nil, p, p', snd, _, _ => by
        simp only [sendAll]
    | .account e, p, p', snd, hf, hag => by
        simp only [sendAll]
        apply sr_sendAllToAccount_frame
        intro account hev hw _
        simp only [findBalancesQueries, hev, Outcome.ok.injEq] at hf
        subst hf
        exact hag account asset hw ((sr_pairs_batchQuery _ _ _ _ _).mpr (Or.inr ⟨hw, rfl, rfl⟩))
    | .overdraft _ addr none, p, p', snd, _, _ => by
        simp only [sendAll]
        apply sr_sendAllToAccount_frame
        intro account _ _ h
        exact absurd rfl h
    | .overdraft _ addr (some b), p, p', snd, hf, hag => by
        simp only [sendAll]
        cases evalAs vars b (expectMonetaryOfAsset asset) with
        | panic s => rfl
        | err e => rfl
        | ok cap =>
          simp only
          apply sr_sendAllToAccount_frame
          intro account hev hw _
          simp only [findBalancesQueries, hev, Outcome.ok.injEq] at hf
          subst hf
          exact hag account asset hw ((sr_pairs_batchQuery _ _ _ _ _).mpr (Or.inr ⟨hw, rfl, rfl⟩))
    | .inorder _ srcs, p, p', snd, hf, hag => by
        simp only [findBalancesQueries] at hf
        simp only [sendAll]
        exact sr_sendAllList_frame vars asset c1 c2 srcs p p' 0 snd hf hag
    | .capped _ cap src, p, p', snd, hf, hag => by
        simp only [findBalancesQueries] at hf
        simp only [sendAll]
        cases evalAs vars cap (expectMonetaryOfAsset asset) with
        | panic s => rfl
        | err e => rfl
        | ok c =>
          simp only
          exact sr_trySendingUpTo_frame vars asset c1 c2 src p p' _ snd hf hag
    | .allotment _ _, p, p', snd, _, _ => by
        simp only [sendAll]

  theorem sr_sendAllList_frame (vars : Vars) (asset : String) (c1 c2 : Cache) :
      ∀ (srcs : List Source) (p p' : BalanceQuery) (total : Int) (snd : Senders),
      findQueriesList vars asset srcs p = .ok p' → sr_AgreeQ p' c1 c2 →
      sendAllList ⟨vars, c1, asset⟩ srcs total snd = sendAllList ⟨vars, c2, asset⟩ srcs total snd
    | [], p, p', total, snd, _, _ => by
        simp only [sendAllList]
    | s :: ss, p, p', total, snd, hf, hag => by
        simp only [findQueriesList] at hf
        cases hx : findBalancesQueries vars asset s p with
        | panic x => rw [hx] at hf; cases hf
        | err x => rw [hx] at hf; cases hf
        | ok p1 =>
          rw [hx] at hf
          simp only at hf
          have hag1 : sr_AgreeQ p1 c1 c2 := sr_agreeQ_sub (sr_findList_sub vars asset ss p1 p' hf) hag
          simp only [sendAllList]
          rw [sr_sendAll_frame vars asset c1 c2 s p p1 snd hx hag1]
          cases sendAll ⟨vars, c2, asset⟩ s snd with
          | panic x => rfl
          | err x => rfl
          | ok r =>
            obtain ⟨sent, snd'⟩ := r
            exact sr_sendAllList_frame vars asset c1 c2 ss p1 p' _ snd' hf hag
end

/-! ### destinations never read the cache -/

mutual
  theorem sr_receiveFrom_frame (vars : Vars) (asset : String) (c1 c2 : Cache) :
      ∀ (d : Dest) (amount : Int) (rcv : Receivers),
      receiveFrom ⟨vars, c1, asset⟩ d amount rcv = receiveFrom ⟨vars, c2, asset⟩ d amount rcv
    | .nil, amount, rcv => by
        simp only [receiveFrom]
    | .account e, amount, rcv => by
        simp only [receiveFrom]
    | .allotment _ items, amount, rcv => by
        simp only [receiveFrom]
        cases makeAllotment vars amount (items.map DestItem.allot) with
        | panic s => rfl
        | err e => rfl
        | ok parts =>
          simp only
          exact sr_receiveAllotItems_frame vars asset c1 c2 items parts rcv
    | .inorder _ clauses remaining, amount, rcv => by
        simp only [receiveFrom]
        rw [sr_receiveClauses_frame vars asset c1 c2 clauses amount rcv]
        cases receiveClauses ⟨vars, c2, asset⟩ clauses amount rcv with
        | panic s => rfl
        | err e => rfl
        | ok r =>
          obtain ⟨left, rcv'⟩ := r
          simp only
          by_cases h0 : left = 0
          · simp only [h0, if_true]
          · simp only [h0, if_false]
            exact sr_receiveKoD_frame vars asset c1 c2 remaining left rcv'

  theorem sr_receiveKoD_frame (vars : Vars) (asset : String) (c1 c2 : Cache) :
      ∀ (k : KoD) (amount : Int) (rcv : Receivers),
      receiveKoD ⟨vars, c1, asset⟩ k amount rcv = receiveKoD ⟨vars, c2, asset⟩ k amount rcv
    | .nil, amount, rcv => by
        simp only [receiveKoD]
    | .kept _, amount, rcv => by
        simp only [receiveKoD]
    | .to d, amount, rcv => by
        simp only [receiveKoD]
        exact sr_receiveFrom_frame vars asset c1 c2 d amount rcv

  theorem sr_receiveClauses_frame (vars : Vars) (asset : String) (c1 c2 : Cache) :
      ∀ (cl : List DestClause) (left : Int) (rcv : Receivers),
      receiveClauses ⟨vars, c1, asset⟩ cl left rcv = receiveClauses ⟨vars, c2, asset⟩ cl left rcv
    | [], left, rcv => by
        simp only [receiveClauses]
    | (.mk _ cap to) :: rest, left, rcv => by
        simp only [receiveClauses]
        cases evalAs vars cap (expectMonetaryOfAsset asset) with
        | panic s => rfl
        | err e => rfl
        | ok c =>
          simp only
          by_cases h0 : left = 0
          · simp only [h0, if_true]
          · simp only [h0, if_false]
            by_cases h1 : min (max 0 c) left = 0
            · simp only [h1, if_true]
              exact sr_receiveClauses_frame vars asset c1 c2 rest left rcv
            · simp only [h1, if_false]
              rw [sr_receiveKoD_frame vars asset c1 c2 to _ rcv]
              cases receiveKoD ⟨vars, c2, asset⟩ to (min (max 0 c) left) rcv with
              | panic s => rfl
              | err e => rfl
              | ok rcv' =>
                simp only
                exact sr_receiveClauses_frame vars asset c1 c2 rest _ rcv'

  theorem sr_receiveAllotItems_frame (vars : Vars) (asset : String) (c1 c2 : Cache) :
      ∀ (items : List DestItem) (parts : List Int) (rcv : Receivers),
      receiveAllotItems ⟨vars, c1, asset⟩ items parts rcv =
        receiveAllotItems ⟨vars, c2, asset⟩ items parts rcv
    | [], parts, rcv => by
        simp only [receiveAllotItems]
    | _ :: _, [], rcv => by
        simp only [receiveAllotItems]
    | (.mk _ _ to) :: rest, pt :: pts, rcv => by
        simp only [receiveAllotItems]
        rw [sr_receiveKoD_frame vars asset c1 c2 to pt rcv]
        cases receiveKoD ⟨vars, c2, asset⟩ to pt rcv with
        | panic s => rfl
        | err e => rfl
        | ok rcv' =>
          simp only
          exact sr_receiveAllotItems_frame vars asset c1 c2 rest pts rcv'
end

/-! ### statements -/

/-- the postings change each cache entry as a function of that entry only -/
theorem sr_applyPostings_pw (ps : List Posting) : ∀ (c1 c2 : Cache) (a s : String),
    cacheGet c1 a s = cacheGet c2 a s →
    cacheGet (applyPostings c1 ps) a s = cacheGet (applyPostings c2 ps) a s := by
  induction ps with
  | nil => intro c1 c2 a s h; exact h
  | cons p t ih =>
    intro c1 c2 a s h
    simp only [applyPostings]
    apply ih
    simp only [lg_cacheGet_cacheSet]
    by_cases hd : a = p.destination ∧ s = p.asset
    · obtain ⟨rfl, rfl⟩ := hd
      by_cases hs : p.destination = p.source
      · rw [hs] at h
        simp [hs, h]
      · simp [hs, h]
    · by_cases hs : a = p.source ∧ s = p.asset
      · obtain ⟨rfl, rfl⟩ := hs
        have hne : ¬ p.source = p.destination := fun e => hd ⟨e, rfl⟩
        simp [hne, h]
      · simp [hd, hs, h]

/-- what two runs of a statement from caches `c1`, `c2` have in common -/
def sr_StRel (c1 c2 : Cache) (x y : List Posting × RState) : Prop :=
  x.1 = y.1 ∧ x.2.txMeta = y.2.txMeta ∧ x.2.accMeta = y.2.accMeta ∧
  ∀ a s, cacheGet c1 a s = cacheGet c2 a s → cacheGet x.2.cache a s = cacheGet y.2.cache a s

theorem sr_runStatement_frame (vars : Vars) (c1 c2 : Cache) (tx : TxMeta) (am : AccMeta)
    (st : Statement) (p p' : BalanceQuery)
    (hf : findBalancesQueriesInStatement vars st p = .ok p') (hag : sr_AgreeQ p' c1 c2)
    (hw : ∀ s, cacheGet c1 WORLD s = cacheGet c2 WORLD s) :
    sr_ORel (sr_StRel c1 c2) (runStatement vars ⟨c1, tx, am⟩ st) (runStatement vars ⟨c2, tx, am⟩ st) := by
  cases st with
  | nil => exact rfl
  | fnCallNil => exact rfl
  | fnCall fn =>
    simp only [runStatement]
    cases evalExprs vars fn.args with
    | panic s => exact rfl
    | err e => exact rfl
    | ok args =>
      simp only
      by_cases h1 : fn.name = "set_tx_meta"
      · simp only [h1, if_true]
        cases parseArgs2 args expectString (fun v => Outcome.ok v) with
        | panic s => exact rfl
        | err e => exact rfl
        | ok kv => exact ⟨rfl, rfl, rfl, fun _ _ h => h⟩
      · simp only [h1, if_false]
        by_cases h2 : fn.name = "set_account_meta"
        · simp only [h2, if_true]
          cases parseArgs3 args expectAccount expectString (fun v => Outcome.ok v) with
          | panic s => exact rfl
          | err e => exact rfl
          | ok kv => exact ⟨rfl, rfl, rfl, fun _ _ h => h⟩
        · simp only [h2, if_false]
          exact rfl
  | save _ sv amount =>
    simp only [runStatement, runSaveStatement]
    simp only [findBalancesQueriesInStatement] at hf
    cases hsv : evaluateSentAmt vars sv with
    | panic s => exact rfl
    | err e => exact rfl
    | ok x =>
      obtain ⟨asset, amt⟩ := x
      rw [hsv] at hf
      simp only at hf ⊢
      cases hacc : evalAs vars amount expectAccount with
      | panic s => exact rfl
      | err e => exact rfl
      | ok account =>
        rw [hacc] at hf
        simp only [Outcome.ok.injEq] at hf
        simp only
        have hkey : cacheGet c1 account asset = cacheGet c2 account asset := by
          by_cases hwa : account = WORLD
          · rw [hwa]; exact hw asset
          · apply hag account asset hwa
            rw [← hf]
            exact (sr_pairs_batchQuery _ _ _ _ _).mpr (Or.inr ⟨hwa, rfl, rfl⟩)
        have hrel : sr_StRel c1 c2
            (([] : List Posting),
              (⟨cacheSet c1 account asset (savedBalance (cacheGet c1 account asset) amt), tx, am⟩ : RState))
            (([] : List Posting),
              (⟨cacheSet c2 account asset (savedBalance (cacheGet c2 account asset) amt), tx, am⟩ : RState)) := by
          refine ⟨rfl, rfl, rfl, ?_⟩
          intro a s h
          simp only [lg_cacheGet_cacheSet, hkey, h]
        cases amt with
        | none => exact hrel
        | some n =>
          simp only
          by_cases hn : n < 0
          · simp only [hn, if_true]; exact rfl
          · simp only [hn, if_false]; exact hrel
  | send _ sv src dst =>
    simp only [runStatement, runSendStatement]
    simp only [findBalancesQueriesInStatement] at hf
    cases sv with
    | nil => exact rfl
    | all _ a =>
      simp only [evaluateSentAmt] at hf
      simp only
      cases hev : evalAs vars a expectAsset with
      | panic s => exact rfl
      | err e => exact rfl
      | ok asset =>
        rw [hev] at hf
        simp only at hf ⊢
        rw [sr_sendAll_frame vars asset c1 c2 src p p' [] hf hag]
        cases sendAll ⟨vars, c2, asset⟩ src [] with
        | panic s => exact rfl
        | err e => exact rfl
        | ok r =>
          obtain ⟨sent, snd⟩ := r
          simp only
          rw [sr_receiveFrom_frame vars asset c1 c2 dst sent []]
          cases receiveFrom ⟨vars, c2, asset⟩ dst sent [] with
          | panic s => exact rfl
          | err e => exact rfl
          | ok rcv => exact ⟨rfl, rfl, rfl, fun a s h => sr_applyPostings_pw _ c1 c2 a s h⟩
    | lit _ m =>
      simp only [evaluateSentAmt] at hf
      simp only
      cases hev : evalAs vars m expectMonetary with
      | panic s => exact rfl
      | err e => exact rfl
      | ok x =>
        obtain ⟨asset, amt⟩ := x
        rw [hev] at hf
        simp only at hf ⊢
        by_cases hn : amt < 0
        · simp only [hn, if_true]; exact rfl
        · simp only [hn, if_false, trySendingExact]
          rw [sr_trySendingUpTo_frame vars asset c1 c2 src p p' amt [] hf hag]
          cases trySendingUpTo ⟨vars, c2, asset⟩ src amt [] with
          | panic s => exact rfl
          | err e => exact rfl
          | ok r =>
            obtain ⟨sent, snd⟩ := r
            simp only
            by_cases hs : sent = amt
            · simp only [hs, if_true]
              rw [sr_receiveFrom_frame vars asset c1 c2 dst amt []]
              cases receiveFrom ⟨vars, c2, asset⟩ dst amt [] with
              | panic s => exact rfl
              | err e => exact rfl
              | ok rcv => exact ⟨rfl, rfl, rfl, fun a s h => sr_applyPostings_pw _ c1 c2 a s h⟩
            · simp only [hs, if_false]; exact rfl

/-- the statements give the same postings and metadata from two caches that agree on the pairs
    the preload requested (and on @world) -/
theorem sr_runStatements_frame (vars : Vars) (r : BalanceQuery) : ∀ (stmts : List Statement)
    (p : BalanceQuery) (c1 c2 : Cache) (tx : TxMeta) (am : AccMeta),
    preload vars stmts p = .ok r → sr_AgreeQ r c1 c2 →
    (∀ s, cacheGet c1 WORLD s = cacheGet c2 WORLD s) →
    sr_ORel (fun x y => x.1 = y.1 ∧ x.2.txMeta = y.2.txMeta ∧ x.2.accMeta = y.2.accMeta)
      (runStatements vars stmts ⟨c1, tx, am⟩) (runStatements vars stmts ⟨c2, tx, am⟩)
  | [], p, c1, c2, tx, am, _, _, _ => by
      simp only [runStatements]
      exact ⟨rfl, rfl, rfl⟩
  | st :: ss, p, c1, c2, tx, am, hpre, hag, hw => by
      simp only [preload] at hpre
      cases hx : findBalancesQueriesInStatement vars st p with
      | panic x => rw [hx] at hpre; cases hpre
      | err x => rw [hx] at hpre; cases hpre
      | ok p1 =>
        rw [hx] at hpre
        simp only at hpre
        have hag1 : sr_AgreeQ p1 c1 c2 := sr_agreeQ_sub (sr_preload_sub vars ss p1 r hpre) hag
        have h1 := sr_runStatement_frame vars c1 c2 tx am st p p1 hx hag1 hw
        simp only [runStatements]
        cases hr2 : runStatement vars ⟨c2, tx, am⟩ st with
        | panic x => rw [hr2] at h1; rw [sr_ORel_panic_right h1]; exact rfl
        | err x => rw [hr2] at h1; rw [sr_ORel_err_right h1]; exact rfl
        | ok y =>
          rw [hr2] at h1
          obtain ⟨x, hr1, hps, htx, ham, hpw⟩ := sr_ORel_ok_right h1
          rw [hr1]
          obtain ⟨ps1, ⟨c1', tx1, am1⟩⟩ := x
          obtain ⟨ps2, ⟨c2', tx2, am2⟩⟩ := y
          simp only at hps htx ham hpw ⊢
          subst hps htx ham
          have hag' : sr_AgreeQ r c1' c2' := fun a s ha hp => hpw a s (hag a s ha hp)
          have hw' : ∀ s, cacheGet c1' WORLD s = cacheGet c2' WORLD s := fun s => hpw WORLD s (hw s)
          have h2 := sr_runStatements_frame vars r ss p1 c1' c2' tx1 am1 hpre hag' hw'
          cases hrr2 : runStatements vars ss ⟨c2', tx1, am1⟩ with
          | panic x => rw [hrr2] at h2; rw [sr_ORel_panic_right h2]; exact rfl
          | err x => rw [hrr2] at h2; rw [sr_ORel_err_right h2]; exact rfl
          | ok y' =>
            rw [hrr2] at h2
            obtain ⟨x', hrr1, hps', htx', ham'⟩ := sr_ORel_ok_right h2
            rw [hrr1]
            obtain ⟨ps1', st1'⟩ := x'
            obtain ⟨ps2', st2'⟩ := y'
            simp only at hps' htx' ham' ⊢
            exact ⟨by rw [hps'], htx', ham'⟩

/-! ## @world is never requested (any store) -/

/-- neither the pending query nor the calls made so far mention @world -/
def sr_NW (q : QState) : Prop :=
  sr_NoWorld q.pending ∧ ∀ call ∈ q.log, WORLD ∉ callAccounts call

theorem sr_runBalancesQuery_nw (store : Store) (q q' : QState)
    (h : runBalancesQuery store q = .ok q') (hq : sr_NW q) : sr_NW q' := by
  unfold runBalancesQuery at h
  simp only at h
  split at h
  · injection h with h; subst h; exact hq
  · split at h
    · cases h
    · injection h with h
      subst h
      refine ⟨fun e he => (by cases he), ?_⟩
      intro call hcall
      simp only at hcall
      rcases List.mem_append.mp hcall with hcall | hcall
      · exact hq.2 call hcall
      · simp only [List.mem_singleton] at hcall
        subst hcall
        intro hmem
        simp only [callAccounts] at hmem
        obtain ⟨e, he, hew⟩ := List.mem_map.mp hmem
        exact hq.1 e (List.mem_filter.mp he).1 hew

theorem sr_getBalance_nw (store : Store) (q q' : QState) (a s : String) (v : Int)
    (h : getBalance store q a s = .ok (v, q')) (hq : sr_NW q) : sr_NW q' := by
  unfold getBalance at h
  simp only at h
  cases hr : runBalancesQuery store { q with pending := batchQuery q.pending a s } with
  | error msg => rw [hr] at h; cases h
  | ok q2 =>
    rw [hr] at h
    simp only [Outcome.ok.injEq, Prod.mk.injEq] at h
    obtain ⟨_, rfl⟩ := h
    exact sr_runBalancesQuery_nw store _ q2 hr ⟨sr_batchQuery_noWorld _ _ _ hq.1, hq.2⟩

theorem sr_handleOrigin_nw (store : Store) (flag : Bool) (vars : Vars) (q q' : QState) (ty : String)
    (fn : FnCall) (v : Value) (h : handleOrigin store flag vars q ty fn = .ok (v, q')) (hq : sr_NW q) :
    sr_NW q' := by
  unfold handleOrigin at h
  cases hargs : evalExprs vars fn.args with
  | panic s => rw [hargs] at h; cases h
  | err e => rw [hargs] at h; cases h
  | ok args =>
    rw [hargs] at h
    simp only at h
    by_cases hm : fn.name = "meta"
    · simp only [hm, if_true] at h
      cases hp : parseArgs2 args expectAccount expectString with
      | panic s => rw [hp] at h; cases h
      | err e => rw [hp] at h; cases h
      | ok ak =>
        obtain ⟨account, key⟩ := ak
        rw [hp] at h
        simp only at h
        cases hg : store.getMeta q.calls account key with
        | error msg => rw [hg] at h; cases h
        | ok answer =>
          rw [hg] at h
          simp only at h
          cases hl : lookupMeta answer account key with
          | none => rw [hl] at h; cases h
          | some raw =>
            rw [hl] at h
            simp only at h
            cases hv : parseVar ty raw with
            | panic s => rw [hv] at h; cases h
            | err e => rw [hv] at h; cases h
            | ok v' =>
              rw [hv] at h
              simp only [Outcome.ok.injEq, Prod.mk.injEq] at h
              obtain ⟨_, rfl⟩ := h
              refine ⟨hq.1, ?_⟩
              intro call hcall
              simp only at hcall
              rcases List.mem_append.mp hcall with hcall | hcall
              · exact hq.2 call hcall
              · simp only [List.mem_singleton] at hcall
                subst hcall
                simp [callAccounts]
    · simp only [hm, if_false] at h
      by_cases hb : fn.name = "balance"
      · simp only [hb, if_true] at h
        cases hp : parseArgs2 args expectAccount expectAsset with
        | panic s => rw [hp] at h; cases h
        | err e => rw [hp] at h; cases h
        | ok ak =>
          obtain ⟨account, asset⟩ := ak
          rw [hp] at h
          simp only at h
          cases hg : getBalance store q account asset with
          | panic s => rw [hg] at h; cases h
          | err e => rw [hg] at h; cases h
          | ok r =>
            obtain ⟨b, q2⟩ := r
            rw [hg] at h
            simp only at h
            split at h
            · cases h
            · simp only [Outcome.ok.injEq, Prod.mk.injEq] at h
              obtain ⟨_, rfl⟩ := h
              exact sr_getBalance_nw store q q2 account asset b hg hq
      · simp only [hb, if_false] at h
        by_cases ho : fn.name = "overdraft"
        · simp only [ho, if_true] at h
          split at h
          · cases h
          · cases hp : parseArgs2 args expectAccount expectAsset with
            | panic s => rw [hp] at h; cases h
            | err e => rw [hp] at h; cases h
            | ok ak =>
              obtain ⟨account, asset⟩ := ak
              rw [hp] at h
              simp only at h
              cases hg : getBalance store q account asset with
              | panic s => rw [hg] at h; cases h
              | err e => rw [hg] at h; cases h
              | ok r =>
                obtain ⟨b, q2⟩ := r
                rw [hg] at h
                simp only at h
                split at h <;>
                · simp only [Outcome.ok.injEq, Prod.mk.injEq] at h
                  obtain ⟨_, rfl⟩ := h
                  exact sr_getBalance_nw store q q2 account asset b hg hq
        · simp only [ho, if_false] at h
          cases h

theorem sr_parseVars_nw (store : Store) (flag : Bool) (rawVars : List (String × String)) :
    ∀ (decls : List VarDecl) (vars vars' : Vars) (q q' : QState),
    parseVars store flag rawVars decls vars q = .ok (vars', q') → sr_NW q → sr_NW q'
  | [], vars, vars', q, q', h, hq => by
      simp only [parseVars, Outcome.ok.injEq, Prod.mk.injEq] at h
      obtain ⟨_, rfl⟩ := h
      exact hq
  | d :: rest, vars, vars', q, q', h, hq => by
      rw [parseVars] at h
      cases hn : d.name with
      | none => rw [hn] at h; cases h
      | some nm =>
        cases ht : d.type with
        | none => rw [hn, ht] at h; cases h
        | some tyy =>
          obtain ⟨r1, name⟩ := nm
          obtain ⟨r2, ty⟩ := tyy
          rw [hn, ht] at h
          simp only at h
          cases ho : d.origin with
          | none =>
            rw [ho] at h
            simp only at h
            split at h
            · cases h
            · split at h
              · cases h
              · cases h
              · exact sr_parseVars_nw store flag rawVars rest _ vars' q q' h hq
          | some fn =>
            rw [ho] at h
            simp only at h
            cases hh : handleOrigin store flag vars q ty fn with
            | panic s => rw [hh] at h; cases h
            | err e => rw [hh] at h; cases h
            | ok r =>
              obtain ⟨v, q1⟩ := r
              rw [hh] at h
              simp only at h
              exact sr_parseVars_nw store flag rawVars rest _ vars' q1 q' h
                (sr_handleOrigin_nw store flag vars q q1 ty fn v hh hq)

/-! ## The feature flag -/

theorem sr_handleOrigin_flag (store : Store) (vars : Vars) (q : QState) (ty : String) (fn : FnCall)
    (h : fn.name ≠ "overdraft") :
    handleOrigin store true vars q ty fn = handleOrigin store false vars q ty fn := by
  unfold handleOrigin
  simp only [h, if_false]

theorem sr_parseVars_flag (store : Store) (rawVars : List (String × String)) :
    ∀ (decls : List VarDecl) (vars : Vars) (q : QState),
    decls.any (fun d => match d.origin with | some fn => fn.name == "overdraft" | none => false) = false →
    parseVars store true rawVars decls vars q = parseVars store false rawVars decls vars q
  | [], vars, q, _ => by
      simp only [parseVars]
  | d :: rest, vars, q, h => by
      rw [List.any_cons, Bool.or_eq_false_iff] at h
      obtain ⟨hd, hrest⟩ := h
      rw [parseVars, parseVars]
      cases hn : d.name with
      | none => rfl
      | some nm =>
        cases ht : d.type with
        | none => rfl
        | some tyy =>
          obtain ⟨r1, name⟩ := nm
          obtain ⟨r2, ty⟩ := tyy
          simp only
          cases ho : d.origin with
          | none =>
            simp only
            split
            · rfl
            · split
              · rfl
              · rfl
              · exact sr_parseVars_flag store rawVars rest _ q hrest
          | some fn =>
            rw [ho] at hd
            have hne : fn.name ≠ "overdraft" := by simpa using hd
            simp only
            rw [sr_handleOrigin_flag store vars q ty fn hne]
            cases handleOrigin store false vars q ty fn with
            | panic s => rfl
            | err e => rfl
            | ok r =>
              obtain ⟨v, q1⟩ := r
              exact sr_parseVars_flag store rawVars rest _ q1 hrest

end NS
