/-
  Proofs/ReconcileTotals.lean — helper lemmas for Properties/C07b.lean:
  per-account credit/debit totals of `Reconcile` when enough was drawn.
-/
import Spec.Pairing
import Spec.Draw
import Proofs.ReconcileLemmas

namespace NS

/-! ## `sumPulls`, `pulled`, `withhold` -/

theorem rt_sumPulls_nonneg {l : List (String × Int)} (h : ∀ p ∈ l, 0 < p.2) : 0 ≤ sumPulls l := by
  induction l with
  | nil => simp [sumPulls]
  | cons hd t ih =>
    obtain ⟨n, m⟩ := hd
    have h1 := ih (fun q hq => h q (List.mem_cons_of_mem _ hq))
    have h2 : 0 < m := h (n, m) (by simp)
    simp only [sumPulls]
    omega

theorem rt_pulled_le_sumPulls {l : List (String × Int)} (h : ∀ p ∈ l, 0 < p.2) (a : String) :
    pulled l a ≤ sumPulls l := by
  induction l with
  | nil => simp [sumPulls, pulled]
  | cons hd t ih =>
    obtain ⟨n, m⟩ := hd
    have h1 := ih (fun q hq => h q (List.mem_cons_of_mem _ hq))
    have h2 : 0 < m := h (n, m) (by simp)
    simp only [sumPulls, pulled]
    split <;> omega

theorem rt_sumPulls_withhold {k : Int} {ss : Senders} (hs : ∀ p ∈ ss, 0 < p.2)
    (hk0 : 0 ≤ k) (hk : k ≤ sumPulls ss) : sumPulls (withhold k ss) = sumPulls ss - k := by
  induction ss generalizing k with
  | nil =>
    simp only [sumPulls] at hk
    simp only [withhold, sumPulls]
    omega
  | cons hd t ih =>
    obtain ⟨n, m⟩ := hd
    have ht : ∀ p ∈ t, 0 < p.2 := fun q hq => hs q (List.mem_cons_of_mem _ hq)
    have h2 : 0 < m := hs (n, m) (by simp)
    simp only [sumPulls] at hk
    unfold withhold
    split
    · simp only [sumPulls]; omega
    · split
      · simp only [sumPulls]; omega
      · have := @ih (k - m) ht (by omega) (by omega)
        simp only [sumPulls]
        omega

theorem rt_no_kept_of_pulled_zero {rs : List (String × Int)} (hr : ∀ p ∈ rs, 0 < p.2)
    (hk : pulled rs KEPT_ADDR = 0) : ∀ p ∈ rs, p.1 ≠ KEPT_ADDR := by
  induction rs with
  | nil => simp
  | cons hd t ih =>
    obtain ⟨n, m⟩ := hd
    have ht : ∀ p ∈ t, 0 < p.2 := fun q hq => hr q (List.mem_cons_of_mem _ hq)
    have h2 : 0 < m := hr (n, m) (by simp)
    have h3 := pulled_nonneg ht KEPT_ADDR
    simp only [pulled] at hk
    intro p hp
    rcases List.mem_cons.1 hp with h | h
    · subst h
      intro e
      simp only at e
      rw [if_pos e] at hk
      omega
    · refine ih ht ?_ p h
      split at hk <;> omega

/-! ## sums weighted by the destination -/

/-- what the receivers selected by `g` (other than `kept`) are due -/
def rt_wsum (g : String → Bool) : List (String × Int) → Int
  | [] => 0
  | (n, m) :: t => (if n ≠ KEPT_ADDR ∧ g n = true then m else 0) + rt_wsum g t

theorem rt_wsum_eq_pulled (x : String) (hx : x ≠ KEPT_ADDR) (rs : List (String × Int)) :
    rt_wsum (fun n => decide (n = x)) rs = pulled rs x := by
  induction rs with
  | nil => simp [rt_wsum, pulled]
  | cons hd t ih =>
    obtain ⟨n, m⟩ := hd
    simp only [rt_wsum, pulled, ih]
    by_cases h : n = x
    · subst h; simp [hx]
    · simp [h]

theorem rt_wsum_true (rs : List (String × Int)) :
    rt_wsum (fun _ => true) rs = sumPulls rs - pulled rs KEPT_ADDR := by
  induction rs with
  | nil => simp [rt_wsum, pulled, sumPulls]
  | cons hd t ih =>
    obtain ⟨n, m⟩ := hd
    simp only [rt_wsum, pulled, sumPulls, ih]
    by_cases h : n = KEPT_ADDR
    · simp [h]; omega
    · simp [h]; omega

theorem rt_sumBy_dst_addPosting (g : String → Bool) (acc : List Posting) (src dst : String)
    (amt : Int) (asset : String) :
    sumBy (fun p => g p.destination) (addPosting acc src dst amt asset)
      = sumBy (fun p => g p.destination) acc + (if g dst = true then amt else 0) := by
  rw [sumBy_addPosting]
  intro p q _ h2
  simp [h2]

/-- when at least as much was drawn as is distributed, every receiver is fully served -/
theorem rt_loop_dst (asset : String) (g : String → Bool) (ss : Senders) (rs : Receivers)
    (acc : List Posting) (hs : ∀ p ∈ ss, 0 < p.2) (hr : ∀ p ∈ rs, 0 < p.2)
    (hle : sumPulls rs ≤ sumPulls ss) :
    sumBy (fun p => g p.destination) (reconcileLoop asset ss rs acc)
      = sumBy (fun p => g p.destination) acc + rt_wsum g rs := by
  fun_induction reconcileLoop asset ss rs acc with
  | case1 senders acc => simp [rt_wsum]
  | case2 senders acc rm rs ih =>
    have h0 : 0 < rm := hr (KEPT_ADDR, rm) (by simp)
    have hr' : ∀ p ∈ rs, 0 < p.2 := fun x hx => hr x (List.mem_cons_of_mem _ hx)
    have h1 := rt_sumPulls_nonneg hr'
    simp only [sumPulls] at hle
    have h2 := rt_sumPulls_withhold (k := rm) hs (by omega) (by omega)
    rw [ih (withhold_pos hs) hr' (by omega)]
    simp [rt_wsum]
  | case3 acc rn rm rs hk =>
    have h0 : 0 < rm := hr (rn, rm) (by simp)
    have h1 := rt_sumPulls_nonneg (fun x hx => hr x (List.mem_cons_of_mem _ hx))
    simp only [sumPulls] at hle
    omega
  | case4 acc rn rs hk sn sm ss ih =>
    simp only [sumPulls] at hle
    rw [ih (fun x hx => hs x (List.mem_cons_of_mem _ hx))
      (fun x hx => hr x (List.mem_cons_of_mem _ hx)) (by omega), rt_sumBy_dst_addPosting]
    simp only [rt_wsum, ne_eq, hk, not_false_eq_true, true_and]
    omega
  | case5 acc rn rm rs hk sn sm ss hne hlt ih =>
    have h0 : 0 < sm := hs (sn, sm) (by simp)
    simp only [sumPulls] at hle
    rw [ih (fun x hx => hs x (List.mem_cons_of_mem _ hx)) (by
      intro x hx
      rcases List.mem_cons.1 hx with h | h
      · subst h; simp; omega
      · exact hr x (List.mem_cons_of_mem _ h)) (by simp only [sumPulls]; omega),
      rt_sumBy_dst_addPosting]
    simp only [rt_wsum, ne_eq, hk, not_false_eq_true, true_and]
    split <;> omega
  | case6 acc rn rm rs hk sn sm ss hne hlt ih =>
    have h0 : 0 < rm := hr (rn, rm) (by simp)
    simp only [sumPulls] at hle
    rw [ih (by
      intro x hx
      rcases List.mem_cons.1 hx with h | h
      · subst h; simp; omega
      · exact hs x (List.mem_cons_of_mem _ h)) (fun x hx => hr x (List.mem_cons_of_mem _ hx))
      (by simp only [sumPulls]; omega), rt_sumBy_dst_addPosting]
    simp only [rt_wsum, ne_eq, hk, not_false_eq_true, true_and]
    omega

theorem rt_creditsOf_eq_sumBy (ps : List Posting) (a : String) :
    creditsOf ps a = sumBy (fun p => decide (p.destination = a)) ps := rfl

theorem rt_total_eq_sumBy (ps : List Posting) :
    (ps.map (·.amount)).sum = sumBy (fun _ => true) ps := by
  have : ps.filter (fun _ => true) = ps := List.filter_eq_self.2 (fun _ _ => rfl)
  simp [sumBy, this]

theorem rt_reconcile_credits (asset : String) (ss rs : List (String × Int))
    (hs : ∀ p ∈ ss, 0 < p.2) (hr : ∀ p ∈ rs, 0 < p.2) (hle : sumPulls rs ≤ sumPulls ss)
    (x : String) (hx : x ≠ KEPT_ADDR) :
    creditsOf (Reconcile asset ss rs) x = pulled rs x := by
  unfold Reconcile
  rw [rt_creditsOf_eq_sumBy, sumBy_reverse,
    rt_loop_dst asset (fun n => decide (n = x)) ss rs [] hs hr hle, rt_wsum_eq_pulled x hx]
  simp [sumBy]

theorem rt_reconcile_total (asset : String) (ss rs : List (String × Int))
    (hs : ∀ p ∈ ss, 0 < p.2) (hr : ∀ p ∈ rs, 0 < p.2) (hle : sumPulls rs ≤ sumPulls ss) :
    ((Reconcile asset ss rs).map (·.amount)).sum = sumPulls rs - pulled rs KEPT_ADDR := by
  unfold Reconcile
  rw [rt_total_eq_sumBy, sumBy_reverse,
    rt_loop_dst asset (fun _ => true) ss rs [] hs hr hle, rt_wsum_true]
  simp [sumBy]

/-! ## exact debits -/

/-- when at most as much was drawn as is distributed and nothing is kept, every sender is
    fully consumed -/
theorem rt_loop_debits_exact (asset : String) (ss : Senders) (rs : Receivers) (acc : List Posting)
    (hs : ∀ p ∈ ss, 0 < p.2) (hr : ∀ p ∈ rs, 0 < p.2) (hle : sumPulls ss ≤ sumPulls rs)
    (hnk : ∀ p ∈ rs, p.1 ≠ KEPT_ADDR) (a : String) :
    debitsOf (reconcileLoop asset ss rs acc) a = debitsOf acc a + pulled ss a := by
  fun_induction reconcileLoop asset ss rs acc with
  | case1 senders acc =>
    have h1 := pulled_nonneg hs a
    have h2 := rt_pulled_le_sumPulls hs a
    simp only [sumPulls] at hle
    omega
  | case2 senders acc rm rs ih => exact absurd rfl (hnk (KEPT_ADDR, rm) (by simp))
  | case3 => simp [pulled]
  | case4 acc rn rs hk sn sm ss ih =>
    simp only [sumPulls] at hle
    rw [ih (fun x hx => hs x (List.mem_cons_of_mem _ hx))
      (fun x hx => hr x (List.mem_cons_of_mem _ hx)) (by omega)
      (fun x hx => hnk x (List.mem_cons_of_mem _ hx)), debitsOf_addPosting]
    simp only [pulled]
    omega
  | case5 acc rn rm rs hk sn sm ss hne hlt ih =>
    have h0 : 0 < sm := hs (sn, sm) (by simp)
    simp only [sumPulls] at hle
    rw [ih (fun x hx => hs x (List.mem_cons_of_mem _ hx)) (by
      intro x hx
      rcases List.mem_cons.1 hx with h | h
      · subst h; simp; omega
      · exact hr x (List.mem_cons_of_mem _ h)) (by simp only [sumPulls]; omega) (by
      intro x hx
      rcases List.mem_cons.1 hx with h | h
      · subst h; exact hk
      · exact hnk x (List.mem_cons_of_mem _ h)), debitsOf_addPosting]
    simp only [pulled]
    omega
  | case6 acc rn rm rs hk sn sm ss hne hlt ih =>
    have h0 : 0 < rm := hr (rn, rm) (by simp)
    simp only [sumPulls] at hle
    rw [ih (by
      intro x hx
      rcases List.mem_cons.1 hx with h | h
      · subst h; simp; omega
      · exact hs x (List.mem_cons_of_mem _ h)) (fun x hx => hr x (List.mem_cons_of_mem _ hx))
      (by simp only [sumPulls]; omega) (fun x hx => hnk x (List.mem_cons_of_mem _ hx)),
      debitsOf_addPosting]
    simp only [pulled]
    split <;> omega

theorem rt_reconcile_debits_exact (asset : String) (ss rs : List (String × Int))
    (hs : ∀ p ∈ ss, 0 < p.2) (hr : ∀ p ∈ rs, 0 < p.2) (hle : sumPulls ss ≤ sumPulls rs)
    (hnk : ∀ p ∈ rs, p.1 ≠ KEPT_ADDR) (a : String) :
    debitsOf (Reconcile asset ss rs) a = pulled ss a := by
  unfold Reconcile
  rw [debitsOf_reverse, rt_loop_debits_exact asset ss rs [] hs hr hle hnk a]
  simp [debitsOf]

/-! ## prefixes of a list of positive postings -/

theorem rt_sumBy_append (f : Posting → Bool) (l1 l2 : List Posting) :
    sumBy f (l1 ++ l2) = sumBy f l1 + sumBy f l2 := by
  simp [sumBy]

theorem rt_sumBy_nonneg (f : Posting → Bool) {l : List Posting} (h : ∀ p ∈ l, 0 < p.amount) :
    0 ≤ sumBy f l := by
  induction l with
  | nil => simp [sumBy]
  | cons p t ih =>
    have h1 := ih (fun q hq => h q (List.mem_cons_of_mem _ hq))
    have h2 : 0 < p.amount := h p (by simp)
    have e : sumBy f (p :: t) = (if f p = true then p.amount else 0) + sumBy f t := by
      cases hf : f p <;> simp [sumBy, hf]
    rw [e]
    split <;> omega

theorem rt_sumBy_take_nonneg (f : Posting → Bool) {l : List Posting}
    (h : ∀ p ∈ l, 0 < p.amount) (k : Nat) : 0 ≤ sumBy f (l.take k) :=
  rt_sumBy_nonneg f (fun p hp => h p (List.mem_of_mem_take hp))

theorem rt_sumBy_take_le (f : Posting → Bool) {l : List Posting}
    (h : ∀ p ∈ l, 0 < p.amount) (k : Nat) : sumBy f (l.take k) ≤ sumBy f l := by
  have h1 : 0 ≤ sumBy f (l.drop k) :=
    rt_sumBy_nonneg f (fun p hp => h p (List.mem_of_mem_drop hp))
  have h2 := rt_sumBy_append f (l.take k) (l.drop k)
  rw [List.take_append_drop] at h2
  omega

/-- positive inputs give positive postings (as `reconcile_positive` of Properties/C07.lean) -/
theorem rt_reconcile_pos (asset : String) (ss rs : List (String × Int))
    (hs : ∀ p ∈ ss, 0 < p.2) (hr : ∀ p ∈ rs, 0 < p.2) :
    ∀ p ∈ Reconcile asset ss rs, 0 < p.amount := by
  intro p hp
  unfold Reconcile at hp
  rw [List.mem_reverse] at hp
  exact reconcileLoop_forall asset (fun p => 0 < p.amount) (fun _ => True)
    (fun _ => True) (fun a => 0 < a) (fun _ _ _ _ _ _ h => h)
    (fun q a (h1 : 0 < q.amount) (h2 : 0 < a) => show 0 < q.amount + a by omega)
    (fun k ss h _ x hx => ⟨trivial, withhold_pos (fun y hy => (h y hy).2) x hx⟩)
    (fun a b _ _ _ (h : a < b) => show 0 < b - a by omega) ss rs []
    (by simp) (fun x hx => ⟨trivial, hs x hx⟩) (fun x hx => ⟨trivial, hr x hx⟩) p hp

/-- as `reconcile_debits_le_pulled` of Properties/C07.lean -/
theorem rt_reconcile_debits_le (asset : String) (ss rs : List (String × Int))
    (hs : ∀ p ∈ ss, 0 < p.2) (hr : ∀ p ∈ rs, 0 < p.2) (a : String) :
    debitsOf (Reconcile asset ss rs) a ≤ pulled ss a := by
  unfold Reconcile
  rw [debitsOf_reverse]
  have := reconcileLoop_debits asset ss rs [] hs hr a
  simpa [debitsOf] using this

/-! ## empty inputs -/

theorem rt_loop_nil_senders (asset : String) (rs : Receivers) (acc : List Posting) :
    reconcileLoop asset [] rs acc = acc := by
  induction rs with
  | nil => simp [reconcileLoop]
  | cons hd t ih =>
    obtain ⟨n, m⟩ := hd
    unfold reconcileLoop
    split
    · simpa [withhold] using ih
    · rfl

end NS
