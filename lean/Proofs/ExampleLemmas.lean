/-
  Proofs/ExampleLemmas.lean — helper lemmas for the non-vacuity examples of
  Properties/Examples.lean.
-/
import Spec.ProgramSpec
import Spec.StoreSpec

namespace NS

/-- an answer built by tabulating `f` over the query: every entry found under `(a, c)` is `f a c` -/
theorem ex_ansFind_tabulate_some (f : String → String → Int) (q : BalanceQuery) (a c : String) (v : Int)
    (h : ansFind (q.flatMap (fun p => p.2.map (fun c => ((p.1, c), f p.1 c)))) a c = some v) :
    v = f a c := by
  unfold ansFind at h
  rw [Option.map_eq_some_iff] at h
  obtain ⟨x, hx, rfl⟩ := h
  have hp := List.find?_some hx
  have hm := List.mem_of_find?_eq_some hx
  rw [List.mem_flatMap] at hm
  obtain ⟨p, _, hm⟩ := hm
  rw [List.mem_map] at hm
  obtain ⟨c', _, rfl⟩ := hm
  have : (p.1, c') = (a, c) := by simpa using hp
  cases this
  rfl

/-- an answer built by tabulating `f` over the query omits no requested pair -/
theorem ex_ansFind_tabulate_ne_none (f : String → String → Int) (q : BalanceQuery) (a c : String)
    (cs : List String) (hq : (a, cs) ∈ q) (hc : c ∈ cs) :
    ansFind (q.flatMap (fun p => p.2.map (fun c => ((p.1, c), f p.1 c)))) a c ≠ none := by
  unfold ansFind
  intro h
  rw [Option.map_eq_none_iff, List.find?_eq_none] at h
  have hm : ((a, c), f a c) ∈ q.flatMap (fun p => p.2.map (fun c => ((p.1, c), f p.1 c))) := by
    rw [List.mem_flatMap]
    exact ⟨(a, cs), hq, List.mem_map.mpr ⟨c, hc, rfl⟩⟩
  exact h _ hm (by simp)

theorem ex_ansFind_nil (a c : String) : ansFind [] a c = none := rfl

theorem ex_ansFind_cons (a' c' : String) (v' : Int) (t : BalanceAnswer) (a c : String) :
    ansFind (((a', c'), v') :: t) a c = if a' = a ∧ c' = c then some v' else ansFind t a c := by
  unfold ansFind
  rw [List.find?_cons]
  by_cases h : a' = a ∧ c' = c
  · obtain ⟨rfl, rfl⟩ := h; simp
  · have : (((a', c') : String × String) == (a, c)) = false := by simpa using h
    simp only [this, if_neg h]

end NS
