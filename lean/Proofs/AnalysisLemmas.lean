/-
  Proofs/AnalysisLemmas.lean — helper lemmas for property C18: on benign partial syntax
  trees the static checker, the symbol listing, hover and go-to-definition never reach a
  panic site.
-/
import Spec.Benign
import Spec.Complete

namespace NS

/-- the outcome is a result (neither a typed error nor a panic) -/
def an_IsOk {α : Type} (o : Outcome α) : Prop := ∃ a, o = .ok a

@[simp] theorem an_isOk_ok {α} (a : α) : an_IsOk (Outcome.ok a) := ⟨a, rfl⟩
@[simp] theorem an_isOk_err {α} (e : Err) : ¬ an_IsOk (Outcome.err e : Outcome α) := by
  rintro ⟨a, h⟩; cases h
@[simp] theorem an_isOk_panic {α} (s : String) : ¬ an_IsOk (Outcome.panic s : Outcome α) := by
  rintro ⟨a, h⟩; cases h

theorem an_isOk_ne_panic {α} {o : Outcome α} (h : an_IsOk o) (s : String) : o ≠ .panic s := by
  obtain ⟨a, rfl⟩ := h
  intro h; cases h

theorem an_isOk_absurd_panic {α} {o : Outcome α} {s} (h : an_IsOk o) (he : o = .panic s) : False :=
  an_isOk_ne_panic h s he

theorem an_isOk_absurd_err {α} {o : Outcome α} {e} (h : an_IsOk o) (he : o = .err e) : False := by
  obtain ⟨a, rfl⟩ := h
  cases he

theorem an_isOk_ite {α} {c : Prop} [Decidable c] {a b : Outcome α} (ha : an_IsOk a) (hb : an_IsOk b) :
    an_IsOk (if c then a else b) := by
  split <;> assumption

/-- close an `an_IsOk` side goal: a hypothesis (possibly quantified) or a simp lemma -/
macro "an_close" : tactic =>
  `(tactic| first | assumption | (simp; done) | (with_reducible apply_assumption <;> assumption) | (simp [*]; done))

/-- walk through a cascade of matches on outcomes known to be `ok` -/
macro "an_walk" : tactic =>
  `(tactic| repeat' (first
      | exact an_isOk_ok _
      | an_close
      | (exfalso; refine an_isOk_absurd_panic ?_ ‹_ = Outcome.panic _›; an_close)
      | (exfalso; refine an_isOk_absurd_err ?_ ‹_ = Outcome.err _›; an_close)
      | contradiction
      | (simp_all; done)
      | split
      | dsimp only))

/-! ### benign expressions have a range -/

theorem an_rangeOpt_isSome {e : Expr} (hn : e ≠ .nil) (hb : e.Benign) : ∃ r, e.rangeOpt = some r := by
  cases e <;> simp_all [Expr.rangeOpt, Expr.Benign]

/-! ### hover -/

theorem an_hoverOnExpression_ok (pos : Pos) : ∀ (e : Expr), e.Benign → an_IsOk (hoverOnExpression e pos)
  | .nil, _ => by simp [hoverOnExpression]
  | .monetaryNil, hb => by simp [Expr.Benign] at hb
  | .var _ _, _ => by simp [hoverOnExpression]
  | .asset _ _, _ => by simp [hoverOnExpression]
  | .account _ _, _ => by simp [hoverOnExpression]
  | .str _ _, _ => by simp [hoverOnExpression]
  | .number _ _, _ => by simp [hoverOnExpression]
  | .ratio _ _ _, _ => by simp [hoverOnExpression]
  | .monetary _ a n, hb => by
      have ha := an_hoverOnExpression_ok pos a hb.1
      have hn := an_hoverOnExpression_ok pos n hb.2
      unfold hoverOnExpression
      an_walk
  | .infix _ _ l r, hb => by
      have hl := an_hoverOnExpression_ok pos l hb.1
      have hr := an_hoverOnExpression_ok pos r hb.2
      unfold hoverOnExpression
      an_walk

theorem an_hoverOnExprs_ok (pos : Pos) : ∀ (es : List Expr), ExprsBenign es → an_IsOk (hoverOnExprs es pos)
  | [], _ => by simp [hoverOnExprs]
  | e :: es, hb => by
      have he := an_hoverOnExpression_ok pos e hb.1
      have hes := an_hoverOnExprs_ok pos es hb.2
      unfold hoverOnExprs
      an_walk

theorem an_hoverOnFnCall_ok (pos : Pos) (fn : FnCall) (hb : ExprsBenign fn.args) :
    an_IsOk (hoverOnFnCall fn pos) := by
  have := an_hoverOnExprs_ok pos fn.args hb
  unfold hoverOnFnCall
  an_walk

theorem an_hoverOnSentValue_ok (pos : Pos) (sv : SentValue) (hb : sv.Benign) :
    an_IsOk (hoverOnSentValue sv pos) := by
  cases sv with
  | nil => simp [hoverOnSentValue]
  | lit _ m => exact an_hoverOnExpression_ok pos m hb
  | all _ a => exact an_hoverOnExpression_ok pos a hb

theorem an_hoverOnAllot_ok (pos : Pos) (a : AllotVal) (hb : a.Benign) :
    an_IsOk (hoverOnAllot a pos) := by
  cases a with
  | nil => simp [hoverOnAllot]
  | remaining _ => simp [hoverOnAllot]
  | portion e => exact an_hoverOnExpression_ok pos e hb

mutual
  theorem an_hoverOnSource_ok (pos : Pos) : ∀ (s : Source), s.Benign → an_IsOk (hoverOnSource s pos)
    | .nil, _ => by simp [hoverOnSource]
    | .account e, hb => by
        simp only [Source.Benign] at hb
        obtain ⟨r, hr⟩ := an_rangeOpt_isSome hb.1 hb.2
        have := an_hoverOnExpression_ok pos e hb.2
        unfold hoverOnSource
        rw [hr]
        an_walk
    | .overdraft _ addr none, hb => by
        simp only [Source.Benign] at hb
        have := an_hoverOnExpression_ok pos addr hb.2
        unfold hoverOnSource
        an_walk
    | .overdraft _ addr (some b), hb => by
        simp only [Source.Benign] at hb
        have := an_hoverOnExpression_ok pos addr hb.2.1
        have := an_hoverOnExpression_ok pos b hb.2.2
        unfold hoverOnSource
        an_walk
    | .inorder _ srcs, hb => by
        simp only [Source.Benign] at hb
        have := an_hoverOnSourceList_ok pos srcs hb
        unfold hoverOnSource
        an_walk
    | .capped _ cap src, hb => by
        simp only [Source.Benign] at hb
        have := an_hoverOnExpression_ok pos cap hb.1
        have := an_hoverOnSource_ok pos src hb.2
        unfold hoverOnSource
        an_walk
    | .allotment _ items, hb => by
        simp only [Source.Benign] at hb
        have := an_hoverOnSrcItems_ok pos items hb
        unfold hoverOnSource
        an_walk
  theorem an_hoverOnSourceList_ok (pos : Pos) : ∀ (ss : List Source), SourcesBenign ss →
      an_IsOk (hoverOnSourceList ss pos)
    | [], _ => by simp [hoverOnSourceList]
    | s :: ss, hb => by
        simp only [SourcesBenign] at hb
        have := an_hoverOnSource_ok pos s hb.1
        have := an_hoverOnSourceList_ok pos ss hb.2
        unfold hoverOnSourceList
        an_walk
  theorem an_hoverOnSrcItems_ok (pos : Pos) : ∀ (items : List SrcItem), SrcItemsBenign items →
      an_IsOk (hoverOnSrcItems items pos)
    | [], _ => by simp [hoverOnSrcItems]
    | (.mk _ a src) :: rest, hb => by
        simp only [SrcItemsBenign] at hb
        have := an_hoverOnAllot_ok pos a hb.1
        have := an_hoverOnSource_ok pos src hb.2.1
        have := an_hoverOnSrcItems_ok pos rest hb.2.2
        unfold hoverOnSrcItems
        an_walk
end

mutual
  theorem an_hoverOnDestination_ok (pos : Pos) : ∀ (d : Dest), d.Benign → an_IsOk (hoverOnDestination d pos)
    | .nil, _ => by simp [hoverOnDestination]
    | .account e, hb => by
        simp only [Dest.Benign] at hb
        obtain ⟨r, hr⟩ := an_rangeOpt_isSome hb.1 hb.2
        have := an_hoverOnExpression_ok pos e hb.2
        unfold hoverOnDestination
        rw [hr]
        an_walk
    | .inorder _ clauses remaining, hb => by
        simp only [Dest.Benign] at hb
        have := an_hoverOnClauses_ok pos clauses hb.1
        have := an_hoverOnKoD_ok pos remaining hb.2
        unfold hoverOnDestination
        an_walk
    | .allotment _ items, hb => by
        simp only [Dest.Benign] at hb
        have := an_hoverOnDstItems_ok pos items hb
        unfold hoverOnDestination
        an_walk
  theorem an_hoverOnKoD_ok (pos : Pos) : ∀ (k : KoD), k.Benign → an_IsOk (hoverOnKoD k pos)
    | .nil, _ => by simp [hoverOnKoD]
    | .kept _, _ => by simp [hoverOnKoD]
    | .to d, hb => by
        simp only [KoD.Benign] at hb
        have := an_hoverOnDestination_ok pos d hb
        unfold hoverOnKoD
        an_walk
  theorem an_hoverOnClauses_ok (pos : Pos) : ∀ (cs : List DestClause), ClausesBenign cs →
      an_IsOk (hoverOnClauses cs pos)
    | [], _ => by simp [hoverOnClauses]
    | (.mk _ cap to) :: rest, hb => by
        simp only [ClausesBenign] at hb
        have := an_hoverOnExpression_ok pos cap hb.1
        have := an_hoverOnKoD_ok pos to hb.2.1
        have := an_hoverOnClauses_ok pos rest hb.2.2
        unfold hoverOnClauses
        an_walk
  theorem an_hoverOnDstItems_ok (pos : Pos) : ∀ (items : List DestItem), DstItemsBenign items →
      an_IsOk (hoverOnDstItems items pos)
    | [], _ => by simp [hoverOnDstItems]
    | (.mk _ a to) :: rest, hb => by
        simp only [DstItemsBenign] at hb
        have := an_hoverOnAllot_ok pos a hb.1
        have := an_hoverOnKoD_ok pos to hb.2.1
        have := an_hoverOnDstItems_ok pos rest hb.2.2
        unfold hoverOnDstItems
        an_walk
end

theorem an_hoverOnStatement_ok (pos : Pos) (s : Statement) (hb : s.Benign) :
    an_IsOk (hoverOnStatement s pos) := by
  cases s with
  | nil => simp [hoverOnStatement]
  | fnCallNil => simp [Statement.Benign] at hb
  | send _ sv src dst =>
      simp only [Statement.Benign] at hb
      have := an_hoverOnSentValue_ok pos sv hb.1
      have := an_hoverOnSource_ok pos src hb.2.1
      have := an_hoverOnDestination_ok pos dst hb.2.2
      unfold hoverOnStatement
      an_walk
  | save _ sv amount =>
      simp only [Statement.Benign] at hb
      have := an_hoverOnSentValue_ok pos sv hb.1
      have := an_hoverOnExpression_ok pos amount hb.2
      unfold hoverOnStatement
      an_walk
  | fnCall fn =>
      simp only [Statement.Benign] at hb
      exact an_hoverOnFnCall_ok pos fn hb

theorem an_hoverOnStatements_ok (pos : Pos) : ∀ (ss : List Statement), StatementsBenign ss →
    an_IsOk (hoverOnStatements ss pos)
  | [], _ => by simp [hoverOnStatements]
  | s :: ss, hb => by
      have := an_hoverOnStatement_ok pos s hb.1
      have := an_hoverOnStatements_ok pos ss hb.2
      unfold hoverOnStatements
      an_walk

theorem an_hoverOnVars_ok (pos : Pos) : ∀ (ds : List VarDecl), VarDeclsBenign ds →
    an_IsOk (hoverOnVars ds pos)
  | [], _ => by simp [hoverOnVars]
  | d :: ds, hb => by
      have hd : ∀ fn, d.origin = some fn → an_IsOk (hoverOnFnCall fn pos) :=
        fun fn h => an_hoverOnFnCall_ok pos fn (hb.1.2 fn h)
      have := an_hoverOnVars_ok pos ds hb.2
      unfold hoverOnVars
      split
      · dsimp only
        an_walk
      · cases ho : d.origin with
        | none => dsimp only; an_walk
        | some fn =>
            have := hd fn ho
            dsimp only
            an_walk

theorem an_hoverOn_ok (prog : Program) (hb : prog.Benign) (pos : Pos) : an_IsOk (hoverOn prog pos) := by
  have := an_hoverOnVars_ok pos prog.vars hb.1
  have := an_hoverOnStatements_ok pos prog.stmts hb.2
  unfold hoverOn
  an_walk

/-! ### the checker is total on benign trees -/

@[simp] theorem an_assertHasType_ok (st : CState) (r : Range) (req act : String) :
    an_IsOk (assertHasType st (some r) req act) := by
  unfold assertHasType
  an_walk

theorem an_assertHasType_ok' (st : CState) (ro : Option Range) (req act : String)
    (h : ∃ r, ro = some r) : an_IsOk (assertHasType st ro req act) := by
  obtain ⟨r, rfl⟩ := h
  simp

theorem an_inferType_rangeOpt (st : CState) {l : Expr} (hb : l.Benign) (h : inferType st l ≠ "") :
    ∃ r, l.rangeOpt = some r := by
  cases l <;> simp_all [Expr.rangeOpt, Expr.Benign, inferType]

theorem an_checkExpression_ok : ∀ (e : Expr) (st : CState) (τ : String), e.Benign →
    an_IsOk (checkExpression st e τ)
  | .nil, _, _, _ => by simp [checkExpression]
  | .monetaryNil, _, _, hb => by simp [Expr.Benign] at hb
  | .var _ _, _, _, _ => by
      unfold checkExpression
      an_walk
  | .asset _ _, _, _, _ => by simp [checkExpression]
  | .account _ _, _, _, _ => by simp [checkExpression]
  | .str _ _, _, _, _ => by simp [checkExpression]
  | .number _ _, _, _, _ => by simp [checkExpression]
  | .ratio _ _ _, _, _, _ => by simp [checkExpression]
  | .monetary r a n, st, τ, hb => by
      have ha := fun st τ => an_checkExpression_ok a st τ hb.1
      have hn := fun st τ => an_checkExpression_ok n st τ hb.2
      have h0 := an_assertHasType_ok st r τ "monetary"
      unfold checkExpression
      an_walk
  | .infix _ _ l r, st, τ, hb => by
      have hl := fun st τ => an_checkExpression_ok l st τ hb.1
      have hr := fun st τ => an_checkExpression_ok r st τ hb.2
      have hrange := an_inferType_rangeOpt st hb.1
      unfold checkExpression
      an_walk
      exact an_assertHasType_ok' _ _ _ _ (hrange ‹_›)

theorem an_exprsBenign_mem : ∀ {es : List Expr}, ExprsBenign es → ∀ a ∈ es, a.Benign
  | [], _, a, ha => by cases ha
  | e :: es, hb, a, ha => by
      cases ha with
      | head => exact hb.1
      | tail _ h => exact an_exprsBenign_mem hb.2 a h

theorem an_checkExpressions_ok : ∀ (l : List (Expr × String)) (st : CState), (∀ p ∈ l, p.1.Benign) →
    an_IsOk (checkExpressions st l)
  | [], _, _ => by simp [checkExpressions]
  | (e, t) :: rest, st, hb => by
      have he := fun st τ => an_checkExpression_ok e st τ (hb (e, t) (by simp))
      have hrest := fun st => an_checkExpressions_ok rest st (fun p hp => hb p (by simp [hp]))
      unfold checkExpressions
      an_walk

/-- the non-nil arguments of a call -/
def an_validArgs (fn : FnCall) : List Expr :=
  fn.args.filter (fun a => match a with | .nil => false | _ => true)

theorem an_validArgs_mem {fn : FnCall} (hb : ExprsBenign fn.args) {a : Expr} (ha : a ∈ an_validArgs fn) :
    a.Benign ∧ a ≠ .nil := by
  unfold an_validArgs at ha
  rw [List.mem_filter] at ha
  refine ⟨an_exprsBenign_mem hb a ha.1, ?_⟩
  rintro rfl
  simp at ha

theorem an_arity_ok (st : CState) (va : List Expr) (hv : ∀ a ∈ va, ∃ r, a.rangeOpt = some r)
    (expected : Nat) (r : Range) :
    an_IsOk (if va.length < expected then Outcome.ok (st.push r (.badArity expected va.length))
        else if va.length > expected then
          match va[expected]?, va.getLast? with
          | some first, some last =>
              match first.rangeOpt, last.rangeOpt with
              | some fr, some lr => .ok (st.push ⟨fr.s, lr.e⟩ (.badArity expected va.length))
              | _, _ => .panic "checkFnCallArity:GetRange on nil *MonetaryLiteral"
          | _, _ => .ok st
        else .ok st) := by
  split
  · simp
  · split
    · split
      · rename_i first last h1 h2
        obtain ⟨fr, hfr⟩ := hv first (List.mem_of_getElem? h1)
        obtain ⟨lr, hlr⟩ := hv last (List.mem_of_getLast? h2)
        simp [hfr, hlr]
      · simp
    · simp

theorem an_checkFnCallArity_ok (st : CState) (fn : FnCall) (hb : ExprsBenign fn.args) :
    an_IsOk (checkFnCallArity st fn) := by
  have hv : ∀ a ∈ an_validArgs fn, a.Benign ∧ a ≠ .nil := fun a ha => an_validArgs_mem hb ha
  have h1 : ∀ st (sig : List String) n, an_IsOk (checkExpressions st (((an_validArgs fn).take n).zip sig)) := by
    intro st sig n
    apply an_checkExpressions_ok
    intro p hp
    exact (hv p.1 (List.mem_of_mem_take (List.of_mem_zip (a := p.1) (b := p.2) hp).1)).1
  have h2 : ∀ st, an_IsOk (checkExpressions st ((an_validArgs fn).map (fun a => (a, "any")))) := by
    intro st
    apply an_checkExpressions_ok
    intro p hp
    rw [List.mem_map] at hp
    obtain ⟨a, ha, rfl⟩ := hp
    exact (hv a ha).1
  have h3 := fun st e r => an_arity_ok st (an_validArgs fn)
    (fun a ha => an_rangeOpt_isSome (hv a ha).2 (hv a ha).1) e r
  unfold checkFnCallArity
  unfold an_validArgs at h1 h2 h3
  an_walk

theorem an_checkSentValue_ok (st : CState) (sv : SentValue) (hb : sv.Benign) :
    an_IsOk (checkSentValue st sv) := by
  cases sv with
  | nil => simp [checkSentValue]
  | lit _ m => exact an_checkExpression_ok m st _ hb
  | all _ a => exact an_checkExpression_ok a st _ hb

theorem an_checkAllotValue_ok (st : CState) (acc : AllotAcc) (a : AllotVal) (isLast : Bool)
    (whole : Range) : an_IsOk (checkAllotValue st acc a isLast whole) := by
  have hv := fun r name => an_checkExpression_ok (.var r name) st "portion" trivial
  unfold checkAllotValue
  an_walk

theorem an_sourceHead_ok (st : CState) (src : Source) (h : ∃ r, src.rangeOpt = some r) :
    an_IsOk (sourceHead st src) := by
  obtain ⟨r, hr⟩ := h
  unfold sourceHead
  rw [hr]
  an_walk

theorem an_checkOverdraftHead_ok (st : CState) (addr : Expr) (bounded : Option Expr)
    (h : ∃ r, addr.rangeOpt = some r) : an_IsOk (checkOverdraftHead st addr bounded) := by
  obtain ⟨r, hr⟩ := h
  unfold checkOverdraftHead
  rw [hr]
  exact an_isOk_ite (an_isOk_ok _) (an_isOk_ok _)

mutual
  theorem an_checkSource_ok : ∀ (s : Source) (st : CState), s.Benign → an_IsOk (checkSource st s)
    | .nil, _, _ => by simp [checkSource]
    | .account e, st, hb => by
        simp only [Source.Benign] at hb
        have h0 := fun st => an_sourceHead_ok st (.account e) (an_rangeOpt_isSome hb.1 hb.2)
        have h1 := fun st τ => an_checkExpression_ok e st τ hb.2
        unfold checkSource
        an_walk
    | .overdraft r addr none, st, hb => by
        simp only [Source.Benign] at hb
        have h0 := fun st => an_sourceHead_ok st (.overdraft r addr none) ⟨r, rfl⟩
        have h1 := fun st b => an_checkOverdraftHead_ok st addr b (an_rangeOpt_isSome hb.1 hb.2)
        have h2 := fun st τ => an_checkExpression_ok addr st τ hb.2
        unfold checkSource
        an_walk
    | .overdraft r addr (some b), st, hb => by
        simp only [Source.Benign] at hb
        have h0 := fun st => an_sourceHead_ok st (.overdraft r addr (some b)) ⟨r, rfl⟩
        have h1 := fun st b => an_checkOverdraftHead_ok st addr b (an_rangeOpt_isSome hb.1 hb.2.1)
        have h2 := fun st τ => an_checkExpression_ok addr st τ hb.2.1
        have h3 := fun st τ => an_checkExpression_ok b st τ hb.2.2
        unfold checkSource
        an_walk
    | .inorder r srcs, st, hb => by
        simp only [Source.Benign] at hb
        have h0 := fun st => an_sourceHead_ok st (.inorder r srcs) ⟨r, rfl⟩
        have h1 := fun st => an_checkSourceList_ok srcs st hb
        unfold checkSource
        an_walk
    | .capped r cap src, st, hb => by
        simp only [Source.Benign] at hb
        have h0 := fun st => an_sourceHead_ok st (.capped r cap src) ⟨r, rfl⟩
        have h1 := fun st τ => an_checkExpression_ok cap st τ hb.1
        have h2 := fun st => an_checkSource_ok src st hb.2
        unfold checkSource
        an_walk
    | .allotment r items, st, hb => by
        simp only [Source.Benign] at hb
        have h0 := fun st => an_sourceHead_ok st (.allotment r items) ⟨r, rfl⟩
        have h1 := fun st acc w => an_checkSrcItems_ok items st acc w hb
        unfold checkSource
        an_walk
  theorem an_checkSourceList_ok : ∀ (ss : List Source) (st : CState), SourcesBenign ss →
      an_IsOk (checkSourceList st ss)
    | [], _, _ => by simp [checkSourceList]
    | s :: ss, st, hb => by
        simp only [SourcesBenign] at hb
        have h0 := fun st => an_checkSource_ok s st hb.1
        have h1 := fun st => an_checkSourceList_ok ss st hb.2
        unfold checkSourceList
        an_walk
  theorem an_checkSrcItems_ok : ∀ (items : List SrcItem) (st : CState) (acc : AllotAcc) (w : Range),
      SrcItemsBenign items → an_IsOk (checkSrcItems st items acc w)
    | [], _, _, _, _ => by simp [checkSrcItems]
    | (.mk _ a src) :: rest, st, acc, w, hb => by
        simp only [SrcItemsBenign] at hb
        have h0 := fun st acc l w => an_checkAllotValue_ok st acc a l w
        have h1 := fun st => an_checkSource_ok src st hb.2.1
        have h2 := fun st acc w => an_checkSrcItems_ok rest st acc w hb.2.2
        unfold checkSrcItems
        an_walk
end

mutual
  theorem an_checkDestination_ok : ∀ (d : Dest) (st : CState), d.Benign → an_IsOk (checkDestination st d)
    | .nil, _, _ => by simp [checkDestination]
    | .account e, st, hb => by
        simp only [Dest.Benign] at hb
        unfold checkDestination
        exact an_checkExpression_ok e st _ hb.2
    | .inorder _ clauses remaining, st, hb => by
        simp only [Dest.Benign] at hb
        have h0 := fun st => an_checkClauses_ok clauses st hb.1
        have h1 := fun st => an_checkKoD_ok remaining st hb.2
        unfold checkDestination
        an_walk
    | .allotment _ items, st, hb => by
        simp only [Dest.Benign] at hb
        have h0 := fun st acc w => an_checkDstItems_ok items st acc w hb
        unfold checkDestination
        an_walk
  theorem an_checkKoD_ok : ∀ (k : KoD) (st : CState), k.Benign → an_IsOk (checkKoD st k)
    | .nil, _, _ => by simp [checkKoD]
    | .kept _, _, _ => by simp [checkKoD]
    | .to d, st, hb => by
        simp only [KoD.Benign] at hb
        unfold checkKoD
        exact an_checkDestination_ok d st hb
  theorem an_checkClauses_ok : ∀ (cs : List DestClause) (st : CState), ClausesBenign cs →
      an_IsOk (checkClauses st cs)
    | [], _, _ => by simp [checkClauses]
    | (.mk _ cap to) :: rest, st, hb => by
        simp only [ClausesBenign] at hb
        have h0 := fun st τ => an_checkExpression_ok cap st τ hb.1
        have h1 := fun st => an_checkKoD_ok to st hb.2.1
        have h2 := fun st => an_checkClauses_ok rest st hb.2.2
        unfold checkClauses
        an_walk
  theorem an_checkDstItems_ok : ∀ (items : List DestItem) (st : CState) (acc : AllotAcc) (w : Range),
      DstItemsBenign items → an_IsOk (checkDstItems st items acc w)
    | [], _, _, _, _ => by simp [checkDstItems]
    | (.mk _ a to) :: rest, st, acc, w, hb => by
        simp only [DstItemsBenign] at hb
        have h0 := fun st acc l w => an_checkAllotValue_ok st acc a l w
        have h1 := fun st => an_checkKoD_ok to st hb.2.1
        have h2 := fun st acc w => an_checkDstItems_ok rest st acc w hb.2.2
        unfold checkDstItems
        an_walk
end

theorem an_checkStatement_ok (st : CState) (s : Statement) (hb : s.Benign) :
    an_IsOk (checkStatement st s) := by
  cases s with
  | nil => simp [checkStatement]
  | fnCallNil => simp [Statement.Benign] at hb
  | send _ sv src dst =>
      simp only [Statement.Benign] at hb
      have h0 := fun st => an_checkSentValue_ok st sv hb.1
      have h1 := fun st => an_checkSource_ok src st hb.2.1
      have h2 := fun st => an_checkDestination_ok dst st hb.2.2
      simp only [checkStatement]
      an_walk
  | save _ sv amount =>
      simp only [Statement.Benign] at hb
      have h0 := fun st => an_checkSentValue_ok st sv hb.1
      have h1 := fun st τ => an_checkExpression_ok amount st τ hb.2
      simp only [checkStatement]
      an_walk
  | fnCall fn =>
      simp only [Statement.Benign] at hb
      unfold checkStatement
      exact an_checkFnCallArity_ok _ fn hb

theorem an_checkVarOrigin_ok (st : CState) (fn : FnCall) (d : VarDecl) (hb : ExprsBenign fn.args) :
    an_IsOk (checkVarOrigin st fn d) := by
  have h0 := fun st => an_checkFnCallArity_ok st fn hb
  unfold checkVarOrigin
  an_walk

theorem an_checkVarDecl_ok (st : CState) (d : VarDecl) (hb : d.Benign) :
    an_IsOk (checkVarDecl st d) := by
  have h0 := fun st fn (h : d.origin = some fn) => an_checkVarOrigin_ok st fn d (hb.2 fn h)
  unfold checkVarDecl
  an_walk

theorem an_checkVarDecls_ok : ∀ (ds : List VarDecl) (st : CState), VarDeclsBenign ds →
    an_IsOk (checkVarDecls st ds)
  | [], _, _ => by simp [checkVarDecls]
  | d :: ds, st, hb => by
      have h0 := fun st => an_checkVarDecl_ok st d hb.1
      have h1 := fun st => an_checkVarDecls_ok ds st hb.2
      unfold checkVarDecls
      an_walk

theorem an_checkStatements_ok : ∀ (ss : List Statement) (st : CState), StatementsBenign ss →
    an_IsOk (checkStatements st ss)
  | [], _, _ => by simp [checkStatements]
  | s :: ss, st, hb => by
      have h0 := fun st => an_checkStatement_ok st s hb.1
      have h1 := fun st => an_checkStatements_ok ss st hb.2
      unfold checkStatements
      an_walk

theorem an_checkProgram_ok (pd : List Diag) (prog : Program) (hb : prog.Benign) :
    an_IsOk (checkProgram pd prog) := by
  have h0 := fun st => an_checkVarDecls_ok prog.vars st hb.1
  have h1 := fun st => an_checkStatements_ok prog.stmts st hb.2
  unfold checkProgram
  an_walk

/-! ### what the checker does to its state -/

/-- what later states keep of earlier ones: diagnostics are only appended, declarations are
    untouched, and resolutions are only added, each one a copy of a declaration -/
def an_Ext (a b : CState) : Prop :=
  (∃ rest, b.diags = a.diags ++ rest) ∧ b.declared = a.declared ∧
  (∀ p ∈ b.varRes, p ∈ a.varRes ∨ ∃ q ∈ a.declared, q.2 = p.2)

theorem an_ext_refl (a : CState) : an_Ext a a :=
  ⟨⟨[], by simp⟩, rfl, fun p hp => Or.inl hp⟩

theorem an_ext_trans {a b c : CState} (h1 : an_Ext a b) (h2 : an_Ext b c) : an_Ext a c := by
  obtain ⟨⟨r1, hd1⟩, hc1, hv1⟩ := h1
  obtain ⟨⟨r2, hd2⟩, hc2, hv2⟩ := h2
  refine ⟨⟨r1 ++ r2, by rw [hd2, hd1, List.append_assoc]⟩, hc2.trans hc1, fun p hp => ?_⟩
  rcases hv2 p hp with h | ⟨q, hq, hqp⟩
  · exact hv1 p h
  · exact Or.inr ⟨q, hc1 ▸ hq, hqp⟩

theorem an_ext_push (a : CState) (r : Range) (k : DiagKind) : an_Ext a (a.push r k) :=
  ⟨⟨[⟨r, k⟩], rfl⟩, rfl, fun _ hp => Or.inl hp⟩

/-- updates of the other fields are invisible -/
theorem an_ext_mk (a : CState) (u f e b1 b2) :
    an_Ext a ⟨a.diags, a.declared, u, a.varRes, f, e, b1, b2⟩ := an_ext_refl a

theorem an_ext_enterCapped (a : CState) : an_Ext a (enterCapped a) := an_ext_refl a

theorem an_ext_exitCapped (a b : CState) : an_Ext a (exitCapped a b) := an_ext_refl a

/-- split every match of the goal, then chain the extension facts -/
macro "an_ewalk" : tactic =>
  `(tactic| (repeat' (first | split | dsimp only)) <;>
      grind [an_ext_trans, an_ext_refl, an_ext_push, an_ext_mk, an_ext_enterCapped, an_ext_exitCapped])

theorem an_assertHasType_ext (st : CState) (ro : Option Range) (req act : String) (st' : CState) :
    assertHasType st ro req act = .ok st' → an_Ext st st' := by
  unfold assertHasType
  an_ewalk

theorem an_lookupDecl_mem {st : CState} {name : String} {d : VarDecl} (h : lookupDecl st name = some d) :
    ∃ q ∈ st.declared, q.2 = d := by
  unfold lookupDecl at h
  rw [Option.map_eq_some_iff] at h
  obtain ⟨q, hq, rfl⟩ := h
  exact ⟨q, List.mem_of_find?_eq_some hq, rfl⟩

theorem an_ext_varRes {st : CState} {name : String} {d : VarDecl} (h : lookupDecl st name = some d)
    (k : Range × String) : an_Ext st { st with varRes := (k, d) :: st.varRes } := by
  refine ⟨⟨[], by simp⟩, rfl, fun p hp => ?_⟩
  rcases List.mem_cons.mp hp with rfl | hp
  · exact Or.inr (an_lookupDecl_mem h)
  · exact Or.inl hp

theorem an_checkExpression_ext : ∀ (e : Expr) (st : CState) (τ : String) (st' : CState),
    checkExpression st e τ = .ok st' → an_Ext st st'
  | .nil, st, τ, st' => by unfold checkExpression; an_ewalk
  | .monetaryNil, st, τ, st' => by unfold checkExpression; an_ewalk
  | .var r name, st, τ, st' => by
      have h0 := an_assertHasType_ext
      have h1 := @an_ext_varRes st name
      unfold checkExpression
      an_ewalk
  | .asset _ _, st, τ, st' => by have h0 := an_assertHasType_ext; unfold checkExpression; an_ewalk
  | .account _ _, st, τ, st' => by have h0 := an_assertHasType_ext; unfold checkExpression; an_ewalk
  | .str _ _, st, τ, st' => by have h0 := an_assertHasType_ext; unfold checkExpression; an_ewalk
  | .number _ _, st, τ, st' => by have h0 := an_assertHasType_ext; unfold checkExpression; an_ewalk
  | .ratio _ _ _, st, τ, st' => by
      have h0 := an_assertHasType_ext
      unfold checkExpression checkRatioLiteral
      an_ewalk
  | .monetary r a n, st, τ, st' => by
      have h0 := an_assertHasType_ext
      have ha := an_checkExpression_ext a
      have hn := an_checkExpression_ext n
      unfold checkExpression
      an_ewalk
  | .infix _ _ l r, st, τ, st' => by
      have h0 := an_assertHasType_ext
      have hl := an_checkExpression_ext l
      have hr := an_checkExpression_ext r
      unfold checkExpression
      an_ewalk

theorem an_checkExpressions_ext : ∀ (l : List (Expr × String)) (st st' : CState),
    checkExpressions st l = .ok st' → an_Ext st st'
  | [], st, st' => by unfold checkExpressions; an_ewalk
  | (e, t) :: rest, st, st' => by
      have hrest := an_checkExpressions_ext rest
      have he := an_checkExpression_ext e
      unfold checkExpressions
      an_ewalk

theorem an_checkFnCallArity_ext (st : CState) (fn : FnCall) (st' : CState) :
    checkFnCallArity st fn = .ok st' → an_Ext st st' := by
  have h0 := an_checkExpressions_ext
  unfold checkFnCallArity
  an_ewalk

theorem an_checkSentValue_ext (st : CState) (sv : SentValue) (st' : CState) :
    checkSentValue st sv = .ok st' → an_Ext st st' := by
  have h0 := an_checkExpression_ext
  unfold checkSentValue
  an_ewalk

theorem an_foldl_push_ext {β : Type} (f : β → Range) (g : β → DiagKind) : ∀ (l : List β) (st : CState),
    an_Ext st (l.foldl (fun s x => s.push (f x) (g x)) st)
  | [], st => an_ext_refl st
  | _ :: l, st => an_ext_trans (an_ext_push st _ _) (an_foldl_push_ext f g l _)

theorem an_ext_ite {a x y : CState} {c : Prop} [Decidable c] (hx : an_Ext a x) (hy : an_Ext a y) :
    an_Ext a (if c then x else y) := by
  split <;> assumption

theorem an_checkHasBadAllotmentSum_ext (st : CState) (sum : Rat) (rng : Range) (remaining : Option Range)
    (vl : List Range) : an_Ext st (checkHasBadAllotmentSum st sum rng remaining vl) := by
  have h0 := an_foldl_push_ext (fun r => r) (fun _ => DiagKind.fixedPortionVariable 0) vl st
  unfold checkHasBadAllotmentSum
  refine an_ext_ite ?_ (an_ext_ite (an_ext_refl _) (an_ext_ite ?_ (an_ext_push _ _ _)))
  · cases remaining with
    | none => exact h0
    | some rr => exact an_ext_trans h0 (an_ext_push _ _ _)
  · split
    · exact an_ext_push _ _ _
    · exact an_ext_refl _

theorem an_checkAllotValue_ext (st : CState) (acc : AllotAcc) (a : AllotVal) (isLast : Bool)
    (whole : Range) (st' : CState) (acc' : AllotAcc) :
    checkAllotValue st acc a isLast whole = .ok (st', acc') → an_Ext st st' := by
  have h0 := an_checkExpression_ext
  unfold checkAllotValue checkRatioLiteral
  an_ewalk

theorem an_sourceHead_ext (st : CState) (src : Source) (st' : CState) :
    sourceHead st src = .ok st' → an_Ext st st' := by
  unfold sourceHead
  an_ewalk

theorem an_checkSourceAccountLit_ext (st : CState) (e : Expr) : an_Ext st (checkSourceAccountLit st e) := by
  unfold checkSourceAccountLit
  an_ewalk

theorem an_checkOverdraftHead_ext (st : CState) (addr : Expr) (bounded : Option Expr) (st' : CState) :
    checkOverdraftHead st addr bounded = .ok st' → an_Ext st st' := by
  intro h
  unfold checkOverdraftHead at h
  extract_lets isWorld st1 st2 at h
  have e1 : an_Ext st st1 := by
    simp only [st1]
    split
    · exact an_ext_ite (an_ext_push _ _ _) (an_ext_refl _)
    · exact an_ext_refl _
  have e2 : an_Ext st1 st2 := an_ext_ite (an_ext_refl _) (an_ext_refl _)
  have e3 := an_ext_trans e1 e2
  split at h
  · split at h
    · rw [← Outcome.ok.inj h]; exact an_ext_trans e3 (an_ext_push _ _ _)
    · cases h
  · rw [← Outcome.ok.inj h]; exact e3

mutual
  theorem an_checkSource_ext : ∀ (s : Source) (st st' : CState), checkSource st s = .ok st' → an_Ext st st'
    | .nil, st, st' => by unfold checkSource; an_ewalk
    | .account e, st, st' => by
        have h0 := an_sourceHead_ext
        have h1 := an_checkExpression_ext e
        have h2 := an_checkSourceAccountLit_ext
        unfold checkSource
        an_ewalk
    | .overdraft r addr bounded, st, st' => by
        have h0 := an_sourceHead_ext
        have h1 := an_checkExpression_ext
        have h2 := an_checkOverdraftHead_ext
        unfold checkSource
        an_ewalk
    | .inorder r srcs, st, st' => by
        have h0 := an_sourceHead_ext
        have h1 := an_checkSourceList_ext srcs
        unfold checkSource
        an_ewalk
    | .capped r cap src, st, st' => by
        have h0 := an_sourceHead_ext
        have h1 := an_checkExpression_ext cap
        have h2 := an_checkSource_ext src
        unfold checkSource
        an_ewalk
    | .allotment r items, st, st' => by
        have h0 := an_sourceHead_ext
        have h1 := an_checkSrcItems_ext items
        have h2 := an_checkHasBadAllotmentSum_ext
        unfold checkSource
        an_ewalk
  theorem an_checkSourceList_ext : ∀ (ss : List Source) (st st' : CState),
      checkSourceList st ss = .ok st' → an_Ext st st'
    | [], st, st' => by unfold checkSourceList; an_ewalk
    | s :: ss, st, st' => by
        have h0 := an_checkSource_ext s
        have h1 := an_checkSourceList_ext ss
        unfold checkSourceList
        an_ewalk
  theorem an_checkSrcItems_ext : ∀ (items : List SrcItem) (st : CState) (acc : AllotAcc) (w : Range)
      (st' : CState) (acc' : AllotAcc), checkSrcItems st items acc w = .ok (st', acc') → an_Ext st st'
    | [], st, acc, w, st', acc' => by unfold checkSrcItems; an_ewalk
    | (.mk _ a src) :: rest, st, acc, w, st', acc' => by
        have h0 := an_checkAllotValue_ext
        have h1 := an_checkSource_ext src
        have h2 := an_checkSrcItems_ext rest
        unfold checkSrcItems
        an_ewalk
end

mutual
  theorem an_checkDestination_ext : ∀ (d : Dest) (st st' : CState),
      checkDestination st d = .ok st' → an_Ext st st'
    | .nil, st, st' => by unfold checkDestination; an_ewalk
    | .account e, st, st' => by
        have h1 := an_checkExpression_ext e
        unfold checkDestination
        an_ewalk
    | .inorder _ clauses remaining, st, st' => by
        have h0 := an_checkClauses_ext clauses
        have h1 := an_checkKoD_ext remaining
        unfold checkDestination
        an_ewalk
    | .allotment _ items, st, st' => by
        have h1 := an_checkDstItems_ext items
        have h2 := an_checkHasBadAllotmentSum_ext
        unfold checkDestination
        an_ewalk
  theorem an_checkKoD_ext : ∀ (k : KoD) (st st' : CState), checkKoD st k = .ok st' → an_Ext st st'
    | .nil, st, st' => by unfold checkKoD; an_ewalk
    | .kept _, st, st' => by unfold checkKoD; an_ewalk
    | .to d, st, st' => by
        have h0 := an_checkDestination_ext d
        unfold checkKoD
        an_ewalk
  theorem an_checkClauses_ext : ∀ (cs : List DestClause) (st st' : CState),
      checkClauses st cs = .ok st' → an_Ext st st'
    | [], st, st' => by unfold checkClauses; an_ewalk
    | (.mk _ cap to) :: rest, st, st' => by
        have h0 := an_checkExpression_ext cap
        have h1 := an_checkKoD_ext to
        have h2 := an_checkClauses_ext rest
        unfold checkClauses
        an_ewalk
  theorem an_checkDstItems_ext : ∀ (items : List DestItem) (st : CState) (acc : AllotAcc) (w : Range)
      (st' : CState) (acc' : AllotAcc), checkDstItems st items acc w = .ok (st', acc') → an_Ext st st'
    | [], st, acc, w, st', acc' => by unfold checkDstItems; an_ewalk
    | (.mk _ a to) :: rest, st, acc, w, st', acc' => by
        have h0 := an_checkAllotValue_ext
        have h1 := an_checkKoD_ext to
        have h2 := an_checkDstItems_ext rest
        unfold checkDstItems
        an_ewalk
end

theorem an_checkStatement_ext (st : CState) (s : Statement) (st' : CState) :
    checkStatement st s = .ok st' → an_Ext st st' := by
  have h0 := an_checkSentValue_ext
  have h1 := an_checkSource_ext
  have h2 := an_checkDestination_ext
  have h3 := an_checkExpression_ext
  have h4 := an_checkFnCallArity_ext
  unfold checkStatement
  an_ewalk

theorem an_checkVarOrigin_ext (st : CState) (fn : FnCall) (d : VarDecl) (st' : CState) :
    checkVarOrigin st fn d = .ok st' → an_Ext st st' := by
  have h0 := an_assertHasType_ext
  have h4 := an_checkFnCallArity_ext
  unfold checkVarOrigin
  an_ewalk

theorem an_checkStatements_ext : ∀ (ss : List Statement) (st st' : CState),
    checkStatements st ss = .ok st' → an_Ext st st'
  | [], st, st' => by unfold checkStatements; an_ewalk
  | s :: ss, st, st' => by
      have h0 := an_checkStatement_ext
      have h1 := an_checkStatements_ext ss
      unfold checkStatements
      an_ewalk

/-! ### the invariant: every declaration the state knows has a name and a type -/

def an_Good (d : VarDecl) : Prop := d.name.isSome ∧ d.type.isSome

def an_Inv (st : CState) : Prop :=
  (∀ p ∈ st.declared, an_Good p.2) ∧ (∀ p ∈ st.varRes, an_Good p.2)

theorem an_ext_inv {a b : CState} (h : an_Ext a b) (hi : an_Inv a) : an_Inv b := by
  obtain ⟨_, hc, hv⟩ := h
  refine ⟨fun p hp => hi.1 p (hc ▸ hp), fun p hp => ?_⟩
  rcases hv p hp with h | ⟨q, hq, hqp⟩
  · exact hi.2 p h
  · exact hqp ▸ hi.1 q hq

theorem an_ext_diags {a b : CState} (h : an_Ext a b) : ∃ rest, b.diags = a.diags ++ rest := h.1

/-- one step of the declaration loop: diagnostics are appended, the invariant is kept on benign input -/
def an_Step (hyp : Prop) (a b : CState) : Prop :=
  (∃ rest, b.diags = a.diags ++ rest) ∧ (hyp → an_Inv a → an_Inv b)

theorem an_step_of_ext {hyp : Prop} {a b : CState} (h : an_Ext a b) : an_Step hyp a b :=
  ⟨h.1, fun _ => an_ext_inv h⟩

theorem an_step_trans {h1 h2 : Prop} {a b c : CState} (s1 : an_Step h1 a b) (s2 : an_Step h2 b c) :
    an_Step (h1 ∧ h2) a c := by
  obtain ⟨⟨r1, hd1⟩, hi1⟩ := s1
  obtain ⟨⟨r2, hd2⟩, hi2⟩ := s2
  exact ⟨⟨r1 ++ r2, by rw [hd2, hd1, List.append_assoc]⟩, fun h hi => hi2 h.2 (hi1 h.1 hi)⟩

theorem an_checkVarDecl_step (st : CState) (d : VarDecl) (st' : CState)
    (h : checkVarDecl st d = .ok st') : an_Step d.Benign st st' := by
  unfold checkVarDecl at h
  extract_lets st1 st2 at h
  have e1 : an_Ext st st1 := by
    simp only [st1]
    split
    · exact an_ext_ite (an_ext_refl _) (an_ext_push _ _ _)
    · exact an_ext_refl _
  have e2 : ∀ st3, st2 = .ok st3 → an_Ext st st3 := by
    intro st3 h3
    simp only [st2] at h3
    split at h3
    · exact an_ext_trans e1 (an_checkVarOrigin_ext _ _ _ _ h3)
    · rw [← Outcome.ok.inj h3]; exact e1
  generalize st2 = o at h e2
  cases o with
  | panic _ => cases h
  | err _ => cases h
  | ok st3 =>
    have e3 := e2 st3 rfl
    dsimp only at h
    split at h
    · rename_i r name hname
      split at h
      · rw [← Outcome.ok.inj h]; exact an_step_of_ext (an_ext_trans e3 (an_ext_push _ _ _))
      · rw [← Outcome.ok.inj h]
        refine ⟨by simpa using e3.1, fun hb hi => ?_⟩
        have hi3 := an_ext_inv e3 hi
        refine ⟨fun p hp => ?_, hi3.2⟩
        rcases List.mem_append.mp hp with hp | hp
        · exact hi3.1 p hp
        · rw [List.mem_singleton] at hp
          subst hp
          exact ⟨by simp [hname], hb.1 (by simp [hname])⟩
    · rw [← Outcome.ok.inj h]; exact an_step_of_ext e3

theorem an_checkVarDecls_step : ∀ (ds : List VarDecl) (st st' : CState),
    checkVarDecls st ds = .ok st' → an_Step (VarDeclsBenign ds) st st'
  | [], st, st', h => by
      unfold checkVarDecls at h
      rw [← Outcome.ok.inj h]
      exact an_step_of_ext (an_ext_refl _)
  | d :: ds, st, st', h => by
      unfold checkVarDecls at h
      split at h
      · cases h
      · cases h
      · rename_i st1 h1
        exact an_step_trans (an_checkVarDecl_step st d st1 h1) (an_checkVarDecls_step ds st1 st' h)

theorem an_checkProgram_step (pd : List Diag) (prog : Program) (st : CState)
    (h : checkProgram pd prog = .ok st) :
    (∃ rest, st.diags = pd ++ rest) ∧ (prog.Benign → an_Inv st) := by
  unfold checkProgram at h
  split at h
  · cases h
  · cases h
  · rename_i st1 h1
    split at h
    · cases h
    · cases h
    · rename_i st2 h2
      have s1 := an_checkVarDecls_step _ _ _ h1
      have e2 := an_checkStatements_ext _ _ _ h2
      have e3 := an_foldl_push_ext (fun p : String × Range => p.2) (fun p => DiagKind.unusedVar p.1)
        st2.unused st2
      rw [← Outcome.ok.inj h]
      have s := an_step_trans s1 (an_step_of_ext (hyp := True) (an_ext_trans e2 e3))
      exact ⟨s.1, fun hb => s.2 ⟨hb.1, trivial⟩ ⟨by simp, by simp⟩⟩

/-! ### consumers of the checked state -/

theorem an_getSymbols_fold_ok : ∀ (l : List (String × VarDecl)) (acc : List (String × String × Range)),
    (∀ p ∈ l, an_Good p.2) →
    an_IsOk (l.foldl (fun (acc : Outcome (List (String × String × Range))) p =>
      match acc with
      | .ok l =>
          match p.2.type, p.2.name with
          | some (_, t), some (r, _) => .ok (l ++ [(p.1, t, r)])
          | none, _ => .panic "GetSymbols:nil Type"
          | _, none => .panic "GetSymbols:nil Name"
      | other => other) (.ok acc))
  | [], acc, _ => by simp
  | p :: l, acc, h => by
      obtain ⟨hn, ht⟩ := h p (by simp)
      obtain ⟨⟨nr, n⟩, hn⟩ := Option.isSome_iff_exists.mp hn
      obtain ⟨⟨tr, t⟩, ht⟩ := Option.isSome_iff_exists.mp ht
      rw [List.foldl_cons]
      simp only [hn, ht]
      exact an_getSymbols_fold_ok l _ (fun q hq => h q (by simp [hq]))

theorem an_getSymbols_ok (st : CState) (hi : an_Inv st) : an_IsOk (getSymbols st) :=
  an_getSymbols_fold_ok st.declared [] hi.1

theorem an_resolveVar_good {st : CState} (hi : an_Inv st) {r : Range} {name : String} {d : VarDecl}
    (h : resolveVar st r name = some d) : an_Good d := by
  unfold resolveVar at h
  rw [Option.map_eq_some_iff] at h
  obtain ⟨q, hq, rfl⟩ := h
  exact hi.2 q (List.mem_of_find?_eq_some hq)

theorem an_gotoDefinition_ok (prog : Program) (st : CState) (pos : Pos) (hi : an_Inv st)
    (hh : an_IsOk (hoverOn prog pos)) : an_IsOk (gotoDefinition prog st pos) := by
  obtain ⟨o, ho⟩ := hh
  unfold gotoDefinition
  rw [ho]
  split
  · simp_all
  · simp_all
  · rename_i r name h
    cases hr : resolveVar st r name with
    | none => simp
    | some d =>
        obtain ⟨⟨nr, n⟩, hn⟩ := Option.isSome_iff_exists.mp (an_resolveVar_good hi hr).1
        simp [hn]
  · simp

theorem an_lspHover_ok (prog : Program) (st : CState) (pos : Pos) (hi : an_Inv st)
    (hh : an_IsOk (hoverOn prog pos)) : an_IsOk (lspHover prog st pos) := by
  obtain ⟨o, ho⟩ := hh
  unfold lspHover
  rw [ho]
  split
  · simp_all
  · simp_all
  · simp
  · rename_i r name h
    cases hr : resolveVar st r name with
    | none => simp
    | some d =>
        obtain ⟨⟨tr, t⟩, ht⟩ := Option.isSome_iff_exists.mp (an_resolveVar_good hi hr).2
        simp [ht]
  · an_walk

/-! ### complete trees are benign -/

theorem an_complete_benign : ∀ (e : Expr), e.Complete → e.Benign
  | .nil, h => by simp [Expr.Complete] at h
  | .monetaryNil, h => by simp [Expr.Complete] at h
  | .var _ _, _ => trivial
  | .asset _ _, _ => trivial
  | .account _ _, _ => trivial
  | .str _ _, _ => trivial
  | .number _ _, _ => trivial
  | .ratio _ _ _, _ => trivial
  | .monetary _ a n, h => ⟨an_complete_benign a h.1, an_complete_benign n h.2⟩
  | .infix _ _ l r, h => ⟨an_complete_benign l h.1, an_complete_benign r h.2⟩

end NS
