/-
  Proofs/DistributeLemmas.lean — helper lemmas for property C05 (ordered / allotted
  distribution): the interpreter's destination functions refine `distribute`.
-/
import Spec.Distribute
import Proofs.AllotLemmas

namespace NS

/-! ## small algebra -/

/-- queue the non-zero part of a distribution behind `rcv` -/
def appendNZ (rcv : Receivers) : Outcome Pulls → Outcome Receivers
  | .ok l => .ok (rcv ++ nonzero l)
  | .err e => .err e
  | .panic s => .panic s

def appendNZ2 (rcv : Receivers) : Outcome (Int × Pulls) → Outcome (Int × Receivers)
  | .ok (left, l) => .ok (left, rcv ++ nonzero l)
  | .err e => .err e
  | .panic s => .panic s

theorem pushReceiver_eq (rcv : Receivers) (a : String) (m : Int) :
    pushReceiver rcv a m = rcv ++ nonzero [(a, m)] := by
  unfold pushReceiver nonzero
  by_cases h : m = 0 <;> simp [h]

theorem nonzero_append (l1 l2 : Pulls) : nonzero (l1 ++ l2) = nonzero l1 ++ nonzero l2 := by
  simp [nonzero]

theorem nonzero_nil : nonzero [] = [] := rfl

theorem makeAllotment_eq (vars : Vars) (n : Int) (items : List AllotVal) :
    makeAllotment vars n items = (evalAllotItems vars items >>= fun qs => allotOf n qs) := by
  unfold makeAllotment allotOf
  rfl

/-! ## lengths -/

theorem evalAllotItems_length (vars : Vars) (items : List AllotVal) (qs : List (Option Rat))
    (h : evalAllotItems vars items = .ok qs) : qs.length = items.length := by
  induction items generalizing qs with
  | nil => simp [evalAllotItems] at h; subst h; rfl
  | cons a rest ih =>
    cases a with
    | nil => simp [evalAllotItems] at h
    | remaining r =>
      simp only [evalAllotItems] at h
      obtain ⟨tl, h1, h2⟩ := Outcome.bind_eq_ok h
      simp at h2; subst h2
      simp [ih tl h1]
    | portion e =>
      simp only [evalAllotItems] at h
      obtain ⟨q, _, h'⟩ := Outcome.bind_eq_ok h
      obtain ⟨tl, h1, h2⟩ := Outcome.bind_eq_ok h'
      simp at h2; subst h2
      simp [ih tl h1]

theorem fillRemaining_length (r : Rat) (qs : List (Option Rat)) :
    (fillRemaining r qs).length = qs.length := by
  induction qs with
  | nil => rfl
  | cons q qs ih => cases q <;> simp [fillRemaining, ih]

theorem allotParts_length (n : Int) (ps : List Rat) : (allotParts n ps).length = ps.length := by
  unfold allotParts
  simp [bump_length]

theorem allotOf_length (n : Int) (qs : List (Option Rat)) (parts : List Int)
    (h : allotOf n qs = .ok parts) : parts.length = qs.length := by
  unfold allotOf at h
  simp only at h
  split at h
  · split at h
    · cases h
    · cases h; simp [allotParts_length, fillRemaining_length]
  · split at h
    · cases h
    · cases h; simp [allotParts_length, fillRemaining_length]

theorem resolveDItems_length (vars : Vars) (asset : String) (items : List DestItem) (tos : List RKoD)
    (h : resolveDItems vars asset items = .ok tos) : tos.length = items.length := by
  induction items generalizing tos with
  | nil => simp [resolveDItems] at h; subst h; rfl
  | cons it rest ih =>
    cases it with
    | mk r a kd =>
      simp only [resolveDItems] at h
      split at h <;> try cases h
      split at h <;> try cases h
      rename_i ts hts
      simp [ih ts hts]

/-! ## refinement -/

mutual
  theorem receiveFrom_refines (env : Env) : (dst : Dest) → (r : RDest) → (n : Int) → (rcv : Receivers) →
      resolveD env.vars env.asset dst = .ok r →
      receiveFrom env dst n rcv = appendNZ rcv (distribute r n)
    | .nil, r, n, rcv, hr => by simp [resolveD] at hr
    | .account e, r, n, rcv, hr => by
        simp only [resolveD] at hr
        split at hr <;> try cases hr
        rename_i a ha
        simp only [receiveFrom, ha, distribute, appendNZ, pushReceiver_eq]
    | .inorder _ clauses remaining, r, n, rcv, hr => by
        simp only [resolveD] at hr
        split at hr <;> try cases hr
        rename_i caps tos hcl
        split at hr <;> try cases hr
        rename_i rest hrest
        have h1 := receiveClauses_refines env clauses caps tos n rcv hcl
        simp only [receiveFrom, distribute, h1]
        cases hd : distClauses caps tos n with
        | err e => simp [appendNZ2, appendNZ]
        | panic s => simp [appendNZ2, appendNZ]
        | ok p =>
          obtain ⟨left, l⟩ := p
          simp only [appendNZ2]
          by_cases hl : left = 0
          · simp [hl, appendNZ]
          · simp only [hl, if_false]
            rw [receiveKoD_refines env remaining rest left _ hrest]
            cases distKoD rest left <;> simp [appendNZ, nonzero_append]
    | .allotment _ items, r, n, rcv, hr => by
        simp only [resolveD] at hr
        split at hr <;> try cases hr
        rename_i qs hqs
        split at hr <;> try cases hr
        rename_i tos htos
        simp only [receiveFrom, distribute, makeAllotment_eq, hqs, Outcome.ok_bind]
        cases ha : allotOf n qs with
        | err e => simp [appendNZ]
        | panic s => simp [appendNZ]
        | ok parts =>
          simp only
          apply receiveAllotItems_refines env items tos parts rcv htos
          rw [allotOf_length n qs parts ha, evalAllotItems_length _ _ _ hqs]
          simp

  theorem receiveKoD_refines (env : Env) : (k : KoD) → (t : RKoD) → (n : Int) → (rcv : Receivers) →
      resolveKoD env.vars env.asset k = .ok t →
      receiveKoD env k n rcv = appendNZ rcv (distKoD t n)
    | .nil, t, n, rcv, hr => by simp [resolveKoD] at hr
    | .kept _, t, n, rcv, hr => by
        simp only [resolveKoD] at hr
        cases hr
        simp only [receiveKoD, distKoD, appendNZ, pushReceiver_eq]
    | .to d, t, n, rcv, hr => by
        simp only [resolveKoD] at hr
        split at hr <;> try cases hr
        rename_i r hd
        simp only [receiveKoD, distKoD]
        exact receiveFrom_refines env d r n rcv hd

  theorem receiveClauses_refines (env : Env) : (clauses : List DestClause) → (caps : List Int) →
      (tos : List RKoD) → (left : Int) → (rcv : Receivers) →
      resolveClauses env.vars env.asset clauses = .ok (caps, tos) →
      receiveClauses env clauses left rcv = appendNZ2 rcv (distClauses caps tos left)
    | [], caps, tos, left, rcv, hr => by
        simp only [resolveClauses] at hr
        cases hr
        simp [receiveClauses, distClauses, appendNZ2, nonzero_nil]
    | (.mk _ cap kd) :: rest, caps, tos, left, rcv, hr => by
        simp only [resolveClauses] at hr
        split at hr <;> try cases hr
        rename_i c hc
        split at hr <;> try cases hr
        rename_i t ht
        split at hr <;> try cases hr
        rename_i cs ts hrest
        simp only [receiveClauses, distClauses, hc]
        by_cases hl : left = 0
        · simp [hl, appendNZ2, nonzero_nil]
        · simp only [hl, if_false]
          by_cases hamt : min (max 0 c) left = 0
          · simp only [hamt, if_true]
            exact receiveClauses_refines env rest cs ts left rcv hrest
          · simp only [hamt, if_false]
            rw [receiveKoD_refines env kd t _ rcv ht]
            cases distKoD t (min (max 0 c) left) with
            | err e => simp [appendNZ, appendNZ2]
            | panic s => simp [appendNZ, appendNZ2]
            | ok l1 =>
              simp only [appendNZ]
              rw [receiveClauses_refines env rest cs ts _ _ hrest]
              cases distClauses cs ts (left - min (max 0 c) left) with
              | err e => simp [appendNZ2]
              | panic s => simp [appendNZ2]
              | ok p =>
                obtain ⟨left', l2⟩ := p
                simp [appendNZ2, nonzero_append]

  theorem receiveAllotItems_refines (env : Env) : (items : List DestItem) → (tos : List RKoD) →
      (parts : List Int) → (rcv : Receivers) →
      resolveDItems env.vars env.asset items = .ok tos → items.length ≤ parts.length →
      receiveAllotItems env items parts rcv = appendNZ rcv (distAllot tos parts)
    | [], tos, parts, rcv, hr, hlen => by
        simp only [resolveDItems] at hr
        cases hr
        simp [receiveAllotItems, distAllot, appendNZ, nonzero_nil]
    | (.mk _ _ kd) :: rest, tos, [], rcv, hr, hlen => by simp at hlen
    | (.mk _ _ kd) :: rest, tos, p :: ps, rcv, hr, hlen => by
        simp only [resolveDItems] at hr
        split at hr <;> try cases hr
        rename_i t ht
        split at hr <;> try cases hr
        rename_i ts hrest
        simp only [receiveAllotItems, distAllot]
        rw [receiveKoD_refines env kd t p rcv ht]
        cases distKoD t p with
        | err e => simp [appendNZ]
        | panic s => simp [appendNZ]
        | ok l1 =>
          simp only [appendNZ]
          rw [receiveAllotItems_refines env rest ts ps _ hrest (by simpa using hlen)]
          cases distAllot ts ps <;> simp [appendNZ, nonzero_append]
end

/-! ## a non-positive cap is skipped

  `distClauses (c :: cs) (t :: ts) left = distClauses cs ts left` for `c ≤ 0`, `0 ≤ left` fails
  when `left = 0` and the remaining lists have different lengths (left side: `ok (0, [])`,
  right side: panic); it holds for `0 < left`, and for `0 ≤ left` on parallel lists. -/

example : ¬ (distClauses (0 :: [1]) (RKoD.kept :: []) 0 = distClauses [1] [] 0) := by
  simp [distClauses]

theorem distClauses_zero (cs : List Int) (ts : List RKoD) (h : cs.length ≤ ts.length) :
    distClauses cs ts 0 = .ok (0, []) := by
  cases cs with
  | nil => simp [distClauses]
  | cons c cs =>
    cases ts with
    | nil => simp at h
    | cons t ts => simp [distClauses]

theorem distClauses_nonpositive_cap_skipped_pos (c : Int) (cs : List Int) (t : RKoD) (ts : List RKoD)
    (left : Int) (hc : c ≤ 0) (hl : 0 < left) :
    distClauses (c :: cs) (t :: ts) left = distClauses cs ts left := by
  have h1 : left ≠ 0 := by omega
  have h2 : min (max 0 c) left = 0 := by omega
  simp only [distClauses, h1, h2, if_false, if_true]

theorem distClauses_nonpositive_cap_skipped_parallel (c : Int) (cs : List Int) (t : RKoD) (ts : List RKoD)
    (left : Int) (hc : c ≤ 0) (hl : 0 ≤ left) (hlen : cs.length ≤ ts.length) :
    distClauses (c :: cs) (t :: ts) left = distClauses cs ts left := by
  by_cases h0 : left = 0
  · subst h0
    rw [distClauses_zero cs ts hlen]
    simp [distClauses]
  · exact distClauses_nonpositive_cap_skipped_pos c cs t ts left hc (by omega)

end NS
