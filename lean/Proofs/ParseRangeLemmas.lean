import Spec.ParseSpec
import Mathlib.Tactic.Order
import Spec.Names
import Proofs.SoundnessLemmas

namespace NS

/-! ### positions as a preorder -/

theorem pr_gtEq_iff (p q : Pos) :
    p.gtEq q = true ↔ q.line < p.line ∨ (q.line = p.line ∧ q.char ≤ p.char) := by
  unfold Pos.gtEq; split <;> simp <;> omega

instance pr_posPreorder : Preorder Pos where
  le a b := b.gtEq a = true
  le_refl a := by simp [pr_gtEq_iff]
  le_trans a b c := by simp only [pr_gtEq_iff]; omega

theorem pr_le_iff (p q : Pos) : p.gtEq q = true ↔ q ≤ p := Iff.rfl

theorem pr_rangeOf_s (a b : Tok) : (rangeOf a b).s = a.startPos := rfl
theorem pr_rangeOf_e (a b : Tok) : (rangeOf a b).e = b.endPos := rfl

theorem pr_within_iff (c p : Range) : c.within p ↔ p.s ≤ c.s ∧ c.e ≤ p.e := Iff.rfl
theorem pr_before_iff (a b : Range) : a.before b ↔ a.e ≤ b.s := Iff.rfl
theorem pr_wf_iff (r : Range) : r.wf ↔ r.s ≤ r.e := Iff.rfl

theorem pr_tok_lt (t : Tok) (h : t.text ≠ []) : t.startPos < t.endPos := by
  have hl : 0 < t.text.length := List.length_pos_iff.mpr h
  rw [lt_iff_le_not_ge]
  show t.endPos.gtEq t.startPos = true ∧ ¬ t.startPos.gtEq t.endPos = true
  simp [pr_gtEq_iff, Tok.startPos, Tok.endPos]
  omega

/-! ### sorted token streams -/

/-- every token of `ts` starts at or after `p` -/
def pr_LB (p : Pos) (ts : List Tok) : Prop := ∀ t ∈ ts, p ≤ t.startPos

theorem pr_LB.mono {p q : Pos} {ts : List Tok} (h : pr_LB p ts) (hq : q ≤ p) : pr_LB q ts :=
  fun t ht => le_trans hq (h t ht)

theorem pr_LB.tail {p : Pos} {t : Tok} {ts : List Tok} (h : pr_LB p (t :: ts)) : pr_LB p ts :=
  fun u hu => h u (List.mem_cons_of_mem _ hu)

theorem pr_LB.head {p : Pos} {t : Tok} {ts : List Tok} (h : pr_LB p (t :: ts)) : p ≤ t.startPos :=
  h t List.mem_cons_self

theorem pr_sorted_tail {t : Tok} {rest : List Tok} (h : TokensSorted (t :: rest)) : TokensSorted rest := by
  cases rest with
  | nil => trivial
  | cons b r => exact h.2.2

theorem pr_sorted_lt {t : Tok} {rest : List Tok} (h : TokensSorted (t :: rest)) : t.startPos < t.endPos := by
  cases rest with
  | nil => exact pr_tok_lt t h
  | cons b r => exact pr_tok_lt t h.1

theorem pr_sorted_lb : ∀ {rest : List Tok} {t : Tok}, TokensSorted (t :: rest) → pr_LB t.endPos rest
  | [], _, _ => fun _ h => by cases h
  | b :: r, t, h => by
      intro u hu
      have h1 : t.endPos ≤ b.startPos := h.2.1
      rcases List.mem_cons.mp hu with rfl | hu
      · exact h1
      · have h2 := pr_sorted_lb h.2.2 u hu
        have h3 := pr_sorted_lt h.2.2
        order

/-- result of a parser started with lower bound `p`: the node's range `r` lies between `p` and the end
    of `stop`, and everything left starts after `stop` -/
structure pr_Res (p : Pos) (r : Range) (stop : Tok) (rest : List Tok) : Prop where
  lo : p ≤ r.s
  wf : r.s ≤ r.e
  hi : r.e ≤ stop.endPos
  sorted : TokensSorted rest
  lb : pr_LB stop.endPos rest

theorem pr_Res.mono {p q : Pos} {r : Range} {stop : Tok} {rest : List Tok}
    (h : pr_Res p r stop rest) (hq : q ≤ p) : pr_Res q r stop rest :=
  ⟨le_trans hq h.lo, h.wf, h.hi, h.sorted, h.lb⟩

/-- the head token of a sorted stream -/
theorem pr_tok {p : Pos} {t : Tok} {rest : List Tok} (hs : TokensSorted (t :: rest)) (hl : pr_LB p (t :: rest)) :
    pr_Res p (rangeOf t t) t rest :=
  ⟨hl.head, le_of_lt (pr_sorted_lt hs), le_refl _, pr_sorted_tail hs, pr_sorted_lb hs⟩

theorem pr_expect {k : TK} {ts : List Tok} {t : Tok} {rest : List Tok} (h : expect k ts = some (t, rest)) :
    ts = t :: rest := by
  cases ts with
  | nil => simp [expect] at h
  | cons a r =>
      simp only [expect] at h
      split at h
      · cases h; rfl
      · cases h

theorem pr_expect_res {k : TK} {ts : List Tok} {t : Tok} {rest : List Tok} {p : Pos}
    (hs : TokensSorted ts) (hl : pr_LB p ts) (h : expect k ts = some (t, rest)) :
    pr_Res p (rangeOf t t) t rest := by
  cases pr_expect h
  exact pr_tok hs hl

theorem pr_tok_le (t : Tok) : t.startPos ≤ t.endPos := by
  show t.endPos.gtEq t.startPos = true
  simp [pr_gtEq_iff, Tok.startPos, Tok.endPos]

theorem pr_sorted_lb_self {t : Tok} {rest : List Tok} (h : TokensSorted (t :: rest)) :
    pr_LB t.startPos (t :: rest) := by
  intro u hu
  rcases List.mem_cons.mp hu with rfl | hu
  · exact le_refl _
  · exact le_trans (pr_tok_le t) (pr_sorted_lb h u hu)

/-- unfold the range vocabulary to `≤` on positions and close the goal by order reasoning -/
macro "pr_ord" : tactic =>
  `(tactic| (try simp only [Family, pr_within_iff, pr_before_iff, pr_wf_iff, pr_rangeOf_s, pr_rangeOf_e] at *
             (repeat' with_reducible apply And.intro) <;> order))

/-! ### expressions -/

theorem pr_range_monetary (r : Range) (a b : Expr) : (Expr.monetary r a b).range = r := rfl
theorem pr_range_infix (r : Range) (o : InfixOp) (a b : Expr) : (Expr.infix r o a b).range = r := rfl

theorem pr_portionExpr {t : Tok} {e : Expr} (h : portionExpr t = some e) :
    ∃ n d, e = .ratio (rangeOf t t) n d := by
  unfold portionExpr at h
  split at h
  · split at h
    · cases h; exact ⟨_, _, rfl⟩
    · cases h
  · split at h
    · split at h
      · cases h; exact ⟨_, _, rfl⟩
      · cases h
    · cases h

theorem pr_expr_inv (f : Nat) :
    (∀ ts p e stop rest, TokensSorted ts → pr_LB p ts → pExpr f ts = some (e, stop, rest) →
        pr_Res p e.range stop rest ∧ e.RangesOk) ∧
    (∀ ts p e stop rest, TokensSorted ts → pr_LB p ts → pPrimary f ts = some (e, stop, rest) →
        pr_Res p e.range stop rest ∧ e.RangesOk) ∧
    (∀ first l stop ts e stop' rest', pr_Res first.startPos l.range stop ts → l.RangesOk →
        pInfixTail f first l stop ts = some (e, stop', rest') →
        pr_Res first.startPos e.range stop' rest' ∧ e.RangesOk) := by
  induction f with
  | zero =>
      refine ⟨?_, ?_, ?_⟩
      · intro ts p e stop rest _ _ h; simp [pExpr] at h
      · intro ts p e stop rest _ _ h; simp [pPrimary] at h
      · intro first l stop ts e stop' rest' _ _ h; simp [pInfixTail] at h
  | succ f ih =>
      obtain ⟨ihE, ihP, ihT⟩ := ih
      refine ⟨?_, ?_, ?_⟩
      · intro ts p e stop rest hs hl h
        cases ts with
        | nil => simp [pExpr] at h
        | cons first tl =>
            simp only [pExpr] at h
            split at h
            · rename_i e1 s1 r1 h1
              obtain ⟨a1, a2⟩ := ihP _ _ _ _ _ hs (pr_sorted_lb_self hs) h1
              obtain ⟨b1, b2⟩ := ihT _ _ _ _ _ _ _ a1 a2 h
              exact ⟨b1.mono hl.head, b2⟩
            · cases h
      · intro ts p e stop rest hs hl h
        cases ts with
        | nil => simp [pPrimary] at h
        | cons t tl =>
            have ht := pr_tok hs hl
            have hwf : (rangeOf t t).wf := pr_tok_le t
            simp only [pPrimary] at h
            split at h
            · cases h; exact ⟨ht, hwf⟩
            · cases h; exact ⟨ht, hwf⟩
            · cases h; exact ⟨ht, hwf⟩
            · cases h; exact ⟨ht, hwf⟩
            · split at h
              · cases h; exact ⟨ht, hwf⟩
              · cases h
            · split at h
              · rename_i e1 h1
                cases h
                obtain ⟨n, d, rfl⟩ := pr_portionExpr h1
                exact ⟨ht, hwf⟩
              · cases h
            · split at h
              · rename_i e1 h1
                cases h
                obtain ⟨n, d, rfl⟩ := pr_portionExpr h1
                exact ⟨ht, hwf⟩
              · cases h
            · split at h
              · rename_i a sa r1 h1
                obtain ⟨⟨a1, a2, a3, a4, a5⟩, oka⟩ := ihE _ _ _ _ _ ht.sorted ht.lb h1
                split at h
                · rename_i b sb r2 h2
                  obtain ⟨⟨b1, b2, b3, b4, b5⟩, okb⟩ := ihE _ _ _ _ _ a4 a5 h2
                  split at h
                  · rename_i rb r3 h3
                    obtain ⟨c1, c2, c3, c4, c5⟩ := pr_expect_res b4 b5 h3
                    cases h
                    obtain ⟨t1, t2, t3, t4, t5⟩ := ht
                    simp only [Expr.RangesOk, pr_range_monetary]
                    refine ⟨⟨?_, ?_, ?_, c4, c5⟩, ?_, oka, okb⟩ <;> pr_ord
                  · cases h
                · cases h
              · cases h
            · cases h
      · intro first l stop ts e stop' rest' hres hok h
        cases ts with
        | nil => simp only [pInfixTail] at h; cases h; exact ⟨hres, hok⟩
        | cons op tl =>
            simp only [pInfixTail] at h
            split at h
            · split at h
              · rename_i r sr r1 h1
                have hop := pr_tok hres.sorted hres.lb
                obtain ⟨⟨a1, a2, a3, a4, a5⟩, okr⟩ := ihP _ _ _ _ _ hop.sorted hop.lb h1
                refine ihT _ _ _ _ _ _ _ ?_ ?_ h
                · obtain ⟨t1, t2, t3, t4, t5⟩ := hop
                  obtain ⟨l1, l2, l3, l4, l5⟩ := hres
                  simp only [pr_range_infix]
                  refine ⟨?_, ?_, ?_, a4, a5⟩ <;> pr_ord
                · obtain ⟨t1, t2, t3, t4, t5⟩ := hop
                  obtain ⟨l1, l2, l3, l4, l5⟩ := hres
                  simp only [Expr.RangesOk]
                  refine ⟨?_, hok, okr⟩
                  pr_ord
              · cases h
            · cases h; exact ⟨hres, hok⟩

/-! ### chains of ranges -/

/-- the ranges follow each other between `lo` and `hi`, none reversed -/
def pr_Chain (lo hi : Pos) : List Range → Prop
  | [] => lo ≤ hi
  | c :: rest => lo ≤ c.s ∧ c.s ≤ c.e ∧ pr_Chain c.e hi rest

theorem pr_Chain.le : ∀ {l : List Range} {lo hi : Pos}, pr_Chain lo hi l → lo ≤ hi
  | [], _, _, h => h
  | c :: rest, lo, hi, h => by
      have := pr_Chain.le h.2.2
      have h1 := h.1
      have h2 := h.2.1
      order

theorem pr_Chain.mono : ∀ {l : List Range} {lo hi lo' hi' : Pos}, pr_Chain lo hi l → lo' ≤ lo → hi ≤ hi' →
    pr_Chain lo' hi' l
  | [], _, _, _, _, h, h1, h2 => le_trans h1 (le_trans h h2)
  | _ :: _, _, _, _, _, h, h1, h2 => ⟨le_trans h1 h.1, h.2.1, pr_Chain.mono h.2.2 (le_refl _) h2⟩

theorem pr_Chain.append : ∀ {l1 l2 : List Range} {lo mid hi : Pos}, pr_Chain lo mid l1 → pr_Chain mid hi l2 →
    pr_Chain lo hi (l1 ++ l2)
  | [], _, _, _, _, h1, h2 => pr_Chain.mono h2 h1 (le_refl _)
  | _ :: _, _, _, _, _, h1, h2 => ⟨h1.1, h1.2.1, pr_Chain.append h1.2.2 h2⟩

theorem pr_Chain.single {lo hi : Pos} {r : Range} (h1 : lo ≤ r.s) (h2 : r.s ≤ r.e) (h3 : r.e ≤ hi) :
    pr_Chain lo hi [r] := ⟨h1, h2, h3⟩

theorem pr_Chain.family (P : Range) : ∀ {l : List Range} {lo hi : Pos}, pr_Chain lo hi l → P.s ≤ lo → hi ≤ P.e →
    Family P l
  | [], _, _, _, _, _ => trivial
  | [c], lo, hi, h, h1, h2 => by
      obtain ⟨a1, a2, a3⟩ := h
      have a3 : c.e ≤ hi := a3
      show P.s ≤ c.s ∧ c.e ≤ P.e
      constructor <;> order
  | c :: d :: rest, lo, hi, h, h1, h2 => by
      obtain ⟨a1, a2, a3⟩ := h
      have a4 := pr_Chain.le a3
      have a5 : c.e ≤ d.s := a3.1
      refine ⟨?_, a5, pr_Chain.family P a3 (by order) h2⟩
      show P.s ≤ c.s ∧ c.e ≤ P.e
      constructor <;> order

theorem pr_Chain.ordered : ∀ {l : List Range} {lo hi : Pos}, pr_Chain lo hi l → Ordered l
  | [], _, _, _ => trivial
  | [_], _, _, _ => trivial
  | _ :: _ :: _, _, _, h => ⟨h.2.2.1, pr_Chain.ordered h.2.2⟩

/-- every element of a chain lies between the bounds -/
theorem pr_Chain.mem : ∀ {l : List Range} {lo hi : Pos}, pr_Chain lo hi l → ∀ r ∈ l, lo ≤ r.s ∧ r.s ≤ r.e ∧ r.e ≤ hi
  | [], _, _, _, _, hr => by cases hr
  | c :: rest, lo, hi, h, r, hr => by
      obtain ⟨a1, a2, a3⟩ := h
      have a4 := pr_Chain.le a3
      rcases List.mem_cons.mp hr with rfl | hr
      · exact ⟨a1, a2, a4⟩
      · obtain ⟨b1, b2, b3⟩ := pr_Chain.mem a3 r hr
        exact ⟨by order, b2, b3⟩

/-! ### function calls -/

theorem pr_argsTail_inv : ∀ (f : Nat) (ts : List Tok) (p : Pos) (es : List Expr) (rest : List Tok),
    TokensSorted ts → pr_LB p ts → pArgsTail f ts = some (es, rest) →
    (∃ hi, pr_Chain p hi (es.map Expr.range) ∧ pr_LB hi rest) ∧ TokensSorted rest ∧ ExprsRangesOk es
  | 0, _, _, _, _, _, _, h => by simp [pArgsTail] at h
  | f + 1, ts, p, _, _, hs, hl, h => by
      simp only [pArgsTail] at h
      split at h
      · rename_i c r0 h0
        obtain ⟨c1, c2, c3, c4, c5⟩ := pr_expect_res hs hl h0
        split at h
        · rename_i e se r1 h1
          obtain ⟨⟨e1, e2, e3, e4, e5⟩, oke⟩ := (pr_expr_inv f).1 _ _ _ _ _ c4 c5 h1
          split at h
          · rename_i es' r2 h2
            obtain ⟨⟨hi, g1, g2⟩, g3, g4⟩ := pr_argsTail_inv f _ _ _ _ e4 e5 h2
            cases h
            refine ⟨⟨hi, ⟨?_, e2, pr_Chain.mono g1 e3 (le_refl _)⟩, g2⟩, g3, oke, g4⟩
            pr_ord
          · cases h
        · cases h
      · cases h
        exact ⟨⟨p, le_refl p, hl⟩, hs, trivial⟩

/-- a caller range: a non-empty range within the bounds -/
def pr_Call (lo hi : Pos) (r : Range) : Prop := lo ≤ r.s ∧ r.s < r.e ∧ r.e ≤ hi

theorem pr_fnCall_inv (f : Nat) (ts : List Tok) (p : Pos) (c : FnCall) (stop : Tok) (rest : List Tok)
    (hs : TokensSorted ts) (hl : pr_LB p ts) (h : pFnCall f ts = some (c, stop, rest)) :
    pr_Res p c.r stop rest ∧ c.RangesOk ∧ pr_Call c.r.s c.r.e c.callerRange := by
  unfold pFnCall at h
  split at h
  · rename_i name lp tl
    have hn := pr_tok hs hl
    have hlt := pr_sorted_lt hs
    have hp := pr_tok hn.sorted hn.lb
    obtain ⟨n1, n2, n3, n4, n5⟩ := hn
    split at h
    · split at h
      · rename_i rp r1 h1
        obtain ⟨q1, q2, q3, q4, q5⟩ := pr_expect_res hp.sorted hp.lb h1
        obtain ⟨p1, p2, p3, p4, p5⟩ := hp
        cases h
        simp only [FnCall.RangesOk, List.map_nil, pr_Call]
        refine ⟨⟨?_, ?_, ?_, q4, q5⟩, ⟨?_, trivial⟩, ?_, ?_, ?_⟩ <;> pr_ord
      · split at h
        · rename_i e se r1 h1
          obtain ⟨⟨e1, e2, e3, e4, e5⟩, oke⟩ := (pr_expr_inv f).1 _ _ _ _ _ hp.sorted hp.lb h1
          split at h
          · rename_i es r2 h2
            obtain ⟨⟨hi, g1, g2⟩, g3, g4⟩ := pr_argsTail_inv f _ _ _ _ e4 e5 h2
            split at h
            · rename_i rp r3 h3
              obtain ⟨q1, q2, q3, q4, q5⟩ := pr_expect_res g3 g2 h3
              obtain ⟨p1, p2, p3, p4, p5⟩ := hp
              have g5 := pr_Chain.le g1
              cases h
              simp only [FnCall.RangesOk, pr_Call]
              refine ⟨⟨?_, ?_, ?_, q4, q5⟩, ⟨?_, oke, g4⟩, ?_, ?_, ?_⟩
              · pr_ord
              · pr_ord
              · pr_ord
              · refine pr_Chain.family _ (lo := name.startPos) (hi := stop.endPos) ?_ (le_refl _) (le_refl _)
                refine ⟨le_refl _, n2, ?_, e2, pr_Chain.mono g1 e3 ?_⟩
                · pr_ord
                · pr_ord
              · pr_ord
              · pr_ord
              · pr_ord
            · cases h
          · cases h
        · cases h
    · cases h
  · cases h

/-! ### sources -/

theorem pr_srange_account (e : Expr) : (Source.account e).range = e.range := rfl
theorem pr_srange_overdraft (r : Range) (a : Expr) (b : Option Expr) : (Source.overdraft r a b).range = r := rfl
theorem pr_srange_inorder (r : Range) (l : List Source) : (Source.inorder r l).range = r := rfl
theorem pr_srange_capped (r : Range) (c : Expr) (s : Source) : (Source.capped r c s).range = r := rfl
theorem pr_srange_allotment (r : Range) (l : List SrcItem) : (Source.allotment r l).range = r := rfl
theorem pr_arange_remaining (r : Range) : (AllotVal.remaining r).range = r := rfl
theorem pr_arange_portion (e : Expr) : (AllotVal.portion e).range = e.range := rfl

theorem pr_allotOfTok {a : Tok} {av : AllotVal} (h : allotOfTok a = some av) :
    av.range = rangeOf a a ∧ av.RangesOk := by
  have hwf : (rangeOf a a).wf := pr_tok_le a
  unfold allotOfTok at h
  split at h
  · cases h; exact ⟨rfl, hwf⟩
  · split at h
    · cases h; exact ⟨rfl, hwf⟩
    · cases hp : portionExpr a with
      | none => simp [hp] at h
      | some e =>
          obtain ⟨n, d, rfl⟩ := pr_portionExpr hp
          simp only [hp, Option.map_some] at h
          cases h
          exact ⟨rfl, hwf⟩

theorem pr_source_inv (f : Nat) :
    (∀ ts p s stop rest, TokensSorted ts → pr_LB p ts → pSource f ts = some (s, stop, rest) →
        pr_Res p s.range stop rest ∧ s.RangesOk) ∧
    (∀ lb ts s stop rest, TokensSorted ts → pr_LB lb.endPos ts → pSrcInorder f lb ts = some (s, stop, rest) →
        pr_Res lb.startPos s.range stop rest ∧ s.RangesOk) ∧
    (∀ ts p ss rest, TokensSorted ts → pr_LB p ts → pSources f ts = some (ss, rest) →
        (∃ hi, pr_Chain p hi (srcRanges ss) ∧ pr_LB hi rest) ∧ TokensSorted rest ∧ SourcesRangesOk ss) ∧
    (∀ ts p items rest, TokensSorted ts → pr_LB p ts → pSrcItems f ts = some (items, rest) →
        (∃ hi, pr_Chain p hi (srcItemRanges items) ∧ pr_LB hi rest) ∧ TokensSorted rest ∧
          SrcItemsRangesOk items) := by
  induction f with
  | zero =>
      refine ⟨?_, ?_, ?_, ?_⟩
      · intro ts p s stop rest _ _ h; simp [pSource] at h
      · intro lb ts s stop rest _ _ h; simp [pSrcInorder] at h
      · intro ts p ss rest _ _ h; simp [pSources] at h
      · intro ts p items rest _ _ h; simp [pSrcItems] at h
  | succ f ih =>
      obtain ⟨ihS, ihO, ihL, ihI⟩ := ih
      refine ⟨?_, ?_, ?_, ?_⟩
      · intro ts p s stop rest hs hl h
        cases ts with
        | nil => simp [pSource] at h
        | cons t tl =>
            have ht := pr_tok hs hl
            have inorder : pSrcInorder f t tl = some (s, stop, rest) → pr_Res p s.range stop rest ∧ s.RangesOk := by
              intro h
              obtain ⟨a1, a2⟩ := ihO _ _ _ _ _ ht.sorted ht.lb h
              exact ⟨a1.mono ht.lo, a2⟩
            simp only [pSource] at h
            split at h
            · -- `{`
              split at h
              · split at h
                · split at h
                  · rename_i items r1 h1
                    obtain ⟨⟨hi, g1, g2⟩, g3, g4⟩ := ihI _ _ _ _ ht.sorted ht.lb h1
                    split at h
                    · rename_i rb r2 h2
                      obtain ⟨q1, q2, q3, q4, q5⟩ := pr_expect_res g3 g2 h2
                      obtain ⟨t1, t2, t3, t4, t5⟩ := ht
                      have g5 := pr_Chain.le g1
                      cases h
                      simp only [Source.RangesOk, pr_srange_allotment]
                      refine ⟨⟨?_, ?_, ?_, q4, q5⟩, ?_, g4⟩
                      · pr_ord
                      · pr_ord
                      · pr_ord
                      · refine pr_Chain.family _ g1 ?_ ?_ <;> pr_ord
                    · cases h
                  · cases h
                · exact inorder h
              · exact inorder h
            · split at h
              · -- `max`
                split at h
                · rename_i cap sc r1 h1
                  obtain ⟨⟨c1, c2, c3, c4, c5⟩, okc⟩ := (pr_expr_inv f).1 _ _ _ _ _ ht.sorted ht.lb h1
                  split at h
                  · rename_i fr r2 h2
                    obtain ⟨q1, q2, q3, q4, q5⟩ := pr_expect_res c4 c5 h2
                    split at h
                    · rename_i src ss r3 h3
                      obtain ⟨⟨s1, s2, s3, s4, s5⟩, oks⟩ := ihS _ _ _ _ _ q4 q5 h3
                      obtain ⟨t1, t2, t3, t4, t5⟩ := ht
                      cases h
                      simp only [Source.RangesOk, pr_srange_capped]
                      refine ⟨⟨?_, ?_, ?_, s4, s5⟩, ?_, okc, oks⟩ <;> pr_ord
                    · cases h
                  · cases h
                · cases h
              · -- account, possibly with overdraft
                split at h
                · rename_i addr sa r1 h1
                  obtain ⟨⟨a1, a2, a3, a4, a5⟩, oka⟩ := (pr_expr_inv f).1 _ _ _ _ _ hs (pr_sorted_lb_self hs) h1
                  obtain ⟨t1, t2, t3, t4, t5⟩ := ht
                  split at h
                  · rename_i al r2 h2
                    obtain ⟨q1, q2, q3, q4, q5⟩ := pr_expect_res a4 a5 h2
                    split at h
                    · rename_i u o r3
                      have hu := pr_tok q4 q5
                      have ho := pr_tok hu.sorted hu.lb
                      obtain ⟨u1, u2, u3, u4, u5⟩ := hu
                      split at h
                      · obtain ⟨o1, o2, o3, o4, o5⟩ := ho
                        cases h
                        simp only [Source.RangesOk, pr_srange_overdraft]
                        refine ⟨⟨?_, ?_, ?_, o4, o5⟩, ?_, oka⟩ <;> pr_ord
                      · split at h
                        · split at h
                          · rename_i up r4 h4
                            obtain ⟨v1, v2, v3, v4, v5⟩ := pr_expect_res u4 u5 h4
                            split at h
                            · rename_i tk r5 h5
                              obtain ⟨w1, w2, w3, w4, w5⟩ := pr_expect_res v4 v5 h5
                              split at h
                              · rename_i b sb r6 h6
                                obtain ⟨⟨b1, b2, b3, b4, b5⟩, okb⟩ := (pr_expr_inv f).1 _ _ _ _ _ w4 w5 h6
                                cases h
                                simp only [Source.RangesOk, pr_srange_overdraft]
                                refine ⟨⟨?_, ?_, ?_, b4, b5⟩, ?_, oka, okb⟩ <;> pr_ord
                              · cases h
                            · cases h
                          · cases h
                        · cases h
                    · cases h
                  · cases h
                    simp only [Source.RangesOk, pr_srange_account]
                    refine ⟨⟨?_, a2, a3, a4, a5⟩, oka⟩
                    pr_ord
                · cases h
      · intro lb ts s stop rest hs hl h
        simp only [pSrcInorder] at h
        split at h
        · rename_i srcs r1 h1
          obtain ⟨⟨hi, g1, g2⟩, g3, g4⟩ := ihL _ _ _ _ hs hl h1
          split at h
          · rename_i rb r2 h2
            obtain ⟨q1, q2, q3, q4, q5⟩ := pr_expect_res g3 g2 h2
            have g5 := pr_Chain.le g1
            have g6 := pr_tok_le lb
            cases h
            simp only [Source.RangesOk, pr_srange_inorder]
            refine ⟨⟨?_, ?_, ?_, q4, q5⟩, ?_, g4⟩
            · pr_ord
            · pr_ord
            · pr_ord
            · refine pr_Chain.family _ g1 ?_ ?_ <;> pr_ord
          · cases h
        · cases h
      · intro ts p ss rest hs hl h
        cases ts with
        | nil =>
            simp only [pSources] at h
            cases h
            exact ⟨⟨p, le_refl p, hl⟩, hs, trivial⟩
        | cons t tl =>
            simp only [pSources] at h
            split at h
            · split at h
              · rename_i s st r1 h1
                obtain ⟨⟨s1, s2, s3, s4, s5⟩, oks⟩ := ihS _ _ _ _ _ hs hl h1
                split at h
                · rename_i l r2 h2
                  obtain ⟨⟨hi, g1, g2⟩, g3, g4⟩ := ihL _ _ _ _ s4 s5 h2
                  cases h
                  simp only [srcRanges, SourcesRangesOk]
                  exact ⟨⟨hi, ⟨s1, s2, pr_Chain.mono g1 s3 (le_refl _)⟩, g2⟩, g3, oks, g4⟩
                · cases h
              · cases h
            · cases h
              exact ⟨⟨p, le_refl p, hl⟩, hs, trivial⟩
      · intro ts p items rest hs hl h
        cases ts with
        | nil => simp [pSrcItems] at h
        | cons a tl =>
            have ha := pr_tok hs hl
            simp only [pSrcItems] at h
            split at h
            · rename_i av hav
              obtain ⟨av1, av2⟩ := pr_allotOfTok hav
              split at h
              · rename_i fr r1 h1
                obtain ⟨q1, q2, q3, q4, q5⟩ := pr_expect_res ha.sorted ha.lb h1
                split at h
                · rename_i src st r2 h2
                  obtain ⟨⟨s1, s2, s3, s4, s5⟩, oks⟩ := ihS _ _ _ _ _ q4 q5 h2
                  obtain ⟨t1, t2, t3, t4, t5⟩ := ha
                  have fam : Family (rangeOf a st) [av.range, src.range] := by
                    rw [av1]; pr_ord
                  have w1 : a.startPos ≤ st.endPos := by pr_ord
                  have single : (∃ hi, pr_Chain p hi (srcItemRanges [SrcItem.mk (rangeOf a st) av src]) ∧ pr_LB hi r2) ∧
                      TokensSorted r2 ∧ SrcItemsRangesOk [SrcItem.mk (rangeOf a st) av src] := by
                    simp only [srcItemRanges, SrcItemsRangesOk]
                    exact ⟨⟨st.endPos, ⟨t1, w1, le_refl _⟩, s5⟩, s4, fam, av2, oks, trivial⟩
                  split at h
                  · split at h
                    · split at h
                      · rename_i l r3 h3
                        obtain ⟨⟨hi, g1, g2⟩, g3, g4⟩ := ihI _ _ _ _ s4 s5 h3
                        cases h
                        simp only [srcItemRanges, SrcItemsRangesOk]
                        exact ⟨⟨hi, ⟨t1, w1, g1⟩, g2⟩, g3, fam, av2, oks, g4⟩
                      · cases h
                    · cases h; exact single
                  · cases h; exact single
                · cases h
              · cases h
            · cases h

/-! ### destinations -/

theorem pr_drange_account (e : Expr) : (Dest.account e).range = e.range := by simp only [Dest.range]
theorem pr_drange_inorder (r : Range) (l : List DestClause) (k : KoD) : (Dest.inorder r l k).range = r := by
  simp only [Dest.range]
theorem pr_drange_allotment (r : Range) (l : List DestItem) : (Dest.allotment r l).range = r := by
  simp only [Dest.range]
theorem pr_krange_kept (r : Range) : (KoD.kept r).range = r := by simp only [KoD.range]
theorem pr_krange_to (d : Dest) : (KoD.to d).range = d.range := by simp only [KoD.range]

theorem pr_dest_inv (f : Nat) :
    (∀ ts p d stop rest, TokensSorted ts → pr_LB p ts → pDest f ts = some (d, stop, rest) →
        pr_Res p d.range stop rest ∧ d.RangesOk) ∧
    (∀ ts p k stop rest, TokensSorted ts → pr_LB p ts → pKoD f ts = some (k, stop, rest) →
        pr_Res p k.range stop rest ∧ k.RangesOk) ∧
    (∀ ts p cs rest, TokensSorted ts → pr_LB p ts → pClauses f ts = some (cs, rest) →
        (∃ hi, pr_Chain p hi (clauseRanges cs) ∧ pr_LB hi rest) ∧ TokensSorted rest ∧ ClausesRangesOk cs) ∧
    (∀ ts p items rest, TokensSorted ts → pr_LB p ts → pDstItems f ts = some (items, rest) →
        (∃ hi, pr_Chain p hi (dstItemRanges items) ∧ pr_LB hi rest) ∧ TokensSorted rest ∧
          DstItemsRangesOk items) := by
  induction f with
  | zero =>
      refine ⟨?_, ?_, ?_, ?_⟩
      · intro ts p s stop rest _ _ h; simp [pDest] at h
      · intro ts p s stop rest _ _ h; simp [pKoD] at h
      · intro ts p ss rest _ _ h; simp [pClauses] at h
      · intro ts p items rest _ _ h; simp [pDstItems] at h
  | succ f ih =>
      obtain ⟨ihD, ihK, ihC, ihI⟩ := ih
      refine ⟨?_, ?_, ?_, ?_⟩
      · intro ts p d stop rest hs hl h
        cases ts with
        | nil => simp [pDest] at h
        | cons t tl =>
            have ht := pr_tok hs hl
            simp only [pDest] at h
            split at h
            · -- `{`
              split at h
              · rename_i a tl'
                split at h
                · -- ordered clauses
                  split at h
                  · rename_i clauses r1 h1
                    obtain ⟨⟨hi, g1, g2⟩, g3, g4⟩ := ihC _ _ _ _ ht.sorted ht.lb h1
                    split at h
                    · rename_i rm r2 h2
                      obtain ⟨m1, m2, m3, m4, m5⟩ := pr_expect_res g3 g2 h2
                      split at h
                      · rename_i k sk r3 h3
                        obtain ⟨⟨k1, k2, k3, k4, k5⟩, okk⟩ := ihK _ _ _ _ _ m4 m5 h3
                        split at h
                        · rename_i rb r4 h4
                          obtain ⟨q1, q2, q3, q4, q5⟩ := pr_expect_res k4 k5 h4
                          obtain ⟨t1, t2, t3, t4, t5⟩ := ht
                          have g5 := pr_Chain.le g1
                          cases h
                          simp only [Dest.RangesOk, pr_drange_inorder]
                          refine ⟨⟨?_, ?_, ?_, q4, q5⟩, ?_, g4, okk⟩
                          · pr_ord
                          · pr_ord
                          · pr_ord
                          · have c2 : pr_Chain hi sk.endPos [k.range] := by
                              refine ⟨?_, k2, k3⟩
                              pr_ord
                            refine pr_Chain.family _ (pr_Chain.append g1 c2) ?_ ?_ <;> pr_ord
                        · cases h
                      · cases h
                    · cases h
                  · cases h
                · split at h
                  · -- allotment
                    split at h
                    · rename_i items r1 h1
                      obtain ⟨⟨hi, g1, g2⟩, g3, g4⟩ := ihI _ _ _ _ ht.sorted ht.lb h1
                      split at h
                      · rename_i rb r2 h2
                        obtain ⟨q1, q2, q3, q4, q5⟩ := pr_expect_res g3 g2 h2
                        obtain ⟨t1, t2, t3, t4, t5⟩ := ht
                        have g5 := pr_Chain.le g1
                        cases h
                        simp only [Dest.RangesOk, pr_drange_allotment]
                        refine ⟨⟨?_, ?_, ?_, q4, q5⟩, ?_, g4⟩
                        · pr_ord
                        · pr_ord
                        · pr_ord
                        · refine pr_Chain.family _ g1 ?_ ?_ <;> pr_ord
                      · cases h
                    · cases h
                  · cases h
              · cases h
            · split at h
              · rename_i e se r1 h1
                obtain ⟨a1, oka⟩ := (pr_expr_inv f).1 _ _ _ _ _ hs hl h1
                cases h
                simp only [Dest.RangesOk, pr_drange_account]
                exact ⟨a1, oka⟩
              · cases h
      · intro ts p k stop rest hs hl h
        cases ts with
        | nil => simp [pKoD] at h
        | cons t tl =>
            have ht := pr_tok hs hl
            simp only [pKoD] at h
            split at h
            · cases h
              simp only [KoD.RangesOk, pr_krange_kept]
              exact ⟨ht, pr_tok_le _⟩
            · split at h
              · split at h
                · rename_i d sd r1 h1
                  obtain ⟨⟨d1, d2, d3, d4, d5⟩, okd⟩ := ihD _ _ _ _ _ ht.sorted ht.lb h1
                  obtain ⟨t1, t2, t3, t4, t5⟩ := ht
                  cases h
                  simp only [KoD.RangesOk, pr_krange_to]
                  refine ⟨⟨?_, d2, d3, d4, d5⟩, okd⟩
                  pr_ord
                · cases h
              · cases h
      · intro ts p cs rest hs hl h
        cases ts with
        | nil =>
            simp only [pClauses] at h
            cases h
            exact ⟨⟨p, le_refl p, hl⟩, hs, trivial⟩
        | cons t tl =>
            have ht := pr_tok hs hl
            simp only [pClauses] at h
            split at h
            · split at h
              · rename_i cap sc r1 h1
                obtain ⟨⟨c1, c2, c3, c4, c5⟩, okc⟩ := (pr_expr_inv f).1 _ _ _ _ _ ht.sorted ht.lb h1
                split at h
                · rename_i k sk r2 h2
                  obtain ⟨⟨k1, k2, k3, k4, k5⟩, okk⟩ := ihK _ _ _ _ _ c4 c5 h2
                  split at h
                  · rename_i l r3 h3
                    obtain ⟨⟨hi, g1, g2⟩, g3, g4⟩ := ihC _ _ _ _ k4 k5 h3
                    obtain ⟨t1, t2, t3, t4, t5⟩ := ht
                    cases h
                    simp only [clauseRanges, ClausesRangesOk]
                    refine ⟨⟨hi, ⟨?_, ?_, g1⟩, g2⟩, g3, ?_, okc, okk, g4⟩ <;> pr_ord
                  · cases h
                · cases h
              · cases h
            · cases h
              exact ⟨⟨p, le_refl p, hl⟩, hs, trivial⟩
      · intro ts p items rest hs hl h
        cases ts with
        | nil => simp [pDstItems] at h
        | cons a tl =>
            have ha := pr_tok hs hl
            simp only [pDstItems] at h
            split at h
            · rename_i av hav
              obtain ⟨av1, av2⟩ := pr_allotOfTok hav
              split at h
              · rename_i k st r2 h2
                obtain ⟨⟨s1, s2, s3, s4, s5⟩, oks⟩ := ihK _ _ _ _ _ ha.sorted ha.lb h2
                obtain ⟨t1, t2, t3, t4, t5⟩ := ha
                have fam : Family (rangeOf a st) [av.range, k.range] := by
                  rw [av1]; pr_ord
                have w1 : a.startPos ≤ st.endPos := by pr_ord
                have single : (∃ hi, pr_Chain p hi (dstItemRanges [DestItem.mk (rangeOf a st) av k]) ∧ pr_LB hi r2) ∧
                    TokensSorted r2 ∧ DstItemsRangesOk [DestItem.mk (rangeOf a st) av k] := by
                  simp only [dstItemRanges, DstItemsRangesOk]
                  exact ⟨⟨st.endPos, ⟨t1, w1, le_refl _⟩, s5⟩, s4, fam, av2, oks, trivial⟩
                split at h
                · split at h
                  · split at h
                    · rename_i l r3 h3
                      obtain ⟨⟨hi, g1, g2⟩, g3, g4⟩ := ihI _ _ _ _ s4 s5 h3
                      cases h
                      simp only [dstItemRanges, DstItemsRangesOk]
                      exact ⟨⟨hi, ⟨t1, w1, g1⟩, g2⟩, g3, fam, av2, oks, g4⟩
                    · cases h
                  · cases h; exact single
                · cases h; exact single
              · cases h
            · cases h

/-! ### strict chains (caller ranges) -/

/-- non-empty ranges following each other between `lo` and `hi` -/
def pr_SChain (lo hi : Pos) : List Range → Prop
  | [] => lo ≤ hi
  | c :: rest => lo ≤ c.s ∧ c.s < c.e ∧ pr_SChain c.e hi rest

theorem pr_SChain.le : ∀ {l : List Range} {lo hi : Pos}, pr_SChain lo hi l → lo ≤ hi
  | [], _, _, h => h
  | c :: rest, lo, hi, h => by
      have := pr_SChain.le h.2.2
      have h1 := h.1
      have h2 := h.2.1
      order

theorem pr_SChain.mono : ∀ {l : List Range} {lo hi lo' hi' : Pos}, pr_SChain lo hi l → lo' ≤ lo → hi ≤ hi' →
    pr_SChain lo' hi' l
  | [], _, _, _, _, h, h1, h2 => le_trans h1 (le_trans h h2)
  | _ :: _, _, _, _, _, h, h1, h2 => ⟨le_trans h1 h.1, h.2.1, pr_SChain.mono h.2.2 (le_refl _) h2⟩

theorem pr_SChain.append : ∀ {l1 l2 : List Range} {lo mid hi : Pos}, pr_SChain lo mid l1 → pr_SChain mid hi l2 →
    pr_SChain lo hi (l1 ++ l2)
  | [], _, _, _, _, h1, h2 => pr_SChain.mono h2 h1 (le_refl _)
  | _ :: _, _, _, _, _, h1, h2 => ⟨h1.1, h1.2.1, pr_SChain.append h1.2.2 h2⟩

theorem pr_SChain.mem : ∀ {l : List Range} {lo hi : Pos}, pr_SChain lo hi l → ∀ r ∈ l, lo ≤ r.s
  | [], _, _, _, _, hr => by cases hr
  | c :: rest, lo, hi, h, r, hr => by
      obtain ⟨a1, a2, a3⟩ := h
      rcases List.mem_cons.mp hr with rfl | hr
      · exact a1
      · have := pr_SChain.mem a3 r hr
        order

theorem pr_SChain.nodup : ∀ {l : List Range} {lo hi : Pos}, pr_SChain lo hi l → l.Nodup
  | [], _, _, _ => List.nodup_nil
  | c :: rest, lo, hi, h => by
      obtain ⟨a1, a2, a3⟩ := h
      refine List.nodup_cons.mpr ⟨?_, pr_SChain.nodup a3⟩
      intro hc
      have := pr_SChain.mem a3 c hc
      order

theorem pr_SChain.of_call {lo hi : Pos} {r : Range} (h : pr_Call lo hi r) : pr_SChain lo hi [r] :=
  ⟨h.1, h.2.1, h.2.2⟩

/-! ### statements -/

theorem pr_svrange_lit (r : Range) (e : Expr) : (SentValue.lit r e).range = r := rfl
theorem pr_svrange_all (r : Range) (e : Expr) : (SentValue.all r e).range = r := rfl
theorem pr_strange_send (r : Range) (sv : SentValue) (src : Source) (dst : Dest) :
    (Statement.send r sv src dst).range = r := rfl
theorem pr_strange_save (r : Range) (sv : SentValue) (e : Expr) : (Statement.save r sv e).range = r := rfl
theorem pr_strange_fnCall (c : FnCall) : (Statement.fnCall c).range = c.r := rfl

theorem pr_sentValue_inv (f : Nat) (ts : List Tok) (p : Pos) (sv : SentValue) (stop : Tok) (rest : List Tok)
    (hs : TokensSorted ts) (hl : pr_LB p ts) (h : pSentValue f ts = some (sv, stop, rest)) :
    pr_Res p sv.range stop rest ∧ sv.RangesOk := by
  cases ts with
  | nil => simp [pSentValue] at h
  | cons t tl =>
      have ht := pr_tok hs hl
      have lit : ∀ e se r1, pExpr f (t :: tl) = some (e, se, r1) →
          pr_Res p (rangeOf t se) se r1 ∧ (SentValue.lit (rangeOf t se) e).RangesOk := by
        intro e se r1 h1
        obtain ⟨⟨a1, a2, a3, a4, a5⟩, oka⟩ := (pr_expr_inv f).1 _ _ _ _ _ hs (pr_sorted_lb_self hs) h1
        obtain ⟨t1, t2, t3, t4, t5⟩ := ht
        simp only [SentValue.RangesOk]
        refine ⟨⟨?_, ?_, ?_, a4, a5⟩, ?_, oka⟩ <;> pr_ord
      simp only [pSentValue] at h
      split at h
      · split at h
        · rename_i a sa r1 h1
          obtain ⟨⟨a1, a2, a3, a4, a5⟩, oka⟩ := (pr_expr_inv f).1 _ _ _ _ _ ht.sorted ht.lb h1
          split at h
          · rename_i st r2 h2
            obtain ⟨s1, s2, s3, s4, s5⟩ := pr_expect_res a4 a5 h2
            split at h
            · rename_i rb r3 h3
              obtain ⟨q1, q2, q3, q4, q5⟩ := pr_expect_res s4 s5 h3
              obtain ⟨t1, t2, t3, t4, t5⟩ := ht
              cases h
              simp only [SentValue.RangesOk, pr_svrange_all]
              refine ⟨⟨?_, ?_, ?_, q4, q5⟩, ?_, oka⟩ <;> pr_ord
            · cases h
          · split at h
            · rename_i e se r1' h1'
              cases h
              exact lit _ _ _ h1'
            · cases h
        · cases h
      · split at h
        · rename_i e se r1' h1'
          cases h
          exact lit _ _ _ h1'
        · cases h

theorem pr_statement_inv (f : Nat) (ts : List Tok) (p : Pos) (s : Statement) (stop : Tok) (rest : List Tok)
    (hs : TokensSorted ts) (hl : pr_LB p ts) (h : pStatement f ts = some (s, stop, rest)) :
    pr_Res p s.range stop rest ∧ s.RangesOk ∧ pr_SChain s.range.s s.range.e s.fnRanges := by
  cases ts with
  | nil => simp [pStatement] at h
  | cons t tl =>
      have ht := pr_tok hs hl
      simp only [pStatement] at h
      split at h
      · simp only [bind, Option.bind_eq_some_iff, Prod.exists] at h
        obtain ⟨sv, ssv, r1, h1, lp, r2, h2, ks, r3, h3, e1, r4, h4, src, ssrc, r5, h5, kd, r6, h6, e2, r7, h7,
          dst, sdst, r8, h8, rp, r9, h9, h⟩ := h
        obtain ⟨⟨a1, a2, a3, a4, a5⟩, oka⟩ := pr_sentValue_inv f _ _ _ _ _ ht.sorted ht.lb h1
        obtain ⟨b1, b2, b3, b4, b5⟩ := pr_expect_res a4 a5 h2
        obtain ⟨c1, c2, c3, c4, c5⟩ := pr_expect_res b4 b5 h3
        obtain ⟨d1, d2, d3, d4, d5⟩ := pr_expect_res c4 c5 h4
        obtain ⟨⟨e1, e2, e3, e4, e5⟩, oke⟩ := (pr_source_inv f).1 _ _ _ _ _ d4 d5 h5
        obtain ⟨f1, f2, f3, f4, f5⟩ := pr_expect_res e4 e5 h6
        obtain ⟨g1, g2, g3, g4, g5⟩ := pr_expect_res f4 f5 h7
        obtain ⟨⟨i1, i2, i3, i4, i5⟩, oki⟩ := (pr_dest_inv f).1 _ _ _ _ _ g4 g5 h8
        obtain ⟨j1, j2, j3, j4, j5⟩ := pr_expect_res i4 i5 h9
        obtain ⟨t1, t2, t3, t4, t5⟩ := ht
        cases h
        simp only [Statement.RangesOk, pr_strange_send, Statement.fnRanges, pr_SChain]
        refine ⟨⟨?_, ?_, ?_, j4, j5⟩, ⟨?_, oka, oke, oki⟩, ?_⟩ <;> pr_ord
      · split at h
        · split at h
          · rename_i sv ssv r1 h1
            obtain ⟨⟨a1, a2, a3, a4, a5⟩, oka⟩ := pr_sentValue_inv f _ _ _ _ _ ht.sorted ht.lb h1
            split at h
            · rename_i fr r2 h2
              obtain ⟨b1, b2, b3, b4, b5⟩ := pr_expect_res a4 a5 h2
              split at h
              · rename_i e se r3 h3
                obtain ⟨⟨e1, e2, e3, e4, e5⟩, oke⟩ := (pr_expr_inv f).1 _ _ _ _ _ b4 b5 h3
                obtain ⟨t1, t2, t3, t4, t5⟩ := ht
                cases h
                simp only [Statement.RangesOk, pr_strange_save, Statement.fnRanges, pr_SChain]
                refine ⟨⟨?_, ?_, ?_, e4, e5⟩, ⟨?_, oka, oke⟩, ?_⟩ <;> pr_ord
              · cases h
            · cases h
          · cases h
        · split at h
          · rename_i c sc r1 h1
            obtain ⟨a1, a2, a3⟩ := pr_fnCall_inv f _ _ _ _ _ hs hl h1
            cases h
            simp only [Statement.RangesOk, pr_strange_fnCall, Statement.fnRanges]
            exact ⟨a1, a2, pr_SChain.of_call a3⟩
          · cases h

theorem pr_statements_inv (f : Nat) : ∀ (n : Nat) (ts : List Tok) (p : Pos) (ss : List Statement),
    TokensSorted ts → pr_LB p ts → pStatements f n ts = some ss →
    (∃ hi, pr_Chain p hi (ss.map Statement.range) ∧ pr_SChain p hi (sd_stmtsFnRanges ss)) ∧
      ∀ s ∈ ss, s.RangesOk
  | 0, _, _, _, _, _, h => by simp [pStatements] at h
  | n + 1, [], p, ss, _, _, h => by
      simp only [pStatements] at h
      cases h
      exact ⟨⟨p, le_refl p, le_refl p⟩, fun s hs => by cases hs⟩
  | n + 1, t :: tl, p, ss, hs, hl, h => by
      simp only [pStatements] at h
      split at h
      · rename_i s st r1 h1
        obtain ⟨⟨a1, a2, a3, a4, a5⟩, oka, ca⟩ := pr_statement_inv f _ _ _ _ _ hs hl h1
        split at h
        · rename_i ss' h2
          obtain ⟨⟨hi, g1, g2⟩, g3⟩ := pr_statements_inv f n _ _ _ a4 a5 h2
          cases h
          simp only [List.map_cons, sd_stmtsFnRanges]
          refine ⟨⟨hi, ⟨a1, a2, pr_Chain.mono g1 a3 (le_refl _)⟩,
            pr_SChain.append (pr_SChain.mono ca a1 a3) g2⟩, ?_⟩
          intro s' hs'
          rcases List.mem_cons.mp hs' with rfl | hs'
          · exact oka
          · exact g3 s' hs'
        · cases h
      · cases h

/-! ### declarations -/

theorem pr_varDecl_inv (f : Nat) (ts : List Tok) (p : Pos) (d : VarDecl) (stop : Tok) (rest : List Tok)
    (hs : TokensSorted ts) (hl : pr_LB p ts) (h : pVarDecl f ts = some (d, stop, rest)) :
    pr_Res p d.r stop rest ∧ d.RangesOk ∧ pr_SChain d.r.s d.r.e d.fnRanges := by
  unfold pVarDecl at h
  split at h
  · rename_i ty nm tl
    have hty := pr_tok hs hl
    have hnm := pr_tok hty.sorted hty.lb
    obtain ⟨t1, t2, t3, t4, t5⟩ := hty
    obtain ⟨n1, n2, n3, n4, n5⟩ := hnm
    split at h
    · simp only at h
      split at h
      · rename_i eq r1 h1
        obtain ⟨q1, q2, q3, q4, q5⟩ := pr_expect_res n4 n5 h1
        split at h
        · rename_i c sc r2 h2
          obtain ⟨⟨c1, c2, c3, c4, c5⟩, okc, cc1, cc2, cc3⟩ := pr_fnCall_inv f _ _ _ _ _ q4 q5 h2
          cases h
          simp only [VarDecl.RangesOk, VarDecl.fnRanges, pr_SChain]
          refine ⟨⟨?_, ?_, ?_, c4, c5⟩, ⟨?_, okc⟩, ?_, cc2, ?_⟩ <;> pr_ord
        · cases h
      · cases h
        simp only [VarDecl.RangesOk, VarDecl.fnRanges, pr_SChain]
        refine ⟨⟨?_, ?_, ?_, n4, n5⟩, ?_, ?_⟩ <;> pr_ord
    · cases h
  · cases h

theorem pr_varDecls_inv (f : Nat) : ∀ (n : Nat) (ts : List Tok) (p : Pos) (ds : List VarDecl) (rest : List Tok),
    TokensSorted ts → pr_LB p ts → pVarDecls f n ts = some (ds, rest) →
    (∃ hi, pr_Chain p hi (ds.map (·.r)) ∧ pr_SChain p hi (sd_declsFnRanges ds) ∧ pr_LB hi rest) ∧
      TokensSorted rest ∧ ∀ d ∈ ds, d.RangesOk
  | 0, _, _, _, _, _, _, h => by simp [pVarDecls] at h
  | n + 1, [], _, _, _, _, _, h => by simp [pVarDecls] at h
  | n + 1, t :: tl, p, ds, rest, hs, hl, h => by
      simp only [pVarDecls] at h
      split at h
      · cases h
        exact ⟨⟨p, le_refl p, le_refl p, hl.tail⟩, pr_sorted_tail hs, fun d hd => by cases hd⟩
      · split at h
        · rename_i d sd r1 h1
          obtain ⟨⟨a1, a2, a3, a4, a5⟩, oka, ca⟩ := pr_varDecl_inv f _ _ _ _ _ hs hl h1
          split at h
          · rename_i ds' r2 h2
            obtain ⟨⟨hi, g1, g2, g3⟩, g4, g5⟩ := pr_varDecls_inv f n _ _ _ _ a4 a5 h2
            cases h
            simp only [List.map_cons, sd_declsFnRanges]
            refine ⟨⟨hi, ⟨a1, a2, pr_Chain.mono g1 a3 (le_refl _)⟩,
              pr_SChain.append (pr_SChain.mono ca a1 a3) g2, g3⟩, g4, ?_⟩
            intro d' hd'
            rcases List.mem_cons.mp hd' with rfl | hd'
            · exact oka
            · exact g5 d' hd'
          · cases h
        · cases h

/-! ### programs -/

theorem pr_exists_lb : ∀ (ts : List Tok), TokensSorted ts → ∃ p, pr_LB p ts
  | [], _ => ⟨⟨0, 0⟩, fun _ h => by cases h⟩
  | _ :: _, hs => ⟨_, pr_sorted_lb_self hs⟩

theorem pr_stmts_program (f n : Nat) (ts : List Tok) (ss : List Statement) (hs : TokensSorted ts)
    (h : pStatements f n ts = some ss) :
    (⟨[], ss⟩ : Program).RangesOk ∧ ∃ lo hi, pr_SChain lo hi (⟨[], ss⟩ : Program).fnRanges := by
  obtain ⟨p, hl⟩ := pr_exists_lb ts hs
  obtain ⟨⟨hi, g1, g2⟩, g3⟩ := pr_statements_inv f n _ _ _ hs hl h
  refine ⟨⟨fun d hd => (by cases hd), g3, ?_⟩, p, hi, ?_⟩
  · simpa using pr_Chain.ordered g1
  · simpa [Program.fnRanges, sd_declsFnRanges] using g2

theorem pr_parseTokens_inv (ts : List Tok) (p : Program) (hs : TokensSorted ts)
    (h : parseTokens ts = some p) : p.RangesOk ∧ ∃ lo hi, pr_SChain lo hi p.fnRanges := by
  unfold parseTokens at h
  simp only at h
  split at h
  · rename_i v lb tl
    split at h
    · split at h
      · split at h
        · rename_i ds r1 h1
          have hv := pr_tok hs (pr_sorted_lb_self hs)
          have hb := pr_tok hv.sorted hv.lb
          obtain ⟨⟨mid, g1, g2, g3⟩, g4, g5⟩ := pr_varDecls_inv _ _ _ _ _ _ hb.sorted hb.lb h1
          split at h
          · rename_i ss h2
            obtain ⟨⟨hi, k1, k2⟩, k3⟩ := pr_statements_inv _ _ _ _ _ g4 g3 h2
            cases h
            refine ⟨⟨g5, k3, ?_⟩, lb.endPos, hi, ?_⟩
            · have := pr_Chain.ordered (pr_Chain.append g1 k1)
              simpa using this
            · exact pr_SChain.append g2 k2
          · cases h
        · cases h
      · cases h
    · obtain ⟨ss, h2, rfl⟩ := Option.map_eq_some_iff.mp h
      exact pr_stmts_program _ _ _ _ hs h2
  · obtain ⟨ss, h2, rfl⟩ := Option.map_eq_some_iff.mp h
    exact pr_stmts_program _ _ _ _ hs h2

theorem pr_callRanges_eq (p : Program) : callRanges p = p.fnRanges := by
  have h1 : ∀ ds : List VarDecl, ds.flatMap declCall = sd_declsFnRanges ds := by
    intro ds
    induction ds with
    | nil => rfl
    | cons d ds ih => simp only [List.flatMap_cons, sd_declsFnRanges, ih]; rfl
  have h2 : ∀ ss : List Statement, ss.flatMap stmtCall = sd_stmtsFnRanges ss := by
    intro ss
    induction ss with
    | nil => rfl
    | cons s ss ih =>
        simp only [List.flatMap_cons, sd_stmtsFnRanges, ih]
        cases s <;> rfl
  simp only [callRanges, Program.fnRanges, h1, h2]

/-! ### nesting of expressions -/

theorem pr_contains_within {c P : Range} {p : Pos} (h : c.within P) (hp : c.contains p = true) :
    P.contains p = true := by
  simp only [Range.contains, Bool.and_eq_true, pr_le_iff] at hp ⊢
  obtain ⟨h1, h2⟩ := h
  have h1 : P.s ≤ c.s := h1
  have h2 : c.e ≤ P.e := h2
  obtain ⟨h3, h4⟩ := hp
  constructor <;> order

/-! ### the expressions of a well-formed tree are well-formed -/

theorem pr_allot_exprs (a : AllotVal) (h : a.RangesOk) : ∀ e ∈ a.exprs, e.RangesOk := by
  cases a with
  | nil => simp [AllotVal.exprs]
  | remaining r => simp [AllotVal.exprs]
  | portion x =>
      intro e he
      simp only [AllotVal.exprs, List.mem_singleton] at he
      subst he
      exact h

mutual
  theorem pr_source_exprs : ∀ (s : Source), s.RangesOk → ∀ e ∈ s.exprs, e.RangesOk
    | .nil, _ => by simp [Source.exprs]
    | .account x, h => by
        simp only [Source.RangesOk] at h
        intro e he
        simp only [Source.exprs, List.mem_singleton] at he
        subst he; exact h
    | .overdraft r addr none, h => by
        simp only [Source.RangesOk] at h
        intro e he
        simp only [Source.exprs, List.mem_singleton] at he
        subst he; exact h.2
    | .overdraft r addr (some b), h => by
        simp only [Source.RangesOk] at h
        intro e he
        simp only [Source.exprs, List.mem_cons, List.not_mem_nil, or_false] at he
        rcases he with rfl | rfl
        · exact h.2.1
        · exact h.2.2
    | .inorder r srcs, h => by
        simp only [Source.RangesOk] at h
        simp only [Source.exprs]
        exact pr_sources_exprs srcs h.2
    | .capped r cap src, h => by
        simp only [Source.RangesOk] at h
        intro e he
        simp only [Source.exprs, List.mem_cons] at he
        rcases he with rfl | he
        · exact h.2.1
        · exact pr_source_exprs src h.2.2 e he
    | .allotment r items, h => by
        simp only [Source.RangesOk] at h
        simp only [Source.exprs]
        exact pr_srcItems_exprs items h.2
  theorem pr_sources_exprs : ∀ (ss : List Source), SourcesRangesOk ss → ∀ e ∈ sourcesExprs ss, e.RangesOk
    | [], _ => by simp [sourcesExprs]
    | s :: ss, h => by
        simp only [SourcesRangesOk] at h
        intro e he
        simp only [sourcesExprs, List.mem_append] at he
        rcases he with he | he
        · exact pr_source_exprs s h.1 e he
        · exact pr_sources_exprs ss h.2 e he
  theorem pr_srcItems_exprs : ∀ (items : List SrcItem), SrcItemsRangesOk items →
      ∀ e ∈ srcItemsExprs items, e.RangesOk
    | [], _ => by simp [srcItemsExprs]
    | (.mk r a src) :: rest, h => by
        simp only [SrcItemsRangesOk] at h
        intro e he
        simp only [srcItemsExprs, List.mem_append] at he
        rcases he with (he | he) | he
        · exact pr_allot_exprs a h.2.1 e he
        · exact pr_source_exprs src h.2.2.1 e he
        · exact pr_srcItems_exprs rest h.2.2.2 e he
end

mutual
  theorem pr_dest_exprs : ∀ (d : Dest), d.RangesOk → ∀ e ∈ d.exprs, e.RangesOk
    | .nil, _ => by simp [Dest.exprs]
    | .account x, h => by
        simp only [Dest.RangesOk] at h
        intro e he
        simp only [Dest.exprs, List.mem_singleton] at he
        subst he; exact h
    | .inorder r clauses k, h => by
        simp only [Dest.RangesOk] at h
        intro e he
        simp only [Dest.exprs, List.mem_append] at he
        rcases he with he | he
        · exact pr_clauses_exprs clauses h.2.1 e he
        · exact pr_kod_exprs k h.2.2 e he
    | .allotment r items, h => by
        simp only [Dest.RangesOk] at h
        simp only [Dest.exprs]
        exact pr_dstItems_exprs items h.2
  theorem pr_kod_exprs : ∀ (k : KoD), k.RangesOk → ∀ e ∈ k.exprs, e.RangesOk
    | .nil, _ => by simp [KoD.exprs]
    | .kept r, _ => by simp [KoD.exprs]
    | .to d, h => by
        simp only [KoD.RangesOk] at h
        simp only [KoD.exprs]
        exact pr_dest_exprs d h
  theorem pr_clauses_exprs : ∀ (cs : List DestClause), ClausesRangesOk cs → ∀ e ∈ clausesExprs cs, e.RangesOk
    | [], _ => by simp [clausesExprs]
    | (.mk r cap k) :: rest, h => by
        simp only [ClausesRangesOk] at h
        intro e he
        simp only [clausesExprs, List.mem_cons, List.mem_append] at he
        rcases he with (rfl | he) | he
        · exact h.2.1
        · exact pr_kod_exprs k h.2.2.1 e he
        · exact pr_clauses_exprs rest h.2.2.2 e he
  theorem pr_dstItems_exprs : ∀ (items : List DestItem), DstItemsRangesOk items →
      ∀ e ∈ dstItemsExprs items, e.RangesOk
    | [], _ => by simp [dstItemsExprs]
    | (.mk r a k) :: rest, h => by
        simp only [DstItemsRangesOk] at h
        intro e he
        simp only [dstItemsExprs, List.mem_append] at he
        rcases he with (he | he) | he
        · exact pr_allot_exprs a h.2.1 e he
        · exact pr_kod_exprs k h.2.2.1 e he
        · exact pr_dstItems_exprs rest h.2.2.2 e he
end

theorem pr_sentValue_exprs (sv : SentValue) (h : sv.RangesOk) : ∀ e ∈ sv.exprs, e.RangesOk := by
  cases sv with
  | nil => simp [SentValue.exprs]
  | lit r m =>
      intro e he
      simp only [SentValue.exprs, List.mem_singleton] at he
      subst he; exact h.2
  | all r a =>
      intro e he
      simp only [SentValue.exprs, List.mem_singleton] at he
      subst he; exact h.2

theorem pr_args_exprs : ∀ (es : List Expr), ExprsRangesOk es → ∀ e ∈ es, e.RangesOk
  | [], _, _, he => by cases he
  | x :: xs, h, e, he => by
      rcases List.mem_cons.mp he with rfl | he
      · exact h.1
      · exact pr_args_exprs xs h.2 e he

theorem pr_statement_exprs (s : Statement) (h : s.RangesOk) : ∀ e ∈ s.exprs, e.RangesOk := by
  cases s with
  | nil => simp [Statement.exprs]
  | fnCallNil => simp [Statement.exprs]
  | send r sv src dst =>
      simp only [Statement.RangesOk] at h
      intro e he
      simp only [Statement.exprs, List.mem_append] at he
      rcases he with (he | he) | he
      · exact pr_sentValue_exprs sv h.2.1 e he
      · exact pr_source_exprs src h.2.2.1 e he
      · exact pr_dest_exprs dst h.2.2.2 e he
  | save r sv amount =>
      simp only [Statement.RangesOk] at h
      intro e he
      simp only [Statement.exprs, List.mem_append, List.mem_singleton] at he
      rcases he with he | rfl
      · exact pr_sentValue_exprs sv h.2.1 e he
      · exact h.2.2
  | fnCall c =>
      simp only [Statement.RangesOk, FnCall.RangesOk] at h
      simp only [Statement.exprs]
      exact pr_args_exprs c.args h.2

theorem pr_varDecl_exprs (d : VarDecl) (h : d.RangesOk) : ∀ e ∈ d.exprs, e.RangesOk := by
  obtain ⟨r, name, type, origin⟩ := d
  cases origin with
  | none => simp [VarDecl.exprs]
  | some c =>
      cases type with
      | none => simp [VarDecl.RangesOk] at h
      | some ty =>
          cases name with
          | none => simp [VarDecl.RangesOk] at h
          | some nm =>
              simp only [VarDecl.RangesOk, FnCall.RangesOk] at h
              simp only [VarDecl.exprs]
              exact pr_args_exprs c.args h.2.2

theorem pr_program_exprs (p : Program) (h : p.RangesOk) : ∀ e ∈ p.exprs, e.RangesOk := by
  intro e he
  simp only [Program.exprs, List.mem_append, List.mem_flatMap] at he
  rcases he with ⟨d, hd, he⟩ | ⟨s, hs, he⟩
  · exact pr_varDecl_exprs d (h.1 d hd) e he
  · exact pr_statement_exprs s (h.2.1 s hs) e he

end NS
