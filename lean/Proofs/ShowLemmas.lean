/-
  Proofs/ShowLemmas.lean — helper lemmas for Properties/C1415.lean:
  `repeatStr` / `showError` succeed on non-negative counts, `splitLines.go` is never empty,
  and the loop invariant of `showLoop`.
-/
import Model.Show
namespace NS

theorem sh_repeatStr_ok (c : Char) (n : Int) (h : 0 ≤ n) :
    repeatStr c n = .ok (String.ofList (List.replicate n.toNat c)) := by
  unfold repeatStr
  rw [if_neg (by omega)]

theorem sh_showError_ok (r : Range) (srcLine : Nat) (line : List Char)
    (h : (if r.s.line = srcLine then (r.s.char : Int) else 0) ≤
         (if r.e.line = srcLine then (r.e.char : Int) else (byteLen line : Int))) :
    ∃ u, showError r srcLine line = .ok u := by
  unfold showError
  have h0 : (0:Int) ≤ (if r.s.line = srcLine then (r.s.char : Int) else 0) := by
    split <;> omega
  simp only []
  rw [sh_repeatStr_ok _ _ (by omega), sh_repeatStr_ok _ _ h0]
  exact ⟨_, rfl⟩

theorem sh_splitLines_go_ne_nil (cs cur : List Char) : splitLines.go cur cs ≠ [] := by
  induction cs generalizing cur with
  | nil => simp [splitLines.go]
  | cons c t ih =>
    unfold splitLines.go
    split
    · simp
    · exact ih _

theorem sh_showLoop_no_panic (r : Range) (lines : List (List Char))
    (hse : r.s.line ≤ r.e.line) (hlen : r.e.line < lines.length)
    (h1 : r.s.line = r.e.line → r.s.char ≤ r.e.char)
    (h2 : r.s.line < r.e.line → r.s.char ≤ byteLen (lines.getD r.s.line [])) :
    ∀ (rest : List (List Char)) (k : Nat) (buf : String) (pre post : List (List Char)),
      lines = pre ++ rest ++ post → pre.length = r.s.line + k →
      k + rest.length = r.e.line + 1 - r.s.line →
      ∀ s, showLoop r lines (r.e.line + 1 - r.s.line) k rest buf ≠ .panic s := by
  intro rest
  induction rest with
  | nil => intro k buf pre post _ _ _ s; simp [showLoop]
  | cons line rest ih =>
    intro k buf pre post hl hp hk s
    have hline : lines[r.s.line + k]? = some line := by
      rw [hl, ← hp]; simp
    simp only [List.length_cons] at hk
    unfold showLoop
    simp only []
    have he : ∃ u, showError r (r.s.line + k) line = .ok u := by
      apply sh_showError_ok
      by_cases hs : r.s.line = r.s.line + k <;> by_cases hee : r.e.line = r.s.line + k
      · rw [if_pos hs, if_pos hee]
        have := h1 (by omega); omega
      · rw [if_pos hs, if_neg hee]
        have hk0 : k = 0 := by omega
        have := h2 (by omega)
        rw [List.getD_eq_getElem?_getD] at this
        subst hk0
        simp only [Nat.add_zero] at hline
        rw [hline] at this
        simp at this
        omega
      · rw [if_neg hs, if_pos hee]; omega
      · rw [if_neg hs, if_neg hee]; omega
    obtain ⟨u, hu⟩ := he
    split
    · next s' heq =>
      exfalso
      split at heq
      · have : r.s.line + k - 1 < lines.length := by omega
        rw [List.getElem?_eq_getElem this] at heq
        cases heq
      · cases heq
    · simp
    · next b2 _ =>
      rw [hu]
      simp only []
      split
      · next s' heq =>
        exfalso
        split at heq
        · have : r.s.line + k + 1 < lines.length := by omega
          rw [List.getElem?_eq_getElem this] at heq
          cases heq
        · cases heq
      · simp
      · next b4 _ =>
        apply ih (k + 1) b4 (pre ++ [line]) post
        · rw [hl]; simp
        · simp; omega
        · omega

/-- `Pos.gtEq` is the lexicographic order on (line, character) -/
theorem sh_gtEq_iff (p q : Pos) :
    p.gtEq q = true ↔ (q.line < p.line ∨ (q.line = p.line ∧ q.char ≤ p.char)) := by
  unfold Pos.gtEq
  by_cases h : p.line = q.line
  · rw [if_pos h]; simp only [decide_eq_true_eq]; omega
  · rw [if_neg h]; simp only [decide_eq_true_eq]; omega

end NS
