import Model.Lsp
import Spec.Names

/-
  Proofs/LspLemmas.lean — helper lemmas for Properties/C19.lean (document store
  refinement and navigation).
-/

namespace NS

/-! ### the document store -/

theorem ls_lookup_cons (s : LspState) (u uri : String) (d : Doc) :
    lookupDoc ((u, d) :: s) uri = if u = uri then some d else lookupDoc s uri := by
  unfold lookupDoc
  by_cases h : u = uri
  · simp [List.find?, h]
  · have hb : (u == uri) = false := by simp [h]
    simp [List.find?, hb, h]

/-- a successful `updateDocument` conses the fresh analysis in front of the store -/
theorem ls_update_ok {s s' : LspState} {uri : String} {prog : Program} {pd : List Diag} {resp : Resp}
    (h : updateDocument s uri prog pd = .ok (s', resp)) :
    ∃ st, checkProgram pd prog = .ok st ∧ s' = (uri, ⟨prog, st⟩) :: s := by
  unfold updateDocument at h
  split at h
  · cases h
  · cases h
  · rename_i st hst
    cases h
    exact ⟨st, hst, rfl⟩

theorem ls_hover_step_state {s s' : LspState} {uri : String} {pos : Pos} {resp : Resp}
    (h : lspStep s (.hover uri pos) = .ok (s', resp)) : s' = s := by
  simp only [lspStep] at h
  split at h
  · cases h; rfl
  · split at h <;> cases h <;> rfl

theorem ls_definition_step_state {s s' : LspState} {uri : String} {pos : Pos} {resp : Resp}
    (h : lspStep s (.definition uri pos) = .ok (s', resp)) : s' = s := by
  simp only [lspStep] at h
  split at h
  · cases h; rfl
  · split at h <;> cases h <;> rfl

theorem ls_symbols_step_state {s s' : LspState} {uri : String} {resp : Resp}
    (h : lspStep s (.symbols uri) = .ok (s', resp)) : s' = s := by
  simp only [lspStep] at h
  split at h
  · cases h; rfl
  · split at h <;> cases h <;> rfl

/-- destructuring a successful run of a non-empty history -/
theorem ls_run_cons {s0 s : LspState} {r : Req} {rs : List Req} {resps : List Resp}
    (h : lspRun s0 (r :: rs) = .ok (s, resps)) :
    ∃ s1 resp resps', lspStep s0 r = .ok (s1, resp) ∧ lspRun s1 rs = .ok (s, resps') := by
  simp only [lspRun] at h
  split at h
  · cases h
  · cases h
  · rename_i s1 resp hstep
    split at h
    · cases h
    · cases h
    · rename_i s2 resps' hrun
      cases h
      exact ⟨s1, resp, resps', hstep, hrun⟩

/-- the binding a single request installs for `uri`, if any -/
def ls_reqBinding (r : Req) (uri : String) : Option (Program × List Diag) :=
  match r with
  | .didOpen u prog pd => if u = uri then some (prog, pd) else none
  | .didChange u prog pd => if u = uri then some (prog, pd) else none
  | _ => none

/-- a fresh analysis of a (tree, parse errors) pair -/
def ls_analyse (b : Program × List Diag) : Option Doc :=
  match checkProgram b.2 b.1 with
  | .ok st => some ⟨b.1, st⟩
  | _ => none

/-- one step: the document under `uri` is the fresh analysis of the request's text if the request
    installs one for `uri`, and is untouched otherwise -/
theorem ls_step_lookup {s0 s1 : LspState} {r : Req} {resp : Resp} (h : lspStep s0 r = .ok (s1, resp))
    (uri : String) :
    lookupDoc s1 uri = (match ls_reqBinding r uri with
                        | none => lookupDoc s0 uri
                        | some b => ls_analyse b) := by
  cases r with
  | didOpen u prog pd =>
      obtain ⟨st, hst, rfl⟩ := ls_update_ok (by simpa [lspStep] using h)
      rw [ls_lookup_cons]
      by_cases hu : u = uri <;> simp [ls_reqBinding, hu, ls_analyse, hst]
  | didChange u prog pd =>
      obtain ⟨st, hst, rfl⟩ := ls_update_ok (by simpa [lspStep] using h)
      rw [ls_lookup_cons]
      by_cases hu : u = uri <;> simp [ls_reqBinding, hu, ls_analyse, hst]
  | hover u p => rw [ls_hover_step_state h]; simp [ls_reqBinding]
  | definition u p => rw [ls_definition_step_state h]; simp [ls_reqBinding]
  | symbols u => rw [ls_symbols_step_state h]; simp [ls_reqBinding]

/-- the refinement, from an arbitrary start state: after a successful run, the document under `uri`
    is the fresh analysis of the latest text for `uri` in the history, or what the start state had
    when the history has none.  `lat` is any function satisfying the defining equations of
    `latest` (Properties/C19.lean). -/
theorem ls_run_lookup (lat : List Req → String → Option (Program × List Diag))
    (hnil : ∀ uri, lat [] uri = none)
    (hcons : ∀ r rs uri, lat (r :: rs) uri =
      (match lat rs uri with | some x => some x | none => ls_reqBinding r uri))
    (h : List Req) : ∀ (s0 s : LspState) (resps : List Resp), lspRun s0 h = .ok (s, resps) →
    ∀ uri, lookupDoc s uri = (match lat h uri with
                              | none => lookupDoc s0 uri
                              | some b => ls_analyse b) := by
  induction h with
  | nil =>
      intro s0 s resps hrun uri
      simp only [lspRun] at hrun
      cases hrun
      simp [hnil]
  | cons r rs ih =>
      intro s0 s resps hrun uri
      obtain ⟨s1, resp, resps', hstep, hrest⟩ := ls_run_cons hrun
      have h1 := ih s1 s resps' hrest uri
      have h2 := ls_step_lookup hstep uri
      rw [hcons]
      cases hl : lat rs uri with
      | some x => simpa [hl] using h1
      | none =>
          rw [hl] at h1
          simp only at h1 ⊢
          rw [h1, h2]

/-! ### navigation -/

/-- `hoverOnExpression` never raises a typed error -/
theorem ls_hoverE_ne_err (e : Expr) (pos : Pos) : ∀ x : Err, hoverOnExpression e pos ≠ .err x := by
  induction e with
  | monetary r a n iha ihn =>
      intro x
      simp only [hoverOnExpression]
      split
      · intro h; cases h
      · split
        · intro h; cases h
        · rename_i e' he'; intro _; exact ihn e' he'
        · intro h; cases h
        · exact iha x
  | «infix» r op l rgt ihl ihr =>
      intro x
      simp only [hoverOnExpression]
      split
      · intro h; cases h
      · split
        · intro h; cases h
        · rename_i e' he'; intro _; exact ihl e' he'
        · intro h; cases h
        · exact ihr x
  | _ => simp [hoverOnExpression]

/-- `hoverOnExpression` only ever answers with a variable -/
theorem ls_hoverE_variable (e : Expr) (pos : Pos) (hv : Hover)
    (h : hoverOnExpression e pos = .ok (some hv)) : ∃ r n, hv = .variable r n := by
  induction e with
  | var r n =>
      simp only [hoverOnExpression] at h
      split at h
      · cases h; exact ⟨r, n, rfl⟩
      · cases h
  | monetary r a n iha ihn =>
      simp only [hoverOnExpression] at h
      split at h
      · cases h
      · split at h
        · cases h
        · cases h
        · rename_i h' hh; cases h; exact ihn hh
        · exact iha h
  | «infix» r op l rgt ihl ihr =>
      simp only [hoverOnExpression] at h
      split at h
      · cases h
      · split at h
        · cases h
        · cases h
        · rename_i h' hh; cases h; exact ihl hh
        · exact ihr h
  | _ => simp [hoverOnExpression] at h

/-- soundness of `hoverOnExpression` -/
theorem ls_hoverE_sound (e : Expr) (pos : Pos) (r : Range) (n : String)
    (h : hoverOnExpression e pos = .ok (some (.variable r n))) :
    (r, n) ∈ usesE e ∧ r.contains pos = true := by
  induction e with
  | var r' n' =>
      simp only [hoverOnExpression] at h
      split at h
      · rename_i hc
        cases h
        exact ⟨by simp [usesE], hc⟩
      · cases h
  | monetary r' a m iha ihm =>
      simp only [hoverOnExpression] at h
      split at h
      · cases h
      · split at h
        · cases h
        · cases h
        · rename_i h' hh
          cases h
          have := ihm hh
          exact ⟨by simp [usesE, this.1], this.2⟩
        · have := iha h
          exact ⟨by simp [usesE, this.1], this.2⟩
  | «infix» r' op l rgt ihl ihr =>
      simp only [hoverOnExpression] at h
      split at h
      · cases h
      · split at h
        · cases h
        · cases h
        · rename_i h' hh
          cases h
          have := ihl hh
          exact ⟨by simp [usesE, this.1], this.2⟩
        · have := ihr h
          exact ⟨by simp [usesE, this.1], this.2⟩
  | _ => simp [hoverOnExpression] at h

/-- in a well-nested expression (`N` = `Expr.Nested` of Properties/C19.lean, given through its
    unfolding equations) the range of a node contains the range of every variable inside it -/
theorem ls_occ_in_range (N : Expr → Prop)
    (hmon : ∀ r a n, N (.monetary r a n) →
      (∀ p, a.range.contains p = true → a ≠ .nil → r.contains p = true) ∧
      (∀ p, n.range.contains p = true → n ≠ .nil → r.contains p = true) ∧ N a ∧ N n)
    (hinf : ∀ r op l rgt, N (.infix r op l rgt) →
      (∀ p, l.range.contains p = true → l ≠ .nil → r.contains p = true) ∧
      (∀ p, rgt.range.contains p = true → rgt ≠ .nil → r.contains p = true) ∧ N l ∧ N rgt)
    (e : Expr) (hn : N e) (pos : Pos) (r : Range) (n : String)
    (hmem : (r, n) ∈ usesE e) (hin : r.contains pos = true) :
    e.range.contains pos = true ∧ e ≠ .nil := by
  induction e with
  | var r' n' =>
      simp only [usesE, List.mem_singleton] at hmem
      cases hmem
      exact ⟨hin, by simp⟩
  | monetary rr a m iha ihm =>
      obtain ⟨ha1, hm1, Na, Nm⟩ := hmon rr a m hn
      refine ⟨?_, by simp⟩
      simp only [usesE, List.mem_append] at hmem
      rcases hmem with hmem | hmem
      · obtain ⟨h1, h2⟩ := iha Na hmem
        exact ha1 pos h1 h2
      · obtain ⟨h1, h2⟩ := ihm Nm hmem
        exact hm1 pos h1 h2
  | «infix» rr op l rgt ihl ihr =>
      obtain ⟨hl1, hr1, Nl, Nr⟩ := hinf rr op l rgt hn
      refine ⟨?_, by simp⟩
      simp only [usesE, List.mem_append] at hmem
      rcases hmem with hmem | hmem
      · obtain ⟨h1, h2⟩ := ihl Nl hmem
        exact hl1 pos h1 h2
      · obtain ⟨h1, h2⟩ := ihr Nr hmem
        exact hr1 pos h1 h2
  | _ => simp [usesE] at hmem

/-- the two-children step of `hoverOnExpression`, as one lemma for both node kinds: first child
    `c1`, then `c2`; `uses` of the node is the union of the children's -/
theorem ls_hover_two_children (c1 c2 : Expr) (pos : Pos) (r : Range) (n : String)
    (ih1 : (r, n) ∈ usesE c1 → (∀ o ∈ usesE c1, o.1.contains pos = true → o = (r, n)) →
      (∀ s, hoverOnExpression c1 pos ≠ .panic s) → hoverOnExpression c1 pos = .ok (some (.variable r n)))
    (ih2 : (r, n) ∈ usesE c2 → (∀ o ∈ usesE c2, o.1.contains pos = true → o = (r, n)) →
      (∀ s, hoverOnExpression c2 pos ≠ .panic s) → hoverOnExpression c2 pos = .ok (some (.variable r n)))
    (hmem : (r, n) ∈ usesE c1 ∨ (r, n) ∈ usesE c2)
    (hu1 : ∀ o ∈ usesE c1, o.1.contains pos = true → o = (r, n))
    (hu2 : ∀ o ∈ usesE c2, o.1.contains pos = true → o = (r, n))
    (hnil : ∀ s, (match hoverOnExpression c1 pos with
                  | .panic s => .panic s
                  | .err e => .err e
                  | .ok (some h) => .ok (some h)
                  | .ok none => hoverOnExpression c2 pos) ≠ Outcome.panic s) :
    (match hoverOnExpression c1 pos with
     | .panic s => .panic s
     | .err e => .err e
     | .ok (some h) => .ok (some h)
     | .ok none => hoverOnExpression c2 pos) = Outcome.ok (some (Hover.variable r n)) := by
  cases h1 : hoverOnExpression c1 pos with
  | panic s =>
      rw [h1] at hnil
      exact absurd rfl (hnil s)
  | err x => exact absurd h1 (ls_hoverE_ne_err c1 pos x)
  | ok o =>
      cases o with
      | some hv =>
          obtain ⟨r', n', rfl⟩ := ls_hoverE_variable c1 pos hv h1
          have hs := ls_hoverE_sound c1 pos r' n' h1
          have := hu1 (r', n') hs.1 hs.2
          cases this
          rfl
      | none =>
          rw [h1] at hnil
          simp only at hnil ⊢
          rcases hmem with hmem | hmem
          · have := ih1 hmem hu1 (by intro s hs; rw [h1] at hs; cases hs)
            rw [h1] at this
            cases this
          · exact ih2 hmem hu2 hnil

/-- completeness of `hoverOnExpression` on well-nested expressions -/
theorem ls_hoverE_complete (N : Expr → Prop)
    (hmon : ∀ r a n, N (.monetary r a n) →
      (∀ p, a.range.contains p = true → a ≠ .nil → r.contains p = true) ∧
      (∀ p, n.range.contains p = true → n ≠ .nil → r.contains p = true) ∧ N a ∧ N n)
    (hinf : ∀ r op l rgt, N (.infix r op l rgt) →
      (∀ p, l.range.contains p = true → l ≠ .nil → r.contains p = true) ∧
      (∀ p, rgt.range.contains p = true → rgt ≠ .nil → r.contains p = true) ∧ N l ∧ N rgt)
    (e : Expr) (hn : N e) (pos : Pos) (r : Range) (n : String)
    (hmem : (r, n) ∈ usesE e) (hin : r.contains pos = true)
    (huniq : ∀ o ∈ usesE e, o.1.contains pos = true → o = (r, n))
    (hnil : ∀ s, hoverOnExpression e pos ≠ .panic s) :
    hoverOnExpression e pos = .ok (some (.variable r n)) := by
  induction e with
  | var r' n' =>
      simp only [usesE, List.mem_singleton] at hmem
      cases hmem
      simp [hoverOnExpression, hin]
  | monetary rr a m iha ihm =>
      have hrr : rr.contains pos = true :=
        (ls_occ_in_range N hmon hinf _ hn pos r n hmem hin).1
      obtain ⟨_, _, Na, Nm⟩ := hmon rr a m hn
      have hstep : hoverOnExpression (.monetary rr a m) pos =
          (match hoverOnExpression m pos with
           | .panic s => .panic s
           | .err e => .err e
           | .ok (some h) => .ok (some h)
           | .ok none => hoverOnExpression a pos) := by
        simp only [hoverOnExpression, hrr, Bool.not_true, Bool.false_eq_true, if_false]
        rcases hoverOnExpression m pos with (_ | _) | _ | _ <;> rfl
      rw [hstep] at hnil ⊢
      have hmem' : (r, n) ∈ usesE m ∨ (r, n) ∈ usesE a := by
        simp only [usesE, List.mem_append] at hmem
        exact hmem.symm
      exact ls_hover_two_children m a pos r n (ihm Nm) (iha Na) hmem'
        (fun o ho => huniq o (by simp [usesE, ho])) (fun o ho => huniq o (by simp [usesE, ho])) hnil
  | «infix» rr op l rgt ihl ihr =>
      have hrr : rr.contains pos = true :=
        (ls_occ_in_range N hmon hinf _ hn pos r n hmem hin).1
      obtain ⟨_, _, Nl, Nr⟩ := hinf rr op l rgt hn
      have hstep : hoverOnExpression (.infix rr op l rgt) pos =
          (match hoverOnExpression l pos with
           | .panic s => .panic s
           | .err e => .err e
           | .ok (some h) => .ok (some h)
           | .ok none => hoverOnExpression rgt pos) := by
        simp only [hoverOnExpression, hrr, Bool.not_true, Bool.false_eq_true, if_false]
        rcases hoverOnExpression l pos with (_ | _) | _ | _ <;> rfl
      rw [hstep] at hnil ⊢
      have hmem' : (r, n) ∈ usesE l ∨ (r, n) ∈ usesE rgt := by
        simpa only [usesE, List.mem_append] using hmem
      exact ls_hover_two_children l rgt pos r n (ihl Nl) (ihr Nr) hmem'
        (fun o ho => huniq o (by simp [usesE, ho])) (fun o ho => huniq o (by simp [usesE, ho])) hnil
  | _ => simp [usesE] at hmem

end NS
