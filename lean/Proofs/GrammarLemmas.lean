import Spec.Render
import Proofs.LexLemmas
import Proofs.ParseLemmas
import Proofs.UnparseLemmas

namespace NS

/-! ## Part A: the lexer — which candidate `bestOf` selects -/

theorem gr_bestOf_none (l : List (Option TK × Nat)) (h : bestOf l = none) : ∀ y ∈ l, y.2 = 0 := by
  induction l with
  | nil => intro y hy; cases hy
  | cons a rest ih =>
    obtain ⟨k0, n0⟩ := a
    unfold bestOf at h
    split at h
    · split at h <;> cases h
    · rename_i hb
      split at h
      · cases h
      · rename_i hn
        intro y hy
        rcases List.mem_cons.mp hy with rfl | hy
        · simpa using hn
        · exact ih hb y hy

/-- nothing is longer than the selected candidate -/
theorem gr_bestOf_le (l : List (Option TK × Nat)) (k : Option TK) (n : Nat)
    (h : bestOf l = some (k, n)) : ∀ y ∈ l, y.2 ≤ n := by
  induction l generalizing k n with
  | nil => intro y hy; cases hy
  | cons a rest ih =>
    obtain ⟨k0, n0⟩ := a
    unfold bestOf at h
    split at h
    · rename_i k' n' hb
      have hr := ih k' n' hb
      split at h
      · rename_i hc
        simp only [Option.some.injEq, Prod.mk.injEq] at h
        obtain ⟨rfl, rfl⟩ := h
        intro y hy
        rcases List.mem_cons.mp hy with rfl | hy
        · exact Nat.le_refl _
        · exact Nat.le_trans (hr y hy) hc.1
      · rename_i hc
        simp only [Option.some.injEq, Prod.mk.injEq] at h
        obtain ⟨rfl, rfl⟩ := h
        have hn' := (lx_bestOf_mem _ _ _ hb).2
        intro y hy
        rcases List.mem_cons.mp hy with rfl | hy
        · simp only; omega
        · exact hr y hy
    · rename_i hb
      have hz := gr_bestOf_none rest hb
      split at h
      · simp only [Option.some.injEq, Prod.mk.injEq] at h
        obtain ⟨rfl, rfl⟩ := h
        intro y hy
        rcases List.mem_cons.mp hy with rfl | hy
        · exact Nat.le_refl _
        · rw [hz y hy]; exact Nat.zero_le _
      · cases h

/-- every candidate written before the first one of the selected kind is strictly shorter -/
theorem gr_bestOf_first (l : List (Option TK × Nat)) (k : Option TK) (n : Nat)
    (h : bestOf l = some (k, n)) : ∀ x ∈ l.takeWhile (fun y => decide (y.1 ≠ k)), x.2 < n := by
  induction l generalizing k n with
  | nil => intro y hy; simp at hy
  | cons a rest ih =>
    obtain ⟨k0, n0⟩ := a
    unfold bestOf at h
    split at h
    · rename_i k' n' hb
      split at h
      · simp only [Option.some.injEq, Prod.mk.injEq] at h
        obtain ⟨rfl, rfl⟩ := h
        intro x hx
        simp [List.takeWhile] at hx
      · rename_i hc
        simp only [Option.some.injEq, Prod.mk.injEq] at h
        obtain ⟨rfl, rfl⟩ := h
        have hn' := (lx_bestOf_mem _ _ _ hb).2
        intro x hx
        by_cases hk : k0 = k'
        · subst hk; simp [List.takeWhile] at hx
        · have : (List.takeWhile (fun y => decide (y.1 ≠ k')) ((k0, n0) :: rest))
              = (k0, n0) :: List.takeWhile (fun y => decide (y.1 ≠ k')) rest := by
            simp [List.takeWhile, hk]
          rw [this] at hx
          rcases List.mem_cons.mp hx with rfl | hx
          · simp only; omega
          · exact ih k' n' hb x hx
    · split at h
      · simp only [Option.some.injEq, Prod.mk.injEq] at h
        obtain ⟨rfl, rfl⟩ := h
        intro x hx
        simp [List.takeWhile] at hx
      · cases h

/-- a token is the text of the selected candidate at some position of the input -/
def gr_TokFrom (t : Tok) : Prop :=
  ∃ cs n, bestOf (candidates cs) = some (some t.kind, n) ∧ t.text = cs.take n

theorem gr_lexLoop_toks (fuel : Nat) : ∀ (cs : List Char) (line col : Nat) (ts : List Tok),
    lexLoop fuel cs line col = some ts → ∀ t ∈ ts, gr_TokFrom t := by
  induction fuel with
  | zero => intro cs line col ts h; rw [lx_lexLoop_zero] at h; exact absurd h (by simp)
  | succ fuel ih =>
    intro cs line col ts h
    cases cs with
    | nil =>
      rw [lx_lexLoop_nil] at h
      have : ts = [] := by simpa using h.symm
      subst this; intro t ht; cases ht
    | cons c cs =>
      rw [lx_lexLoop_cons] at h
      split at h
      · simp at h
      · rename_i k n hb
        split at h
        · simp at h
        · rename_i toks hrec
          have hi := ih _ _ _ _ hrec
          cases k with
          | none =>
            simp at h; subst h
            exact hi
          | some kind =>
            simp at h; subst h
            intro t ht
            rcases List.mem_cons.mp ht with rfl | ht
            · exact ⟨c :: cs, n, hb, rfl⟩
            · exact hi t ht

theorem gr_lex_toks (cs : List Char) (ts : List Tok) (h : lex cs = some ts) : ∀ t ∈ ts, gr_TokFrom t :=
  gr_lexLoop_toks _ _ _ _ _ h

theorem gr_spanLen_le (p : Char → Bool) (cs : List Char) : spanLen p cs ≤ cs.length := by
  induction cs with
  | nil => simp [spanLen]
  | cons c t ih =>
    unfold spanLen
    split
    · simp only [List.length_cons]; omega
    · exact Nat.zero_le _

theorem gr_mIdent_le (cs : List Char) : mIdent cs ≤ cs.length := by
  unfold mIdent
  split
  · rename_i c t
    split
    · have := gr_spanLen_le isIdentTail t
      simp only [List.length_cons]; omega
    · exact Nat.zero_le _
  · exact Nat.zero_le _

theorem gr_mLiteral_take (kw cs : List Char) (n : Nat) (h : cs.take n = kw) (hn : n ≤ cs.length) :
    mLiteral kw cs = n := by
  subst h
  unfold mLiteral
  rw [if_pos (List.isPrefixOf_iff_prefix.mpr (List.take_prefix _ _))]
  simp only [List.length_take]; omega

theorem gr_cand_ident (cs : List Char) (n : Nat) (h : (some TK.ident, n) ∈ candidates cs) :
    n = mIdent cs := by
  simpa [candidates] using h

theorem gr_kw_before (cs : List Char) (kw : List Char) (hkw : kw ∈ keywordTexts) :
    ∃ kk, (some kk, mLiteral kw cs) ∈ (candidates cs).takeWhile (fun y => decide (y.1 ≠ some TK.ident)) := by
  have htw : (candidates cs).takeWhile (fun y => decide (y.1 ≠ some TK.ident)) = (candidates cs).take 30 := by
    rfl
  rw [htw]
  simp only [keywordTexts, List.map_cons, List.map_nil, List.mem_cons, List.mem_nil_iff, or_false] at hkw
  rcases hkw with rfl | rfl | rfl | rfl | rfl | rfl | rfl | rfl | rfl | rfl | rfl | rfl | rfl | rfl
  · exact ⟨.kwVars, by simp [candidates]⟩
  · exact ⟨.kwMax, by simp [candidates]⟩
  · exact ⟨.kwSource, by simp [candidates]⟩
  · exact ⟨.kwDestination, by simp [candidates]⟩
  · exact ⟨.kwSend, by simp [candidates]⟩
  · exact ⟨.kwFrom, by simp [candidates]⟩
  · exact ⟨.kwUp, by simp [candidates]⟩
  · exact ⟨.kwTo, by simp [candidates]⟩
  · exact ⟨.kwRemaining, by simp [candidates]⟩
  · exact ⟨.kwAllowing, by simp [candidates]⟩
  · exact ⟨.kwUnbounded, by simp [candidates]⟩
  · exact ⟨.kwOverdraft, by simp [candidates]⟩
  · exact ⟨.kwKept, by simp [candidates]⟩
  · exact ⟨.kwSave, by simp [candidates]⟩

theorem gr_ident_not_keyword (t : Tok) (ht : gr_TokFrom t) (hk : t.kind = .ident) :
    t.text ∉ keywordTexts := by
  obtain ⟨cs, n, hb, htxt⟩ := ht
  rw [hk] at hb
  have hn := gr_cand_ident cs n (lx_bestOf_mem _ _ _ hb).1
  have hfirst := gr_bestOf_first _ _ _ hb
  have hlt : ∀ kw ∈ keywordTexts, mLiteral kw cs < n := by
    intro kw hkw
    obtain ⟨kk, hkk⟩ := gr_kw_before cs kw hkw
    exact hfirst _ hkk
  intro hmem
  have := hlt _ hmem
  rw [htxt] at this
  rw [gr_mLiteral_take _ cs n rfl (hn ▸ gr_mIdent_le cs)] at this
  omega

theorem gr_cand_fixed (cs : List Char) (k : TK) (txt : List Char) (n : Nat)
    (hf : fixedText k = some txt) (h : (some k, n) ∈ candidates cs) : n = mLiteral txt cs := by
  cases k <;> simp only [fixedText, Option.some.injEq, reduceCtorEq] at hf <;> subst hf <;>
    simpa [candidates] using h

theorem gr_mLiteral_pos (kw cs : List Char) (h : mLiteral kw cs ≠ 0) :
    cs.take (mLiteral kw cs) = kw := by
  unfold mLiteral at h ⊢
  split
  · rename_i hp
    exact (List.prefix_iff_eq_take.mp (List.isPrefixOf_iff_prefix.mp hp)).symm
  · rename_i hp
    rw [if_neg hp] at h
    exact absurd rfl h

theorem gr_fixed_text (t : Tok) (ht : gr_TokFrom t) (txt : List Char) (hf : fixedText t.kind = some txt) :
    t.text = txt := by
  obtain ⟨cs, n, hb, htxt⟩ := ht
  obtain ⟨hmem, hn⟩ := lx_bestOf_mem _ _ _ hb
  have := gr_cand_fixed cs t.kind txt n hf hmem
  subst this
  rw [htxt]
  exact gr_mLiteral_pos txt cs hn

/-! ## Part B: the parser — an accepted stream is the written form of the returned tree -/

def gr_normKind (k : TK) : TK := if k = .percent then .ratio else k

theorem gr_normKind_of {k k' : TK} (h : k = k') (hne : k' ≠ .percent) : gr_normKind k = k' := by
  subst h; simp [gr_normKind, hne]

/-- `ts` is `consumed ++ rest` and the (normalised) kinds of `consumed` are `ks` -/
def gr_Inv (ts : List Tok) (ks : List TK) (rest : List Tok) : Prop :=
  ∃ consumed, ts = consumed ++ rest ∧ consumed.map (fun t => gr_normKind t.kind) = ks

theorem gr_Inv_nil (ts : List Tok) : gr_Inv ts [] ts := ⟨[], rfl, rfl⟩

theorem gr_Inv_cons {t : Tok} {ts : List Tok} {k : TK} {ks : List TK} {rest : List Tok}
    (hk : gr_normKind t.kind = k) (h : gr_Inv ts ks rest) : gr_Inv (t :: ts) (k :: ks) rest := by
  obtain ⟨c, rfl, rfl⟩ := h
  exact ⟨t :: c, rfl, by simp [hk]⟩

theorem gr_Inv_kind {t : Tok} {ts : List Tok} {k : TK} {ks : List TK} {rest : List Tok}
    (hk : t.kind = k) (hne : k ≠ .percent) (h : gr_Inv ts ks rest) : gr_Inv (t :: ts) (k :: ks) rest :=
  gr_Inv_cons (gr_normKind_of hk hne) h

theorem gr_Inv_append {ts mid rest : List Tok} {ks1 ks2 : List TK}
    (h1 : gr_Inv ts ks1 mid) (h2 : gr_Inv mid ks2 rest) : gr_Inv ts (ks1 ++ ks2) rest := by
  obtain ⟨c1, rfl, rfl⟩ := h1
  obtain ⟨c2, rfl, rfl⟩ := h2
  exact ⟨c1 ++ c2, by simp, by simp⟩

theorem gr_Inv_expect {k : TK} {ts : List Tok} {t : Tok} {r : List Tok} {ks : List TK} {rest : List Tok}
    (h : expect k ts = some (t, r)) (hne : k ≠ .percent) (h2 : gr_Inv r ks rest) :
    gr_Inv ts (k :: ks) rest := by
  obtain ⟨rfl, hk⟩ := pt_expect_some h
  exact gr_Inv_kind hk hne h2

theorem gr_Inv_sub {ts : List Tok} {ks : List TK} {rest : List Tok} (h : gr_Inv ts ks rest) :
    ∀ t ∈ rest, t ∈ ts := by
  obtain ⟨c, rfl, _⟩ := h
  intro t ht; exact List.mem_append_right _ ht

theorem gr_Inv_all {ts : List Tok} {ks : List TK} (h : gr_Inv ts ks []) :
    ts.map (fun t => gr_normKind t.kind) = ks := by
  obtain ⟨c, rfl, rfl⟩ := h
  simp

theorem gr_Inv_eq {ts : List Tok} {ks ks' : List TK} {rest : List Tok} (h : gr_Inv ts ks rest)
    (e : ks = ks') : gr_Inv ts ks' rest := e ▸ h

/-! ### expressions -/

theorem gr_ntv_range {text : List Char} {v : Int} (h : numberTokenValue text = some v) :
    - (2 ^ 63 : Int) ≤ v ∧ v < (2 ^ 63 : Int) := by
  unfold numberTokenValue at h
  simp only [Option.ite_none_right_eq_some, Option.some.injEq] at h
  obtain ⟨hr, rfl⟩ := h
  exact hr

theorem gr_portionExpr {t : Tok} {e : Expr} (h : portionExpr t = some e) :
    (∃ r n d, e = .ratio r n d) ∧ gr_normKind t.kind = .ratio := by
  refine ⟨pt_portionExpr_ok h, ?_⟩
  simp only [portionExpr] at h
  split at h
  · rename_i hk; simp [gr_normKind, hk]
  · split at h
    · rename_i hk; simp [gr_normKind, hk]
    · cases h

def gr_EOk (ts : List Tok) (e : Expr) (rest : List Tok) : Prop :=
  e.Printable ∧ gr_Inv ts (e.toks.map (·.1)) rest

theorem gr_EOk_single {t : Tok} {ts : List Tok} {e : Expr} {k : TK} {x : List Char}
    (hp : e.Printable) (ht : e.toks = [(k, x)]) (hk : gr_normKind t.kind = k) : gr_EOk (t :: ts) e ts := by
  refine ⟨hp, ?_⟩
  rw [ht]
  exact gr_Inv_cons hk (gr_Inv_nil _)

theorem gr_expr : ∀ f : Nat,
    (∀ ts e stop rest, pExpr f ts = some (e, stop, rest) → gr_EOk ts e rest) ∧
    (∀ ts e stop rest, pPrimary f ts = some (e, stop, rest) → gr_EOk ts e rest ∧ e.isInfix = false) ∧
    (∀ first l stop ts e stop' rest,
      pInfixTail f first l stop ts = some (e, stop', rest) → l.Printable →
        e.Printable ∧ ∃ ks, gr_Inv ts ks rest ∧ e.toks.map (·.1) = l.toks.map (·.1) ++ ks) := by
  intro f
  induction f with
  | zero =>
    refine ⟨?_, ?_, ?_⟩
    · intro ts e stop rest h; simp [pExpr] at h
    · intro ts e stop rest h; simp [pPrimary] at h
    · intro first l stop ts e stop' rest h; simp [pInfixTail] at h
  | succ f ih =>
    obtain ⟨ihE, ihP, ihT⟩ := ih
    refine ⟨?_, ?_, ?_⟩
    · intro ts e stop rest h
      cases ts with
      | nil => simp [pExpr] at h
      | cons t ts =>
        simp only [pExpr] at h
        split at h
        · rename_i e1 s1 r1 h1
          obtain ⟨⟨hp1, hi1⟩, _⟩ := ihP _ _ _ _ h1
          obtain ⟨hp, ks, hi, he⟩ := ihT _ _ _ _ _ _ _ h hp1
          exact ⟨hp, he ▸ gr_Inv_append hi1 hi⟩
        · cases h
    · intro ts e stop rest h
      cases ts with
      | nil => simp [pPrimary] at h
      | cons t ts =>
        simp only [pPrimary] at h
        split at h
        · rename_i hk
          cases h
          exact ⟨gr_EOk_single (by simp [Expr.Printable]) (by simp [Expr.toks]; rfl) (gr_normKind_of hk (by decide)), rfl⟩
        · rename_i hk
          cases h
          exact ⟨gr_EOk_single (by simp [Expr.Printable]) (by simp [Expr.toks]; rfl) (gr_normKind_of hk (by decide)), rfl⟩
        · rename_i hk
          cases h
          exact ⟨gr_EOk_single (by simp [Expr.Printable]) (by simp [Expr.toks]; rfl) (gr_normKind_of hk (by decide)), rfl⟩
        · rename_i hk
          cases h
          exact ⟨gr_EOk_single (by simp [Expr.Printable]) (by simp [Expr.toks]; rfl) (gr_normKind_of hk (by decide)), rfl⟩
        · rename_i hk
          split at h
          · rename_i v hv
            cases h
            exact ⟨gr_EOk_single (by simpa [Expr.Printable] using gr_ntv_range hv) (by simp [Expr.toks]; rfl)
              (gr_normKind_of hk (by decide)), rfl⟩
          · cases h
        · split at h
          · rename_i e1 h1
            cases h
            obtain ⟨⟨r, n, d, rfl⟩, hk⟩ := gr_portionExpr h1
            exact ⟨gr_EOk_single (by simp [Expr.Printable]) (by simp [Expr.toks]; rfl) hk, rfl⟩
          · cases h
        · split at h
          · rename_i e1 h1
            cases h
            obtain ⟨⟨r, n, d, rfl⟩, hk⟩ := gr_portionExpr h1
            exact ⟨gr_EOk_single (by simp [Expr.Printable]) (by simp [Expr.toks]; rfl) hk, rfl⟩
          · cases h
        · rename_i hk
          split at h
          · rename_i a s1 r1 h1
            split at h
            · rename_i b s2 r2 h2
              split at h
              · rename_i rb r3 h3
                cases h
                obtain ⟨hpa, hia⟩ := ihE _ _ _ _ h1
                obtain ⟨hpb, hib⟩ := ihE _ _ _ _ h2
                refine ⟨⟨⟨hpa, hpb⟩, ?_⟩, rfl⟩
                simp only [Expr.toks, kw, List.map_cons, List.map_append, List.map_nil, List.cons_append]
                exact gr_Inv_kind hk (by decide)
                  (gr_Inv_append (gr_Inv_append hia hib) (gr_Inv_expect h3 (by decide) (gr_Inv_nil _)))
              · cases h
            · cases h
          · cases h
        · cases h
    · intro first l stop ts e stop' rest h hl
      cases ts with
      | nil => simp only [pInfixTail] at h; cases h; exact ⟨hl, [], gr_Inv_nil _, by simp⟩
      | cons op ts =>
        simp only [pInfixTail] at h
        split at h
        · rename_i hop
          split at h
          · rename_i r s1 r1 h1
            obtain ⟨⟨hpr, hir⟩, hnr⟩ := ihP _ _ _ _ h1
            obtain ⟨hp, ks, hi, he⟩ := ihT _ _ _ _ _ _ _ h ⟨hl, hpr, hnr⟩
            refine ⟨hp, _, gr_Inv_cons rfl (gr_Inv_append hir hi), ?_⟩
            rw [he]
            rcases hop with hop | hop
            · simp [Expr.toks, kw, hop, gr_normKind]
            · simp [Expr.toks, kw, hop, gr_normKind]
          · cases h
        · cases h; exact ⟨hl, [], gr_Inv_nil _, by simp⟩

/-! ### allotment heads, sources -/

theorem gr_allotOfTok {t : Tok} {av : AllotVal} (h : allotOfTok t = some av) :
    av.Printable ∧ av.toks.map (·.1) = [gr_normKind t.kind] := by
  simp only [allotOfTok] at h
  split at h
  · rename_i hk
    cases h
    simp [AllotVal.Printable, AllotVal.toks, kw, gr_normKind, hk]
  · split at h
    · rename_i hk
      cases h
      simp [AllotVal.Printable, AllotVal.toks, Expr.toks, gr_normKind, hk]
    · cases hp : portionExpr t with
      | none => simp [hp] at h
      | some e =>
        simp only [hp, Option.map_some, Option.some.injEq] at h
        subst h
        obtain ⟨⟨r, n, d, rfl⟩, hk⟩ := gr_portionExpr hp
        simp [AllotVal.Printable, AllotVal.toks, Expr.toks, hk]

def gr_SOk (ts : List Tok) (s : Source) (rest : List Tok) : Prop :=
  s.Printable ∧ gr_Inv ts (s.toks.map (·.1)) rest
def gr_SsOk (ts : List Tok) (ss : List Source) (rest : List Tok) : Prop :=
  SourcesPrintable ss ∧ gr_Inv ts ((sourcesToks ss).map (·.1)) rest
def gr_SIsOk (ts : List Tok) (is : List SrcItem) (rest : List Tok) : Prop :=
  SrcItemsPrintable is ∧ is ≠ [] ∧ gr_Inv ts ((srcItemsToks is).map (·.1)) rest

theorem gr_source : ∀ f : Nat,
    (∀ ts s stop rest, pSource f ts = some (s, stop, rest) → gr_SOk ts s rest) ∧
    (∀ lb ts s stop rest, pSrcInorder f lb ts = some (s, stop, rest) → lb.kind = .lbrace →
      gr_SOk (lb :: ts) s rest) ∧
    (∀ ts ss rest, pSources f ts = some (ss, rest) → gr_SsOk ts ss rest) ∧
    (∀ ts is rest, pSrcItems f ts = some (is, rest) → gr_SIsOk ts is rest) := by
  intro f
  induction f with
  | zero =>
    refine ⟨?_, ?_, ?_, ?_⟩
    · intro ts s stop rest h; simp [pSource] at h
    · intro lb ts s stop rest h; simp [pSrcInorder] at h
    · intro ts ss rest h; simp [pSources] at h
    · intro ts is rest h; simp [pSrcItems] at h
  | succ f ih =>
    obtain ⟨ihS, ihI, ihSs, ihIt⟩ := ih
    have hE := (gr_expr f).1
    refine ⟨?_, ?_, ?_, ?_⟩
    · intro ts s stop rest h
      cases ts with
      | nil => simp [pSource] at h
      | cons t ts =>
        simp only [pSource] at h
        split at h
        · rename_i hlb
          split at h
          · split at h
            · split at h
              · rename_i items r1 h1
                split at h
                · rename_i rb r2 h2
                  cases h
                  obtain ⟨hp, hne, hi⟩ := ihIt _ _ _ h1
                  refine ⟨by simp only [Source.Printable]; exact ⟨hne, hp⟩, ?_⟩
                  simp only [Source.toks, kw, List.map_cons, List.map_append, List.map_nil]
                  exact gr_Inv_kind hlb (by decide)
                    (gr_Inv_append hi (gr_Inv_expect h2 (by decide) (gr_Inv_nil _)))
                · cases h
              · cases h
            · exact ihI _ _ _ _ _ h hlb
          · exact ihI _ _ _ _ _ h hlb
        · split at h
          · rename_i hmax
            split at h
            · rename_i cap s1 r1 h1
              split at h
              · rename_i fr r2 h2
                split at h
                · rename_i src s2 r3 h3
                  cases h
                  obtain ⟨hpc, hic⟩ := hE _ _ _ _ h1
                  obtain ⟨hps, his⟩ := ihS _ _ _ _ h3
                  refine ⟨by simp only [Source.Printable]; exact ⟨hpc, hps⟩, ?_⟩
                  simp only [Source.toks, kw, List.map_cons, List.map_append]
                  exact gr_Inv_kind hmax (by decide)
                    (gr_Inv_append hic (gr_Inv_expect h2 (by decide) his))
                · cases h
              · cases h
            · cases h
          · split at h
            · rename_i addr s1 r1 h1
              obtain ⟨hpa, hia⟩ := hE _ _ _ _ h1
              split at h
              · rename_i al r2 h2
                split at h
                · rename_i u o r3
                  split at h
                  · rename_i huo
                    cases h
                    refine ⟨by simp only [Source.Printable]; exact hpa, ?_⟩
                    simp only [Source.toks, kw, List.map_cons, List.map_append, List.map_nil]
                    exact gr_Inv_append hia (gr_Inv_expect h2 (by decide)
                      (gr_Inv_kind huo.1 (by decide) (gr_Inv_kind huo.2 (by decide) (gr_Inv_nil _))))
                  · split at h
                    · rename_i hu
                      split at h
                      · rename_i up r4 h4
                        split at h
                        · rename_i tk r5 h5
                          split at h
                          · rename_i b s6 r6 h6
                            cases h
                            obtain ⟨hpb, hib⟩ := hE _ _ _ _ h6
                            refine ⟨by simp only [Source.Printable]; exact ⟨hpa, hpb⟩, ?_⟩
                            simp only [Source.toks, kw, List.map_cons, List.map_append, List.map_nil]
                            refine gr_Inv_append (gr_Inv_append hia (gr_Inv_expect h2 (by decide)
                              (gr_Inv_kind hu (by decide) (gr_Inv_expect h4 (by decide)
                                (gr_Inv_expect h5 (by decide) (gr_Inv_nil _)))))) hib
                          · cases h
                        · cases h
                      · cases h
                    · cases h
                · cases h
              · cases h; exact ⟨by simp only [Source.Printable]; exact hpa, by simpa only [Source.toks] using hia⟩
            · cases h
    · intro lb ts s stop rest h hlb
      simp only [pSrcInorder] at h
      split at h
      · rename_i srcs r1 h1
        split at h
        · rename_i rb r2 h2
          cases h
          obtain ⟨hp, hi⟩ := ihSs _ _ _ h1
          refine ⟨by simp only [Source.Printable]; exact hp, ?_⟩
          simp only [Source.toks, kw, List.map_cons, List.map_append, List.map_nil]
          exact gr_Inv_kind hlb (by decide)
            (gr_Inv_append hi (gr_Inv_expect h2 (by decide) (gr_Inv_nil _)))
        · cases h
      · cases h
    · intro ts ss rest h
      cases ts with
      | nil =>
        simp only [pSources] at h; cases h
        exact ⟨by simp [SourcesPrintable], by simpa [sourcesToks] using gr_Inv_nil _⟩
      | cons t ts =>
        simp only [pSources] at h
        split at h
        · split at h
          · rename_i s s1 r1 h1
            split at h
            · rename_i ss' r2 h2
              cases h
              obtain ⟨hp, hi⟩ := ihS _ _ _ _ h1
              obtain ⟨hps, his⟩ := ihSs _ _ _ h2
              refine ⟨by simp only [SourcesPrintable]; exact ⟨hp, hps⟩, ?_⟩
              simp only [sourcesToks, List.map_append]
              exact gr_Inv_append hi his
            · cases h
          · cases h
        · cases h
          exact ⟨by simp [SourcesPrintable], by simpa [sourcesToks] using gr_Inv_nil _⟩
    · intro ts is rest h
      cases ts with
      | nil => simp [pSrcItems] at h
      | cons a ts =>
        simp only [pSrcItems] at h
        split at h
        · rename_i av hav
          obtain ⟨hpa, hka⟩ := gr_allotOfTok hav
          split at h
          · rename_i fr r1 h1
            split at h
            · rename_i src s2 r2 h2
              obtain ⟨hps, his⟩ := ihS _ _ _ _ h2
              have hone : gr_SIsOk (a :: ts) [SrcItem.mk (rangeOf a s2) av src] r2 := by
                refine ⟨by simp only [SrcItemsPrintable]; exact ⟨hpa, hps, trivial⟩, by simp, ?_⟩
                simp only [srcItemsToks, kw, List.map_cons, List.map_append, hka,
                  List.cons_append, List.nil_append, List.append_nil]
                exact gr_Inv_cons rfl (gr_Inv_expect h1 (by decide) his)
              split at h
              · split at h
                · split at h
                  · rename_i items r3 h3
                    cases h
                    obtain ⟨hpi, _, hii⟩ := ihIt _ _ _ h3
                    refine ⟨by simp only [SrcItemsPrintable]; exact ⟨hpa, hps, hpi⟩, by simp, ?_⟩
                    simp only [srcItemsToks, kw, List.map_cons, List.map_append, hka,
                      List.cons_append, List.nil_append]
                    exact gr_Inv_cons rfl (gr_Inv_expect h1 (by decide) (gr_Inv_append his hii))
                  · cases h
                · cases h; exact hone
              · cases h; exact hone
            · cases h
          · cases h
        · cases h

/-! ### destinations -/

def gr_DOk (ts : List Tok) (d : Dest) (rest : List Tok) : Prop :=
  d.Printable ∧ gr_Inv ts (d.toks.map (·.1)) rest
def gr_KOk (ts : List Tok) (k : KoD) (rest : List Tok) : Prop :=
  k.Printable ∧ gr_Inv ts (k.toks.map (·.1)) rest
def gr_CsOk (ts : List Tok) (cs : List DestClause) (rest : List Tok) : Prop :=
  ClausesPrintable cs ∧ gr_Inv ts ((clausesToks cs).map (·.1)) rest ∧
    (∀ t ts', ts = t :: ts' → t.kind = .kwMax → cs ≠ [])
def gr_DIsOk (ts : List Tok) (is : List DestItem) (rest : List Tok) : Prop :=
  DstItemsPrintable is ∧ is ≠ [] ∧ gr_Inv ts ((dstItemsToks is).map (·.1)) rest

theorem gr_dest : ∀ f : Nat,
    (∀ ts d stop rest, pDest f ts = some (d, stop, rest) → gr_DOk ts d rest) ∧
    (∀ ts k stop rest, pKoD f ts = some (k, stop, rest) → gr_KOk ts k rest) ∧
    (∀ ts cs rest, pClauses f ts = some (cs, rest) → gr_CsOk ts cs rest) ∧
    (∀ ts is rest, pDstItems f ts = some (is, rest) → gr_DIsOk ts is rest) := by
  intro f
  induction f with
  | zero =>
    refine ⟨?_, ?_, ?_, ?_⟩
    · intro ts s stop rest h; simp [pDest] at h
    · intro ts s stop rest h; simp [pKoD] at h
    · intro ts ss rest h; simp [pClauses] at h
    · intro ts is rest h; simp [pDstItems] at h
  | succ f ih =>
    obtain ⟨ihD, ihK, ihC, ihIt⟩ := ih
    have hE := (gr_expr f).1
    refine ⟨?_, ?_, ?_, ?_⟩
    · intro ts d stop rest h
      cases ts with
      | nil => simp [pDest] at h
      | cons t ts =>
        simp only [pDest] at h
        split at h
        · rename_i hlb
          split at h
          · rename_i a ts'
            split at h
            · rename_i hmax
              split at h
              · rename_i clauses r1 h1
                split at h
                · rename_i rm r2 h2
                  split at h
                  · rename_i k s3 r3 h3
                    split at h
                    · rename_i rb r4 h4
                      cases h
                      obtain ⟨hpc, hic, hne⟩ := ihC _ _ _ h1
                      obtain ⟨hpk, hik⟩ := ihK _ _ _ _ h3
                      refine ⟨by simp only [Dest.Printable]; exact ⟨hne _ _ rfl hmax, hpc, hpk⟩, ?_⟩
                      simp only [Dest.toks, kw, List.map_cons, List.map_append, List.map_nil,
                        List.cons_append, List.append_assoc]
                      exact gr_Inv_kind hlb (by decide)
                        (gr_Inv_append hic (gr_Inv_expect h2 (by decide)
                          (gr_Inv_append hik (gr_Inv_expect h4 (by decide) (gr_Inv_nil _)))))
                    · cases h
                  · cases h
                · cases h
              · cases h
            · split at h
              · split at h
                · rename_i items r1 h1
                  split at h
                  · rename_i rb r2 h2
                    cases h
                    obtain ⟨hp, hne, hi⟩ := ihIt _ _ _ h1
                    refine ⟨by simp only [Dest.Printable]; exact ⟨hne, hp⟩, ?_⟩
                    simp only [Dest.toks, kw, List.map_cons, List.map_append, List.map_nil]
                    exact gr_Inv_kind hlb (by decide)
                      (gr_Inv_append hi (gr_Inv_expect h2 (by decide) (gr_Inv_nil _)))
                  · cases h
                · cases h
              · cases h
          · cases h
        · split at h
          · rename_i e s1 r1 h1
            cases h
            obtain ⟨hp, hi⟩ := hE _ _ _ _ h1
            exact ⟨by simp only [Dest.Printable]; exact hp, by simpa only [Dest.toks] using hi⟩
          · cases h
    · intro ts k stop rest h
      cases ts with
      | nil => simp [pKoD] at h
      | cons t ts =>
        simp only [pKoD] at h
        split at h
        · rename_i hk
          cases h
          refine ⟨by simp [KoD.Printable], ?_⟩
          simp only [KoD.toks, kw, List.map_cons, List.map_nil]
          exact gr_Inv_kind hk (by decide) (gr_Inv_nil _)
        · split at h
          · rename_i hk
            split at h
            · rename_i d s1 r1 h1
              cases h
              obtain ⟨hp, hi⟩ := ihD _ _ _ _ h1
              refine ⟨by simp only [KoD.Printable]; exact hp, ?_⟩
              simp only [KoD.toks, kw, List.map_cons]
              exact gr_Inv_kind hk (by decide) hi
            · cases h
          · cases h
    · intro ts cs rest h
      cases ts with
      | nil =>
        simp only [pClauses] at h; cases h
        exact ⟨by simp [ClausesPrintable], by simpa [clausesToks] using gr_Inv_nil _,
          fun t ts' e => by cases e⟩
      | cons t ts =>
        simp only [pClauses] at h
        split at h
        · rename_i hmax
          split at h
          · rename_i cap s1 r1 h1
            split at h
            · rename_i k s2 r2 h2
              split at h
              · rename_i cs' r3 h3
                cases h
                obtain ⟨hpc, hic⟩ := hE _ _ _ _ h1
                obtain ⟨hpk, hik⟩ := ihK _ _ _ _ h2
                obtain ⟨hps, his, _⟩ := ihC _ _ _ h3
                refine ⟨by simp only [ClausesPrintable]; exact ⟨hpc, hpk, hps⟩, ?_, fun _ _ _ _ => by simp⟩
                simp only [clausesToks, kw, List.map_cons, List.map_append]
                exact gr_Inv_kind hmax (by decide) (gr_Inv_append (gr_Inv_append hic hik) his)
              · cases h
            · cases h
          · cases h
        · rename_i hmax
          cases h
          refine ⟨by simp [ClausesPrintable], by simpa [clausesToks] using gr_Inv_nil _, ?_⟩
          intro t' ts' e hk
          cases e
          exact absurd hk hmax
    · intro ts is rest h
      cases ts with
      | nil => simp [pDstItems] at h
      | cons a ts =>
        simp only [pDstItems] at h
        split at h
        · rename_i av hav
          obtain ⟨hpa, hka⟩ := gr_allotOfTok hav
          split at h
          · rename_i k s1 r1 h1
            obtain ⟨hpk, hik⟩ := ihK _ _ _ _ h1
            have hone : gr_DIsOk (a :: ts) [DestItem.mk (rangeOf a s1) av k] r1 := by
              refine ⟨by simp only [DstItemsPrintable]; exact ⟨hpa, hpk, trivial⟩, by simp, ?_⟩
              simp only [dstItemsToks, List.map_append, hka,
                List.cons_append, List.nil_append, List.append_nil]
              exact gr_Inv_cons rfl hik
            split at h
            · split at h
              · split at h
                · rename_i items r3 h3
                  cases h
                  obtain ⟨hpi, _, hii⟩ := ihIt _ _ _ h3
                  refine ⟨by simp only [DstItemsPrintable]; exact ⟨hpa, hpk, hpi⟩, by simp, ?_⟩
                  simp only [dstItemsToks, List.map_append, hka, List.cons_append, List.nil_append]
                  exact gr_Inv_cons rfl (gr_Inv_append hik hii)
                · cases h
              · cases h; exact hone
            · cases h; exact hone
          · cases h
        · cases h

/-! ### function calls, sent values, statements, declarations -/

/-- the two facts about token texts the lexer guarantees and the parser relies on -/
def gr_TokOk (t : Tok) : Prop :=
  (t.kind = .ident → t.text ≠ "overdraft".toList) ∧ (t.kind = .kwOverdraft → t.text = "overdraft".toList)

theorem gr_tokString_eq (cs : List Char) (s : String) : tokString cs = s ↔ cs = s.toList := by
  unfold tokString
  constructor
  · intro h; rw [← h, String.toList_ofList]
  · intro h; rw [h, String.ofList_toList]

theorem gr_fnNameTok {t : Tok} (hok : gr_TokOk t) (hk : t.kind = .ident ∨ t.kind = .kwOverdraft) :
    (fnNameTok (tokString t.text)).1 = gr_normKind t.kind := by
  unfold fnNameTok
  rcases hk with hk | hk
  · have := hok.1 hk
    rw [if_neg (fun e => this ((gr_tokString_eq _ _).mp e))]
    simp [gr_normKind, hk]
  · have := hok.2 hk
    rw [if_pos ((gr_tokString_eq _ _).mpr this)]
    simp [gr_normKind, hk]

theorem gr_argsTail : ∀ (f : Nat) (ts : List Tok) (es : List Expr) (rest : List Tok),
    pArgsTail f ts = some (es, rest) →
      ExprsPrintable es ∧ gr_Inv ts ((up_argsTailToks es).map (·.1)) rest := by
  intro f
  induction f with
  | zero => intro ts es rest h; simp [pArgsTail] at h
  | succ f ih =>
    intro ts es rest h
    simp only [pArgsTail] at h
    split at h
    · rename_i cm r0 h0
      split at h
      · rename_i e s1 r1 h1
        split at h
        · rename_i es' r2 h2
          cases h
          obtain ⟨hp, hi⟩ := (gr_expr f).1 _ _ _ _ h1
          obtain ⟨hps, his⟩ := ih _ _ _ h2
          refine ⟨⟨hp, hps⟩, ?_⟩
          simp only [up_argsTailToks, kw, List.map_cons, List.map_append, List.cons_append]
          exact gr_Inv_expect h0 (by decide) (gr_Inv_append hi his)
        · cases h
      · cases h
    · cases h; exact ⟨trivial, by simpa [up_argsTailToks] using gr_Inv_nil _⟩

theorem gr_fnCall {f : Nat} {ts : List Tok} {c : FnCall} {stop : Tok} {rest : List Tok}
    (h : pFnCall f ts = some (c, stop, rest)) (hok : ∀ t ∈ ts, gr_TokOk t) :
    c.Printable ∧ gr_Inv ts (c.toks.map (·.1)) rest := by
  unfold pFnCall at h
  split at h
  · rename_i name lp r0
    have hname := hok name (by simp)
    split at h
    · rename_i hc
      have hn := gr_fnNameTok hname hc.1
      split at h
      · rename_i rp r1 h1
        cases h
        refine ⟨by simp [FnCall.Printable, ExprsPrintable], ?_⟩
        simp only [FnCall.toks, exprsToks, kw, List.map_cons, List.map_append, List.map_nil, hn]
        exact gr_Inv_cons rfl (gr_Inv_kind hc.2 (by decide) (gr_Inv_expect h1 (by decide) (gr_Inv_nil _)))
      · split at h
        · rename_i e s1 r1 h1
          split at h
          · rename_i es r2 h2
            split at h
            · rename_i rp r3 h3
              cases h
              obtain ⟨hp, hi⟩ := (gr_expr f).1 _ _ _ _ h1
              obtain ⟨hps, his⟩ := gr_argsTail _ _ _ _ h2
              refine ⟨by simp only [FnCall.Printable, ExprsPrintable]; exact ⟨hp, hps⟩, ?_⟩
              simp only [FnCall.toks, up_exprsToks_cons, kw, List.map_cons, List.map_append, List.map_nil, hn,
                List.append_assoc, List.cons_append]
              exact gr_Inv_cons rfl (gr_Inv_kind hc.2 (by decide)
                (gr_Inv_append hi (gr_Inv_append his (gr_Inv_expect h3 (by decide) (gr_Inv_nil _)))))
            · cases h
          · cases h
        · cases h
    · cases h
  · cases h

theorem gr_sentValue {f : Nat} {ts : List Tok} {sv : SentValue} {stop : Tok} {rest : List Tok}
    (h : pSentValue f ts = some (sv, stop, rest)) :
    sv.Printable ∧ gr_Inv ts (sv.toks.map (·.1)) rest := by
  have hE := (gr_expr f).1
  have hlit : ∀ t ts', (match pExpr f (t :: ts') with
        | some (e, stop, r1) => some (SentValue.lit (rangeOf t stop) e, stop, r1)
        | none => none) = some (sv, stop, rest) →
        sv.Printable ∧ gr_Inv (t :: ts') (sv.toks.map (·.1)) rest := by
    intro t ts' h
    split at h
    · rename_i e s1 r1 h1
      cases h
      obtain ⟨hp, hi⟩ := hE _ _ _ _ h1
      exact ⟨by simp only [SentValue.Printable]; exact hp, by simpa only [SentValue.toks] using hi⟩
    · cases h
  cases ts with
  | nil => simp [pSentValue] at h
  | cons t ts =>
    simp only [pSentValue] at h
    split at h
    · rename_i hlb
      split at h
      · rename_i a s1 r1 h1
        split at h
        · rename_i st r2 h2
          split at h
          · rename_i rb r3 h3
            cases h
            obtain ⟨hp, hi⟩ := hE _ _ _ _ h1
            refine ⟨by simp only [SentValue.Printable]; exact hp, ?_⟩
            simp only [SentValue.toks, kw, List.map_cons, List.map_append, List.map_nil]
            exact gr_Inv_kind hlb (by decide) (gr_Inv_append hi
              (gr_Inv_expect h2 (by decide) (gr_Inv_expect h3 (by decide) (gr_Inv_nil _))))
          · cases h
        · exact hlit _ _ h
      · cases h
    · exact hlit _ _ h

theorem gr_statement {f : Nat} {ts : List Tok} {s : Statement} {stop : Tok} {rest : List Tok}
    (h : pStatement f ts = some (s, stop, rest)) (hok : ∀ t ∈ ts, gr_TokOk t) :
    s.Printable ∧ gr_Inv ts (s.toks.map (·.1)) rest := by
  cases ts with
  | nil => simp [pStatement] at h
  | cons t ts =>
    simp only [pStatement] at h
    split at h
    · rename_i hk
      simp only [bind, Option.bind_eq_some_iff] at h
      obtain ⟨⟨sv, s1, r1⟩, h1, ⟨lp, r2⟩, h2, ⟨_, r3⟩, h3, ⟨_, r4⟩, h4, ⟨src, s5, r5⟩, h5,
        ⟨_, r6⟩, h6, ⟨_, r7⟩, h7, ⟨dst, s8, r8⟩, h8, ⟨rp, r9⟩, h9, h⟩ := h
      cases h
      obtain ⟨hpsv, hisv⟩ := gr_sentValue h1
      obtain ⟨hpsrc, hisrc⟩ := (gr_source f).1 _ _ _ _ h5
      obtain ⟨hpdst, hidst⟩ := (gr_dest f).1 _ _ _ _ h8
      refine ⟨by simp only [Statement.Printable]; exact ⟨hpsv, hpsrc, hpdst⟩, ?_⟩
      simp only [Statement.toks, kw, List.map_cons, List.map_append, List.map_nil, List.cons_append,
        List.append_assoc, List.nil_append]
      exact gr_Inv_kind hk (by decide) (gr_Inv_append hisv
        (gr_Inv_expect h2 (by decide) (gr_Inv_expect h3 (by decide) (gr_Inv_expect h4 (by decide)
          (gr_Inv_append hisrc (gr_Inv_expect h6 (by decide) (gr_Inv_expect h7 (by decide)
            (gr_Inv_append hidst (gr_Inv_expect h9 (by decide) (gr_Inv_nil _))))))))))
    · split at h
      · rename_i hk
        split at h
        · rename_i sv s1 r1 h1
          split at h
          · rename_i fr r2 h2
            split at h
            · rename_i e s3 r3 h3
              cases h
              obtain ⟨hpsv, hisv⟩ := gr_sentValue h1
              obtain ⟨hpe, hie⟩ := (gr_expr f).1 _ _ _ _ h3
              refine ⟨by simp only [Statement.Printable]; exact ⟨hpsv, hpe⟩, ?_⟩
              simp only [Statement.toks, kw, List.map_cons, List.map_append]
              exact gr_Inv_kind hk (by decide) (gr_Inv_append hisv (gr_Inv_expect h2 (by decide) hie))
            · cases h
          · cases h
        · cases h
      · split at h
        · rename_i c s1 r1 h1
          cases h
          obtain ⟨hp, hi⟩ := gr_fnCall h1 hok
          exact ⟨by simp only [Statement.Printable]; exact hp, by simpa only [Statement.toks] using hi⟩
        · cases h

theorem gr_statements (f : Nat) : ∀ (n : Nat) (ts : List Tok) (ss : List Statement),
    pStatements f n ts = some ss → (∀ t ∈ ts, gr_TokOk t) →
      (∀ s ∈ ss, s.Printable) ∧
      ts.map (fun t => gr_normKind t.kind) = (ss.flatMap Statement.toks).map (·.1) := by
  intro n
  induction n with
  | zero => intro ts ss h; simp [pStatements] at h
  | succ n ih =>
    intro ts ss h hok
    cases ts with
    | nil =>
      simp only [pStatements] at h; cases h
      simp
    | cons t ts =>
      simp only [pStatements] at h
      split at h
      · rename_i s s1 r1 h1
        split at h
        · rename_i ss' h2
          cases h
          obtain ⟨hp, hi⟩ := gr_statement h1 hok
          obtain ⟨hps, his⟩ := ih _ _ h2 (fun x hx => hok x (gr_Inv_sub hi x hx))
          refine ⟨?_, ?_⟩
          · intro x hx
            rcases List.mem_cons.mp hx with rfl | hx
            · exact hp
            · exact hps x hx
          · obtain ⟨c, hc, hck⟩ := hi
            rw [hc, List.map_append, hck, his]
            simp
        · cases h
      · cases h

theorem gr_varDecl {f : Nat} {ts : List Tok} {d : VarDecl} {stop : Tok} {rest : List Tok}
    (h : pVarDecl f ts = some (d, stop, rest)) (hok : ∀ t ∈ ts, gr_TokOk t) :
    d.Printable ∧ gr_Inv ts (d.toks.map (·.1)) rest := by
  unfold pVarDecl at h
  split at h
  · rename_i ty nm r0
    split at h
    · rename_i hc
      simp only at h
      split at h
      · rename_i eqt r1 h1
        split at h
        · rename_i c s2 r2 h2
          cases h
          have hr1 : ∀ t ∈ r1, gr_TokOk t := by
            intro x hx
            obtain ⟨e, _⟩ := pt_expect_some h1
            exact hok x (by simp [e, hx])
          obtain ⟨hp, hi⟩ := gr_fnCall h2 hr1
          refine ⟨?_, ?_⟩
          · simp only [VarDecl.Printable, Option.isSome_some, Option.some.injEq, true_and]
            intro c' hc'; subst hc'; exact hp
          · simp only [VarDecl.toks, kw, List.map_cons]
            exact gr_Inv_kind hc.1 (by decide) (gr_Inv_kind hc.2 (by decide) (gr_Inv_expect h1 (by decide) hi))
        · cases h
      · cases h
        refine ⟨by simp [VarDecl.Printable], ?_⟩
        simp only [VarDecl.toks, List.map_cons, List.map_nil]
        exact gr_Inv_kind hc.1 (by decide) (gr_Inv_kind hc.2 (by decide) (gr_Inv_nil _))
    · cases h
  · cases h

theorem gr_varDecls (f : Nat) : ∀ (n : Nat) (ts : List Tok) (ds : List VarDecl) (rest : List Tok),
    pVarDecls f n ts = some (ds, rest) → (∀ t ∈ ts, gr_TokOk t) →
      (∀ d ∈ ds, d.Printable) ∧
      gr_Inv ts ((ds.flatMap VarDecl.toks).map (·.1) ++ [TK.rbrace]) rest := by
  intro n
  induction n with
  | zero => intro ts ds rest h; simp [pVarDecls] at h
  | succ n ih =>
    intro ts ds rest h hok
    cases ts with
    | nil => simp [pVarDecls] at h
    | cons t ts =>
      simp only [pVarDecls] at h
      split at h
      · rename_i hk
        cases h
        refine ⟨by simp, ?_⟩
        simp only [List.flatMap_nil, List.map_nil, List.nil_append]
        exact gr_Inv_kind hk (by decide) (gr_Inv_nil _)
      · split at h
        · rename_i d s1 r1 h1
          split at h
          · rename_i ds' r2 h2
            cases h
            obtain ⟨hp, hi⟩ := gr_varDecl h1 hok
            obtain ⟨hps, his⟩ := ih _ _ _ h2 (fun x hx => hok x (gr_Inv_sub hi x hx))
            refine ⟨?_, ?_⟩
            · intro x hx
              rcases List.mem_cons.mp hx with rfl | hx
              · exact hp
              · exact hps x hx
            · simp only [List.flatMap_cons, List.map_append, List.append_assoc]
              exact gr_Inv_append hi (by simpa only [List.map_append] using his)
          · cases h
        · cases h

theorem gr_parseTokens {ts : List Tok} {p : Program} (h : parseTokens ts = some p)
    (hok : ∀ t ∈ ts, gr_TokOk t) :
    p.Printable ∧
    (ts.map (fun t => gr_normKind t.kind) = p.toks.map (·.1) ∨
     (p.vars = [] ∧ ts.map (fun t => gr_normKind t.kind) =
        [TK.kwVars, TK.lbrace, TK.rbrace] ++ p.toks.map (·.1))) := by
  have hnil : ∀ (f n : Nat),
      (pStatements f n ts).map (fun ss => (⟨[], ss⟩ : Program)) = some p →
      p.Printable ∧ ts.map (fun t => gr_normKind t.kind) = p.toks.map (·.1) := by
    intro f n h
    cases hs : pStatements f n ts with
    | none => simp [hs] at h
    | some ss =>
      simp only [hs, Option.map_some, Option.some.injEq] at h
      subst h
      obtain ⟨hp, hk⟩ := gr_statements _ _ _ _ hs hok
      refine ⟨⟨by simp, hp⟩, ?_⟩
      simpa [Program.toks] using hk
  unfold parseTokens at h
  simp only at h
  split at h
  · rename_i v lb r0
    split at h
    · rename_i hv
      split at h
      · rename_i hlb
        split at h
        · rename_i ds r1 h1
          split at h
          · rename_i ss h2
            cases h
            obtain ⟨hpd, hid⟩ := gr_varDecls _ _ _ _ _ h1 (fun x hx => hok x (by simp [hx]))
            obtain ⟨hps, hks⟩ := gr_statements _ _ _ _ h2
              (fun x hx => hok x (by simp [gr_Inv_sub hid x hx]))
            refine ⟨⟨hpd, hps⟩, ?_⟩
            obtain ⟨c, hc, hck⟩ := hid
            have hall : (v :: lb :: r0).map (fun t => gr_normKind t.kind) =
                TK.kwVars :: TK.lbrace :: ((ds.flatMap VarDecl.toks).map (·.1) ++ [TK.rbrace]) ++
                  (ss.flatMap Statement.toks).map (·.1) := by
              rw [hc]
              simp [gr_normKind_of hv, gr_normKind_of hlb, hck, hks]
            by_cases hds : ds = []
            · right
              subst hds
              refine ⟨rfl, ?_⟩
              rw [hall]
              simp [Program.toks]
            · left
              rw [hall]
              simp [Program.toks, hds, kw]
          · cases h
        · cases h
      · cases h
    · exact (hnil _ _ h).imp id Or.inl
  · exact (hnil _ _ h).imp id Or.inl

end NS
