/-
  Proofs/ReconcileLemmas.lean — helper lemmas for property C07 (`Reconcile`).
-/
import Spec.Pairing

namespace NS

/-! ## `withhold` -/

theorem withhold_mem_name {k : Int} {ss : Senders} {x : String × Int}
    (h : x ∈ withhold k ss) : ∃ y ∈ ss, y.1 = x.1 := by
  induction ss generalizing k with
  | nil => simp [withhold] at h
  | cons hd t ih =>
    obtain ⟨n, m⟩ := hd
    unfold withhold at h
    split at h
    · exact ⟨x, h, rfl⟩
    · split at h
      · rcases List.mem_cons.1 h with h | h
        · subst h; exact ⟨(n, m), by simp, rfl⟩
        · exact ⟨x, List.mem_cons_of_mem _ h, rfl⟩
      · obtain ⟨y, hy, e⟩ := ih h
        exact ⟨y, List.mem_cons_of_mem _ hy, e⟩

theorem withhold_pos {k : Int} {ss : Senders} (hs : ∀ p ∈ ss, 0 < p.2) :
    ∀ p ∈ withhold k ss, 0 < p.2 := by
  induction ss generalizing k with
  | nil => simp [withhold]
  | cons hd t ih =>
    obtain ⟨n, m⟩ := hd
    intro p hp
    unfold withhold at hp
    split at hp
    · exact hs p hp
    · split at hp
      · rcases List.mem_cons.1 hp with h | h
        · subst h; simp; omega
        · exact hs p (List.mem_cons_of_mem _ h)
      · exact ih (fun q hq => hs q (List.mem_cons_of_mem _ hq)) p hp

theorem pulled_nonneg {ss : Senders} (hs : ∀ p ∈ ss, 0 < p.2) (a : String) : 0 ≤ pulled ss a := by
  induction ss with
  | nil => simp [pulled]
  | cons hd t ih =>
    obtain ⟨n, m⟩ := hd
    have h1 := ih (fun q hq => hs q (List.mem_cons_of_mem _ hq))
    have h2 : 0 < m := hs (n, m) (by simp)
    simp only [pulled]
    split <;> omega

theorem pulled_withhold_le {k : Int} {ss : Senders} (hs : ∀ p ∈ ss, 0 < p.2) (a : String) :
    pulled (withhold k ss) a ≤ pulled ss a := by
  induction ss generalizing k with
  | nil => simp [withhold]
  | cons hd t ih =>
    obtain ⟨n, m⟩ := hd
    have ht : ∀ p ∈ t, 0 < p.2 := fun q hq => hs q (List.mem_cons_of_mem _ hq)
    have h2 : 0 < m := hs (n, m) (by simp)
    unfold withhold
    split
    · exact Int.le_refl _
    · split
      · simp only [pulled]
        split <;> omega
      · have := @ih (k - m) ht
        simp only [pulled]
        split <;> omega

/-! ## `addPosting` -/

theorem forall_addPosting {P : Posting → Prop} {acc : List Posting} {src dst : String} {amt : Int}
    {asset : String} (hacc : ∀ p ∈ acc, P p) (hnew : P ⟨src, dst, amt, asset⟩)
    (hmerge : ∀ q, P q → q.source = src → q.destination = dst →
      P { q with amount := q.amount + amt }) :
    ∀ p ∈ addPosting acc src dst amt asset, P p := by
  intro p hp
  unfold addPosting at hp
  split at hp
  · rename_i q rest
    split at hp
    · rename_i hq
      rcases List.mem_cons.1 hp with h | h
      · subst h; exact hmerge q (hacc q (by simp)) hq.1 hq.2
      · exact hacc p (List.mem_cons_of_mem _ h)
    · rcases List.mem_cons.1 hp with h | h
      · subst h; exact hnew
      · exact hacc p h
  · simp at hp; subst hp; exact hnew

/-- generic invariant: a predicate stable under `addPosting` of the produced postings -/
theorem reconcileLoop_forall (asset : String) (P : Posting → Prop) (S R : String → Prop)
    (A : Int → Prop)
    (hnew : ∀ s r a, S s → R r → r ≠ KEPT_ADDR → A a → P ⟨s, r, a, asset⟩)
    (hmerge : ∀ q a, P q → A a → P { q with amount := q.amount + a })
    (hw : ∀ k ss, (∀ x ∈ ss, S x.1 ∧ A x.2) → A k → ∀ x ∈ withhold k ss, S x.1 ∧ A x.2)
    (hsub1 : ∀ a b, A a → A b → ¬ a = b → a < b → A (b - a))
    (ss : Senders) (rs : Receivers) (acc : List Posting)
    (hacc : ∀ p ∈ acc, P p) (hs : ∀ x ∈ ss, S x.1 ∧ A x.2) (hr : ∀ x ∈ rs, R x.1 ∧ A x.2) :
    ∀ p ∈ reconcileLoop asset ss rs acc, P p := by
  fun_induction reconcileLoop asset ss rs acc with
  | case1 => exact hacc
  | case2 senders acc rm rs ih =>
    exact ih hacc (hw _ _ hs (hr (KEPT_ADDR, rm) (by simp)).2) (fun x hx => hr x (List.mem_cons_of_mem _ hx))
  | case3 => exact hacc
  | case4 acc rn rs hk sn sm ss ih =>
    have h1 := hs (sn, sm) (by simp)
    have h2 := hr (rn, sm) (by simp)
    refine ih ?_ (fun x hx => hs x (List.mem_cons_of_mem _ hx))
      (fun x hx => hr x (List.mem_cons_of_mem _ hx))
    exact forall_addPosting hacc (hnew _ _ _ h1.1 h2.1 hk h1.2) (fun q hq _ _ => hmerge q _ hq h1.2)
  | case5 acc rn rm rs hk sn sm ss hne hlt ih =>
    have h1 := hs (sn, sm) (by simp)
    have h2 := hr (rn, rm) (by simp)
    refine ih ?_ (fun x hx => hs x (List.mem_cons_of_mem _ hx)) ?_
    · exact forall_addPosting hacc (hnew _ _ _ h1.1 h2.1 hk h1.2)
        (fun q hq _ _ => hmerge q _ hq h1.2)
    · intro x hx
      rcases List.mem_cons.1 hx with h | h
      · subst h; exact ⟨h2.1, hsub1 _ _ h1.2 h2.2 hne hlt⟩
      · exact hr x (List.mem_cons_of_mem _ h)
  | case6 acc rn rm rs hk sn sm ss hne hlt ih =>
    have h1 := hs (sn, sm) (by simp)
    have h2 := hr (rn, rm) (by simp)
    refine ih ?_ ?_ (fun x hx => hr x (List.mem_cons_of_mem _ hx))
    · exact forall_addPosting hacc (hnew _ _ _ h1.1 h2.1 hk h2.2)
        (fun q hq _ _ => hmerge q _ hq h2.2)
    · intro x hx
      rcases List.mem_cons.1 hx with h | h
      · subst h
        exact ⟨h1.1, hsub1 _ _ h2.2 h1.2 (fun e => hne e.symm) (by omega)⟩
      · exact hs x (List.mem_cons_of_mem _ h)

/-! ## `NoAdjacentSamePair` -/

theorem noAdj_addPosting {acc : List Posting} (src dst : String) (amt : Int) (asset : String)
    (h : NoAdjacentSamePair acc) : NoAdjacentSamePair (addPosting acc src dst amt asset) := by
  unfold addPosting
  split
  · rename_i p rest
    split
    · cases rest with
      | nil => simp [NoAdjacentSamePair]
      | cons q t => simpa [NoAdjacentSamePair] using h
    · rename_i hne
      refine ⟨?_, h⟩
      intro hh
      exact hne ⟨hh.1.symm, hh.2.symm⟩
  · simp [NoAdjacentSamePair]

theorem reconcileLoop_noAdj (asset : String) (ss : Senders) (rs : Receivers) (acc : List Posting)
    (h : NoAdjacentSamePair acc) : NoAdjacentSamePair (reconcileLoop asset ss rs acc) := by
  fun_induction reconcileLoop asset ss rs acc with
  | case1 => exact h
  | case2 _ _ _ _ ih => exact ih h
  | case3 => exact h
  | case4 _ _ _ _ _ _ _ ih => exact ih (noAdj_addPosting _ _ _ _ h)
  | case5 _ _ _ _ _ _ _ _ _ _ ih => exact ih (noAdj_addPosting _ _ _ _ h)
  | case6 _ _ _ _ _ _ _ _ _ _ ih => exact ih (noAdj_addPosting _ _ _ _ h)

theorem noAdj_snoc {l : List Posting} {b a : Posting} (h : NoAdjacentSamePair (l ++ [b]))
    (hba : ¬ (b.source = a.source ∧ b.destination = a.destination)) :
    NoAdjacentSamePair (l ++ [b] ++ [a]) := by
  induction l with
  | nil => exact ⟨hba, trivial⟩
  | cons c t ih =>
    cases t with
    | nil => exact ⟨h.1, hba, trivial⟩
    | cons d t' => exact ⟨h.1, ih h.2⟩

theorem noAdj_reverse {l : List Posting} (h : NoAdjacentSamePair l) :
    NoAdjacentSamePair l.reverse := by
  induction l with
  | nil => exact trivial
  | cons a t ih =>
    cases t with
    | nil => exact trivial
    | cons b t' =>
      have h1 := ih h.2
      rw [List.reverse_cons] at h1
      rw [List.reverse_cons, List.reverse_cons]
      exact noAdj_snoc h1 (fun hh => h.1 ⟨hh.1.symm, hh.2.symm⟩)

/-! ## sums of amounts over a filter -/

/-- sum of the amounts of the postings selected by `f` -/
def sumBy (f : Posting → Bool) (ps : List Posting) : Int :=
  ((ps.filter f).map (·.amount)).sum

theorem sumBy_reverse (f : Posting → Bool) (ps : List Posting) :
    sumBy f ps.reverse = sumBy f ps := by
  simp [sumBy, List.filter_reverse, List.map_reverse, List.sum_reverse]

theorem sumBy_addPosting (f : Posting → Bool)
    (hf : ∀ p q : Posting, p.source = q.source → p.destination = q.destination → f p = f q)
    (acc : List Posting) (src dst : String) (amt : Int) (asset : String) :
    sumBy f (addPosting acc src dst amt asset)
      = sumBy f acc + (if f ⟨src, dst, amt, asset⟩ then amt else 0) := by
  unfold addPosting
  split
  · rename_i p rest
    split
    · rename_i hp
      have e1 : f { p with amount := p.amount + amt } = f p := hf _ _ rfl rfl
      have e2 : f ⟨src, dst, amt, asset⟩ = f p := hf _ _ hp.1.symm hp.2.symm
      rw [e2]
      cases hfp : f p
      · simp [sumBy, e1, hfp]
      · simp [sumBy, e1, hfp]; omega
    · cases hfn : f ⟨src, dst, amt, asset⟩
      · simp [sumBy, hfn]
      · simp [sumBy, hfn]; omega
  · cases hfn : f ⟨src, dst, amt, asset⟩
    · simp [sumBy, hfn]
    · simp [sumBy, hfn]

theorem debitsOf_eq_sumBy (ps : List Posting) (a : String) :
    debitsOf ps a = sumBy (fun p => decide (p.source = a)) ps := rfl

theorem flowOf_eq_sumBy (ps : List Posting) (s d : String) :
    flowOf ps s d = sumBy (fun p => decide (p.source = s ∧ p.destination = d)) ps := rfl

theorem debitsOf_reverse (ps : List Posting) (a : String) :
    debitsOf ps.reverse a = debitsOf ps a := by
  simp only [debitsOf_eq_sumBy, sumBy_reverse]

theorem flowOf_reverse (ps : List Posting) (s d : String) :
    flowOf ps.reverse s d = flowOf ps s d := by
  simp only [flowOf_eq_sumBy, sumBy_reverse]

theorem debitsOf_addPosting (acc : List Posting) (src dst : String) (amt : Int) (asset a : String) :
    debitsOf (addPosting acc src dst amt asset) a
      = debitsOf acc a + (if src = a then amt else 0) := by
  rw [debitsOf_eq_sumBy, debitsOf_eq_sumBy, sumBy_addPosting]
  · simp
  · intro p q h1 _; simp [h1]

theorem flowOf_addPosting (acc : List Posting) (src dst : String) (amt : Int) (asset s d : String) :
    flowOf (addPosting acc src dst amt asset) s d
      = flowOf acc s d + (if src = s ∧ dst = d then amt else 0) := by
  rw [flowOf_eq_sumBy, flowOf_eq_sumBy, sumBy_addPosting]
  · simp
  · intro p q h1 h2; simp [h1, h2]

/-! ## debits -/

theorem reconcileLoop_debits (asset : String) (ss : Senders) (rs : Receivers) (acc : List Posting)
    (hs : ∀ p ∈ ss, 0 < p.2) (hr : ∀ p ∈ rs, 0 < p.2) (a : String) :
    debitsOf (reconcileLoop asset ss rs acc) a ≤ debitsOf acc a + pulled ss a := by
  fun_induction reconcileLoop asset ss rs acc with
  | case1 senders acc => have := pulled_nonneg hs a; omega
  | case2 senders acc rm rs ih =>
    have h1 := ih (withhold_pos hs) (fun x hx => hr x (List.mem_cons_of_mem _ hx))
    have h2 := pulled_withhold_le (k := rm) hs a
    omega
  | case3 => simp [pulled]
  | case4 acc rn rs hk sn sm ss ih =>
    have h1 := ih (fun x hx => hs x (List.mem_cons_of_mem _ hx))
      (fun x hx => hr x (List.mem_cons_of_mem _ hx))
    rw [debitsOf_addPosting] at h1
    simp only [pulled]
    omega
  | case5 acc rn rm rs hk sn sm ss hne hlt ih =>
    have h0 : 0 < sm := hs (sn, sm) (by simp)
    have h1 := ih (fun x hx => hs x (List.mem_cons_of_mem _ hx)) (by
      intro x hx
      rcases List.mem_cons.1 hx with h | h
      · subst h; simp; omega
      · exact hr x (List.mem_cons_of_mem _ h))
    rw [debitsOf_addPosting] at h1
    simp only [pulled]
    omega
  | case6 acc rn rm rs hk sn sm ss hne hlt ih =>
    have h0 : 0 < rm := hr (rn, rm) (by simp)
    have h1 := ih (by
      intro x hx
      rcases List.mem_cons.1 hx with h | h
      · subst h; simp; omega
      · exact hs x (List.mem_cons_of_mem _ h)) (fun x hx => hr x (List.mem_cons_of_mem _ hx))
    rw [debitsOf_addPosting] at h1
    simp only [pulled] at h1 ⊢
    by_cases hsa : sn = a
    · simp only [hsa, if_true] at h1 ⊢; omega
    · simp only [hsa, if_false] at h1 ⊢; omega

/-! ## units and the in-order pairing -/

theorem units_nil : units [] = [] := rfl

theorem units_cons (n : String) (m : Int) (t : List (String × Int)) :
    units ((n, m) :: t) = List.replicate m.toNat n ++ units t := by
  simp [units]

theorem units_split (n : String) (m a : Int) (t : List (String × Int)) (h0 : 0 ≤ a) (h1 : a ≤ m) :
    units ((n, m) :: t) = List.replicate a.toNat n ++ units ((n, m - a) :: t) := by
  rw [units_cons, units_cons, ← List.append_assoc, List.replicate_append_replicate]
  have : m.toNat = a.toNat + (m - a).toNat := by omega
  rw [this]

theorem units_withhold (k : Int) (ss : Senders) (hs : ∀ p ∈ ss, 0 < p.2) :
    units (withhold k ss) = (units ss).drop k.toNat := by
  induction ss generalizing k with
  | nil => simp [withhold, units_nil]
  | cons hd t ih =>
    obtain ⟨n, m⟩ := hd
    have ht : ∀ p ∈ t, 0 < p.2 := fun q hq => hs q (List.mem_cons_of_mem _ hq)
    have h2 : 0 < m := hs (n, m) (by simp)
    unfold withhold
    split
    · rename_i hk
      have : k.toNat = 0 := by omega
      simp [this]
    · split
      · rename_i hk hmk
        rw [units_cons, units_cons, List.drop_append, List.drop_replicate, List.length_replicate]
        have e1 : (m - k).toNat = m.toNat - k.toNat := by omega
        have e2 : k.toNat - m.toNat = 0 := by omega
        rw [e1, e2, List.drop_zero]
      · rename_i hk hmk
        rw [ih _ ht, units_cons, List.drop_append, List.drop_replicate, List.length_replicate]
        have e1 : m.toNat - k.toNat = 0 := by omega
        have e2 : (k - m).toNat = k.toNat - m.toNat := by omega
        rw [e1, e2]
        simp

theorem zip_replicate_append {α β : Type} (k : Nat) (a : α) (b : β) (X : List α) (Y : List β) :
    (List.replicate k a ++ X).zip (List.replicate k b ++ Y)
      = List.replicate k (a, b) ++ X.zip Y := by
  induction k with
  | zero => simp
  | succ k ih => simp [List.replicate_succ, ih]

theorem unitFlow_nil_right (ss : List (String × Int)) (s d : String) : unitFlow ss [] s d = 0 := by
  simp [unitFlow, pairUnits, units_nil]

theorem unitFlow_nil_left (rs : List (String × Int)) (s d : String) : unitFlow [] rs s d = 0 := by
  simp [unitFlow, pairUnits, units_nil]

theorem unitFlow_step {S R S' R' : List (String × Int)} {k : Nat} {sn rn : String}
    (hS : units S = List.replicate k sn ++ units S')
    (hR : units R = List.replicate k rn ++ units R') (s d : String) :
    unitFlow S R s d = (if sn = s ∧ rn = d then k else 0) + unitFlow S' R' s d := by
  simp only [unitFlow, pairUnits, hS, hR, zip_replicate_append, List.filter_append,
    List.length_append, List.filter_replicate]
  by_cases h : sn = s ∧ rn = d
  · simp [h]
  · simp [h]

theorem filter_zip_replicate_kept {α : Type} (f : α × String → Bool) (K : String)
    (hf : ∀ x, f (x, K) = false) (k : Nat) (X : List α) (Y : List String) :
    (X.zip (List.replicate k K ++ Y)).filter f = ((X.drop k).zip Y).filter f := by
  induction k generalizing X with
  | zero => simp
  | succ k ih =>
    cases X with
    | nil => simp
    | cons x X' =>
      simp [List.replicate_succ, hf, ih]

theorem unitFlow_kept (ss : Senders) (rm : Int) (rs : List (String × Int))
    (hs : ∀ p ∈ ss, 0 < p.2) (s d : String) (hd : d ≠ KEPT_ADDR) :
    unitFlow ss ((KEPT_ADDR, rm) :: rs) s d = unitFlow (withhold rm ss) rs s d := by
  simp only [unitFlow, pairUnits, units_withhold rm ss hs, units_cons]
  rw [filter_zip_replicate_kept]
  intro x
  simp
  intro _ h
  exact hd h.symm

/-! ## flow -/

theorem reconcileLoop_flow (asset : String) (ss : Senders) (rs : Receivers) (acc : List Posting)
    (hs : ∀ p ∈ ss, 0 < p.2) (hr : ∀ p ∈ rs, 0 < p.2) (s d : String) (hd : d ≠ KEPT_ADDR) :
    flowOf (reconcileLoop asset ss rs acc) s d = flowOf acc s d + (unitFlow ss rs s d : Int) := by
  fun_induction reconcileLoop asset ss rs acc with
  | case1 senders acc => simp [unitFlow_nil_right]
  | case2 senders acc rm rs ih =>
    rw [ih (withhold_pos hs) (fun x hx => hr x (List.mem_cons_of_mem _ hx)),
      unitFlow_kept _ _ _ hs s d hd]
  | case3 => simp [unitFlow_nil_left]
  | case4 acc rn rs hk sn sm ss ih =>
    have h0 : 0 < sm := hs (sn, sm) (by simp)
    rw [ih (fun x hx => hs x (List.mem_cons_of_mem _ hx))
      (fun x hx => hr x (List.mem_cons_of_mem _ hx)), flowOf_addPosting,
      unitFlow_step (units_cons sn sm ss) (units_cons rn sm rs)]
    by_cases h : sn = s ∧ rn = d
    · simp only [h, and_self, if_true]; omega
    · simp only [h, if_false]; omega
  | case5 acc rn rm rs hk sn sm ss hne hlt ih =>
    have h0 : 0 < sm := hs (sn, sm) (by simp)
    rw [ih (fun x hx => hs x (List.mem_cons_of_mem _ hx)) (by
      intro x hx
      rcases List.mem_cons.1 hx with h | h
      · subst h; simp; omega
      · exact hr x (List.mem_cons_of_mem _ h)), flowOf_addPosting,
      unitFlow_step (units_cons sn sm ss) (units_split rn rm sm rs (by omega) (by omega))]
    by_cases h : sn = s ∧ rn = d
    · simp only [h, and_self, if_true]; omega
    · simp only [h, if_false]; omega
  | case6 acc rn rm rs hk sn sm ss hne hlt ih =>
    have h0 : 0 < rm := hr (rn, rm) (by simp)
    rw [ih (by
      intro x hx
      rcases List.mem_cons.1 hx with h | h
      · subst h; simp; omega
      · exact hs x (List.mem_cons_of_mem _ h)) (fun x hx => hr x (List.mem_cons_of_mem _ hx)),
      flowOf_addPosting,
      unitFlow_step (units_split sn sm rm ss (by omega) (by omega)) (units_cons rn rm rs)]
    by_cases h : sn = s ∧ rn = d
    · simp only [h, and_self, if_true]; omega
    · simp only [h, if_false]; omega

end NS
