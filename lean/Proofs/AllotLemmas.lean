/-
  Proofs/AllotLemmas.lean — helper lemmas for property C06 (exact allotment split).
-/
import Spec.AllotSpec
import Mathlib.Data.Rat.Floor
import Mathlib.Tactic.Ring
import Mathlib.Tactic.Linarith

namespace NS

/-! ## `bump` -/

theorem bump_length (xs : List Int) (l : Int) : (bump xs l).length = xs.length := by
  induction xs generalizing l with
  | nil => simp [bump]
  | cons x xs ih =>
    unfold bump
    split
    · rfl
    · simp [ih]

theorem bump_sum (xs : List Int) (l : Int) (h0 : 0 ≤ l) (h1 : l ≤ xs.length) :
    (bump xs l).sum = xs.sum + l := by
  induction xs generalizing l with
  | nil =>
    simp at h1
    have : l = 0 := le_antisymm h1 h0
    simp [bump, this]
  | cons x xs ih =>
    unfold bump
    split
    · have : l = 0 := by omega
      simp [this]
    · have h1' : l - 1 ≤ xs.length := by
        simp at h1; omega
      rw [List.sum_cons, List.sum_cons, ih (l - 1) (by omega) h1']
      omega

theorem bump_getElem? (xs : List Int) (l : Int) (i : Nat) (hi : i < xs.length) :
    (bump xs l)[i]? = some (xs.getD i 0 + (if (i : Int) < l then 1 else 0)) := by
  induction xs generalizing l i with
  | nil => simp at hi
  | cons x xs ih =>
    unfold bump
    split
    · rename_i hl
      have : ¬ ((i : Int) < l) := by omega
      simp [this, List.getD, List.getElem?_eq_getElem hi]
    · rename_i hl
      cases i with
      | zero =>
        have : (0 : Int) < l := by omega
        simp [this]
      | succ j =>
        have hj : j < xs.length := by simpa using hi
        simp only [List.getElem?_cons_succ, List.getD_cons_succ]
        rw [ih (l - 1) j hj]
        have : ((j : Int) < l - 1) ↔ (((j + 1 : Nat) : Int) < l) := by
          constructor <;> intro h <;> omega
        simp only [this]

/-! ## floors -/

theorem floorShare_eq (n : Int) (p : Rat) : floorShare n p = ⌊p * (n : ℚ)⌋ := rfl

theorem floorShare_le (n : Int) (p : Rat) : ((floorShare n p : Int) : ℚ) ≤ p * n := by
  rw [floorShare_eq]; exact Int.floor_le _

theorem lt_floorShare_add_one (n : Int) (p : Rat) : p * n < ((floorShare n p : Int) : ℚ) + 1 := by
  rw [floorShare_eq]; exact Int.lt_floor_add_one _

theorem floorShare_nonneg (n : Int) (p : Rat) (hn : 0 ≤ n) (hp : 0 ≤ p) : 0 ≤ floorShare n p := by
  rw [floorShare_eq]
  apply Int.floor_nonneg.mpr
  have : (0 : ℚ) ≤ (n : ℚ) := by exact_mod_cast hn
  exact mul_nonneg hp this

theorem floors_sum_le (n : Int) (ps : List Rat) :
    (((ps.map (floorShare n)).sum : Int) : ℚ) ≤ ps.sum * n := by
  induction ps with
  | nil => simp
  | cons p ps ih =>
    simp only [List.map_cons, List.sum_cons, Int.cast_add]
    have := floorShare_le n p
    linarith

theorem floors_sum_ge (n : Int) (ps : List Rat) :
    ps.sum * n ≤ (((ps.map (floorShare n)).sum : Int) : ℚ) + (ps.length : ℚ) := by
  induction ps with
  | nil => simp
  | cons p ps ih =>
    simp only [List.map_cons, List.sum_cons, Int.cast_add, List.length_cons, Nat.cast_add,
      Nat.cast_one]
    have := lt_floorShare_add_one n p
    linarith

theorem floors_sum_gt (n : Int) (ps : List Rat) (hne : ps ≠ []) :
    ps.sum * n < (((ps.map (floorShare n)).sum : Int) : ℚ) + (ps.length : ℚ) := by
  cases ps with
  | nil => exact absurd rfl hne
  | cons p ps =>
    simp only [List.map_cons, List.sum_cons, Int.cast_add, List.length_cons, Nat.cast_add,
      Nat.cast_one]
    have := lt_floorShare_add_one n p
    have := floors_sum_ge n ps
    linarith

theorem leftover_bounds (n : Int) (ps : List Rat) (hs : ps.sum = 1) :
    0 ≤ leftover n ps ∧ leftover n ps < ps.length := by
  have hne : ps ≠ [] := by
    rintro rfl
    simp at hs
  have h1 := floors_sum_le n ps
  have h2 := floors_sum_gt n ps hne
  rw [hs, one_mul] at h1 h2
  unfold leftover
  constructor
  · have : (((ps.map (floorShare n)).sum : Int) : ℚ) ≤ ((n : Int) : ℚ) := h1
    have := Int.cast_le.mp this
    omega
  · have : ((n : Int) : ℚ) < (((ps.map (floorShare n)).sum + (ps.length : Int) : Int) : ℚ) := by
      push_cast; exact h2
    have := Int.cast_lt.mp this
    omega

/-! ## `fillRemaining` -/

theorem fillRemaining_none_sum (r : Rat) (qs : List (Option Rat))
    (h : qs.any Option.isNone = false) : (fillRemaining r qs).sum = sumSome qs := by
  induction qs with
  | nil => simp [fillRemaining, sumSome]
  | cons q qs ih =>
    cases q with
    | none => simp at h
    | some q =>
      simp only [List.any_cons, Option.isNone_some, Bool.false_or] at h
      simp [fillRemaining, sumSome, ih h]

theorem fillRemaining_some_sum (r : Rat) (qs : List (Option Rat))
    (h : qs.any Option.isNone = true) : (fillRemaining r qs).sum = sumSome qs + r := by
  induction qs with
  | nil => simp at h
  | cons q qs ih =>
    cases q with
    | some q =>
      simp only [List.any_cons, Option.isNone_some, Bool.false_or] at h
      simp only [fillRemaining, sumSome, List.sum_cons, ih h]
      ring
    | none =>
      simp only [fillRemaining, sumSome, List.sum_cons]
      cases h' : qs.any Option.isNone with
      | true => simp [ih h']
      | false => simp [fillRemaining_none_sum r qs h']; ring

theorem fillRemaining_mem_nonneg (r : Rat) (hr : 0 ≤ r) (qs : List (Option Rat))
    (hq : ∀ q, some q ∈ qs → 0 ≤ q) : ∀ p ∈ fillRemaining r qs, 0 ≤ p := by
  induction qs with
  | nil => simp [fillRemaining]
  | cons q qs ih =>
    have ih' := ih (fun q h => hq q (List.mem_cons_of_mem _ h))
    cases q with
    | some q =>
      intro p hp
      simp only [fillRemaining, List.mem_cons] at hp
      rcases hp with rfl | hp
      · exact hq _ (by simp)
      · exact ih' p hp
    | none =>
      intro p hp
      simp only [fillRemaining, List.mem_cons] at hp
      rcases hp with rfl | hp
      · split
        · exact le_refl _
        · exact hr
      · exact ih' p hp

end NS
