/-
  Proofs/EndToEndLemmas.lean — helper lemmas for Properties/EndToEnd.lean: complete trees are
  benign (every level of the tree), and every maximal expression of a complete program is
  complete.
-/
import Proofs.AnalysisLemmas
import Spec.ParseSpec

namespace NS

/-! ### complete trees are benign -/

theorem ee_expr_ne_nil (e : Expr) (h : e.Complete) : e ≠ .nil := by
  intro hn
  subst hn
  simp [Expr.Complete] at h

theorem ee_exprs_benign : ∀ (es : List Expr), ExprsComplete es → ExprsBenign es
  | [], _ => trivial
  | e :: es, h => ⟨an_complete_benign e h.1, ee_exprs_benign es h.2⟩

theorem ee_allot_benign (a : AllotVal) (h : a.Complete) : a.Benign := by
  cases a with
  | nil => trivial
  | remaining _ => trivial
  | portion e => exact an_complete_benign e h

mutual
  theorem ee_source_benign : ∀ (s : Source), s.Complete → s.Benign
    | .nil, _ => by simp [Source.Benign]
    | .account e, h => by
        simp only [Source.Complete] at h
        simp only [Source.Benign]
        exact ⟨ee_expr_ne_nil e h, an_complete_benign e h⟩
    | .overdraft _ addr none, h => by
        simp only [Source.Complete] at h
        simp only [Source.Benign]
        exact ⟨ee_expr_ne_nil addr h, an_complete_benign addr h⟩
    | .overdraft _ addr (some b), h => by
        simp only [Source.Complete] at h
        simp only [Source.Benign]
        exact ⟨ee_expr_ne_nil addr h.1, an_complete_benign addr h.1, an_complete_benign b h.2⟩
    | .inorder _ srcs, h => by
        simp only [Source.Complete] at h
        simp only [Source.Benign]
        exact ee_sources_benign srcs h
    | .capped _ cap src, h => by
        simp only [Source.Complete] at h
        simp only [Source.Benign]
        exact ⟨an_complete_benign cap h.1, ee_source_benign src h.2⟩
    | .allotment _ items, h => by
        simp only [Source.Complete] at h
        simp only [Source.Benign]
        exact ee_srcItems_benign items h
  theorem ee_sources_benign : ∀ (ss : List Source), SourcesComplete ss → SourcesBenign ss
    | [], _ => by simp [SourcesBenign]
    | s :: ss, h => by
        simp only [SourcesComplete] at h
        simp only [SourcesBenign]
        exact ⟨ee_source_benign s h.1, ee_sources_benign ss h.2⟩
  theorem ee_srcItems_benign : ∀ (is : List SrcItem), SrcItemsComplete is → SrcItemsBenign is
    | [], _ => by simp [SrcItemsBenign]
    | (.mk _ a src) :: rest, h => by
        simp only [SrcItemsComplete] at h
        simp only [SrcItemsBenign]
        exact ⟨ee_allot_benign a h.1, ee_source_benign src h.2.1, ee_srcItems_benign rest h.2.2⟩
end

mutual
  theorem ee_dest_benign : ∀ (d : Dest), d.Complete → d.Benign
    | .nil, _ => by simp [Dest.Benign]
    | .account e, h => by
        simp only [Dest.Complete] at h
        simp only [Dest.Benign]
        exact ⟨ee_expr_ne_nil e h, an_complete_benign e h⟩
    | .inorder _ clauses remaining, h => by
        simp only [Dest.Complete] at h
        simp only [Dest.Benign]
        exact ⟨ee_clauses_benign clauses h.1, ee_kod_benign remaining h.2⟩
    | .allotment _ items, h => by
        simp only [Dest.Complete] at h
        simp only [Dest.Benign]
        exact ee_dstItems_benign items h
  theorem ee_kod_benign : ∀ (k : KoD), k.Complete → k.Benign
    | .nil, _ => by simp [KoD.Benign]
    | .kept _, _ => by simp [KoD.Benign]
    | .to d, h => by
        simp only [KoD.Complete] at h
        simp only [KoD.Benign]
        exact ee_dest_benign d h
  theorem ee_clauses_benign : ∀ (cs : List DestClause), ClausesComplete cs → ClausesBenign cs
    | [], _ => by simp [ClausesBenign]
    | (.mk _ cap k) :: rest, h => by
        simp only [ClausesComplete] at h
        simp only [ClausesBenign]
        exact ⟨an_complete_benign cap h.1, ee_kod_benign k h.2.1, ee_clauses_benign rest h.2.2⟩
  theorem ee_dstItems_benign : ∀ (is : List DestItem), DstItemsComplete is → DstItemsBenign is
    | [], _ => by simp [DstItemsBenign]
    | (.mk _ a k) :: rest, h => by
        simp only [DstItemsComplete] at h
        simp only [DstItemsBenign]
        exact ⟨ee_allot_benign a h.1, ee_kod_benign k h.2.1, ee_dstItems_benign rest h.2.2⟩
end

theorem ee_sent_benign (sv : SentValue) (h : sv.Complete) : sv.Benign := by
  cases sv with
  | nil => trivial
  | lit _ m => exact an_complete_benign m h
  | all _ a => exact an_complete_benign a h

theorem ee_fnCall_benign (fn : FnCall) (h : fn.Complete) : ExprsBenign fn.args :=
  ee_exprs_benign fn.args h

theorem ee_statement_benign (st : Statement) (h : st.Complete) : st.Benign := by
  cases st with
  | nil => trivial
  | fnCallNil => simp [Statement.Complete] at h
  | send _ sv src dst =>
      simp only [Statement.Complete] at h
      simp only [Statement.Benign]
      exact ⟨ee_sent_benign sv h.1, ee_source_benign src h.2.1, ee_dest_benign dst h.2.2⟩
  | save _ sv amount =>
      simp only [Statement.Complete] at h
      simp only [Statement.Benign]
      exact ⟨ee_sent_benign sv h.1, an_complete_benign amount h.2⟩
  | fnCall fn =>
      simp only [Statement.Complete] at h
      simp only [Statement.Benign]
      exact ee_fnCall_benign fn h

theorem ee_statements_benign : ∀ (ss : List Statement), StatementsComplete ss → StatementsBenign ss
  | [], _ => trivial
  | s :: ss, h => ⟨ee_statement_benign s h.1, ee_statements_benign ss h.2⟩

theorem ee_varDecl_benign (d : VarDecl) (h : d.Complete) : d.Benign :=
  ⟨fun _ => h.2.1, fun fn hfn => ee_fnCall_benign fn (h.2.2 fn hfn)⟩

theorem ee_varDecls_benign : ∀ (ds : List VarDecl), VarDeclsComplete ds → VarDeclsBenign ds
  | [], _ => trivial
  | d :: ds, h => ⟨ee_varDecl_benign d h.1, ee_varDecls_benign ds h.2⟩

theorem ee_program_benign (p : Program) (h : p.Complete) : p.Benign :=
  ⟨ee_varDecls_benign p.vars h.1, ee_statements_benign p.stmts h.2⟩

/-! ### the maximal expressions of a complete tree are complete -/

theorem ee_exprs_mem : ∀ (es : List Expr), ExprsComplete es → ∀ e ∈ es, e.Complete
  | [], _, e, he => by cases he
  | x :: xs, h, e, he => by
      rcases List.mem_cons.1 he with rfl | he
      · exact h.1
      · exact ee_exprs_mem xs h.2 e he

theorem ee_allot_exprs (a : AllotVal) (h : a.Complete) : ∀ e ∈ a.exprs, e.Complete := by
  intro e he
  cases a with
  | nil => simp [AllotVal.exprs] at he
  | remaining _ => simp [AllotVal.exprs] at he
  | portion x =>
      simp only [AllotVal.exprs, List.mem_singleton] at he
      subst he
      exact h

mutual
  theorem ee_source_exprs : ∀ (s : Source), s.Complete → ∀ e ∈ s.exprs, e.Complete
    | .nil, _, e, he => by simp [Source.exprs] at he
    | .account x, h, e, he => by
        simp only [Source.Complete] at h
        simp only [Source.exprs, List.mem_singleton] at he
        subst he
        exact h
    | .overdraft _ addr none, h, e, he => by
        simp only [Source.Complete] at h
        simp only [Source.exprs, List.mem_singleton] at he
        subst he
        exact h
    | .overdraft _ addr (some b), h, e, he => by
        simp only [Source.Complete] at h
        simp only [Source.exprs, List.mem_cons, List.not_mem_nil, or_false] at he
        rcases he with rfl | rfl
        · exact h.1
        · exact h.2
    | .inorder _ srcs, h, e, he => by
        simp only [Source.Complete] at h
        simp only [Source.exprs] at he
        exact ee_sources_exprs srcs h e he
    | .capped _ cap src, h, e, he => by
        simp only [Source.Complete] at h
        simp only [Source.exprs, List.mem_cons] at he
        rcases he with rfl | he
        · exact h.1
        · exact ee_source_exprs src h.2 e he
    | .allotment _ items, h, e, he => by
        simp only [Source.Complete] at h
        simp only [Source.exprs] at he
        exact ee_srcItems_exprs items h e he
  theorem ee_sources_exprs : ∀ (ss : List Source), SourcesComplete ss → ∀ e ∈ sourcesExprs ss, e.Complete
    | [], _, e, he => by simp [sourcesExprs] at he
    | s :: ss, h, e, he => by
        simp only [SourcesComplete] at h
        simp only [sourcesExprs, List.mem_append] at he
        rcases he with he | he
        · exact ee_source_exprs s h.1 e he
        · exact ee_sources_exprs ss h.2 e he
  theorem ee_srcItems_exprs : ∀ (is : List SrcItem), SrcItemsComplete is → ∀ e ∈ srcItemsExprs is, e.Complete
    | [], _, e, he => by simp [srcItemsExprs] at he
    | (.mk _ a src) :: rest, h, e, he => by
        simp only [SrcItemsComplete] at h
        simp only [srcItemsExprs, List.mem_append] at he
        rcases he with (he | he) | he
        · exact ee_allot_exprs a h.1 e he
        · exact ee_source_exprs src h.2.1 e he
        · exact ee_srcItems_exprs rest h.2.2 e he
end

mutual
  theorem ee_dest_exprs : ∀ (d : Dest), d.Complete → ∀ e ∈ d.exprs, e.Complete
    | .nil, _, e, he => by simp [Dest.exprs] at he
    | .account x, h, e, he => by
        simp only [Dest.Complete] at h
        simp only [Dest.exprs, List.mem_singleton] at he
        subst he
        exact h
    | .inorder _ clauses remaining, h, e, he => by
        simp only [Dest.Complete] at h
        simp only [Dest.exprs, List.mem_append] at he
        rcases he with he | he
        · exact ee_clauses_exprs clauses h.1 e he
        · exact ee_kod_exprs remaining h.2 e he
    | .allotment _ items, h, e, he => by
        simp only [Dest.Complete] at h
        simp only [Dest.exprs] at he
        exact ee_dstItems_exprs items h e he
  theorem ee_kod_exprs : ∀ (k : KoD), k.Complete → ∀ e ∈ k.exprs, e.Complete
    | .nil, _, e, he => by simp [KoD.exprs] at he
    | .kept _, _, e, he => by simp [KoD.exprs] at he
    | .to d, h, e, he => by
        simp only [KoD.Complete] at h
        simp only [KoD.exprs] at he
        exact ee_dest_exprs d h e he
  theorem ee_clauses_exprs : ∀ (cs : List DestClause), ClausesComplete cs → ∀ e ∈ clausesExprs cs, e.Complete
    | [], _, e, he => by simp [clausesExprs] at he
    | (.mk _ cap k) :: rest, h, e, he => by
        simp only [ClausesComplete] at h
        simp only [clausesExprs, List.mem_cons, List.mem_append] at he
        rcases he with (rfl | he) | he
        · exact h.1
        · exact ee_kod_exprs k h.2.1 e he
        · exact ee_clauses_exprs rest h.2.2 e he
  theorem ee_dstItems_exprs : ∀ (is : List DestItem), DstItemsComplete is → ∀ e ∈ dstItemsExprs is, e.Complete
    | [], _, e, he => by simp [dstItemsExprs] at he
    | (.mk _ a k) :: rest, h, e, he => by
        simp only [DstItemsComplete] at h
        simp only [dstItemsExprs, List.mem_append] at he
        rcases he with (he | he) | he
        · exact ee_allot_exprs a h.1 e he
        · exact ee_kod_exprs k h.2.1 e he
        · exact ee_dstItems_exprs rest h.2.2 e he
end

theorem ee_sent_exprs (sv : SentValue) (h : sv.Complete) : ∀ e ∈ sv.exprs, e.Complete := by
  intro e he
  cases sv with
  | nil => simp [SentValue.exprs] at he
  | lit _ m =>
      simp only [SentValue.exprs, List.mem_singleton] at he
      subst he
      exact h
  | all _ a =>
      simp only [SentValue.exprs, List.mem_singleton] at he
      subst he
      exact h

theorem ee_statement_exprs (st : Statement) (h : st.Complete) : ∀ e ∈ st.exprs, e.Complete := by
  intro e he
  cases st with
  | nil => simp [Statement.exprs] at he
  | fnCallNil => simp [Statement.exprs] at he
  | send _ sv src dst =>
      simp only [Statement.Complete] at h
      simp only [Statement.exprs, List.mem_append] at he
      rcases he with (he | he) | he
      · exact ee_sent_exprs sv h.1 e he
      · exact ee_source_exprs src h.2.1 e he
      · exact ee_dest_exprs dst h.2.2 e he
  | save _ sv amount =>
      simp only [Statement.Complete] at h
      simp only [Statement.exprs, List.mem_append, List.mem_singleton] at he
      rcases he with he | rfl
      · exact ee_sent_exprs sv h.1 e he
      · exact h.2
  | fnCall fn =>
      simp only [Statement.Complete] at h
      simp only [Statement.exprs] at he
      exact ee_exprs_mem fn.args h e he

theorem ee_statements_mem : ∀ (ss : List Statement), StatementsComplete ss → ∀ s ∈ ss, s.Complete
  | [], _, s, hs => by cases hs
  | x :: xs, h, s, hs => by
      rcases List.mem_cons.1 hs with rfl | hs
      · exact h.1
      · exact ee_statements_mem xs h.2 s hs

theorem ee_varDecls_mem : ∀ (ds : List VarDecl), VarDeclsComplete ds → ∀ d ∈ ds, d.Complete
  | [], _, d, hd => by cases hd
  | x :: xs, h, d, hd => by
      rcases List.mem_cons.1 hd with rfl | hd
      · exact h.1
      · exact ee_varDecls_mem xs h.2 d hd

theorem ee_varDecl_exprs (d : VarDecl) (h : d.Complete) : ∀ e ∈ d.exprs, e.Complete := by
  intro e he
  unfold VarDecl.exprs at he
  split at he
  · rename_i c hc
    exact ee_exprs_mem c.args (h.2.2 c hc) e he
  · cases he

theorem ee_program_exprs (p : Program) (h : p.Complete) : ∀ e ∈ p.exprs, e.Complete := by
  intro e he
  simp only [Program.exprs, List.mem_append, List.mem_flatMap] at he
  rcases he with ⟨d, hd, he⟩ | ⟨s, hs, he⟩
  · exact ee_varDecl_exprs d (ee_varDecls_mem p.vars h.1 d hd) e he
  · exact ee_statement_exprs s (ee_statements_mem p.stmts h.2 s hs) e he

/-- hover on a complete expression never reaches the typed-nil panic site -/
theorem ee_hover_ne_panic (e : Expr) (h : e.Complete) (pos : Pos) (s : String) :
    hoverOnExpression e pos ≠ .panic s :=
  an_isOk_ne_panic (an_hoverOnExpression_ok pos e (an_complete_benign e h)) s

theorem ee_ne_monetaryNil (e : Expr) (h : e.Complete) : e ≠ .monetaryNil := by
  intro hn
  subst hn
  simp [Expr.Complete] at h

end NS
