import Spec.ParseSpec
import Spec.Complete
import Proofs.SoundnessLemmas

namespace NS

/-! ## Part A: completeness, clause shapes and left associativity of parser results -/

def pt_EOk (e : Expr) : Prop := e.Complete ∧ e.LeftAssoc

theorem pt_expect_some {k : TK} {ts : List Tok} {t : Tok} {rest : List Tok}
    (h : expect k ts = some (t, rest)) : ts = t :: rest ∧ t.kind = k := by
  cases ts with
  | nil => simp [expect] at h
  | cons a as =>
    simp only [expect] at h
    split at h
    · cases h; exact ⟨rfl, by assumption⟩
    · cases h

theorem pt_portionExpr_ok {t : Tok} {e : Expr} (h : portionExpr t = some e) :
    ∃ r n d, e = .ratio r n d := by
  simp only [portionExpr] at h
  split at h
  · split at h
    · cases h; exact ⟨_, _, _, rfl⟩
    · cases h
  · split at h
    · split at h
      · cases h; exact ⟨_, _, _, rfl⟩
      · cases h
    · cases h

theorem pt_expr_ok : ∀ f : Nat,
    (∀ ts e stop rest, pExpr f ts = some (e, stop, rest) → pt_EOk e) ∧
    (∀ ts e stop rest, pPrimary f ts = some (e, stop, rest) → pt_EOk e ∧ e.isInfix = false) ∧
    (∀ first l stop ts e stop' rest,
      pInfixTail f first l stop ts = some (e, stop', rest) → pt_EOk l → pt_EOk e) := by
  intro f
  induction f with
  | zero =>
    refine ⟨?_, ?_, ?_⟩
    · intro ts e stop rest h; simp [pExpr] at h
    · intro ts e stop rest h; simp [pPrimary] at h
    · intro first l stop ts e stop' rest h; simp [pInfixTail] at h
  | succ f ih =>
    obtain ⟨ihE, ihP, ihT⟩ := ih
    refine ⟨?_, ?_, ?_⟩
    · intro ts e stop rest h
      cases ts with
      | nil => simp [pExpr] at h
      | cons t ts =>
        simp only [pExpr] at h
        split at h
        · rename_i e1 s1 r1 h1
          exact ihT _ _ _ _ _ _ _ h (ihP _ _ _ _ h1).1
        · cases h
    · intro ts e stop rest h
      cases ts with
      | nil => simp [pPrimary] at h
      | cons t ts =>
        simp only [pPrimary] at h
        split at h
        · cases h; simp [pt_EOk, Expr.Complete, Expr.LeftAssoc, Expr.isInfix]
        · cases h; simp [pt_EOk, Expr.Complete, Expr.LeftAssoc, Expr.isInfix]
        · cases h; simp [pt_EOk, Expr.Complete, Expr.LeftAssoc, Expr.isInfix]
        · cases h; simp [pt_EOk, Expr.Complete, Expr.LeftAssoc, Expr.isInfix]
        · split at h
          · cases h; simp [pt_EOk, Expr.Complete, Expr.LeftAssoc, Expr.isInfix]
          · cases h
        · split at h
          · rename_i e1 h1
            cases h
            obtain ⟨r, n, d, rfl⟩ := pt_portionExpr_ok h1
            simp [pt_EOk, Expr.Complete, Expr.LeftAssoc, Expr.isInfix]
          · cases h
        · split at h
          · rename_i e1 h1
            cases h
            obtain ⟨r, n, d, rfl⟩ := pt_portionExpr_ok h1
            simp [pt_EOk, Expr.Complete, Expr.LeftAssoc, Expr.isInfix]
          · cases h
        · split at h
          · rename_i a s1 r1 h1
            split at h
            · rename_i b s2 r2 h2
              split at h
              · cases h
                have ha := ihE _ _ _ _ h1
                have hb := ihE _ _ _ _ h2
                exact ⟨⟨⟨ha.1, hb.1⟩, ⟨ha.2, hb.2⟩⟩, rfl⟩
              · cases h
            · cases h
          · cases h
        · cases h
    · intro first l stop ts e stop' rest h hl
      cases ts with
      | nil => simp only [pInfixTail] at h; cases h; exact hl
      | cons op ts =>
        simp only [pInfixTail] at h
        split at h
        · split at h
          · rename_i r s1 r1 h1
            have hr := ihP _ _ _ _ h1
            exact ihT _ _ _ _ _ _ _ h ⟨⟨hl.1, hr.1.1⟩, hr.2, hl.2, hr.1.2⟩
          · cases h
        · cases h; exact hl

/-! ### sources -/

def pt_AOk (a : AllotVal) : Prop := a.Complete ∧ a.ShapeOk ∧ ∀ e ∈ a.exprs, e.LeftAssoc
def pt_SOk (s : Source) : Prop := s.Complete ∧ s.ShapeOk ∧ ∀ e ∈ s.exprs, e.LeftAssoc
def pt_SsOk (ss : List Source) : Prop :=
  SourcesComplete ss ∧ SourcesShapeOk ss ∧ ∀ e ∈ sourcesExprs ss, e.LeftAssoc
def pt_SIsOk (is : List SrcItem) : Prop :=
  SrcItemsComplete is ∧ SrcItemsShapeOk is ∧ ∀ e ∈ srcItemsExprs is, e.LeftAssoc

theorem pt_allotOfTok_ok {t : Tok} {av : AllotVal} (h : allotOfTok t = some av) : pt_AOk av := by
  simp only [allotOfTok] at h
  split at h
  · cases h; simp [pt_AOk, AllotVal.Complete, AllotVal.ShapeOk, AllotVal.exprs]
  · split at h
    · cases h
      simp [pt_AOk, AllotVal.Complete, AllotVal.ShapeOk, AllotVal.exprs, Expr.Complete, Expr.LeftAssoc]
    · cases hp : portionExpr t with
      | none => simp [hp] at h
      | some e =>
        simp only [hp, Option.map_some, Option.some.injEq] at h
        subst h
        obtain ⟨r, n, d, rfl⟩ := pt_portionExpr_ok hp
        simp [pt_AOk, AllotVal.Complete, AllotVal.ShapeOk, AllotVal.exprs, Expr.Complete, Expr.LeftAssoc]

theorem pt_SOk_account {e : Expr} (h : pt_EOk e) : pt_SOk (.account e) := by
  simp [pt_SOk, Source.Complete, Source.ShapeOk, Source.exprs, h.1, h.2]

theorem pt_SOk_overdraft_none {r : Range} {a : Expr} (h : pt_EOk a) : pt_SOk (.overdraft r a none) := by
  simp [pt_SOk, Source.Complete, Source.ShapeOk, Source.exprs, h.1, h.2]

theorem pt_SOk_overdraft_some {r : Range} {a b : Expr} (h : pt_EOk a) (hb : pt_EOk b) :
    pt_SOk (.overdraft r a (some b)) := by
  simp [pt_SOk, Source.Complete, Source.ShapeOk, Source.exprs, h.1, h.2, hb.1, hb.2]

theorem pt_SOk_inorder {r : Range} {ss : List Source} (h : pt_SsOk ss) : pt_SOk (.inorder r ss) := by
  simp only [pt_SOk, Source.Complete, Source.ShapeOk, Source.exprs]; exact h

theorem pt_SOk_allotment {r : Range} {is : List SrcItem} (h : pt_SIsOk is) : pt_SOk (.allotment r is) := by
  simp only [pt_SOk, Source.Complete, Source.ShapeOk, Source.exprs]; exact h

theorem pt_SOk_capped {r : Range} {c : Expr} {s : Source} (hc : pt_EOk c) (h : pt_SOk s) :
    pt_SOk (.capped r c s) := by
  simp only [pt_SOk, Source.Complete, Source.ShapeOk, Source.exprs, List.mem_cons]
  refine ⟨⟨hc.1, h.1⟩, h.2.1, ?_⟩
  intro e he
  cases he with
  | inl he => subst he; exact hc.2
  | inr he => exact h.2.2 e he

theorem pt_SsOk_nil : pt_SsOk [] := by
  simp [pt_SsOk, SourcesComplete, SourcesShapeOk, sourcesExprs]

theorem pt_SsOk_cons {s : Source} {ss : List Source} (h : pt_SOk s) (hs : pt_SsOk ss) :
    pt_SsOk (s :: ss) := by
  simp only [pt_SsOk, SourcesComplete, SourcesShapeOk, sourcesExprs, List.mem_append]
  refine ⟨⟨h.1, hs.1⟩, ⟨h.2.1, hs.2.1⟩, ?_⟩
  intro e he
  cases he with
  | inl he => exact h.2.2 e he
  | inr he => exact hs.2.2 e he

theorem pt_SIsOk_nil : pt_SIsOk [] := by
  simp [pt_SIsOk, SrcItemsComplete, SrcItemsShapeOk, srcItemsExprs]

theorem pt_SIsOk_cons {r : Range} {a : AllotVal} {s : Source} {is : List SrcItem}
    (ha : pt_AOk a) (h : pt_SOk s) (hs : pt_SIsOk is) : pt_SIsOk (.mk r a s :: is) := by
  simp only [pt_SIsOk, SrcItemsComplete, SrcItemsShapeOk, srcItemsExprs, List.mem_append]
  refine ⟨⟨ha.1, h.1, hs.1⟩, ⟨ha.2.1, h.2.1, hs.2.1⟩, ?_⟩
  intro e he
  rcases he with (he | he) | he
  · exact ha.2.2 e he
  · exact h.2.2 e he
  · exact hs.2.2 e he

theorem pt_source_ok : ∀ f : Nat,
    (∀ ts s stop rest, pSource f ts = some (s, stop, rest) → pt_SOk s) ∧
    (∀ lb ts s stop rest, pSrcInorder f lb ts = some (s, stop, rest) → pt_SOk s) ∧
    (∀ ts ss rest, pSources f ts = some (ss, rest) → pt_SsOk ss) ∧
    (∀ ts is rest, pSrcItems f ts = some (is, rest) → pt_SIsOk is) := by
  intro f
  induction f with
  | zero =>
    refine ⟨?_, ?_, ?_, ?_⟩
    · intro ts s stop rest h; simp [pSource] at h
    · intro lb ts s stop rest h; simp [pSrcInorder] at h
    · intro ts ss rest h; simp [pSources] at h
    · intro ts is rest h; simp [pSrcItems] at h
  | succ f ih =>
    obtain ⟨ihS, ihI, ihSs, ihIt⟩ := ih
    have hE := (pt_expr_ok f).1
    refine ⟨?_, ?_, ?_, ?_⟩
    · intro ts s stop rest h
      cases ts with
      | nil => simp [pSource] at h
      | cons t ts =>
        simp only [pSource] at h
        split at h
        · split at h
          · split at h
            · split at h
              · rename_i items r1 h1
                split at h
                · cases h; exact pt_SOk_allotment (ihIt _ _ _ h1)
                · cases h
              · cases h
            · exact ihI _ _ _ _ _ h
          · exact ihI _ _ _ _ _ h
        · split at h
          · split at h
            · rename_i cap s1 r1 h1
              split at h
              · split at h
                · rename_i src s2 r3 h3
                  cases h
                  exact pt_SOk_capped (hE _ _ _ _ h1) (ihS _ _ _ _ h3)
                · cases h
              · cases h
            · cases h
          · split at h
            · rename_i addr s1 r1 h1
              have ha := hE _ _ _ _ h1
              split at h
              · split at h
                · split at h
                  · cases h; exact pt_SOk_overdraft_none ha
                  · split at h
                    · split at h
                      · split at h
                        · split at h
                          · rename_i b s6 r6 h6
                            cases h
                            exact pt_SOk_overdraft_some ha (hE _ _ _ _ h6)
                          · cases h
                        · cases h
                      · cases h
                    · cases h
                · cases h
              · cases h; exact pt_SOk_account ha
            · cases h
    · intro lb ts s stop rest h
      simp only [pSrcInorder] at h
      split at h
      · rename_i srcs r1 h1
        split at h
        · cases h; exact pt_SOk_inorder (ihSs _ _ _ h1)
        · cases h
      · cases h
    · intro ts ss rest h
      cases ts with
      | nil => simp only [pSources] at h; cases h; exact pt_SsOk_nil
      | cons t ts =>
        simp only [pSources] at h
        split at h
        · split at h
          · rename_i s s1 r1 h1
            split at h
            · rename_i ss' r2 h2
              cases h
              exact pt_SsOk_cons (ihS _ _ _ _ h1) (ihSs _ _ _ h2)
            · cases h
          · cases h
        · cases h; exact pt_SsOk_nil
    · intro ts is rest h
      cases ts with
      | nil => simp [pSrcItems] at h
      | cons a ts =>
        simp only [pSrcItems] at h
        split at h
        · rename_i av hav
          have hA := pt_allotOfTok_ok hav
          split at h
          · split at h
            · rename_i src s2 r2 h2
              have hS := ihS _ _ _ _ h2
              split at h
              · split at h
                · split at h
                  · rename_i items r3 h3
                    cases h
                    exact pt_SIsOk_cons hA hS (ihIt _ _ _ h3)
                  · cases h
                · cases h; exact pt_SIsOk_cons hA hS pt_SIsOk_nil
              · cases h; exact pt_SIsOk_cons hA hS pt_SIsOk_nil
            · cases h
          · cases h
        · cases h

/-! ### destinations -/

def pt_DOk (d : Dest) : Prop := d.Complete ∧ d.ShapeOk ∧ ∀ e ∈ d.exprs, e.LeftAssoc
def pt_KOk (k : KoD) : Prop := k.Complete ∧ k.ShapeOk ∧ ∀ e ∈ k.exprs, e.LeftAssoc
def pt_CsOk (cs : List DestClause) : Prop :=
  ClausesComplete cs ∧ ClausesShapeOk cs ∧ ∀ e ∈ clausesExprs cs, e.LeftAssoc
def pt_DIsOk (is : List DestItem) : Prop :=
  DstItemsComplete is ∧ DstItemsShapeOk is ∧ ∀ e ∈ dstItemsExprs is, e.LeftAssoc

theorem pt_DOk_account {e : Expr} (h : pt_EOk e) : pt_DOk (.account e) := by
  simp [pt_DOk, Dest.Complete, Dest.ShapeOk, Dest.exprs, h.1, h.2]

theorem pt_DOk_inorder {r : Range} {cs : List DestClause} {k : KoD} (h : pt_CsOk cs) (hk : pt_KOk k) :
    pt_DOk (.inorder r cs k) := by
  simp only [pt_DOk, Dest.Complete, Dest.ShapeOk, Dest.exprs, List.mem_append]
  refine ⟨⟨h.1, hk.1⟩, ⟨h.2.1, hk.2.1⟩, ?_⟩
  intro e he
  cases he with
  | inl he => exact h.2.2 e he
  | inr he => exact hk.2.2 e he

theorem pt_DOk_allotment {r : Range} {is : List DestItem} (h : pt_DIsOk is) : pt_DOk (.allotment r is) := by
  simp only [pt_DOk, Dest.Complete, Dest.ShapeOk, Dest.exprs]; exact h

theorem pt_KOk_kept {r : Range} : pt_KOk (.kept r) := by
  simp [pt_KOk, KoD.Complete, KoD.ShapeOk, KoD.exprs]

theorem pt_KOk_to {d : Dest} (h : pt_DOk d) : pt_KOk (.to d) := by
  simp only [pt_KOk, KoD.Complete, KoD.ShapeOk, KoD.exprs]; exact h

theorem pt_CsOk_nil : pt_CsOk [] := by
  simp [pt_CsOk, ClausesComplete, ClausesShapeOk, clausesExprs]

theorem pt_CsOk_cons {r : Range} {c : Expr} {k : KoD} {cs : List DestClause}
    (hc : pt_EOk c) (hk : pt_KOk k) (hs : pt_CsOk cs) : pt_CsOk (.mk r c k :: cs) := by
  simp only [pt_CsOk, ClausesComplete, ClausesShapeOk, clausesExprs, List.mem_cons, List.mem_append]
  refine ⟨⟨hc.1, hk.1, hs.1⟩, ⟨hk.2.1, hs.2.1⟩, ?_⟩
  intro e he
  rcases he with (he | he) | he
  · subst he; exact hc.2
  · exact hk.2.2 e he
  · exact hs.2.2 e he

theorem pt_DIsOk_nil : pt_DIsOk [] := by
  simp [pt_DIsOk, DstItemsComplete, DstItemsShapeOk, dstItemsExprs]

theorem pt_DIsOk_cons {r : Range} {a : AllotVal} {k : KoD} {is : List DestItem}
    (ha : pt_AOk a) (hk : pt_KOk k) (hs : pt_DIsOk is) : pt_DIsOk (.mk r a k :: is) := by
  simp only [pt_DIsOk, DstItemsComplete, DstItemsShapeOk, dstItemsExprs, List.mem_append]
  refine ⟨⟨ha.1, hk.1, hs.1⟩, ⟨ha.2.1, hk.2.1, hs.2.1⟩, ?_⟩
  intro e he
  rcases he with (he | he) | he
  · exact ha.2.2 e he
  · exact hk.2.2 e he
  · exact hs.2.2 e he

theorem pt_dest_ok : ∀ f : Nat,
    (∀ ts d stop rest, pDest f ts = some (d, stop, rest) → pt_DOk d) ∧
    (∀ ts k stop rest, pKoD f ts = some (k, stop, rest) → pt_KOk k) ∧
    (∀ ts cs rest, pClauses f ts = some (cs, rest) → pt_CsOk cs) ∧
    (∀ ts is rest, pDstItems f ts = some (is, rest) → pt_DIsOk is) := by
  intro f
  induction f with
  | zero =>
    refine ⟨?_, ?_, ?_, ?_⟩
    · intro ts s stop rest h; simp [pDest] at h
    · intro ts s stop rest h; simp [pKoD] at h
    · intro ts ss rest h; simp [pClauses] at h
    · intro ts is rest h; simp [pDstItems] at h
  | succ f ih =>
    obtain ⟨ihD, ihK, ihC, ihIt⟩ := ih
    have hE := (pt_expr_ok f).1
    refine ⟨?_, ?_, ?_, ?_⟩
    · intro ts d stop rest h
      cases ts with
      | nil => simp [pDest] at h
      | cons t ts =>
        simp only [pDest] at h
        split at h
        · split at h
          · split at h
            · split at h
              · rename_i clauses r1 h1
                split at h
                · split at h
                  · rename_i k s3 r3 h3
                    split at h
                    · cases h; exact pt_DOk_inorder (ihC _ _ _ h1) (ihK _ _ _ _ h3)
                    · cases h
                  · cases h
                · cases h
              · cases h
            · split at h
              · split at h
                · rename_i items r1 h1
                  split at h
                  · cases h; exact pt_DOk_allotment (ihIt _ _ _ h1)
                  · cases h
                · cases h
              · cases h
          · cases h
        · split at h
          · rename_i e s1 r1 h1
            cases h; exact pt_DOk_account (hE _ _ _ _ h1)
          · cases h
    · intro ts k stop rest h
      cases ts with
      | nil => simp [pKoD] at h
      | cons t ts =>
        simp only [pKoD] at h
        split at h
        · cases h; exact pt_KOk_kept
        · split at h
          · split at h
            · rename_i d s1 r1 h1
              cases h; exact pt_KOk_to (ihD _ _ _ _ h1)
            · cases h
          · cases h
    · intro ts cs rest h
      cases ts with
      | nil => simp only [pClauses] at h; cases h; exact pt_CsOk_nil
      | cons t ts =>
        simp only [pClauses] at h
        split at h
        · split at h
          · rename_i cap s1 r1 h1
            split at h
            · rename_i k s2 r2 h2
              split at h
              · rename_i cs' r3 h3
                cases h
                exact pt_CsOk_cons (hE _ _ _ _ h1) (ihK _ _ _ _ h2) (ihC _ _ _ h3)
              · cases h
            · cases h
          · cases h
        · cases h; exact pt_CsOk_nil
    · intro ts is rest h
      cases ts with
      | nil => simp [pDstItems] at h
      | cons a ts =>
        simp only [pDstItems] at h
        split at h
        · rename_i av hav
          have hA := pt_allotOfTok_ok hav
          split at h
          · rename_i k s1 r1 h1
            have hK := ihK _ _ _ _ h1
            split at h
            · split at h
              · split at h
                · rename_i items r3 h3
                  cases h
                  exact pt_DIsOk_cons hA hK (ihIt _ _ _ h3)
                · cases h
              · cases h; exact pt_DIsOk_cons hA hK pt_DIsOk_nil
            · cases h; exact pt_DIsOk_cons hA hK pt_DIsOk_nil
          · cases h
        · cases h

/-! ### function calls, sent values, statements, declarations -/

def pt_EsOk (es : List Expr) : Prop := ExprsComplete es ∧ ∀ e ∈ es, e.LeftAssoc

theorem pt_EsOk_nil : pt_EsOk [] := by simp [pt_EsOk, ExprsComplete]

theorem pt_EsOk_cons {e : Expr} {es : List Expr} (h : pt_EOk e) (hs : pt_EsOk es) : pt_EsOk (e :: es) := by
  simp only [pt_EsOk, ExprsComplete, List.mem_cons]
  refine ⟨⟨h.1, hs.1⟩, ?_⟩
  intro x hx
  cases hx with
  | inl hx => subst hx; exact h.2
  | inr hx => exact hs.2 x hx

theorem pt_argsTail_ok : ∀ (f : Nat) (ts : List Tok) (es : List Expr) (rest : List Tok),
    pArgsTail f ts = some (es, rest) → pt_EsOk es := by
  intro f
  induction f with
  | zero => intro ts es rest h; simp [pArgsTail] at h
  | succ f ih =>
    intro ts es rest h
    simp only [pArgsTail] at h
    split at h
    · split at h
      · rename_i e s1 r1 h1
        split at h
        · rename_i es' r2 h2
          cases h
          exact pt_EsOk_cons ((pt_expr_ok f).1 _ _ _ _ h1) (ih _ _ _ h2)
        · cases h
      · cases h
    · cases h; exact pt_EsOk_nil

theorem pt_fnCall_ok {f : Nat} {ts : List Tok} {c : FnCall} {stop : Tok} {rest : List Tok}
    (h : pFnCall f ts = some (c, stop, rest)) : pt_EsOk c.args := by
  unfold pFnCall at h
  split at h
  · split at h
    · split at h
      · cases h; exact pt_EsOk_nil
      · split at h
        · rename_i e s1 r1 h1
          split at h
          · rename_i es r2 h2
            split at h
            · cases h
              exact pt_EsOk_cons ((pt_expr_ok f).1 _ _ _ _ h1) (pt_argsTail_ok _ _ _ _ h2)
            · cases h
          · cases h
        · cases h
    · cases h
  · cases h

def pt_SVOk (sv : SentValue) : Prop := sv.Complete ∧ ∀ e ∈ sv.exprs, e.LeftAssoc

theorem pt_SVOk_lit {r : Range} {e : Expr} (h : pt_EOk e) : pt_SVOk (.lit r e) := by
  simp [pt_SVOk, SentValue.Complete, SentValue.exprs, h.1, h.2]

theorem pt_SVOk_all {r : Range} {e : Expr} (h : pt_EOk e) : pt_SVOk (.all r e) := by
  simp [pt_SVOk, SentValue.Complete, SentValue.exprs, h.1, h.2]

theorem pt_sentValue_ok {f : Nat} {ts : List Tok} {sv : SentValue} {stop : Tok} {rest : List Tok}
    (h : pSentValue f ts = some (sv, stop, rest)) : pt_SVOk sv := by
  have hE := (pt_expr_ok f).1
  have hlit : ∀ t ts', (match pExpr f (t :: ts') with
        | some (e, stop, r1) => some (SentValue.lit (rangeOf t stop) e, stop, r1)
        | none => none) = some (sv, stop, rest) → pt_SVOk sv := by
    intro t ts' h
    split at h
    · rename_i e s1 r1 h1
      cases h; exact pt_SVOk_lit (hE _ _ _ _ h1)
    · cases h
  cases ts with
  | nil => simp [pSentValue] at h
  | cons t ts =>
    simp only [pSentValue] at h
    split at h
    · split at h
      · rename_i a s1 r1 h1
        split at h
        · split at h
          · cases h; exact pt_SVOk_all (hE _ _ _ _ h1)
          · cases h
        · exact hlit _ _ h
      · cases h
    · exact hlit _ _ h

def pt_StOk (s : Statement) : Prop := s.Complete ∧ s.ShapeOk ∧ ∀ e ∈ s.exprs, e.LeftAssoc

theorem pt_statement_ok {f : Nat} {ts : List Tok} {s : Statement} {stop : Tok} {rest : List Tok}
    (h : pStatement f ts = some (s, stop, rest)) : pt_StOk s := by
  cases ts with
  | nil => simp [pStatement] at h
  | cons t ts =>
    simp only [pStatement] at h
    split at h
    · simp only [bind, Option.bind_eq_some_iff] at h
      obtain ⟨⟨sv, s1, r1⟩, h1, ⟨lp, r2⟩, h2, ⟨_, r3⟩, h3, ⟨_, r4⟩, h4, ⟨src, s5, r5⟩, h5,
        ⟨_, r6⟩, h6, ⟨_, r7⟩, h7, ⟨dst, s8, r8⟩, h8, ⟨rp, r9⟩, h9, h⟩ := h
      cases h
      have hsv := pt_sentValue_ok h1
      have hsrc := (pt_source_ok f).1 _ _ _ _ h5
      have hdst := (pt_dest_ok f).1 _ _ _ _ h8
      simp only [pt_StOk, Statement.Complete, Statement.ShapeOk, Statement.exprs, List.mem_append]
      refine ⟨⟨hsv.1, hsrc.1, hdst.1⟩, ⟨hsrc.2.1, hdst.2.1⟩, ?_⟩
      intro e he
      rcases he with (he | he) | he
      · exact hsv.2 e he
      · exact hsrc.2.2 e he
      · exact hdst.2.2 e he
    · split at h
      · split at h
        · rename_i sv s1 r1 h1
          split at h
          · split at h
            · rename_i e s3 r3 h3
              cases h
              have hsv := pt_sentValue_ok h1
              have he := (pt_expr_ok f).1 _ _ _ _ h3
              simp only [pt_StOk, Statement.Complete, Statement.ShapeOk, Statement.exprs,
                List.mem_append, List.mem_singleton]
              refine ⟨⟨hsv.1, he.1⟩, trivial, ?_⟩
              intro x hx
              rcases hx with hx | hx
              · exact hsv.2 x hx
              · subst hx; exact he.2
            · cases h
          · cases h
        · cases h
      · split at h
        · rename_i c s1 r1 h1
          cases h
          have hc := pt_fnCall_ok h1
          simp only [pt_StOk, Statement.Complete, Statement.ShapeOk, Statement.exprs, FnCall.Complete]
          exact ⟨hc.1, trivial, hc.2⟩
        · cases h

def pt_StsOk (ss : List Statement) : Prop :=
  StatementsComplete ss ∧ (∀ s ∈ ss, s.ShapeOk) ∧ ∀ e ∈ ss.flatMap Statement.exprs, e.LeftAssoc

theorem pt_statements_ok (f : Nat) : ∀ (n : Nat) (ts : List Tok) (ss : List Statement),
    pStatements f n ts = some ss → pt_StsOk ss := by
  intro n
  induction n with
  | zero => intro ts ss h; simp [pStatements] at h
  | succ n ih =>
    intro ts ss h
    cases ts with
    | nil =>
      simp only [pStatements] at h; cases h
      simp [pt_StsOk, StatementsComplete]
    | cons t ts =>
      simp only [pStatements] at h
      split at h
      · rename_i s s1 r1 h1
        split at h
        · rename_i ss' h2
          cases h
          have hs := pt_statement_ok h1
          have hss := ih _ _ h2
          simp only [pt_StsOk, StatementsComplete, List.mem_cons, List.flatMap_cons, List.mem_append]
          refine ⟨⟨hs.1, hss.1⟩, ?_, ?_⟩
          · intro x hx
            rcases hx with hx | hx
            · subst hx; exact hs.2.1
            · exact hss.2.1 x hx
          · intro e he
            rcases he with he | he
            · exact hs.2.2 e he
            · exact hss.2.2 e he
        · cases h
      · cases h

def pt_VDOk (d : VarDecl) : Prop := d.Complete ∧ ∀ e ∈ d.exprs, e.LeftAssoc

theorem pt_varDecl_ok {f : Nat} {ts : List Tok} {d : VarDecl} {stop : Tok} {rest : List Tok}
    (h : pVarDecl f ts = some (d, stop, rest)) : pt_VDOk d := by
  unfold pVarDecl at h
  split at h
  · split at h
    · simp only at h
      split at h
      · split at h
        · rename_i c s2 r2 h2
          cases h
          have hc := pt_fnCall_ok h2
          simp only [pt_VDOk, VarDecl.Complete, VarDecl.exprs, Option.isSome_some, Option.some.injEq,
            FnCall.Complete, true_and]
          refine ⟨?_, hc.2⟩
          intro fn hfn; subst hfn; exact hc.1
        · cases h
      · cases h
        simp [pt_VDOk, VarDecl.Complete, VarDecl.exprs]
    · cases h
  · cases h

def pt_VDsOk (ds : List VarDecl) : Prop :=
  VarDeclsComplete ds ∧ ∀ e ∈ ds.flatMap VarDecl.exprs, e.LeftAssoc

theorem pt_varDecls_ok (f : Nat) : ∀ (n : Nat) (ts : List Tok) (ds : List VarDecl) (rest : List Tok),
    pVarDecls f n ts = some (ds, rest) → pt_VDsOk ds := by
  intro n
  induction n with
  | zero => intro ts ds rest h; simp [pVarDecls] at h
  | succ n ih =>
    intro ts ds rest h
    cases ts with
    | nil => simp [pVarDecls] at h
    | cons t ts =>
      simp only [pVarDecls] at h
      split at h
      · cases h; simp [pt_VDsOk, VarDeclsComplete]
      · split at h
        · rename_i d s1 r1 h1
          split at h
          · rename_i ds' r2 h2
            cases h
            have hd := pt_varDecl_ok h1
            have hds := ih _ _ _ h2
            simp only [pt_VDsOk, VarDeclsComplete, List.flatMap_cons, List.mem_append]
            refine ⟨⟨hd.1, hds.1⟩, ?_⟩
            intro e he
            rcases he with he | he
            · exact hd.2 e he
            · exact hds.2 e he
          · cases h
        · cases h

theorem pt_parseTokens_ok {ts : List Tok} {p : Program} (h : parseTokens ts = some p) :
    p.Complete ∧ (∀ s ∈ p.stmts, s.ShapeOk) ∧ ∀ e ∈ p.exprs, e.LeftAssoc := by
  have hnil : ∀ (f n : Nat) (ts : List Tok),
      (pStatements f n ts).map (fun ss => (⟨[], ss⟩ : Program)) = some p →
      p.Complete ∧ (∀ s ∈ p.stmts, s.ShapeOk) ∧ ∀ e ∈ p.exprs, e.LeftAssoc := by
    intro f n ts h
    cases hs : pStatements f n ts with
    | none => simp [hs] at h
    | some ss =>
      simp only [hs, Option.map_some, Option.some.injEq] at h
      subst h
      have hss := pt_statements_ok _ _ _ _ hs
      simp only [Program.Complete, Program.exprs, VarDeclsComplete, List.flatMap_nil, List.nil_append]
      exact ⟨⟨trivial, hss.1⟩, hss.2.1, hss.2.2⟩
  unfold parseTokens at h
  simp only at h
  split at h
  · split at h
    · split at h
      · split at h
        · rename_i ds r1 h1
          split at h
          · rename_i ss h2
            cases h
            have hds := pt_varDecls_ok _ _ _ _ _ h1
            have hss := pt_statements_ok _ _ _ _ h2
            simp only [Program.Complete, Program.exprs, List.mem_append]
            refine ⟨⟨hds.1, hss.1⟩, hss.2.1, ?_⟩
            intro e he
            rcases he with he | he
            · exact hds.2 e he
            · exact hss.2.2 e he
          · cases h
        · cases h
      · cases h
    · exact hnil _ _ _ h
  · exact hnil _ _ _ h

theorem pt_parseProgram_tokens {text : List Char} {p : Program} (h : parseProgram text = some p) :
    ∃ ts, parseTokens ts = some p := by
  unfold parseProgram at h
  split at h
  · split at h
    · exact ⟨_, h⟩
    · cases h
  · cases h

/-! ## Part B: layout independence -/

def pt_Sim (ts ts' : List Tok) : Prop := ts.map Tok.shape = ts'.map Tok.shape

theorem pt_Sim_cases {ts ts' : List Tok} (h : pt_Sim ts ts') :
    (ts = [] ∧ ts' = []) ∨
    ∃ t r t' r', ts = t :: r ∧ ts' = t' :: r' ∧ t'.kind = t.kind ∧ t'.text = t.text ∧ pt_Sim r r' := by
  cases ts with
  | nil =>
    cases ts' with
    | nil => exact Or.inl ⟨rfl, rfl⟩
    | cons t' r' => simp [pt_Sim] at h
  | cons t r =>
    cases ts' with
    | nil => simp [pt_Sim] at h
    | cons t' r' =>
      simp only [pt_Sim, List.map_cons, List.cons.injEq, Tok.shape, Prod.mk.injEq] at h
      exact Or.inr ⟨t, r, t', r', rfl, rfl, h.1.1.symm, h.1.2.symm, h.2⟩

theorem pt_Sim_length {ts ts' : List Tok} (h : pt_Sim ts ts') : ts'.length = ts.length := by
  have := congrArg List.length h
  simpa using this.symm

theorem pt_Sim_cons {t t' : Tok} {r r' : List Tok} (hk : t'.kind = t.kind) (ht : t'.text = t.text)
    (h : pt_Sim r r') : pt_Sim (t :: r) (t' :: r') := by
  simp only [pt_Sim, List.map_cons, Tok.shape, hk, ht]
  exact congrArg _ h

theorem pt_Sim_nil : pt_Sim [] [] := rfl

/-- results agree up to ranges (the stop token only feeds ranges) -/
def pt_Rel {α : Type} (sk : α → α) : PR α → PR α → Prop
  | none, none => True
  | some (a, _, r), some (a', _, r') => sk a = sk a' ∧ pt_Sim r r'
  | _, _ => False

def pt_RelL {α : Type} (sk : α → α) : Option (α × List Tok) → Option (α × List Tok) → Prop
  | none, none => True
  | some (a, r), some (a', r') => sk a = sk a' ∧ pt_Sim r r'
  | _, _ => False

theorem pt_Rel_cases {α : Type} {sk : α → α} {x x' : PR α} (h : pt_Rel sk x x') :
    (x = none ∧ x' = none) ∨
    ∃ a s r a' s' r', x = some (a, s, r) ∧ x' = some (a', s', r') ∧ sk a = sk a' ∧ pt_Sim r r' := by
  match x, x', h with
  | none, none, _ => exact Or.inl ⟨rfl, rfl⟩
  | some (a, s, r), some (a', s', r'), h => exact Or.inr ⟨a, s, r, a', s', r', rfl, rfl, h.1, h.2⟩

theorem pt_RelL_cases {α : Type} {sk : α → α} {x x' : Option (α × List Tok)} (h : pt_RelL sk x x') :
    (x = none ∧ x' = none) ∨
    ∃ a r a' r', x = some (a, r) ∧ x' = some (a', r') ∧ sk a = sk a' ∧ pt_Sim r r' := by
  match x, x', h with
  | none, none, _ => exact Or.inl ⟨rfl, rfl⟩
  | some (a, r), some (a', r'), h => exact Or.inr ⟨a, r, a', r', rfl, rfl, h.1, h.2⟩

theorem pt_Rel_none {α : Type} {sk : α → α} : pt_Rel sk none none := trivial

theorem pt_Rel_some {α : Type} {sk : α → α} {a a' : α} {s s' : Tok} {r r' : List Tok}
    (h : sk a = sk a') (hr : pt_Sim r r') : pt_Rel sk (some (a, s, r)) (some (a', s', r')) := ⟨h, hr⟩

theorem pt_RelL_none {α : Type} {sk : α → α} : pt_RelL sk none none := trivial

theorem pt_RelL_some {α : Type} {sk : α → α} {a a' : α} {r r' : List Tok}
    (h : sk a = sk a') (hr : pt_Sim r r') : pt_RelL sk (some (a, r)) (some (a', r')) := ⟨h, hr⟩

theorem pt_expect_sim (k : TK) {ts ts' : List Tok} (h : pt_Sim ts ts') :
    (expect k ts = none ∧ expect k ts' = none) ∨
    ∃ t r t' r', expect k ts = some (t, r) ∧ expect k ts' = some (t', r') ∧ pt_Sim r r' := by
  rcases pt_Sim_cases h with ⟨rfl, rfl⟩ | ⟨t, r, t', r', rfl, rfl, hk, ht, hr⟩
  · exact Or.inl ⟨rfl, rfl⟩
  · simp only [expect, hk]
    by_cases hc : t.kind = k
    · simp only [hc, ↓reduceIte]
      exact Or.inr ⟨_, _, _, _, rfl, rfl, hr⟩
    · simp only [hc, ↓reduceIte]
      exact Or.inl ⟨trivial, trivial⟩

theorem pt_portionExpr_sim {t t' : Tok} (hk : t'.kind = t.kind) (ht : t'.text = t.text) :
    (portionExpr t = none ∧ portionExpr t' = none) ∨
    ∃ e e', portionExpr t = some e ∧ portionExpr t' = some e' ∧ e.skel = e'.skel := by
  simp only [portionExpr, hk, ht]
  by_cases h1 : t.kind = .ratio
  · simp only [h1, ↓reduceIte]
    cases ratioLiteral t.text with
    | none => exact Or.inl ⟨rfl, rfl⟩
    | some p => exact Or.inr ⟨_, _, rfl, rfl, rfl⟩
  · simp only [h1, ↓reduceIte]
    by_cases h2 : t.kind = .percent
    · simp only [h2, ↓reduceIte]
      cases percentLiteral t.text with
      | none => exact Or.inl ⟨rfl, rfl⟩
      | some p => exact Or.inr ⟨_, _, rfl, rfl, rfl⟩
    · simp only [h2, ↓reduceIte]
      exact Or.inl ⟨trivial, trivial⟩

theorem pt_expr_sim : ∀ f : Nat,
    (∀ ts ts', pt_Sim ts ts' → pt_Rel Expr.skel (pExpr f ts) (pExpr f ts')) ∧
    (∀ ts ts', pt_Sim ts ts' → pt_Rel Expr.skel (pPrimary f ts) (pPrimary f ts')) ∧
    (∀ first first' l l' stop stop' ts ts', l.skel = l'.skel → pt_Sim ts ts' →
      pt_Rel Expr.skel (pInfixTail f first l stop ts) (pInfixTail f first' l' stop' ts')) := by
  intro f
  induction f with
  | zero =>
    refine ⟨?_, ?_, ?_⟩
    · intro ts ts' h; simp only [pExpr]; exact pt_Rel_none
    · intro ts ts' h; simp only [pPrimary]; exact pt_Rel_none
    · intro first first' l l' stop stop' ts ts' hl h; simp only [pInfixTail]; exact pt_Rel_none
  | succ f ih =>
    obtain ⟨ihE, ihP, ihT⟩ := ih
    refine ⟨?_, ?_, ?_⟩
    · intro ts ts' h
      rcases pt_Sim_cases h with ⟨rfl, rfl⟩ | ⟨t, r, t', r', rfl, rfl, hk, ht, hr⟩
      · simp only [pExpr]; exact pt_Rel_none
      · simp only [pExpr]
        rcases pt_Rel_cases (ihP _ _ h) with ⟨h1, h2⟩ | ⟨a, s, r1, a', s', r1', h1, h2, hsk, hr1⟩
        · simp only [h1, h2]; exact pt_Rel_none
        · simp only [h1, h2]; exact ihT _ _ _ _ _ _ _ _ hsk hr1
    · intro ts ts' h
      rcases pt_Sim_cases h with ⟨rfl, rfl⟩ | ⟨t, r, t', r', rfl, rfl, hk, ht, hr⟩
      · simp only [pPrimary]; exact pt_Rel_none
      · simp only [pPrimary, hk, ht]
        have hport : pt_Rel Expr.skel
            (match portionExpr t with | some e => some (e, t, r) | none => none)
            (match portionExpr t' with | some e => some (e, t', r') | none => none) := by
          rcases pt_portionExpr_sim hk ht with ⟨h1, h2⟩ | ⟨e, e', h1, h2, he⟩
          · simp only [h1, h2]; exact pt_Rel_none
          · simp only [h1, h2]; exact pt_Rel_some he hr
        cases hkk : t.kind with
        | varName => exact pt_Rel_some rfl hr
        | asset => exact pt_Rel_some rfl hr
        | string => exact pt_Rel_some rfl hr
        | account => exact pt_Rel_some rfl hr
        | number =>
          simp only []
          cases numberTokenValue t.text with
          | none => exact pt_Rel_none
          | some v => exact pt_Rel_some rfl hr
        | ratio => exact hport
        | percent => exact hport
        | lbracket =>
          simp only []
          rcases pt_Rel_cases (ihE _ _ hr) with ⟨h1, h2⟩ | ⟨a, s, r1, a', s', r1', h1, h2, hska, hr1⟩
          · simp only [h1, h2]; exact pt_Rel_none
          · simp only [h1, h2]
            rcases pt_Rel_cases (ihE _ _ hr1) with ⟨h3, h4⟩ | ⟨b, s2, r2, b', s2', r2', h3, h4, hskb, hr2⟩
            · simp only [h3, h4]; exact pt_Rel_none
            · simp only [h3, h4]
              rcases pt_expect_sim .rbracket hr2 with ⟨h5, h6⟩ | ⟨rb, r3, rb', r3', h5, h6, hr3⟩
              · simp only [h5, h6]; exact pt_Rel_none
              · simp only [h5, h6]
                exact pt_Rel_some (by simp only [Expr.skel, hska, hskb]) hr3
        | _ => exact pt_Rel_none
    · intro first first' l l' stop stop' ts ts' hl h
      rcases pt_Sim_cases h with ⟨rfl, rfl⟩ | ⟨op, r, op', r', rfl, rfl, hk, ht, hr⟩
      · simp only [pInfixTail]; exact pt_Rel_some hl pt_Sim_nil
      · simp only [pInfixTail, hk]
        by_cases hc : op.kind = .plus ∨ op.kind = .minus
        · simp only [hc, ↓reduceIte]
          rcases pt_Rel_cases (ihP _ _ hr) with ⟨h1, h2⟩ | ⟨a, s, r1, a', s', r1', h1, h2, hsk, hr1⟩
          · simp only [h1, h2]; exact pt_Rel_none
          · simp only [h1, h2]
            exact ihT _ _ _ _ _ _ _ _ (by simp only [Expr.skel, hl, hsk]) hr1
        · simp only [hc, ↓reduceIte]
          exact pt_Rel_some hl h

theorem pt_allotOfTok_sim {t t' : Tok} (hk : t'.kind = t.kind) (ht : t'.text = t.text) :
    (allotOfTok t = none ∧ allotOfTok t' = none) ∨
    ∃ a a', allotOfTok t = some a ∧ allotOfTok t' = some a' ∧ a.skel = a'.skel := by
  simp only [allotOfTok, hk, ht]
  by_cases h1 : t.kind = .kwRemaining
  · simp only [h1, ↓reduceIte]
    exact Or.inr ⟨_, _, rfl, rfl, rfl⟩
  · simp only [h1, ↓reduceIte]
    by_cases h2 : t.kind = .varName
    · simp only [h2, ↓reduceIte]
      exact Or.inr ⟨_, _, rfl, rfl, rfl⟩
    · simp only [h2, ↓reduceIte]
      rcases pt_portionExpr_sim hk ht with ⟨h3, h4⟩ | ⟨e, e', h3, h4, he⟩
      · simp only [h3, h4]; exact Or.inl ⟨rfl, rfl⟩
      · simp only [h3, h4]
        exact Or.inr ⟨_, _, rfl, rfl, by simp only [AllotVal.skel, he]⟩

theorem pt_source_sim : ∀ f : Nat,
    (∀ ts ts', pt_Sim ts ts' → pt_Rel Source.skel (pSource f ts) (pSource f ts')) ∧
    (∀ lb lb' ts ts', pt_Sim ts ts' → pt_Rel Source.skel (pSrcInorder f lb ts) (pSrcInorder f lb' ts')) ∧
    (∀ ts ts', pt_Sim ts ts' → pt_RelL sourcesSkel (pSources f ts) (pSources f ts')) ∧
    (∀ ts ts', pt_Sim ts ts' → pt_RelL srcItemsSkel (pSrcItems f ts) (pSrcItems f ts')) := by
  intro f
  induction f with
  | zero =>
    refine ⟨?_, ?_, ?_, ?_⟩
    · intro ts ts' h; simp only [pSource]; exact pt_Rel_none
    · intro lb lb' ts ts' h; simp only [pSrcInorder]; exact pt_Rel_none
    · intro ts ts' h; simp only [pSources]; exact pt_RelL_none
    · intro ts ts' h; simp only [pSrcItems]; exact pt_RelL_none
  | succ f ih =>
    obtain ⟨ihS, ihI, ihSs, ihIt⟩ := ih
    have hE := (pt_expr_sim f).1
    refine ⟨?_, ?_, ?_, ?_⟩
    · intro ts ts' h
      rcases pt_Sim_cases h with ⟨rfl, rfl⟩ | ⟨t, r, t', r', rfl, rfl, hk, ht, hr⟩
      · simp only [pSource]; exact pt_Rel_none
      · simp only [pSource, hk]
        by_cases hc1 : t.kind = .lbrace
        · simp only [hc1, ↓reduceIte]
          rcases pt_Sim_cases hr with ⟨rfl, rfl⟩ | ⟨a, ra, a', ra', rfl, rfl, hka, hta, hra⟩
          · simp only []; exact ihI _ _ _ _ hr
          · rcases pt_Sim_cases hra with ⟨rfl, rfl⟩ | ⟨fr, rf, fr', rf', rfl, rfl, hkf, htf, hrf⟩
            · simp only []; exact ihI _ _ _ _ hr
            · simp only [hka, hkf]
              by_cases hc : isAllotHead a.kind = true ∧ fr.kind = .kwFrom
              · simp only [hc]
                rcases pt_RelL_cases (ihIt _ _ hr) with ⟨h1, h2⟩ | ⟨is, r1, is', r1', h1, h2, hsk, hr1⟩
                · simp only [h1, h2]; exact pt_Rel_none
                · simp only [h1, h2]
                  rcases pt_expect_sim .rbrace hr1 with ⟨h3, h4⟩ | ⟨rb, r2, rb', r2', h3, h4, hr2⟩
                  · simp only [h3, h4]; exact pt_Rel_none
                  · simp only [h3, h4]
                    exact pt_Rel_some (by simp only [Source.skel, hsk]) hr2
              · simp only [hc, ↓reduceIte]; exact ihI _ _ _ _ hr
        · simp only [hc1, ↓reduceIte]
          by_cases hc2 : t.kind = .kwMax
          · simp only [hc2, ↓reduceIte]
            rcases pt_Rel_cases (hE _ _ hr) with ⟨h1, h2⟩ | ⟨cap, s, r1, cap', s', r1', h1, h2, hsk, hr1⟩
            · simp only [h1, h2]; exact pt_Rel_none
            · simp only [h1, h2]
              rcases pt_expect_sim .kwFrom hr1 with ⟨h3, h4⟩ | ⟨x, r2, x', r2', h3, h4, hr2⟩
              · simp only [h3, h4]; exact pt_Rel_none
              · simp only [h3, h4]
                rcases pt_Rel_cases (ihS _ _ hr2) with ⟨h5, h6⟩ | ⟨src, s3, r3, src', s3', r3', h5, h6, hsk3, hr3⟩
                · simp only [h5, h6]; exact pt_Rel_none
                · simp only [h5, h6]
                  exact pt_Rel_some (by simp only [Source.skel, hsk, hsk3]) hr3
          · simp only [hc2, ↓reduceIte]
            rcases pt_Rel_cases (hE _ _ h) with ⟨h1, h2⟩ | ⟨addr, s, r1, addr', s', r1', h1, h2, hsk, hr1⟩
            · simp only [h1, h2]; exact pt_Rel_none
            · simp only [h1, h2]
              rcases pt_expect_sim .kwAllowing hr1 with ⟨h3, h4⟩ | ⟨x, r2, x', r2', h3, h4, hr2⟩
              · simp only [h3, h4]
                exact pt_Rel_some (by simp only [Source.skel, hsk]) hr1
              · simp only [h3, h4]
                rcases pt_Sim_cases hr2 with ⟨rfl, rfl⟩ | ⟨u, ru, u', ru', rfl, rfl, hku, htu, hru⟩
                · simp only []; exact pt_Rel_none
                · rcases pt_Sim_cases hru with ⟨rfl, rfl⟩ | ⟨o, ro, o', ro', rfl, rfl, hko, hto, hro⟩
                  · simp only []; exact pt_Rel_none
                  · simp only [hku, hko]
                    by_cases hc3 : u.kind = .kwUnbounded ∧ o.kind = .kwOverdraft
                    · simp only [hc3]
                      exact pt_Rel_some (by simp only [Source.skel, hsk]) hro
                    · simp only [hc3, ↓reduceIte]
                      by_cases hc4 : u.kind = .kwOverdraft
                      · simp only [hc4, ↓reduceIte]
                        rcases pt_expect_sim .kwUp hru with ⟨h5, h6⟩ | ⟨y, r4, y', r4', h5, h6, hr4⟩
                        · simp only [h5, h6]; exact pt_Rel_none
                        · simp only [h5, h6]
                          rcases pt_expect_sim .kwTo hr4 with ⟨h7, h8⟩ | ⟨z, r5, z', r5', h7, h8, hr5⟩
                          · simp only [h7, h8]; exact pt_Rel_none
                          · simp only [h7, h8]
                            rcases pt_Rel_cases (hE _ _ hr5) with ⟨h9, h10⟩ | ⟨b, s6, r6, b', s6', r6', h9, h10, hskb, hr6⟩
                            · simp only [h9, h10]; exact pt_Rel_none
                            · simp only [h9, h10]
                              exact pt_Rel_some (by simp only [Source.skel, hsk, hskb]) hr6
                      · simp only [hc4, ↓reduceIte]; exact pt_Rel_none
    · intro lb lb' ts ts' h
      simp only [pSrcInorder]
      rcases pt_RelL_cases (ihSs _ _ h) with ⟨h1, h2⟩ | ⟨ss, r1, ss', r1', h1, h2, hsk, hr1⟩
      · simp only [h1, h2]; exact pt_Rel_none
      · simp only [h1, h2]
        rcases pt_expect_sim .rbrace hr1 with ⟨h3, h4⟩ | ⟨rb, r2, rb', r2', h3, h4, hr2⟩
        · simp only [h3, h4]; exact pt_Rel_none
        · simp only [h3, h4]
          exact pt_Rel_some (by simp only [Source.skel, hsk]) hr2
    · intro ts ts' h
      rcases pt_Sim_cases h with ⟨rfl, rfl⟩ | ⟨t, r, t', r', rfl, rfl, hk, ht, hr⟩
      · simp only [pSources]; exact pt_RelL_some rfl pt_Sim_nil
      · simp only [pSources, hk]
        by_cases hc : isSourceStart t.kind = true
        · simp only [hc, ↓reduceIte]
          rcases pt_Rel_cases (ihS _ _ h) with ⟨h1, h2⟩ | ⟨s, st, r1, s', st', r1', h1, h2, hsk, hr1⟩
          · simp only [h1, h2]; exact pt_RelL_none
          · simp only [h1, h2]
            rcases pt_RelL_cases (ihSs _ _ hr1) with ⟨h3, h4⟩ | ⟨ss, r2, ss', r2', h3, h4, hsk2, hr2⟩
            · simp only [h3, h4]; exact pt_RelL_none
            · simp only [h3, h4]
              exact pt_RelL_some (by simp only [sourcesSkel, hsk, hsk2]) hr2
        · simp only [hc]
          exact pt_RelL_some rfl h
    · intro ts ts' h
      rcases pt_Sim_cases h with ⟨rfl, rfl⟩ | ⟨a, r, a', r', rfl, rfl, hk, ht, hr⟩
      · simp only [pSrcItems]; exact pt_RelL_none
      · simp only [pSrcItems]
        rcases pt_allotOfTok_sim hk ht with ⟨h1, h2⟩ | ⟨av, av', h1, h2, hav⟩
        · simp only [h1, h2]; exact pt_RelL_none
        · simp only [h1, h2]
          rcases pt_expect_sim .kwFrom hr with ⟨h3, h4⟩ | ⟨x, r1, x', r1', h3, h4, hr1⟩
          · simp only [h3, h4]; exact pt_RelL_none
          · simp only [h3, h4]
            rcases pt_Rel_cases (ihS _ _ hr1) with ⟨h5, h6⟩ | ⟨src, st, r2, src', st', r2', h5, h6, hsk, hr2⟩
            · simp only [h5, h6]; exact pt_RelL_none
            · simp only [h5, h6]
              rcases pt_Sim_cases hr2 with ⟨rfl, rfl⟩ | ⟨nx, rn, nx', rn', rfl, rfl, hkn, htn, hrn⟩
              · simp only []
                exact pt_RelL_some (by simp only [srcItemsSkel, hav, hsk]) pt_Sim_nil
              · simp only [hkn]
                by_cases hc : isAllotHead nx.kind = true
                · simp only [hc, ↓reduceIte]
                  rcases pt_RelL_cases (ihIt _ _ hr2) with ⟨h7, h8⟩ | ⟨is, r3, is', r3', h7, h8, hsk3, hr3⟩
                  · simp only [h7, h8]; exact pt_RelL_none
                  · simp only [h7, h8]
                    exact pt_RelL_some (by simp only [srcItemsSkel, hav, hsk, hsk3]) hr3
                · simp only [hc]
                  exact pt_RelL_some (by simp only [srcItemsSkel, hav, hsk]) hr2

theorem pt_dest_sim : ∀ f : Nat,
    (∀ ts ts', pt_Sim ts ts' → pt_Rel Dest.skel (pDest f ts) (pDest f ts')) ∧
    (∀ ts ts', pt_Sim ts ts' → pt_Rel KoD.skel (pKoD f ts) (pKoD f ts')) ∧
    (∀ ts ts', pt_Sim ts ts' → pt_RelL clausesSkel (pClauses f ts) (pClauses f ts')) ∧
    (∀ ts ts', pt_Sim ts ts' → pt_RelL dstItemsSkel (pDstItems f ts) (pDstItems f ts')) := by
  intro f
  induction f with
  | zero =>
    refine ⟨?_, ?_, ?_, ?_⟩
    · intro ts ts' h; simp only [pDest]; exact pt_Rel_none
    · intro ts ts' h; simp only [pKoD]; exact pt_Rel_none
    · intro ts ts' h; simp only [pClauses]; exact pt_RelL_none
    · intro ts ts' h; simp only [pDstItems]; exact pt_RelL_none
  | succ f ih =>
    obtain ⟨ihD, ihK, ihC, ihIt⟩ := ih
    have hE := (pt_expr_sim f).1
    refine ⟨?_, ?_, ?_, ?_⟩
    · intro ts ts' h
      rcases pt_Sim_cases h with ⟨rfl, rfl⟩ | ⟨t, r, t', r', rfl, rfl, hk, ht, hr⟩
      · simp only [pDest]; exact pt_Rel_none
      · simp only [pDest, hk]
        by_cases hc1 : t.kind = .lbrace
        · simp only [hc1, ↓reduceIte]
          rcases pt_Sim_cases hr with ⟨rfl, rfl⟩ | ⟨a, ra, a', ra', rfl, rfl, hka, hta, hra⟩
          · simp only []; exact pt_Rel_none
          · simp only [hka]
            by_cases hc2 : a.kind = .kwMax
            · simp only [hc2, ↓reduceIte]
              rcases pt_RelL_cases (ihC _ _ hr) with ⟨h1, h2⟩ | ⟨cs, r1, cs', r1', h1, h2, hsk, hr1⟩
              · simp only [h1, h2]; exact pt_Rel_none
              · simp only [h1, h2]
                rcases pt_expect_sim .kwRemaining hr1 with ⟨h3, h4⟩ | ⟨x, r2, x', r2', h3, h4, hr2⟩
                · simp only [h3, h4]; exact pt_Rel_none
                · simp only [h3, h4]
                  rcases pt_Rel_cases (ihK _ _ hr2) with ⟨h5, h6⟩ | ⟨k, s3, r3, k', s3', r3', h5, h6, hsk3, hr3⟩
                  · simp only [h5, h6]; exact pt_Rel_none
                  · simp only [h5, h6]
                    rcases pt_expect_sim .rbrace hr3 with ⟨h7, h8⟩ | ⟨rb, r4, rb', r4', h7, h8, hr4⟩
                    · simp only [h7, h8]; exact pt_Rel_none
                    · simp only [h7, h8]
                      exact pt_Rel_some (by simp only [Dest.skel, hsk, hsk3]) hr4
            · simp only [hc2, ↓reduceIte]
              by_cases hc3 : isAllotHead a.kind = true
              · simp only [hc3, ↓reduceIte]
                rcases pt_RelL_cases (ihIt _ _ hr) with ⟨h1, h2⟩ | ⟨is, r1, is', r1', h1, h2, hsk, hr1⟩
                · simp only [h1, h2]; exact pt_Rel_none
                · simp only [h1, h2]
                  rcases pt_expect_sim .rbrace hr1 with ⟨h3, h4⟩ | ⟨rb, r2, rb', r2', h3, h4, hr2⟩
                  · simp only [h3, h4]; exact pt_Rel_none
                  · simp only [h3, h4]
                    exact pt_Rel_some (by simp only [Dest.skel, hsk]) hr2
              · simp only [hc3]; exact pt_Rel_none
        · simp only [hc1, ↓reduceIte]
          rcases pt_Rel_cases (hE _ _ h) with ⟨h1, h2⟩ | ⟨e, s, r1, e', s', r1', h1, h2, hsk, hr1⟩
          · simp only [h1, h2]; exact pt_Rel_none
          · simp only [h1, h2]
            exact pt_Rel_some (by simp only [Dest.skel, hsk]) hr1
    · intro ts ts' h
      rcases pt_Sim_cases h with ⟨rfl, rfl⟩ | ⟨t, r, t', r', rfl, rfl, hk, ht, hr⟩
      · simp only [pKoD]; exact pt_Rel_none
      · simp only [pKoD, hk]
        by_cases hc1 : t.kind = .kwKept
        · simp only [hc1, ↓reduceIte]
          exact pt_Rel_some (by simp only [KoD.skel]) hr
        · simp only [hc1, ↓reduceIte]
          by_cases hc2 : t.kind = .kwTo
          · simp only [hc2, ↓reduceIte]
            rcases pt_Rel_cases (ihD _ _ hr) with ⟨h1, h2⟩ | ⟨d, s, r1, d', s', r1', h1, h2, hsk, hr1⟩
            · simp only [h1, h2]; exact pt_Rel_none
            · simp only [h1, h2]
              exact pt_Rel_some (by simp only [KoD.skel, hsk]) hr1
          · simp only [hc2, ↓reduceIte]; exact pt_Rel_none
    · intro ts ts' h
      rcases pt_Sim_cases h with ⟨rfl, rfl⟩ | ⟨t, r, t', r', rfl, rfl, hk, ht, hr⟩
      · simp only [pClauses]; exact pt_RelL_some rfl pt_Sim_nil
      · simp only [pClauses, hk]
        by_cases hc : t.kind = .kwMax
        · simp only [hc, ↓reduceIte]
          rcases pt_Rel_cases (hE _ _ hr) with ⟨h1, h2⟩ | ⟨cap, s, r1, cap', s', r1', h1, h2, hsk, hr1⟩
          · simp only [h1, h2]; exact pt_RelL_none
          · simp only [h1, h2]
            rcases pt_Rel_cases (ihK _ _ hr1) with ⟨h3, h4⟩ | ⟨k, s2, r2, k', s2', r2', h3, h4, hsk2, hr2⟩
            · simp only [h3, h4]; exact pt_RelL_none
            · simp only [h3, h4]
              rcases pt_RelL_cases (ihC _ _ hr2) with ⟨h5, h6⟩ | ⟨cs, r3, cs', r3', h5, h6, hsk3, hr3⟩
              · simp only [h5, h6]; exact pt_RelL_none
              · simp only [h5, h6]
                exact pt_RelL_some (by simp only [clausesSkel, hsk, hsk2, hsk3]) hr3
        · simp only [hc, ↓reduceIte]
          exact pt_RelL_some rfl h
    · intro ts ts' h
      rcases pt_Sim_cases h with ⟨rfl, rfl⟩ | ⟨a, r, a', r', rfl, rfl, hk, ht, hr⟩
      · simp only [pDstItems]; exact pt_RelL_none
      · simp only [pDstItems]
        rcases pt_allotOfTok_sim hk ht with ⟨h1, h2⟩ | ⟨av, av', h1, h2, hav⟩
        · simp only [h1, h2]; exact pt_RelL_none
        · simp only [h1, h2]
          rcases pt_Rel_cases (ihK _ _ hr) with ⟨h5, h6⟩ | ⟨k, st, r2, k', st', r2', h5, h6, hsk, hr2⟩
          · simp only [h5, h6]; exact pt_RelL_none
          · simp only [h5, h6]
            rcases pt_Sim_cases hr2 with ⟨rfl, rfl⟩ | ⟨nx, rn, nx', rn', rfl, rfl, hkn, htn, hrn⟩
            · simp only []
              exact pt_RelL_some (by simp only [dstItemsSkel, hav, hsk]) pt_Sim_nil
            · simp only [hkn]
              by_cases hc : isAllotHead nx.kind = true
              · simp only [hc, ↓reduceIte]
                rcases pt_RelL_cases (ihIt _ _ hr2) with ⟨h7, h8⟩ | ⟨is, r3, is', r3', h7, h8, hsk3, hr3⟩
                · simp only [h7, h8]; exact pt_RelL_none
                · simp only [h7, h8]
                  exact pt_RelL_some (by simp only [dstItemsSkel, hav, hsk, hsk3]) hr3
              · simp only [hc]
                exact pt_RelL_some (by simp only [dstItemsSkel, hav, hsk]) hr2

theorem pt_argsTail_sim : ∀ (f : Nat) (ts ts' : List Tok), pt_Sim ts ts' →
    pt_RelL (List.map Expr.skel) (pArgsTail f ts) (pArgsTail f ts') := by
  intro f
  induction f with
  | zero => intro ts ts' h; simp only [pArgsTail]; exact pt_RelL_none
  | succ f ih =>
    intro ts ts' h
    simp only [pArgsTail]
    rcases pt_expect_sim .comma h with ⟨h1, h2⟩ | ⟨c, r, c', r', h1, h2, hr⟩
    · simp only [h1, h2]; exact pt_RelL_some rfl h
    · simp only [h1, h2]
      rcases pt_Rel_cases ((pt_expr_sim f).1 _ _ hr) with ⟨h3, h4⟩ | ⟨e, s, r1, e', s', r1', h3, h4, hsk, hr1⟩
      · simp only [h3, h4]; exact pt_RelL_none
      · simp only [h3, h4]
        rcases pt_RelL_cases (ih _ _ hr1) with ⟨h5, h6⟩ | ⟨es, r2, es', r2', h5, h6, hsk2, hr2⟩
        · simp only [h5, h6]; exact pt_RelL_none
        · simp only [h5, h6]
          exact pt_RelL_some (by simp only [List.map_cons, hsk, hsk2]) hr2

theorem pt_fnCall_sim (f : Nat) {ts ts' : List Tok} (h : pt_Sim ts ts') :
    pt_Rel FnCall.skel (pFnCall f ts) (pFnCall f ts') := by
  rcases pt_Sim_cases h with ⟨rfl, rfl⟩ | ⟨nm, r, nm', r', rfl, rfl, hk, ht, hr⟩
  · simp only [pFnCall]; exact pt_Rel_none
  · rcases pt_Sim_cases hr with ⟨rfl, rfl⟩ | ⟨lp, rl, lp', rl', rfl, rfl, hkl, htl, hrl⟩
    · simp only [pFnCall]; exact pt_Rel_none
    · simp only [pFnCall, hk, hkl]
      by_cases hc : (nm.kind = .ident ∨ nm.kind = .kwOverdraft) ∧ lp.kind = .lparen
      · simp only [hc]
        rcases pt_expect_sim .rparen hrl with ⟨h1, h2⟩ | ⟨rp, r1, rp', r1', h1, h2, hr1⟩
        · simp only [h1, h2]
          rcases pt_Rel_cases ((pt_expr_sim f).1 _ _ hrl) with ⟨h3, h4⟩ | ⟨e, s, r2, e', s', r2', h3, h4, hsk, hr2⟩
          · simp only [h3, h4]; exact pt_Rel_none
          · simp only [h3, h4]
            rcases pt_RelL_cases (pt_argsTail_sim f _ _ hr2) with ⟨h5, h6⟩ | ⟨es, r3, es', r3', h5, h6, hsk3, hr3⟩
            · simp only [h5, h6]; exact pt_Rel_none
            · simp only [h5, h6]
              rcases pt_expect_sim .rparen hr3 with ⟨h7, h8⟩ | ⟨rp, r4, rp', r4', h7, h8, hr4⟩
              · simp only [h7, h8]; exact pt_Rel_none
              · simp only [h7, h8]
                exact pt_Rel_some (by simp only [FnCall.skel, ht, List.map_cons, hsk, hsk3]) hr4
        · simp only [h1, h2]
          exact pt_Rel_some (by simp only [FnCall.skel, ht]) hr1
      · simp only [hc, ↓reduceIte]; exact pt_Rel_none

theorem pt_sentValue_sim (f : Nat) {ts ts' : List Tok} (h : pt_Sim ts ts') :
    pt_Rel SentValue.skel (pSentValue f ts) (pSentValue f ts') := by
  have hE := (pt_expr_sim f).1
  rcases pt_Sim_cases h with ⟨rfl, rfl⟩ | ⟨t, r, t', r', rfl, rfl, hk, ht, hr⟩
  · simp only [pSentValue]; exact pt_Rel_none
  · have hlit : pt_Rel SentValue.skel
        (match pExpr f (t :: r) with
          | some (e, stop, r1) => some (SentValue.lit (rangeOf t stop) e, stop, r1)
          | none => none)
        (match pExpr f (t' :: r') with
          | some (e, stop, r1) => some (SentValue.lit (rangeOf t' stop) e, stop, r1)
          | none => none) := by
      rcases pt_Rel_cases (hE _ _ h) with ⟨h1, h2⟩ | ⟨e, s, r1, e', s', r1', h1, h2, hsk, hr1⟩
      · simp only [h1, h2]; exact pt_Rel_none
      · simp only [h1, h2]
        exact pt_Rel_some (by simp only [SentValue.skel, hsk]) hr1
    simp only [pSentValue, hk]
    by_cases hc : t.kind = .lbracket
    · simp only [hc, ↓reduceIte]
      rcases pt_Rel_cases (hE _ _ hr) with ⟨h1, h2⟩ | ⟨a, s, r1, a', s', r1', h1, h2, hsk, hr1⟩
      · simp only [h1, h2]; exact pt_Rel_none
      · simp only [h1, h2]
        rcases pt_expect_sim .star hr1 with ⟨h3, h4⟩ | ⟨x, r2, x', r2', h3, h4, hr2⟩
        · simp only [h3, h4]; exact hlit
        · simp only [h3, h4]
          rcases pt_expect_sim .rbracket hr2 with ⟨h5, h6⟩ | ⟨rb, r3, rb', r3', h5, h6, hr3⟩
          · simp only [h5, h6]; exact pt_Rel_none
          · simp only [h5, h6]
            exact pt_Rel_some (by simp only [SentValue.skel, hsk]) hr3
    · simp only [hc, ↓reduceIte]; exact hlit

theorem pt_statement_sim (f : Nat) {ts ts' : List Tok} (h : pt_Sim ts ts') :
    pt_Rel Statement.skel (pStatement f ts) (pStatement f ts') := by
  rcases pt_Sim_cases h with ⟨rfl, rfl⟩ | ⟨t, r, t', r', rfl, rfl, hk, ht, hr⟩
  · simp only [pStatement]; exact pt_Rel_none
  · simp only [pStatement, hk]
    by_cases hc1 : t.kind = .kwSend
    · simp only [hc1, ↓reduceIte, bind]
      rcases pt_Rel_cases (pt_sentValue_sim f hr) with ⟨h1, h2⟩ | ⟨sv, s1, r1, sv', s1', r1', h1, h2, hsv, hr1⟩
      · simp only [h1, h2, Option.bind_none]; exact pt_Rel_none
      · simp only [h1, h2, Option.bind_some]
        rcases pt_expect_sim .lparen hr1 with ⟨h3, h4⟩ | ⟨x2, r2, x2', r2', h3, h4, hr2⟩
        · simp only [h3, h4, Option.bind_none]; exact pt_Rel_none
        · simp only [h3, h4, Option.bind_some]
          rcases pt_expect_sim .kwSource hr2 with ⟨h5, h6⟩ | ⟨x3, r3, x3', r3', h5, h6, hr3⟩
          · simp only [h5, h6, Option.bind_none]; exact pt_Rel_none
          · simp only [h5, h6, Option.bind_some]
            rcases pt_expect_sim .eq hr3 with ⟨h7, h8⟩ | ⟨x4, r4, x4', r4', h7, h8, hr4⟩
            · simp only [h7, h8, Option.bind_none]; exact pt_Rel_none
            · simp only [h7, h8, Option.bind_some]
              rcases pt_Rel_cases ((pt_source_sim f).1 _ _ hr4) with
                ⟨h9, h10⟩ | ⟨src, s5, r5, src', s5', r5', h9, h10, hsrc, hr5⟩
              · simp only [h9, h10, Option.bind_none]; exact pt_Rel_none
              · simp only [h9, h10, Option.bind_some]
                rcases pt_expect_sim .kwDestination hr5 with ⟨h11, h12⟩ | ⟨x6, r6, x6', r6', h11, h12, hr6⟩
                · simp only [h11, h12, Option.bind_none]; exact pt_Rel_none
                · simp only [h11, h12, Option.bind_some]
                  rcases pt_expect_sim .eq hr6 with ⟨h13, h14⟩ | ⟨x7, r7, x7', r7', h13, h14, hr7⟩
                  · simp only [h13, h14, Option.bind_none]; exact pt_Rel_none
                  · simp only [h13, h14, Option.bind_some]
                    rcases pt_Rel_cases ((pt_dest_sim f).1 _ _ hr7) with
                      ⟨h15, h16⟩ | ⟨dst, s8, r8, dst', s8', r8', h15, h16, hdst, hr8⟩
                    · simp only [h15, h16, Option.bind_none]; exact pt_Rel_none
                    · simp only [h15, h16, Option.bind_some]
                      rcases pt_expect_sim .rparen hr8 with ⟨h17, h18⟩ | ⟨rp, r9, rp', r9', h17, h18, hr9⟩
                      · simp only [h17, h18, Option.bind_none]; exact pt_Rel_none
                      · simp only [h17, h18, Option.bind_some]
                        exact pt_Rel_some (by simp only [Statement.skel, hsv, hsrc, hdst]) hr9
    · simp only [hc1, ↓reduceIte]
      by_cases hc2 : t.kind = .kwSave
      · simp only [hc2, ↓reduceIte]
        rcases pt_Rel_cases (pt_sentValue_sim f hr) with ⟨h1, h2⟩ | ⟨sv, s1, r1, sv', s1', r1', h1, h2, hsv, hr1⟩
        · simp only [h1, h2]; exact pt_Rel_none
        · simp only [h1, h2]
          rcases pt_expect_sim .kwFrom hr1 with ⟨h3, h4⟩ | ⟨x2, r2, x2', r2', h3, h4, hr2⟩
          · simp only [h3, h4]; exact pt_Rel_none
          · simp only [h3, h4]
            rcases pt_Rel_cases ((pt_expr_sim f).1 _ _ hr2) with ⟨h5, h6⟩ | ⟨e, s3, r3, e', s3', r3', h5, h6, he, hr3⟩
            · simp only [h5, h6]; exact pt_Rel_none
            · simp only [h5, h6]
              exact pt_Rel_some (by simp only [Statement.skel, hsv, he]) hr3
      · simp only [hc2, ↓reduceIte]
        rcases pt_Rel_cases (pt_fnCall_sim f h) with ⟨h1, h2⟩ | ⟨c, s1, r1, c', s1', r1', h1, h2, hc, hr1⟩
        · simp only [h1, h2]; exact pt_Rel_none
        · simp only [h1, h2]
          exact pt_Rel_some (by simp only [Statement.skel, hc]) hr1

theorem pt_statements_sim (f : Nat) : ∀ (n : Nat) (ts ts' : List Tok), pt_Sim ts ts' →
    (pStatements f n ts).map (List.map Statement.skel) =
      (pStatements f n ts').map (List.map Statement.skel) := by
  intro n
  induction n with
  | zero => intro ts ts' h; simp only [pStatements]
  | succ n ih =>
    intro ts ts' h
    rcases pt_Sim_cases h with ⟨rfl, rfl⟩ | ⟨t, r, t', r', rfl, rfl, hk, ht, hr⟩
    · simp only [pStatements]
    · simp only [pStatements]
      rcases pt_Rel_cases (pt_statement_sim f h) with ⟨h1, h2⟩ | ⟨s, s1, r1, s', s1', r1', h1, h2, hs, hr1⟩
      · simp only [h1, h2]
      · simp only [h1, h2]
        have := ih _ _ hr1
        cases h3 : pStatements f n r1 with
        | none =>
          cases h4 : pStatements f n r1' with
          | none => rfl
          | some ss' => simp [h3, h4] at this
        | some ss =>
          cases h4 : pStatements f n r1' with
          | none => simp [h3, h4] at this
          | some ss' =>
            simp only [h3, h4, Option.map_some, Option.some.injEq] at this
            simp only [Option.map_some, List.map_cons, hs, this]

theorem pt_varDecl_sim (f : Nat) {ts ts' : List Tok} (h : pt_Sim ts ts') :
    pt_Rel VarDecl.skel (pVarDecl f ts) (pVarDecl f ts') := by
  rcases pt_Sim_cases h with ⟨rfl, rfl⟩ | ⟨ty, r, ty', r', rfl, rfl, hk, ht, hr⟩
  · simp only [pVarDecl]; exact pt_Rel_none
  · rcases pt_Sim_cases hr with ⟨rfl, rfl⟩ | ⟨nm, rn, nm', rn', rfl, rfl, hkn, htn, hrn⟩
    · simp only [pVarDecl]; exact pt_Rel_none
    · simp only [pVarDecl, hk, hkn]
      by_cases hc : ty.kind = .ident ∧ nm.kind = .varName
      · simp only [hc]
        rcases pt_expect_sim .eq hrn with ⟨h1, h2⟩ | ⟨x, r1, x', r1', h1, h2, hr1⟩
        · simp only [h1, h2]
          exact pt_Rel_some (by simp only [VarDecl.skel, Option.map_some, Option.map_none, ht, htn]) hrn
        · simp only [h1, h2]
          rcases pt_Rel_cases (pt_fnCall_sim f hr1) with ⟨h3, h4⟩ | ⟨c, s, r2, c', s', r2', h3, h4, hsk, hr2⟩
          · simp only [h3, h4]; exact pt_Rel_none
          · simp only [h3, h4]
            exact pt_Rel_some (by simp only [VarDecl.skel, Option.map_some, ht, htn, hsk]) hr2
      · simp only [hc, ↓reduceIte]; exact pt_Rel_none

theorem pt_varDecls_sim (f : Nat) : ∀ (n : Nat) (ts ts' : List Tok), pt_Sim ts ts' →
    pt_RelL (List.map VarDecl.skel) (pVarDecls f n ts) (pVarDecls f n ts') := by
  intro n
  induction n with
  | zero => intro ts ts' h; simp only [pVarDecls]; exact pt_RelL_none
  | succ n ih =>
    intro ts ts' h
    rcases pt_Sim_cases h with ⟨rfl, rfl⟩ | ⟨t, r, t', r', rfl, rfl, hk, ht, hr⟩
    · simp only [pVarDecls]; exact pt_RelL_none
    · simp only [pVarDecls, hk]
      by_cases hc : t.kind = .rbrace
      · simp only [hc, ↓reduceIte]; exact pt_RelL_some rfl hr
      · simp only [hc, ↓reduceIte]
        rcases pt_Rel_cases (pt_varDecl_sim f h) with ⟨h1, h2⟩ | ⟨d, s, r1, d', s', r1', h1, h2, hd, hr1⟩
        · simp only [h1, h2]; exact pt_RelL_none
        · simp only [h1, h2]
          rcases pt_RelL_cases (ih _ _ hr1) with ⟨h3, h4⟩ | ⟨ds, r2, ds', r2', h3, h4, hds, hr2⟩
          · simp only [h3, h4]; exact pt_RelL_none
          · simp only [h3, h4]
            exact pt_RelL_some (by simp only [List.map_cons, hd, hds]) hr2

theorem pt_stmtsOnly_sim (f n : Nat) {ts ts' : List Tok} (h : pt_Sim ts ts') :
    ((pStatements f n ts).map (fun ss => (⟨[], ss⟩ : Program))).map Program.skel =
      ((pStatements f n ts').map (fun ss => (⟨[], ss⟩ : Program))).map Program.skel := by
  have := pt_statements_sim f n _ _ h
  cases h3 : pStatements f n ts with
  | none =>
    cases h4 : pStatements f n ts' with
    | none => rfl
    | some ss' => simp [h3, h4] at this
  | some ss =>
    cases h4 : pStatements f n ts' with
    | none => simp [h3, h4] at this
    | some ss' =>
      simp only [h3, h4, Option.map_some, Option.some.injEq] at this
      simp only [Option.map_some, Program.skel, List.map_nil, this]

theorem pt_varsProgram_sim (f n : Nat) {rl rl' : List Tok} (h : pt_Sim rl rl') :
    Option.map Program.skel
      (match pVarDecls f n rl with
        | some (ds, r1) =>
            match pStatements f n r1 with
            | some ss => some (⟨ds, ss⟩ : Program)
            | none => none
        | none => none) =
    Option.map Program.skel
      (match pVarDecls f n rl' with
        | some (ds, r1) =>
            match pStatements f n r1 with
            | some ss => some (⟨ds, ss⟩ : Program)
            | none => none
        | none => none) := by
  rcases pt_RelL_cases (pt_varDecls_sim f n _ _ h) with ⟨h1, h2⟩ | ⟨ds, r1, ds', r1', h1, h2, hds, hr1⟩
  · simp only [h1, h2]
  · simp only [h1, h2]
    have := pt_statements_sim f n _ _ hr1
    cases h3 : pStatements f n r1 with
    | none =>
      cases h4 : pStatements f n r1' with
      | none => rfl
      | some ss' => simp [h3, h4] at this
    | some ss =>
      cases h4 : pStatements f n r1' with
      | none => simp [h3, h4] at this
      | some ss' =>
        simp only [h3, h4, Option.map_some, Option.some.injEq] at this
        simp only [Option.map_some, Program.skel, hds, this]

theorem pt_parseTokens_sim {ts ts' : List Tok} (h : pt_Sim ts ts') :
    (parseTokens ts).map Program.skel = (parseTokens ts').map Program.skel := by
  have hlen := pt_Sim_length h
  unfold parseTokens
  simp only [hlen]
  generalize 4 * ts.length + 8 = f
  generalize ts.length + 1 = n
  rcases pt_Sim_cases h with ⟨rfl, rfl⟩ | ⟨v, r, v', r', rfl, rfl, hk, ht, hr⟩
  · simp only []
  · rcases pt_Sim_cases hr with ⟨rfl, rfl⟩ | ⟨lb, rl, lb', rl', rfl, rfl, hkl, htl, hrl⟩
    · simp only []; exact pt_stmtsOnly_sim _ _ h
    · simp only [hk, hkl]
      by_cases hc1 : v.kind = .kwVars
      · simp only [hc1, ↓reduceIte]
        by_cases hc2 : lb.kind = .lbrace
        · simp only [hc2, ↓reduceIte]
          exact pt_varsProgram_sim f n hrl
        · simp only [hc2, ↓reduceIte]
      · simp only [hc1, ↓reduceIte]
        exact pt_stmtsOnly_sim _ _ h

end NS
