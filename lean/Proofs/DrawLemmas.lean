/-
  Proofs/DrawLemmas.lean — helper lemmas for property C04: the interpreter's source
  functions (Model/Source.lean) refine the greedy draw of Spec/Draw.lean.
-/
import Spec.Draw
import Proofs.AllotLemmas

namespace NS

/-- the same function as `availOf` of Properties/C04.lean (which is defined downstream) -/
def avOf (env : Env) (snd : Senders) : Avail :=
  fun a => cacheGet env.cache a env.asset - pulled snd a

/-- map over the `ok` value of an outcome, written as the explicit match of the statements -/
def Outcome.mapOk {α β : Type} (x : Outcome α) (f : α → β) : Outcome β :=
  match x with
  | .ok a => .ok (f a)
  | .err e => .err e
  | .panic s => .panic s

@[simp] theorem Outcome.mapOk_ok {α β} (a : α) (f : α → β) : (Outcome.ok a).mapOk f = .ok (f a) := rfl
@[simp] theorem Outcome.mapOk_err {α β} (e : Err) (f : α → β) :
    (Outcome.err e : Outcome α).mapOk f = .err e := rfl
@[simp] theorem Outcome.mapOk_panic {α β} (s : String) (f : α → β) :
    (Outcome.panic s : Outcome α).mapOk f = .panic s := rfl

/-! ## list algebra of pulls -/

theorem pulled_append_dl (l1 l2 : Senders) (a : String) :
    pulled (l1 ++ l2) a = pulled l1 a + pulled l2 a := by
  induction l1 with
  | nil => simp [pulled]
  | cons h t ih =>
    obtain ⟨n, m⟩ := h
    simp only [List.cons_append, pulled, ih]
    omega

theorem nonzero_cons (n : String) (m : Int) (t : Pulls) :
    nonzero ((n, m) :: t) = if m = 0 then nonzero t else (n, m) :: nonzero t := by
  unfold nonzero
  by_cases hm : m = 0 <;> simp [List.filter, hm]

theorem pulled_nonzero_dl (l : Pulls) (a : String) : pulled (nonzero l) a = pulled l a := by
  induction l with
  | nil => rfl
  | cons h t ih =>
    obtain ⟨n, m⟩ := h
    rw [nonzero_cons]
    by_cases hm : m = 0
    · subst hm
      simp [pulled, ih]
    · simp [hm, pulled, ih]

theorem nonzero_append_dl (l1 l2 : Pulls) : nonzero (l1 ++ l2) = nonzero l1 ++ nonzero l2 := by
  simp [nonzero]

@[simp] theorem nonzero_nil : nonzero [] = [] := rfl

theorem sumPulls_append_dl (l1 l2 : Pulls) : sumPulls (l1 ++ l2) = sumPulls l1 + sumPulls l2 := by
  induction l1 with
  | nil => simp [sumPulls]
  | cons h t ih =>
    obtain ⟨n, m⟩ := h
    simp only [List.cons_append, sumPulls, ih]
    omega

@[simp] theorem sumPulls_nil : sumPulls [] = 0 := rfl
@[simp] theorem sumPulls_single (a : String) (m : Int) : sumPulls [(a, m)] = m := by
  simp [sumPulls]

theorem avOf_append_nonzero (env : Env) (snd : Senders) (l : Pulls) :
    avOf env (snd ++ nonzero l) = availAfter (avOf env snd) l := by
  funext a
  simp only [avOf, availAfter, pulled_append_dl, pulled_nonzero_dl]
  omega

theorem pushSender_eq (snd : Senders) (a : String) (m : Int) :
    pushSender snd a m = snd ++ nonzero [(a, m)] := by
  unfold pushSender nonzero
  by_cases hm : m = 0 <;> simp [hm]

theorem makeAllotment_eq_dl (vars : Vars) (n : Int) (items : List AllotVal) :
    makeAllotment vars n items = (evalAllotItems vars items >>= fun qs => allotOf n qs) := by
  unfold makeAllotment allotOf
  rfl

/-! ## lengths -/

theorem evalAllotItems_length_dl (vars : Vars) : ∀ (items : List AllotVal) (qs : List (Option Rat)),
    evalAllotItems vars items = .ok qs → qs.length = items.length
  | [], qs, h => by simp [evalAllotItems] at h; subst h; rfl
  | .nil :: _, qs, h => by simp [evalAllotItems] at h
  | .remaining _ :: rest, qs, h => by
      simp only [evalAllotItems] at h
      obtain ⟨tl, h1, h2⟩ := Outcome.bind_eq_ok h
      have := evalAllotItems_length_dl vars rest tl h1
      simp at h2; subst h2; simp [this]
  | .portion e :: rest, qs, h => by
      simp only [evalAllotItems] at h
      obtain ⟨q, _, h⟩ := Outcome.bind_eq_ok h
      obtain ⟨tl, h1, h2⟩ := Outcome.bind_eq_ok h
      have := evalAllotItems_length_dl vars rest tl h1
      simp at h2; subst h2; simp [this]

theorem fillRemaining_length_dl (r : Rat) (qs : List (Option Rat)) :
    (fillRemaining r qs).length = qs.length := by
  induction qs with
  | nil => rfl
  | cons q t ih => cases q <;> simp [fillRemaining, ih]

theorem allotOf_length_dl (n : Int) (qs : List (Option Rat)) (parts : List Int)
    (h : allotOf n qs = .ok parts) : parts.length = qs.length := by
  unfold allotOf at h
  simp only at h
  split at h
  · split at h
    · cases h
    · cases h; simp [allotParts, bump_length, fillRemaining_length_dl]
  · split at h
    · cases h
    · cases h; simp [allotParts, bump_length, fillRemaining_length_dl]

theorem resolveSItems_length (vars : Vars) (asset : String) : ∀ (items : List SrcItem) (subs : List RSource),
    resolveSItems vars asset items = .ok subs → subs.length = items.length
  | [], subs, h => by simp [resolveSItems] at h; subst h; rfl
  | (.mk _ _ src) :: rest, subs, h => by
      simp only [resolveSItems] at h
      split at h <;> try cases h
      split at h <;> try cases h
      rename_i rs hrs
      simp [resolveSItems_length vars asset rest rs hrs]
/-! ## an allotment gives exactly what is asked -/

theorem allotParts_sum (n : Int) (ps : List Rat) (hs : ps.sum = 1) : (allotParts n ps).sum = n := by
  obtain ⟨h0, h1⟩ := leftover_bounds n ps hs
  unfold leftover at h0 h1
  unfold allotParts
  simp only
  rw [bump_sum _ _ h0 (by simp; omega)]
  omega

theorem allotOf_sum (n : Int) (qs : List (Option Rat)) (parts : List Int)
    (h : allotOf n qs = .ok parts) : parts.sum = n := by
  unfold allotOf at h
  simp only at h
  split at h
  · rename_i hany
    split at h
    · cases h
    · cases h
      apply allotParts_sum
      rw [fillRemaining_some_sum _ _ hany]; ring
  · rename_i hany
    split at h
    · cases h
    · rename_i ht
      cases h
      apply allotParts_sum
      rw [fillRemaining_none_sum _ _ (Bool.eq_false_iff.mpr hany)]
      simpa using ht
theorem drawAllot_sum (asset : String) : ∀ (subs : List RSource) (parts : List Int) (av : Avail) (l : Pulls),
    subs.length = parts.length → drawAllot asset subs parts av = .ok l → sumPulls l = parts.sum
  | [], [], av, l, _, h => by simp [drawAllot] at h; subst h; rfl
  | [], _ :: _, av, l, hl, h => by simp at hl
  | _ :: _, [], av, l, hl, h => by simp at hl
  | s :: ss, p :: ps, av, l, hl, h => by
      simp only [drawAllot] at h
      split at h <;> try cases h
      rename_i l1 h1
      split at h
      · rename_i hp
        split at h <;> try cases h
        rename_i l2 h2
        have := drawAllot_sum asset ss ps _ l2 (by simpa using hl) h2
        simp [sumPulls_append_dl, this, hp]
      · cases h

/-! ## R1: `trySendingUpTo` refines `draw` -/

theorem trySendingToAccount_ok (env : Env) (addr : Expr) (amount : Int) (od : Option Int) (snd : Senders)
    (a : String) (h : evalAs env.vars addr expectAccount = .ok a) :
    trySendingToAccount env addr amount od snd =
      .ok ((match (if a = WORLD then none else od) with
            | none => amount
            | some o => min (max 0 (avOf env snd a + o)) amount),
           snd ++ nonzero [(a, (match (if a = WORLD then none else od) with
            | none => amount
            | some o => min (max 0 (avOf env snd a + o)) amount))]) := by
  unfold trySendingToAccount
  simp only [h, pushSender_eq, availableFunds, avOf]
  rfl

mutual
theorem send_refines (env : Env) : ∀ (src : Source) (r : RSource) (need : Int) (snd : Senders),
    resolveS env.vars env.asset src = .ok r →
    trySendingUpTo env src need snd =
      (draw env.asset r (avOf env snd) need).mapOk (fun l => (sumPulls l, snd ++ nonzero l))
  | .nil, r, need, snd, hr => by simp [resolveS] at hr
  | .account e, r, need, snd, hr => by
      simp only [resolveS] at hr
      split at hr <;> try cases hr
      rename_i a ha
      rw [trySendingUpTo, trySendingToAccount_ok env e need (some 0) snd a ha]
      by_cases hw : a = WORLD <;> simp [hw, draw]
  | .overdraft _ addr none, r, need, snd, hr => by
      simp only [resolveS] at hr
      split at hr <;> try cases hr
      rename_i a ha
      rw [trySendingUpTo, trySendingToAccount_ok env addr need none snd a ha]
      simp [draw]
  | .overdraft _ addr (some b), r, need, snd, hr => by
      simp only [resolveS] at hr
      split at hr <;> try cases hr
      rename_i od hod
      split at hr <;> try cases hr
      rename_i a ha
      rw [trySendingUpTo]
      simp only [hod]
      rw [trySendingToAccount_ok env addr need (some od) snd a ha]
      by_cases hw : a = WORLD <;> simp [hw, draw]
  | .inorder _ srcs, r, need, snd, hr => by
      simp only [resolveS] at hr
      split at hr <;> try cases hr
      rename_i rs hrs
      rw [trySendingUpTo, sendInorder_refines env srcs rs need snd hrs]
      simp only [draw]
      cases drawList env.asset rs (avOf env snd) need <;> simp
  | .capped _ cap src, r, need, snd, hr => by
      simp only [resolveS] at hr
      split at hr <;> try cases hr
      rename_i c hc
      split at hr <;> try cases hr
      rename_i r' hr'
      rw [trySendingUpTo]
      simp only [hc]
      rw [send_refines env src r' _ snd hr']
      simp only [draw]
  | .allotment _ items, r, need, snd, hr => by
      simp only [resolveS] at hr
      split at hr <;> try cases hr
      rename_i qs hqs
      split at hr <;> try cases hr
      rename_i subs hsubs
      rw [trySendingUpTo, makeAllotment_eq_dl, hqs]
      simp only [Outcome.ok_bind, draw]
      cases hp : allotOf need qs with
      | panic s => simp
      | err e => simp
      | ok parts =>
        simp only
        have hpl : parts.length = items.length := by
          rw [allotOf_length_dl _ _ _ hp, evalAllotItems_length_dl _ _ _ hqs]; simp
        rw [sendAllotItems_refines env items subs parts snd hsubs (by omega)]
        cases hd : drawAllot env.asset subs parts (avOf env snd) with
        | panic s => simp
        | err e => simp
        | ok l =>
          have := drawAllot_sum env.asset subs parts _ l
            (by rw [resolveSItems_length _ _ _ _ hsubs, hpl]) hd
          simp [this, allotOf_sum _ _ _ hp]

theorem sendInorder_refines (env : Env) : ∀ (srcs : List Source) (rs : List RSource) (left : Int) (snd : Senders),
    resolveSList env.vars env.asset srcs = .ok rs →
    sendInorder env srcs left snd =
      (drawList env.asset rs (avOf env snd) left).mapOk (fun l => (left - sumPulls l, snd ++ nonzero l))
  | [], rs, left, snd, hr => by
      simp only [resolveSList] at hr
      cases hr
      simp [sendInorder, drawList]
  | s :: ss, rs, left, snd, hr => by
      simp only [resolveSList] at hr
      split at hr <;> try cases hr
      rename_i r hr1
      split at hr <;> try cases hr
      rename_i rs' hrs'
      rw [sendInorder, send_refines env s r left snd hr1]
      simp only [drawList]
      cases draw env.asset r (avOf env snd) left with
      | panic s => simp
      | err e => simp
      | ok l1 =>
        simp only [Outcome.mapOk_ok]
        rw [sendInorder_refines env ss rs' _ _ hrs', avOf_append_nonzero]
        cases drawList env.asset rs' (availAfter (avOf env snd) l1) (left - sumPulls l1) with
        | panic s => simp
        | err e => simp
        | ok l2 =>
          simp [sumPulls_append_dl, nonzero_append_dl]
          all_goals omega

theorem sendAllotItems_refines (env : Env) : ∀ (items : List SrcItem) (subs : List RSource) (parts : List Int) (snd : Senders),
    resolveSItems env.vars env.asset items = .ok subs → items.length ≤ parts.length →
    sendAllotItems env items parts snd =
      (drawAllot env.asset subs parts (avOf env snd)).mapOk (fun l => snd ++ nonzero l)
  | [], subs, parts, snd, hr, hl => by
      simp only [resolveSItems] at hr
      cases hr
      simp [sendAllotItems, drawAllot]
  | (.mk _ _ src) :: rest, subs, [], snd, hr, hl => by simp at hl
  | (.mk _ _ src) :: rest, subs, p :: ps, snd, hr, hl => by
      simp only [resolveSItems] at hr
      split at hr <;> try cases hr
      rename_i r hr1
      split at hr <;> try cases hr
      rename_i rs' hrs'
      rw [sendAllotItems, send_refines env src r p snd hr1]
      simp only [drawAllot]
      cases draw env.asset r (avOf env snd) p with
      | panic s => simp
      | err e => simp
      | ok l1 =>
        simp only [Outcome.mapOk_ok]
        by_cases hp : sumPulls l1 = p
        · simp only [hp, if_true]
          rw [sendAllotItems_refines env rest rs' ps _ hrs' (by simpa using hl), avOf_append_nonzero]
          cases drawAllot env.asset rs' ps (availAfter (avOf env snd) l1) <;> simp [nonzero_append_dl]
        · simp [hp]
end

/-! ## R2: `sendAll` refines `drawAll` -/

theorem sendAllToAccount_ok (env : Env) (addr : Expr) (od : Option Int) (snd : Senders)
    (a : String) (h : evalAs env.vars addr expectAccount = .ok a) :
    sendAllToAccount env addr od snd =
      (match od with
       | none => .err (.invalidUnboundedInSendAll a)
       | some o =>
          if a = WORLD then .err (.invalidUnboundedInSendAll a)
          else .ok (max 0 (avOf env snd a + o), snd ++ nonzero [(a, max 0 (avOf env snd a + o))])) := by
  unfold sendAllToAccount
  simp only [h, pushSender_eq, availableFunds, avOf]
  rfl

mutual
theorem sendAll_refines (env : Env) : ∀ (src : Source) (r : RSource) (snd : Senders),
    resolveS env.vars env.asset src = .ok r →
    sendAll env src snd =
      (drawAll env.asset r (avOf env snd)).mapOk (fun l => (sumPulls l, snd ++ nonzero l))
  | .nil, r, snd, hr => by simp [resolveS] at hr
  | .account e, r, snd, hr => by
      simp only [resolveS] at hr
      split at hr <;> try cases hr
      rename_i a ha
      rw [sendAll, sendAllToAccount_ok env e (some 0) snd a ha]
      by_cases hw : a = WORLD <;> simp [hw, drawAll]
  | .overdraft _ addr none, r, snd, hr => by
      simp only [resolveS] at hr
      split at hr <;> try cases hr
      rename_i a ha
      rw [sendAll, sendAllToAccount_ok env addr none snd a ha]
      simp [drawAll]
  | .overdraft _ addr (some b), r, snd, hr => by
      simp only [resolveS] at hr
      split at hr <;> try cases hr
      rename_i od hod
      split at hr <;> try cases hr
      rename_i a ha
      rw [sendAll]
      simp only [hod]
      rw [sendAllToAccount_ok env addr (some od) snd a ha]
      by_cases hw : a = WORLD <;> simp [hw, drawAll]
  | .inorder _ srcs, r, snd, hr => by
      simp only [resolveS] at hr
      split at hr <;> try cases hr
      rename_i rs hrs
      rw [sendAll, sendAllList_refines env srcs rs 0 snd hrs]
      simp only [drawAll]
      cases drawAllList env.asset rs (avOf env snd) <;> simp
  | .capped _ cap src, r, snd, hr => by
      simp only [resolveS] at hr
      split at hr <;> try cases hr
      rename_i c hc
      split at hr <;> try cases hr
      rename_i r' hr'
      rw [sendAll]
      simp only [hc]
      rw [send_refines env src r' _ snd hr']
      simp only [drawAll]
  | .allotment _ items, r, snd, hr => by
      simp only [resolveS] at hr
      split at hr <;> try cases hr
      split at hr <;> try cases hr
      simp [sendAll, drawAll]

theorem sendAllList_refines (env : Env) : ∀ (srcs : List Source) (rs : List RSource) (total : Int) (snd : Senders),
    resolveSList env.vars env.asset srcs = .ok rs →
    sendAllList env srcs total snd =
      (drawAllList env.asset rs (avOf env snd)).mapOk (fun l => (total + sumPulls l, snd ++ nonzero l))
  | [], rs, total, snd, hr => by
      simp only [resolveSList] at hr
      cases hr
      simp [sendAllList, drawAllList]
  | s :: ss, rs, total, snd, hr => by
      simp only [resolveSList] at hr
      split at hr <;> try cases hr
      rename_i r hr1
      split at hr <;> try cases hr
      rename_i rs' hrs'
      rw [sendAllList, sendAll_refines env s r snd hr1]
      simp only [drawAllList]
      cases drawAll env.asset r (avOf env snd) with
      | panic s => simp
      | err e => simp
      | ok l1 =>
        simp only [Outcome.mapOk_ok]
        rw [sendAllList_refines env ss rs' _ _ hrs', avOf_append_nonzero]
        cases drawAllList env.asset rs' (availAfter (avOf env snd) l1) with
        | panic s => simp
        | err e => simp
        | ok l2 =>
          simp [sumPulls_append_dl, nonzero_append_dl]
          all_goals omega
end

/-! ## a successful send has resolved the whole source expression -/

theorem trySendingToAccount_ok_eval (env : Env) (addr : Expr) (amount : Int) (od : Option Int) (snd : Senders)
    (x : Int × Senders) (h : trySendingToAccount env addr amount od snd = .ok x) :
    ∃ a, evalAs env.vars addr expectAccount = .ok a := by
  unfold trySendingToAccount at h
  split at h <;> try cases h
  exact ⟨_, by assumption⟩

theorem sendAllToAccount_ok_eval (env : Env) (addr : Expr) (od : Option Int) (snd : Senders)
    (x : Int × Senders) (h : sendAllToAccount env addr od snd = .ok x) :
    ∃ a, evalAs env.vars addr expectAccount = .ok a := by
  unfold sendAllToAccount at h
  split at h <;> try cases h
  exact ⟨_, by assumption⟩

mutual
theorem send_ok_res (env : Env) : ∀ (src : Source) (need : Int) (snd : Senders) (x : Int × Senders),
    trySendingUpTo env src need snd = .ok x → ∃ r, resolveS env.vars env.asset src = .ok r
  | .nil, need, snd, x, h => by simp [trySendingUpTo] at h
  | .account e, need, snd, x, h => by
      rw [trySendingUpTo] at h
      obtain ⟨a, ha⟩ := trySendingToAccount_ok_eval _ _ _ _ _ _ h
      simp [resolveS, ha]
  | .overdraft _ addr none, need, snd, x, h => by
      rw [trySendingUpTo] at h
      obtain ⟨a, ha⟩ := trySendingToAccount_ok_eval _ _ _ _ _ _ h
      simp [resolveS, ha]
  | .overdraft _ addr (some b), need, snd, x, h => by
      rw [trySendingUpTo] at h
      split at h <;> try cases h
      rename_i c hc
      obtain ⟨a, ha⟩ := trySendingToAccount_ok_eval _ _ _ _ _ _ h
      simp [resolveS, ha, hc]
  | .inorder _ srcs, need, snd, x, h => by
      rw [trySendingUpTo] at h
      split at h <;> try cases h
      rename_i left snd' hs
      obtain ⟨rs, hrs⟩ := sendInorder_ok_res env srcs need snd _ hs
      simp [resolveS, hrs]
  | .capped _ cap src, need, snd, x, h => by
      rw [trySendingUpTo] at h
      split at h <;> try cases h
      rename_i c hc
      obtain ⟨r, hr⟩ := send_ok_res env src _ snd x h
      simp [resolveS, hc, hr]
  | .allotment _ items, need, snd, x, h => by
      rw [trySendingUpTo, makeAllotment_eq_dl] at h
      split at h <;> try cases h
      rename_i parts hparts
      obtain ⟨qs, hqs, _⟩ := Outcome.bind_eq_ok hparts
      split at h <;> try cases h
      rename_i snd' hs
      obtain ⟨subs, hsubs⟩ := sendAllotItems_ok_res env items parts snd _ hs
      simp [resolveS, hqs, hsubs]

theorem sendInorder_ok_res (env : Env) : ∀ (srcs : List Source) (left : Int) (snd : Senders) (x : Int × Senders),
    sendInorder env srcs left snd = .ok x → ∃ rs, resolveSList env.vars env.asset srcs = .ok rs
  | [], left, snd, x, h => by simp [resolveSList]
  | s :: ss, left, snd, x, h => by
      rw [sendInorder] at h
      split at h <;> try cases h
      rename_i sent snd' h1
      obtain ⟨r, hr⟩ := send_ok_res env s left snd _ h1
      obtain ⟨rs, hrs⟩ := sendInorder_ok_res env ss _ _ x h
      simp [resolveSList, hr, hrs]

theorem sendAllotItems_ok_res (env : Env) : ∀ (items : List SrcItem) (parts : List Int) (snd : Senders) (x : Senders),
    sendAllotItems env items parts snd = .ok x → ∃ subs, resolveSItems env.vars env.asset items = .ok subs
  | [], parts, snd, x, h => by simp [resolveSItems]
  | _ :: _, [], snd, x, h => by simp [sendAllotItems] at h
  | (.mk _ _ src) :: rest, p :: ps, snd, x, h => by
      rw [sendAllotItems] at h
      split at h <;> try cases h
      rename_i sent snd' h1
      obtain ⟨r, hr⟩ := send_ok_res env src p snd _ h1
      split at h <;> try cases h
      obtain ⟨rs, hrs⟩ := sendAllotItems_ok_res env rest ps _ x h
      simp [resolveSItems, hr, hrs]
end

mutual
theorem sendAll_ok_res (env : Env) : ∀ (src : Source) (snd : Senders) (x : Int × Senders),
    sendAll env src snd = .ok x → ∃ r, resolveS env.vars env.asset src = .ok r
  | .nil, snd, x, h => by simp [sendAll] at h
  | .account e, snd, x, h => by
      rw [sendAll] at h
      obtain ⟨a, ha⟩ := sendAllToAccount_ok_eval _ _ _ _ _ h
      simp [resolveS, ha]
  | .overdraft _ addr none, snd, x, h => by
      rw [sendAll] at h
      obtain ⟨a, ha⟩ := sendAllToAccount_ok_eval _ _ _ _ _ h
      simp [resolveS, ha]
  | .overdraft _ addr (some b), snd, x, h => by
      rw [sendAll] at h
      split at h <;> try cases h
      rename_i c hc
      obtain ⟨a, ha⟩ := sendAllToAccount_ok_eval _ _ _ _ _ h
      simp [resolveS, ha, hc]
  | .inorder _ srcs, snd, x, h => by
      rw [sendAll] at h
      obtain ⟨rs, hrs⟩ := sendAllList_ok_res env srcs 0 snd _ h
      simp [resolveS, hrs]
  | .capped _ cap src, snd, x, h => by
      rw [sendAll] at h
      split at h <;> try cases h
      rename_i c hc
      obtain ⟨r, hr⟩ := send_ok_res env src _ snd x h
      simp [resolveS, hc, hr]
  | .allotment _ items, snd, x, h => by simp [sendAll] at h

theorem sendAllList_ok_res (env : Env) : ∀ (srcs : List Source) (total : Int) (snd : Senders) (x : Int × Senders),
    sendAllList env srcs total snd = .ok x → ∃ rs, resolveSList env.vars env.asset srcs = .ok rs
  | [], total, snd, x, h => by simp [resolveSList]
  | s :: ss, total, snd, x, h => by
      rw [sendAllList] at h
      split at h <;> try cases h
      rename_i sent snd' h1
      obtain ⟨r, hr⟩ := sendAll_ok_res env s snd _ h1
      obtain ⟨rs, hrs⟩ := sendAllList_ok_res env ss _ _ x h
      simp [resolveSList, hr, hrs]
end
/-! ## spec-level facts about the draw -/

theorem bump_zero (xs : List Int) (l : Int) (hl : l ≤ 0) : bump xs l = xs := by
  cases xs with
  | nil => rfl
  | cons x xs => simp [bump, hl]

theorem allotOf_zero (qs : List (Option Rat)) (parts : List Int)
    (h : allotOf 0 qs = .ok parts) : ∀ p ∈ parts, p = 0 := by
  have hz : ∀ ps : List Rat, ∀ p ∈ allotParts 0 ps, p = 0 := by
    intro ps
    have hf : ∀ p ∈ ps.map (floorShare 0), p = 0 := by
      intro p hp
      simp only [List.mem_map] at hp
      obtain ⟨q, _, rfl⟩ := hp
      rw [floorShare_eq]; simp
    have hs : (ps.map (floorShare 0)).sum = 0 := List.sum_eq_zero hf
    unfold allotParts
    simp only [hs]
    rw [bump_zero _ _ (by omega)]
    exact hf
  unfold allotOf at h
  simp only at h
  split at h
  · split at h
    · cases h
    · cases h; exact hz _
  · split at h
    · cases h
    · cases h; exact hz _

theorem drawAllot_zero (asset : String) : ∀ (subs : List RSource) (parts : List Int) (av : Avail) (l : Pulls),
    (∀ p ∈ parts, p = 0) → drawAllot asset subs parts av = .ok l → sumPulls l = 0
  | [], parts, av, l, _, h => by simp [drawAllot] at h; subst h; rfl
  | _ :: _, [], av, l, _, h => by simp [drawAllot] at h
  | s :: ss, p :: ps, av, l, hz, h => by
      simp only [drawAllot] at h
      split at h <;> try cases h
      rename_i l1 h1
      split at h
      · rename_i hp
        split at h <;> try cases h
        rename_i l2 h2
        have := drawAllot_zero asset ss ps _ l2 (fun q hq => hz q (List.mem_cons_of_mem _ hq)) h2
        have hp0 := hz p (by simp)
        simp [sumPulls_append_dl, this, hp, hp0]
      · cases h

mutual
/-- nothing asked, nothing given -/
theorem draw_zero (asset : String) : ∀ (r : RSource) (av : Avail) (l : Pulls),
    draw asset r av 0 = .ok l → sumPulls l = 0
  | .acct a od, av, l, h => by
      simp only [draw] at h; cases h; simp only [sumPulls_single]; omega
  | .unb a, av, l, h => by
      simp only [draw] at h; cases h; simp
  | .capped cap s, av, l, h => by
      simp only [draw] at h
      have : max 0 (min 0 cap) = 0 := by omega
      rw [this] at h
      exact draw_zero asset s av l h
  | .inorder rs, av, l, h => by
      simp only [draw] at h
      exact drawList_zero asset rs av l h
  | .allot qs subs, av, l, h => by
      simp only [draw] at h
      split at h <;> try cases h
      rename_i parts hp
      exact drawAllot_zero asset subs parts av l (allotOf_zero qs parts hp) h

theorem drawList_zero (asset : String) : ∀ (rs : List RSource) (av : Avail) (l : Pulls),
    drawList asset rs av 0 = .ok l → sumPulls l = 0
  | [], av, l, h => by simp only [drawList] at h; cases h; rfl
  | s :: ss, av, l, h => by
      simp only [drawList] at h
      split at h <;> try cases h
      rename_i l1 h1
      split at h <;> try cases h
      rename_i l2 h2
      have e1 := draw_zero asset s av l1 h1
      rw [e1] at h2
      have e2 := drawList_zero asset ss _ l2 (by simpa using h2)
      simp [sumPulls_append_dl, e1, e2]
end

/-- the only typed failures of a draw -/
def drawErr (e : Err) : Prop :=
  (∃ a n m, e = .missingFunds a n m) ∨ (∃ q, e = .invalidAllotmentSum q)

theorem allotOf_err (n : Int) (qs : List (Option Rat)) (e : Err) (h : allotOf n qs = .err e) :
    drawErr e := by
  unfold allotOf at h
  simp only at h
  split at h
  · split at h
    · cases h; exact .inr ⟨_, rfl⟩
    · cases h
  · split at h
    · cases h; exact .inr ⟨_, rfl⟩
    · cases h

mutual
theorem draw_err (asset : String) : ∀ (r : RSource) (av : Avail) (need : Int) (e : Err),
    draw asset r av need = .err e → drawErr e
  | .acct a od, av, need, e, h => by simp [draw] at h
  | .unb a, av, need, e, h => by simp [draw] at h
  | .capped cap s, av, need, e, h => by
      simp only [draw] at h
      exact draw_err asset s av _ e h
  | .inorder rs, av, need, e, h => by
      simp only [draw] at h
      exact drawList_err asset rs av need e h
  | .allot qs subs, av, need, e, h => by
      simp only [draw] at h
      split at h
      · cases h
      · rename_i e' he
        cases h
        exact allotOf_err _ _ _ he
      · exact drawAllot_err asset subs _ av e h

theorem drawList_err (asset : String) : ∀ (rs : List RSource) (av : Avail) (need : Int) (e : Err),
    drawList asset rs av need = .err e → drawErr e
  | [], av, need, e, h => by simp [drawList] at h
  | s :: ss, av, need, e, h => by
      simp only [drawList] at h
      split at h
      · cases h
      · rename_i e' he
        cases h
        exact draw_err asset s av need _ he
      · split at h
        · cases h
        · rename_i e' he
          cases h
          exact drawList_err asset ss _ _ _ he
        · cases h

theorem drawAllot_err (asset : String) : ∀ (subs : List RSource) (parts : List Int) (av : Avail) (e : Err),
    drawAllot asset subs parts av = .err e → drawErr e
  | [], parts, av, e, h => by simp [drawAllot] at h
  | _ :: _, [], av, e, h => by simp [drawAllot] at h
  | s :: ss, p :: ps, av, e, h => by
      simp only [drawAllot] at h
      split at h
      · cases h
      · rename_i e' he
        cases h
        exact draw_err asset s av p _ he
      · split at h
        · split at h
          · cases h
          · rename_i e' he
            cases h
            exact drawAllot_err asset ss ps _ _ he
          · cases h
        · cases h
          exact .inl ⟨_, _, _, rfl⟩
end

/-! ### bounds on the total (for trees whose allotments have as many portions as sub-sources) -/

mutual
  /-- every allotment node has as many portions as sub-sources (what `resolveS` produces) -/
  def allotLenOk : RSource → Prop
    | .acct _ _ => True
    | .unb _ => True
    | .capped _ s => allotLenOk s
    | .inorder l => allotLenOkList l
    | .allot qs subs => qs.length = subs.length ∧ allotLenOkList subs
  def allotLenOkList : List RSource → Prop
    | [] => True
    | s :: ss => allotLenOk s ∧ allotLenOkList ss
end

mutual
theorem resolveS_allotLenOk (vars : Vars) (asset : String) : ∀ (src : Source) (r : RSource),
    resolveS vars asset src = .ok r → allotLenOk r
  | .nil, r, hr => by simp [resolveS] at hr
  | .account e, r, hr => by
      simp only [resolveS] at hr
      split at hr <;> try cases hr
      split <;> simp [allotLenOk]
  | .overdraft _ addr none, r, hr => by
      simp only [resolveS] at hr
      split at hr <;> try cases hr
      simp [allotLenOk]
  | .overdraft _ addr (some b), r, hr => by
      simp only [resolveS] at hr
      split at hr <;> try cases hr
      split at hr <;> try cases hr
      split <;> simp [allotLenOk]
  | .inorder _ srcs, r, hr => by
      simp only [resolveS] at hr
      split at hr <;> try cases hr
      rename_i rs hrs
      simp only [allotLenOk]
      exact resolveSList_allotLenOk vars asset srcs rs hrs
  | .capped _ cap src, r, hr => by
      simp only [resolveS] at hr
      split at hr <;> try cases hr
      split at hr <;> try cases hr
      rename_i r' hr'
      simp only [allotLenOk]
      exact resolveS_allotLenOk vars asset src r' hr'
  | .allotment _ items, r, hr => by
      simp only [resolveS] at hr
      split at hr <;> try cases hr
      rename_i qs hqs
      split at hr <;> try cases hr
      rename_i subs hsubs
      simp only [allotLenOk]
      refine ⟨?_, resolveSItems_allotLenOk vars asset items subs hsubs⟩
      rw [evalAllotItems_length_dl _ _ _ hqs, resolveSItems_length _ _ _ _ hsubs]; simp

theorem resolveSList_allotLenOk (vars : Vars) (asset : String) : ∀ (srcs : List Source) (rs : List RSource),
    resolveSList vars asset srcs = .ok rs → allotLenOkList rs
  | [], rs, hr => by simp only [resolveSList] at hr; cases hr; simp [allotLenOkList]
  | s :: ss, rs, hr => by
      simp only [resolveSList] at hr
      split at hr <;> try cases hr
      rename_i r hr1
      split at hr <;> try cases hr
      rename_i rs' hrs'
      simp only [allotLenOkList]
      exact ⟨resolveS_allotLenOk vars asset s r hr1, resolveSList_allotLenOk vars asset ss rs' hrs'⟩

theorem resolveSItems_allotLenOk (vars : Vars) (asset : String) : ∀ (items : List SrcItem) (rs : List RSource),
    resolveSItems vars asset items = .ok rs → allotLenOkList rs
  | [], rs, hr => by simp only [resolveSItems] at hr; cases hr; simp [allotLenOkList]
  | (.mk _ _ src) :: rest, rs, hr => by
      simp only [resolveSItems] at hr
      split at hr <;> try cases hr
      rename_i r hr1
      split at hr <;> try cases hr
      rename_i rs' hrs'
      simp only [allotLenOkList]
      exact ⟨resolveS_allotLenOk vars asset src r hr1, resolveSItems_allotLenOk vars asset rest rs' hrs'⟩
end

mutual
/-- the total given lies between zero and what is asked (on either side of zero) -/
theorem draw_bounds (asset : String) : ∀ (r : RSource) (av : Avail) (need : Int) (l : Pulls),
    allotLenOk r → draw asset r av need = .ok l →
    min 0 need ≤ sumPulls l ∧ sumPulls l ≤ max 0 need
  | .acct a od, av, need, l, _, h => by
      simp only [draw] at h; cases h; simp only [sumPulls_single]; omega
  | .unb a, av, need, l, _, h => by
      simp only [draw] at h; cases h; simp only [sumPulls_single]; omega
  | .capped cap s, av, need, l, hk, h => by
      simp only [draw] at h
      simp only [allotLenOk] at hk
      have := draw_bounds asset s av _ l hk h
      omega
  | .inorder rs, av, need, l, hk, h => by
      simp only [draw] at h
      simp only [allotLenOk] at hk
      exact drawList_bounds asset rs av need l hk h
  | .allot qs subs, av, need, l, hk, h => by
      simp only [draw] at h
      simp only [allotLenOk] at hk
      split at h <;> try cases h
      rename_i parts hp
      have := drawAllot_sum asset subs parts av l (by rw [allotOf_length_dl _ _ _ hp, hk.1]) h
      rw [this, allotOf_sum _ _ _ hp]
      omega

theorem drawList_bounds (asset : String) : ∀ (rs : List RSource) (av : Avail) (need : Int) (l : Pulls),
    allotLenOkList rs → drawList asset rs av need = .ok l →
    min 0 need ≤ sumPulls l ∧ sumPulls l ≤ max 0 need
  | [], av, need, l, _, h => by
      simp only [drawList] at h; cases h; simp only [sumPulls_nil]; omega
  | s :: ss, av, need, l, hk, h => by
      simp only [drawList] at h
      simp only [allotLenOkList] at hk
      split at h <;> try cases h
      rename_i l1 h1
      split at h <;> try cases h
      rename_i l2 h2
      have b1 := draw_bounds asset s av need l1 hk.1 h1
      have b2 := drawList_bounds asset ss _ _ l2 hk.2 h2
      rw [sumPulls_append_dl]
      omega
end

/-- `draw_total_le_need` of Properties/C04.lean, for trees with well-formed allotments -/
theorem draw_total_le_need_of_lenOk (asset : String) (r : RSource) (av : Avail) (need : Int) (l : Pulls)
    (hk : allotLenOk r) (hn : 0 ≤ need) (h : draw asset r av need = .ok l) :
    0 ≤ sumPulls l ∧ sumPulls l ≤ need := by
  have := draw_bounds asset r av need l hk h
  omega

/-- `cap_bounds` of Properties/C04.lean, for trees with well-formed allotments -/
theorem cap_bounds_of_lenOk (asset : String) (cap : Int) (s : RSource) (av : Avail) (need : Int) (l : Pulls)
    (hk : allotLenOk s) (h : draw asset (.capped cap s) av need = .ok l) :
    0 ≤ sumPulls l ∧ sumPulls l ≤ max 0 cap ∧ sumPulls l ≤ max 0 need := by
  simp only [draw] at h
  have := draw_bounds asset s av _ l hk h
  omega

/-- … in particular for every tree a source expression resolves to -/
theorem draw_total_le_need_resolved (vars : Vars) (asset : String) (src : Source) (r : RSource)
    (av : Avail) (need : Int) (l : Pulls) (hr : resolveS vars asset src = .ok r)
    (hn : 0 ≤ need) (h : draw asset r av need = .ok l) : 0 ≤ sumPulls l ∧ sumPulls l ≤ need :=
  draw_total_le_need_of_lenOk asset r av need l (resolveS_allotLenOk vars asset src r hr) hn h

/-! ### the unrestricted statements fail on ill-formed trees: an allotment with more
    portions than sub-sources and a negative portion -/

theorem draw_allot_counterexample :
    draw "USD" (.allot [some 2, some (-1)] [.unb "a"]) (fun _ => 0) 10 = .ok [("a", 20)] := by
  have h : allotOf 10 [some 2, some (-1)] = .ok [20, -10] := by
    simp [allotOf, sumSome, fillRemaining, allotParts, floorShare_eq, bump]
    norm_num
  simp [draw, h, drawAllot, sumPulls]

/-- `draw_total_le_need` of Properties/C04.lean does not hold for arbitrary resolved trees -/
theorem draw_total_le_need_unrestricted_false :
    ¬ ∀ (asset : String) (r : RSource) (av : Avail) (need : Int) (l : Pulls),
      0 ≤ need → draw asset r av need = .ok l → 0 ≤ sumPulls l ∧ sumPulls l ≤ need := by
  intro h
  have := (h _ _ _ 10 _ (by omega) draw_allot_counterexample).2
  simp at this

/-- `cap_bounds` of Properties/C04.lean does not hold for arbitrary resolved trees -/
theorem cap_bounds_unrestricted_false :
    ¬ ∀ (asset : String) (cap : Int) (s : RSource) (av : Avail) (need : Int) (l : Pulls),
      0 ≤ need → draw asset (.capped cap s) av need = .ok l → sumPulls l ≤ max 0 cap := by
  intro h
  have := h "USD" 10 (.allot [some 2, some (-1)] [.unb "a"]) (fun _ => 0) 10 [("a", 20)] (by omega)
    (by simp only [draw]; exact draw_allot_counterexample)
  simp at this

end NS
