/-
  Proofs/ProgramLemmas.lean — helper lemmas for Properties/C010203.lean
  (script-level theorems C01, C02, C03).
-/
import Spec.ProgramSpec
import Proofs.DrawBoundLemmas
import Proofs.DrawLemmas
import Proofs.DistributeLemmas
import Mathlib.Algebra.Order.Ring.Rat

namespace NS

/-! ## variables -/

theorem pg_lookupVar_cons (name : String) (v : Value) (vars : Vars) (name' : String) :
    lookupVar ((name, v) :: vars) name' = if name = name' then some v else lookupVar vars name' := by
  unfold lookupVar
  by_cases h : name = name'
  · simp [List.find?, h]
  · have hb : (name == name') = false := by simpa using h
    simp [List.find?, h, hb]

theorem pg_VarsWF_nil : VarsWF [] := by
  intro name q h
  simp [lookupVar] at h

theorem pg_VarsWF_cons (name : String) (v : Value) (vars : Vars) (h0 : VarsWF vars)
    (hv : ∀ q, v = .portion q → 0 ≤ q ∧ q ≤ 1) : VarsWF ((name, v) :: vars) := by
  intro name' q h
  rw [pg_lookupVar_cons] at h
  split at h
  · injection h with h
    exact hv q h
  · exact h0 name' q h

theorem pg_ParsePortionSpecific_range (s : String) (q : Rat) (h : ParsePortionSpecific s = .ok q) :
    0 ≤ q ∧ q ≤ 1 := by
  unfold ParsePortionSpecific at h
  simp only at h
  split at h
  · cases h
  · cases h
  · cases h
  · rename_i q' _
    split at h
    · cases h
    · rename_i hr
      injection h with h
      subst h
      constructor
      · exact not_lt.mp (fun hlt => hr (Or.inl hlt))
      · exact not_lt.mp (fun hlt => hr (Or.inr hlt))

theorem pg_parseMonetary_not_portion (s : String) (q : Rat) : parseMonetary s ≠ .ok (.portion q) := by
  unfold parseMonetary
  intro h
  split at h
  · split at h <;> cases h
  · cases h

theorem pg_parseVar_portion (ty raw : String) (v : Value) (h : parseVar ty raw = .ok v) :
    ∀ q, v = .portion q → 0 ≤ q ∧ q ≤ 1 := by
  intro q hq
  subst hq
  unfold parseVar at h
  split at h
  · exact absurd h (pg_parseMonetary_not_portion raw q)
  split at h
  · split at h <;> cases h
  split at h
  · split at h
    · rename_i q' hq'
      injection h with h
      injection h with h
      subst h
      exact pg_ParsePortionSpecific_range raw q' hq'
    · cases h
    · cases h
  split at h
  · cases h
  split at h
  · split at h <;> cases h
  split at h
  · cases h
  · cases h

theorem pg_handleOrigin_portion (store : Store) (flag : Bool) (vars : Vars) (q0 q1 : QState)
    (ty : String) (fn : FnCall) (v : Value) (h : handleOrigin store flag vars q0 ty fn = .ok (v, q1)) :
    ∀ q, v = .portion q → 0 ≤ q ∧ q ≤ 1 := by
  unfold handleOrigin at h
  split at h
  · cases h
  · cases h
  rename_i args _
  split at h
  · -- meta
    split at h
    · cases h
    · cases h
    split at h
    · cases h
    split at h
    · cases h
    split at h
    · cases h
    · cases h
    · rename_i v' hv'
      injection h with h
      injection h with h1 h2
      subst h1
      exact pg_parseVar_portion _ _ _ hv'
  split at h
  · -- balance
    split at h
    · cases h
    · cases h
    split at h
    · cases h
    · cases h
    split at h
    · cases h
    · injection h with h
      injection h with h1 h2
      subst h1
      intro q hq
      cases hq
  split at h
  · -- overdraft
    split at h
    · cases h
    split at h
    · cases h
    · cases h
    split at h
    · cases h
    · cases h
    split at h <;>
    · injection h with h
      injection h with h1 h2
      subst h1
      intro q hq
      cases hq
  · cases h

theorem pg_parseVars_wf (store : Store) (flag : Bool) (rawVars : List (String × String)) :
    ∀ (decls : List VarDecl) (vars0 vars : Vars) (q0 q : QState), VarsWF vars0 →
      parseVars store flag rawVars decls vars0 q0 = .ok (vars, q) → VarsWF vars
  | [], vars0, vars, q0, q, h0, h => by
      simp only [parseVars] at h
      injection h with h
      injection h with h1 h2
      subst h1
      exact h0
  | d :: rest, vars0, vars, q0, q, h0, h => by
      rw [parseVars] at h
      split at h
      · cases h
      · cases h
      rename_i name _ ty _ _
      split at h
      · split at h
        · cases h
        split at h
        · cases h
        · cases h
        rename_i v hv
        exact pg_parseVars_wf store flag rawVars rest _ vars q0 q
          (pg_VarsWF_cons name v vars0 h0 (pg_parseVar_portion _ _ _ hv)) h
      · split at h
        · cases h
        · cases h
        rename_i v q' hv
        exact pg_parseVars_wf store flag rawVars rest _ vars q' q
          (pg_VarsWF_cons name v vars0 h0 (pg_handleOrigin_portion _ _ _ _ _ _ _ _ hv)) h

/-! ## portions of resolved trees -/

theorem pg_evalExpr_portion_nonneg (vars : Vars) (hw : VarsWF vars) (e : Expr) (q : Rat)
    (h : evalExpr vars e = .ok (.portion q)) : 0 ≤ q := by
  cases e with
  | nil => simp [evalExpr] at h
  | monetaryNil => simp [evalExpr] at h
  | var r name =>
    simp only [evalExpr] at h
    split at h
    · rename_i v hv
      injection h with h
      subst h
      exact (hw name q hv).1
    · cases h
  | asset r s => simp [evalExpr] at h
  | account r s => simp [evalExpr] at h
  | str r s => simp [evalExpr] at h
  | number r n => simp [evalExpr] at h
  | ratio r num den =>
    simp only [evalExpr] at h
    split at h
    · cases h
    · injection h with h
      injection h with h
      subst h
      exact Rat.mkRat_nonneg (Int.natCast_nonneg num) den
  | monetary r a n =>
    simp only [evalExpr] at h
    repeat (split at h <;> try cases h)
  | «infix» r op l r' =>
    simp only [evalExpr] at h
    repeat (split at h <;> try cases h)

theorem pg_evalAllotItems_nonneg (vars : Vars) (hw : VarsWF vars) :
    ∀ (items : List AllotVal) (qs : List (Option Rat)), evalAllotItems vars items = .ok qs →
      ∀ q, some q ∈ qs → 0 ≤ q
  | [], qs, h => by
      simp only [evalAllotItems] at h
      cases h
      intro q hq
      cases hq
  | .nil :: rest, qs, h => by simp [evalAllotItems] at h
  | .remaining _ :: rest, qs, h => by
      simp only [evalAllotItems] at h
      obtain ⟨tl, h1, h2⟩ := Outcome.bind_eq_ok h
      simp at h2
      subst h2
      intro q hq
      simp only [List.mem_cons, reduceCtorEq, false_or] at hq
      exact pg_evalAllotItems_nonneg vars hw rest tl h1 q hq
  | .portion e :: rest, qs, h => by
      simp only [evalAllotItems] at h
      obtain ⟨q0, hq0, h'⟩ := Outcome.bind_eq_ok h
      obtain ⟨tl, h1, h2⟩ := Outcome.bind_eq_ok h'
      simp at h2
      subst h2
      intro q hq
      simp only [List.mem_cons, Option.some.injEq] at hq
      rcases hq with hq | hq
      · subst hq
        unfold evalAs at hq0
        obtain ⟨v, hv, hv2⟩ := Outcome.bind_eq_ok hq0
        cases v <;> simp [expectPortion] at hv2
        subst hv2
        exact pg_evalExpr_portion_nonneg vars hw e _ hv
      · exact pg_evalAllotItems_nonneg vars hw rest tl h1 q hq

/-! ## replay as a per-account net effect -/

/-- net effect of a list of postings on account `a`, asset `c` -/
def pg_net (ps : List Posting) (a c : String) : Int := replay (fun _ _ => 0) ps a c

theorem pg_replay_shift : ∀ (ps : List Posting) (B : Bal) (a c : String),
    replay B ps a c = B a c + pg_net ps a c
  | [], B, a, c => by simp [pg_net, replay]
  | p :: ps, B, a, c => by
      unfold pg_net
      simp only [replay]
      rw [pg_replay_shift ps (applyPosting B p) a c, pg_replay_shift ps (applyPosting (fun _ _ => 0) p) a c]
      simp only [applyPosting]
      split <;> split <;> omega

theorem pg_net_nil (a c : String) : pg_net [] a c = 0 := rfl

theorem pg_net_cons (p : Posting) (ps : List Posting) (a c : String) :
    pg_net (p :: ps) a c = pg_net [p] a c + pg_net ps a c := by
  unfold pg_net
  simp only [replay]
  rw [pg_replay_shift ps (applyPosting (fun _ _ => 0) p) a c]
  rfl

theorem pg_net_append : ∀ (p1 p2 : List Posting) (a c : String),
    pg_net (p1 ++ p2) a c = pg_net p1 a c + pg_net p2 a c
  | [], p2, a, c => by simp [pg_net_nil]
  | p :: p1, p2, a, c => by
      rw [List.cons_append, pg_net_cons, pg_net_append p1 p2 a c, pg_net_cons p p1]
      omega

theorem pg_net_single (p : Posting) (a c : String) :
    pg_net [p] a c = (if a = p.source ∧ c = p.asset then - p.amount else 0) +
      (if a = p.destination ∧ c = p.asset then p.amount else 0) := by
  simp only [pg_net, replay, applyPosting]
  split <;> split <;> omega

theorem pg_net_filter : ∀ (ps : List Posting) (a c : String),
    pg_net ps a c = pg_net (ps.filter (fun p => p.asset = c)) a c
  | [], a, c => rfl
  | p :: ps, a, c => by
      rw [pg_net_cons, pg_net_filter ps a c]
      by_cases h : p.asset = c
      · rw [List.filter_cons_of_pos (by simpa using h), pg_net_cons p (List.filter _ ps)]
      · rw [List.filter_cons_of_neg (by simpa using h), pg_net_single]
        have h' : ¬ c = p.asset := fun e => h e.symm
        simp [h']

theorem pg_debitsOf_cons (p : Posting) (ps : List Posting) (a : String) :
    debitsOf (p :: ps) a = (if p.source = a then p.amount else 0) + debitsOf ps a := by
  unfold debitsOf
  by_cases h : p.source = a
  · simp [h]
  · simp [h]

theorem pg_creditsOf_cons (p : Posting) (ps : List Posting) (a : String) :
    creditsOf (p :: ps) a = (if p.destination = a then p.amount else 0) + creditsOf ps a := by
  unfold creditsOf
  by_cases h : p.destination = a
  · simp [h]
  · simp [h]

theorem pg_net_effect : ∀ (ps : List Posting) (a c : String), (∀ p ∈ ps, p.asset = c) →
    pg_net ps a c = - debitsOf ps a + creditsOf ps a
  | [], a, c, _ => by simp [pg_net_nil, debitsOf, creditsOf]
  | p :: ps, a, c, h => by
      have hp : p.asset = c := h p (List.mem_cons_self ..)
      rw [pg_net_cons, pg_net_effect ps a c (fun q hq => h q (List.mem_cons_of_mem _ hq)),
        pg_net_single, pg_debitsOf_cons, pg_creditsOf_cons]
      have e1 : (a = p.source ∧ c = p.asset) ↔ p.source = a := by
        constructor
        · exact fun x => x.1.symm
        · exact fun x => ⟨x.symm, hp.symm⟩
      have e2 : (a = p.destination ∧ c = p.asset) ↔ p.destination = a := by
        constructor
        · exact fun x => x.1.symm
        · exact fun x => ⟨x.symm, hp.symm⟩
      simp only [e1, e2]
      split <;> split <;> omega

/-! ## script-level bookkeeping -/

theorem pg_grantsOfStmts_single_some (vars : Vars) (s : Statement) (a c : String)
    (asset : String) (rs : RSource) (rd : RDest) (h : stmtSend vars s = some (asset, rs, rd)) :
    grantsOfStmts vars [s] a c = if asset = c then grantsOf a rs else [] := by
  simp [grantsOfStmts, h]

theorem pg_grantsOfStmts_single_none (vars : Vars) (s : Statement) (a c : String)
    (h : stmtSend vars s = none) : grantsOfStmts vars [s] a c = [] := by
  simp [grantsOfStmts, h]

theorem pg_unbInStmts_single_some (vars : Vars) (s : Statement) (a c : String)
    (asset : String) (rs : RSource) (rd : RDest) (h : stmtSend vars s = some (asset, rs, rd)) :
    unbInStmts vars [s] a c = (decide (asset = c) && unbIn a rs) := by
  simp [unbInStmts, h]

theorem pg_grantsOfStmts_cons (vars : Vars) (s : Statement) (ss : List Statement) (a c : String) :
    grantsOfStmts vars (s :: ss) a c = grantsOfStmts vars [s] a c ++ grantsOfStmts vars ss a c := by
  simp [grantsOfStmts]

theorem pg_unbInStmts_cons (vars : Vars) (s : Statement) (ss : List Statement) (a c : String) :
    unbInStmts vars (s :: ss) a c = (unbInStmts vars [s] a c || unbInStmts vars ss a c) := by
  simp [unbInStmts]

theorem pg_SendsResolve_head (vars : Vars) (s : Statement) (ss : List Statement)
    (h : SendsResolve vars (s :: ss)) : SendsResolve vars [s] := by
  intro x hx
  simp only [List.mem_singleton] at hx
  subst hx
  exact h x (List.mem_cons_self ..)

theorem pg_SendsResolve_tail (vars : Vars) (s : Statement) (ss : List Statement)
    (h : SendsResolve vars (s :: ss)) : SendsResolve vars ss :=
  fun x hx => h x (List.mem_cons_of_mem _ hx)

theorem pg_savedBalance_le (b : Int) (amt : Option Int) (hn : ∀ n, amt = some n → 0 ≤ n) :
    savedBalance b amt ≤ b := by
  cases amt with
  | none => simp only [savedBalance]; split <;> omega
  | some n =>
    have := hn n rfl
    simp only [savedBalance]; split <;> omega

end NS
