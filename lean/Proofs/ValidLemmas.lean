/-
  Proofs/ValidLemmas.lean — helper lemmas for C16a (a script valid by the declarative
  rules of Spec/Valid.lean gets no error-severity diagnostic from the checker model).
-/
import Spec.Valid
import Proofs.SoundnessLemmas

namespace NS

/-! ## quiet steps: a frame that adds no error -/

/-- diagnostics only appended, none of them an error; `declared`, `fnRes`, `unboundedSend` kept -/
def vd_Q (st st' : CState) : Prop := sd_Frame st st' ∧ errorCount st'.diags = errorCount st.diags

theorem vd_Q.refl (st : CState) : vd_Q st st := ⟨sd_Frame.refl _, rfl⟩
theorem vd_Q.trans {a b c : CState} (h1 : vd_Q a b) (h2 : vd_Q b c) : vd_Q a c :=
  ⟨h1.1.trans h2.1, h2.2.trans h1.2⟩
theorem vd_Q.of_eq {a b : CState} (h1 : b.diags = a.diags) (h2 : b.declared = a.declared)
    (h3 : b.fnRes = a.fnRes) (h4 : b.unboundedSend = a.unboundedSend) : vd_Q a b :=
  ⟨sd_Frame.of_eq h1 h2 h3 h4, by rw [h1]⟩
theorem vd_Q.push (st : CState) (r : Range) (k : DiagKind) (hk : k.severity ≠ 1) :
    vd_Q st (st.push r k) :=
  ⟨sd_Frame.push _ _ _, by rw [sd_errorCount_push]; simp [hk]⟩
theorem vd_Q.declared {a b : CState} (h : vd_Q a b) : b.declared = a.declared := h.1.declared
theorem vd_Q.fnRes {a b : CState} (h : vd_Q a b) : b.fnRes = a.fnRes := h.1.fnRes
theorem vd_Q.unboundedSend {a b : CState} (h : vd_Q a b) : b.unboundedSend = a.unboundedSend := h.1.2
theorem vd_Q.errorCount {a b : CState} (h : vd_Q a b) : errorCount b.diags = errorCount a.diags := h.2

theorem vd_Q.capped {st inner : CState} (h : vd_Q (enterCapped st) inner) :
    vd_Q st (exitCapped inner st) :=
  ⟨sd_capped_frame h.1, h.2⟩

theorem vd_sev_fixedPortionVariable (q : Rat) : (DiagKind.fixedPortionVariable q).severity ≠ 1 := by
  simp [DiagKind.severity, DiagKind.name, severityTable]
theorem vd_sev_redundantRemaining : DiagKind.redundantRemaining.severity ≠ 1 := by
  simp [DiagKind.severity, DiagKind.name, severityTable]
theorem vd_sev_invalidWorldOverdraft : DiagKind.invalidWorldOverdraft.severity ≠ 1 := by
  simp [DiagKind.severity, DiagKind.name, severityTable]
theorem vd_sev_noAllotmentInSendAll : DiagKind.noAllotmentInSendAll.severity ≠ 1 := by
  simp [DiagKind.severity, DiagKind.name, severityTable]
theorem vd_sev_emptiedAccount (n : String) : (DiagKind.emptiedAccount n).severity ≠ 1 := by
  simp [DiagKind.severity, DiagKind.name, severityTable]
theorem vd_sev_unboundedAccountIsNotLast : DiagKind.unboundedAccountIsNotLast.severity ≠ 1 := by
  simp [DiagKind.severity, DiagKind.name, severityTable]

/-! ## the checker state against the typing environment -/

/-- the declared variables of the checker state carry the types of `Γ` -/
def vd_Look (Γ : TyEnv) (st : CState) : Prop :=
  ∀ name, (lookupDecl st name).bind (fun d => d.type.map (·.2)) = Γ.lookup name

def vd_Allowed (Γ : TyEnv) : Prop := ∀ name ty, Γ.lookup name = some ty → isTypeAllowed ty = true

theorem vd_Look.congr {Γ : TyEnv} {st st' : CState} (h : vd_Look Γ st) (hd : st'.declared = st.declared) :
    vd_Look Γ st' := by
  intro name
  rw [sd_lookupDecl_congr hd]
  exact h name

theorem vd_Look.q {Γ : TyEnv} {st st' : CState} (h : vd_Look Γ st) (hq : vd_Q st st') : vd_Look Γ st' :=
  h.congr hq.declared

theorem vd_lookup_some {Γ : TyEnv} {st : CState} {name τ : String} (hl : vd_Look Γ st)
    (h : Γ.lookup name = some τ) : ∃ d r, lookupDecl st name = some d ∧ d.type = some (r, τ) := by
  have := hl name
  rw [h] at this
  cases hd : lookupDecl st name with
  | none => rw [hd] at this; cases this
  | some d =>
    rw [hd] at this
    simp only [Option.bind_some] at this
    cases ht : d.type with
    | none => rw [ht] at this; cases this
    | some p =>
      rw [ht] at this
      simp only [Option.map_some, Option.some.injEq] at this
      exact ⟨d, p.1, rfl, by rw [← this]; exact ht⟩

theorem vd_assert_ok (st : CState) (lr : Option Range) {req act : String}
    (h : req = "any" ∨ req = act) : assertHasType st lr req act = .ok st := by
  unfold assertHasType
  rw [if_pos h]

theorem vd_inferType {Γ : TyEnv} {st : CState} (hl : vd_Look Γ st) (ha : vd_Allowed Γ) {e : Expr}
    {τ : String} (h : HasType Γ e τ) : inferType st e = τ := by
  induction h with
  | var r name τ hlk =>
    obtain ⟨d, rr, hd, ht⟩ := vd_lookup_some hl hlk
    simp only [inferType, hd, ht, ha name τ hlk, if_true]
  | asset => rfl
  | account => rfl
  | str => rfl
  | number => rfl
  | ratio => rfl
  | monetary => rfl
  | infixNumber r op l rgt _ _ ihl _ => simp only [inferType]; exact ihl
  | infixMonetary r op l rgt _ _ ihl _ => simp only [inferType]; exact ihl

theorem vd_hasType_rangeOpt {Γ : TyEnv} {e : Expr} {τ : String} (h : HasType Γ e τ) :
    e.rangeOpt = some e.range ∧ e ≠ .nil := by
  cases h <;> exact ⟨rfl, by simp⟩

theorem vd_fits_rangeOpt {Γ : TyEnv} {e : Expr} {τ : String} (h : Fits Γ e τ) :
    e.rangeOpt = some e.range ∧ e ≠ .nil := by
  unfold Fits at h
  split at h
  · obtain ⟨τ', h⟩ := h; exact vd_hasType_rangeOpt h
  · exact vd_hasType_rangeOpt h

/-- a well-typed expression checked against its type (or `any`) is quiet -/
theorem vd_checkExpr_ht {Γ : TyEnv} (ha : vd_Allowed Γ) {e : Expr} {τ : String} (h : HasType Γ e τ) :
    ∀ (st : CState) (req : String), vd_Look Γ st → (req = "any" ∨ req = τ) →
      ∃ st', checkExpression st e req = .ok st' ∧ vd_Q st st' := by
  induction h with
  | var r name τ hlk =>
    intro st req hl hreq
    obtain ⟨d, rr, hd, ht⟩ := vd_lookup_some hl hlk
    simp only [checkExpression, hd, ht, ha name τ hlk, if_true]
    rw [vd_assert_ok _ _ hreq]
    exact ⟨_, rfl, vd_Q.of_eq rfl rfl rfl rfl⟩
  | asset r s =>
    intro st req hl hreq
    simp only [checkExpression]; rw [vd_assert_ok _ _ hreq]; exact ⟨_, rfl, vd_Q.refl _⟩
  | account r s =>
    intro st req hl hreq
    simp only [checkExpression]; rw [vd_assert_ok _ _ hreq]; exact ⟨_, rfl, vd_Q.refl _⟩
  | str r s =>
    intro st req hl hreq
    simp only [checkExpression]; rw [vd_assert_ok _ _ hreq]; exact ⟨_, rfl, vd_Q.refl _⟩
  | number r s =>
    intro st req hl hreq
    simp only [checkExpression]; rw [vd_assert_ok _ _ hreq]; exact ⟨_, rfl, vd_Q.refl _⟩
  | ratio r num den hden =>
    intro st req hl hreq
    simp only [checkExpression, checkRatioLiteral, if_neg hden]
    rw [vd_assert_ok _ _ hreq]; exact ⟨_, rfl, vd_Q.refl _⟩
  | monetary r a n _ _ iha ihn =>
    intro st req hl hreq
    simp only [checkExpression]
    rw [vd_assert_ok _ _ hreq]
    obtain ⟨st2, h2, q2⟩ := iha st "asset" hl (Or.inr rfl)
    simp only [h2]
    obtain ⟨st3, h3, q3⟩ := ihn st2 "number" (hl.q q2) (Or.inr rfl)
    exact ⟨st3, h3, q2.trans q3⟩
  | infixNumber r op l rgt hl' _ ihl ihr =>
    intro st req hl hreq
    simp only [checkExpression]
    rcases hreq with rfl | rfl
    · rw [if_neg (by decide)]
      simp only [vd_inferType hl ha hl', true_or, if_true]
      obtain ⟨st1, h1, q1⟩ := ihl st "number" hl (Or.inr rfl)
      simp only [h1]
      obtain ⟨st2, h2, q2⟩ := ihr st1 "number" (hl.q q1) (Or.inr rfl)
      simp only [h2]
      rw [vd_assert_ok _ _ (Or.inl rfl)]
      exact ⟨st2, rfl, q1.trans q2⟩
    · rw [if_pos (Or.inl rfl)]
      obtain ⟨st1, h1, q1⟩ := ihl st "number" hl (Or.inr rfl)
      simp only [h1]
      obtain ⟨st2, h2, q2⟩ := ihr st1 "number" (hl.q q1) (Or.inr rfl)
      exact ⟨st2, h2, q1.trans q2⟩
  | infixMonetary r op l rgt hl' _ ihl ihr =>
    intro st req hl hreq
    simp only [checkExpression]
    rcases hreq with rfl | rfl
    · rw [if_neg (by decide)]
      simp only [vd_inferType hl ha hl', or_true, if_true]
      obtain ⟨st1, h1, q1⟩ := ihl st "monetary" hl (Or.inr rfl)
      simp only [h1]
      obtain ⟨st2, h2, q2⟩ := ihr st1 "monetary" (hl.q q1) (Or.inr rfl)
      simp only [h2]
      rw [vd_assert_ok _ _ (Or.inl rfl)]
      exact ⟨st2, rfl, q1.trans q2⟩
    · rw [if_pos (Or.inr rfl)]
      obtain ⟨st1, h1, q1⟩ := ihl st "monetary" hl (Or.inr rfl)
      simp only [h1]
      obtain ⟨st2, h2, q2⟩ := ihr st1 "monetary" (hl.q q1) (Or.inr rfl)
      exact ⟨st2, h2, q1.trans q2⟩

theorem vd_checkExpr_fits {Γ : TyEnv} (ha : vd_Allowed Γ) {e : Expr} {τ : String} (h : Fits Γ e τ)
    (st : CState) (hl : vd_Look Γ st) : ∃ st', checkExpression st e τ = .ok st' ∧ vd_Q st st' := by
  unfold Fits at h
  split at h
  · rename_i hτ
    obtain ⟨τ', h⟩ := h
    exact vd_checkExpr_ht ha h st τ hl (Or.inl hτ)
  · exact vd_checkExpr_ht ha h st τ hl (Or.inr rfl)

/-! ## sources -/

theorem vd_sourceHead (st : CState) (src : Source) (hr : ∃ r, src.rangeOpt = some r) :
    ∃ st', sourceHead st src = .ok st' ∧ vd_Q st st' := by
  obtain ⟨r, hr⟩ := hr
  unfold sourceHead
  split
  · simp only [hr]
    exact ⟨_, rfl, vd_Q.push _ _ _ vd_sev_unboundedAccountIsNotLast⟩
  · exact ⟨_, rfl, vd_Q.refl _⟩

theorem vd_accountLit (st : CState) (e : Expr)
    (h : st.unboundedSend = true → isWorldLiteral e = false) :
    vd_Q st (checkSourceAccountLit st e) := by
  unfold checkSourceAccountLit
  split
  · rename_i r name
    extract_lets isWorld st3 st4
    have f3 : vd_Q st st3 := by
      unfold st3
      split
      · rename_i hc
        exfalso
        have := h hc.2
        simp only [isWorldLiteral, beq_eq_false_iff_ne, ne_eq] at this
        exact this hc.1
      · split
        · exact vd_Q.of_eq rfl rfl rfl rfl
        · exact vd_Q.refl _
    have f4 : vd_Q st3 st4 := by
      unfold st4
      split
      · exact vd_Q.push _ _ _ (vd_sev_emptiedAccount _)
      · exact vd_Q.refl _
    exact (f3.trans f4).trans (vd_Q.of_eq rfl rfl rfl rfl)
  · exact vd_Q.refl _

theorem vd_overdraftHead (st : CState) (addr : Expr) (b : Option Expr)
    (h : st.unboundedSend = true → b.isSome = true ∧ isWorldLiteral addr = false) :
    ∃ st', checkOverdraftHead st addr b = .ok st' ∧ vd_Q st st' := by
  unfold checkOverdraftHead
  extract_lets isWorld st1 st2
  have f1 : vd_Q st st1 := by
    unfold st1
    split
    · split
      · exact vd_Q.push _ _ _ vd_sev_invalidWorldOverdraft
      · exact vd_Q.refl _
    · exact vd_Q.refl _
  have f2 : vd_Q st1 st2 := by
    unfold st2
    split
    · exact vd_Q.of_eq rfl rfl rfl rfl
    · exact vd_Q.refl _
  have hw : isWorld = isWorldLiteral addr := by
    unfold isWorld
    cases addr <;> rfl
  split
  · rename_i hc
    exfalso
    have hu : st.unboundedSend = true := by
      rw [← (f1.trans f2).unboundedSend]; exact hc.1
    obtain ⟨hb, hwl⟩ := h hu
    rcases hc.2 with hn | hwt
    · cases b <;> simp at hb hn
    · rw [hw, hwl] at hwt; cases hwt
  · exact ⟨_, rfl, f1.trans f2⟩

theorem vd_foldl_push_q (f : Range → DiagKind) (hf : ∀ r, (f r).severity ≠ 1) (l : List Range)
    (st : CState) : vd_Q st (l.foldl (fun s r => s.push r (f r)) st) := by
  induction l generalizing st with
  | nil => exact vd_Q.refl _
  | cons a l ih => exact (vd_Q.push _ _ _ (hf a)).trans (ih _)

theorem vd_hasBad (st : CState) (sum : Rat) (rng : Range) (rem : Option Range) (vl : List Range)
    (h1 : sum ≤ 1) (h2 : sum < 1 → rem.isSome = true ∨ vl.length ≥ 1) :
    vd_Q st (checkHasBadAllotmentSum st sum rng rem vl) := by
  unfold checkHasBadAllotmentSum
  have f0 := vd_foldl_push_q (fun _ => .fixedPortionVariable 0)
    (fun _ => vd_sev_fixedPortionVariable 0) vl st
  split
  · dsimp only
    split
    · exact f0.trans (vd_Q.push _ _ _ vd_sev_redundantRemaining)
    · exact f0
  · rename_i hne
    have hlt : sum < 1 := Rat.lt_of_le_of_ne h1 hne
    dsimp only
    split
    · exact vd_Q.refl _
    · rename_i hc1
      split
      · split
        · exact vd_Q.push _ _ _ (vd_sev_fixedPortionVariable _)
        · exact vd_Q.refl _
      · rename_i hc2
        exfalso
        rcases h2 hlt with hr | hv
        · exact hc1 (Or.inl ⟨hlt, hr⟩)
        · by_cases h1' : vl.length = 1
          · exact hc2 ⟨hlt, h1'⟩
          · exact hc1 (Or.inr ⟨hlt, by omega⟩)

/-- what the allotment loop has accumulated, against the declarative summary of the clauses -/
def vd_AccRel (acc acc' : AllotAcc) (s : AllotSummary) : Prop :=
  acc'.sum = acc.sum + s.sum ∧ acc'.vars.length = acc.vars.length + s.vars ∧
    acc'.remaining.isSome = (acc.remaining.isSome || s.rem)

theorem vd_allotValue {Γ : TyEnv} (ha : vd_Allowed Γ) (st : CState) (hl : vd_Look Γ st)
    (acc : AllotAcc) (a : AllotVal) (t : List AllotVal) (w : Range) (hv : AllotValsOk Γ (a :: t)) :
    ∃ st1 acc1, checkAllotValue st acc a t.isEmpty w = .ok (st1, acc1) ∧ vd_Q st st1 ∧
      AllotValsOk Γ t ∧
      ∀ acc', vd_AccRel acc1 acc' (summarize t) → vd_AccRel acc acc' (summarize (a :: t)) := by
  cases a with
  | nil => simp [AllotValsOk] at hv
  | remaining r =>
    cases t with
    | cons b t' => simp [AllotValsOk] at hv
    | nil =>
      refine ⟨st, { acc with remaining := some r }, by simp [checkAllotValue], vd_Q.refl _,
        by simp [AllotValsOk], ?_⟩
      intro acc' ⟨e1, e2, e3⟩
      simp only [summarize] at *
      refine ⟨e1, e2, ?_⟩
      rw [e3]; simp
  | portion e =>
    cases e with
    | var r name =>
      simp only [AllotValsOk] at hv
      obtain ⟨hty, hrest⟩ := hv
      obtain ⟨st1, h1, q1⟩ := vd_checkExpr_ht ha hty st "portion" hl (Or.inr rfl)
      refine ⟨st1, { acc with vars := acc.vars ++ [r] }, by simp only [checkAllotValue, h1], q1,
        hrest, ?_⟩
      intro acc' ⟨e1, e2, e3⟩
      simp only [summarize] at *
      refine ⟨e1, ?_, e3⟩
      rw [e2]; simp; omega
    | ratio r num den =>
      simp only [AllotValsOk] at hv
      obtain ⟨hden, hrest⟩ := hv
      refine ⟨st, { acc with sum := acc.sum + mkRat num den }, by
        simp [checkAllotValue, checkRatioLiteral, hden], vd_Q.refl _, hrest, ?_⟩
      intro acc' ⟨e1, e2, e3⟩
      simp only [summarize] at *
      refine ⟨?_, e2, e3⟩
      rw [e1]; grind
    | _ => simp [AllotValsOk] at hv

theorem vd_Look.enterCapped {Γ : TyEnv} {st : CState} (h : vd_Look Γ st) : vd_Look Γ (enterCapped st) :=
  h.congr rfl

theorem vd_allotSum_final {vals : List AllotVal} (hs : AllotSumOk vals) {acc : AllotAcc}
    (hr : vd_AccRel {} acc (summarize vals)) :
    acc.sum ≤ 1 ∧ (acc.sum < 1 → acc.remaining.isSome = true ∨ acc.vars.length ≥ 1) := by
  obtain ⟨e1, e2, e3⟩ := hr
  obtain ⟨s1, s2⟩ := hs
  have e1' : acc.sum = (summarize vals).sum := by rw [e1]; exact Rat.zero_add _
  have e2' : acc.vars.length = (summarize vals).vars := by rw [e2]; simp
  have e3' : acc.remaining.isSome = (summarize vals).rem := by rw [e3]; simp
  rw [e1', e2', e3']
  exact ⟨s1, s2⟩

mutual
  theorem vd_checkSource {Γ : TyEnv} (ha : vd_Allowed Γ) : ∀ (src : Source) (all : Bool) (st : CState),
      ValidSource Γ all src → st.unboundedSend = all → vd_Look Γ st →
      ∃ st', checkSource st src = .ok st' ∧ vd_Q st st'
    | .nil, all, st, hv, _, _ => by simp [ValidSource] at hv
    | .account e, all, st, hv, hu, hl => by
        simp only [ValidSource] at hv
        obtain ⟨hf, hw⟩ := hv
        obtain ⟨st1, h1, q1⟩ := vd_sourceHead st (.account e) ⟨_, (vd_fits_rangeOpt hf).1⟩
        obtain ⟨st2, h2, q2⟩ := vd_checkExpr_fits ha hf st1 (hl.q q1)
        simp only [checkSource, h1, h2]
        refine ⟨_, rfl, (q1.trans q2).trans (vd_accountLit _ _ ?_)⟩
        intro hs
        apply hw
        rw [← hu, ← (q1.trans q2).unboundedSend]; exact hs
    | .overdraft r addr bounded, all, st, hv, hu, hl => by
        obtain ⟨st1, h1, q1⟩ := vd_sourceHead st (.overdraft r addr bounded) ⟨r, rfl⟩
        have hu1 : st1.unboundedSend = all := by rw [q1.unboundedSend, hu]
        cases bounded with
        | none =>
          simp only [ValidSource] at hv
          obtain ⟨hf, hall⟩ := hv
          obtain ⟨st2, h2, q2⟩ := vd_overdraftHead st1 addr none (by
            intro hs; rw [hu1, hall] at hs; cases hs)
          obtain ⟨st3, h3, q3⟩ := vd_checkExpr_fits ha hf st2 ((hl.q q1).q q2)
          simp only [checkSource, h1, h2, h3]
          exact ⟨_, rfl, (q1.trans q2).trans q3⟩
        | some b =>
          simp only [ValidSource] at hv
          obtain ⟨hf, hfb, hw⟩ := hv
          obtain ⟨st2, h2, q2⟩ := vd_overdraftHead st1 addr (some b) (by
            intro hs; rw [hu1] at hs; exact ⟨rfl, hw hs⟩)
          obtain ⟨st3, h3, q3⟩ := vd_checkExpr_fits ha hf st2 ((hl.q q1).q q2)
          obtain ⟨st4, h4, q4⟩ := vd_checkExpr_fits ha hfb st3 (((hl.q q1).q q2).q q3)
          simp only [checkSource, h1, h2, h3]
          exact ⟨_, h4, ((q1.trans q2).trans q3).trans q4⟩
    | .inorder r srcs, all, st, hv, hu, hl => by
        simp only [ValidSource] at hv
        obtain ⟨st1, h1, q1⟩ := vd_sourceHead st (.inorder r srcs) ⟨r, rfl⟩
        obtain ⟨st2, h2, q2⟩ := vd_checkSourceList ha srcs all st1 hv
          (by rw [q1.unboundedSend, hu]) (hl.q q1)
        simp only [checkSource, h1]
        exact ⟨_, h2, q1.trans q2⟩
    | .capped r cap src, all, st, hv, hu, hl => by
        simp only [ValidSource] at hv
        obtain ⟨hf, hsrc⟩ := hv
        obtain ⟨st1, h1, q1⟩ := vd_sourceHead st (.capped r cap src) ⟨r, rfl⟩
        obtain ⟨st2, h2, q2⟩ := vd_checkExpr_fits ha hf (enterCapped st1) (hl.q q1).enterCapped
        obtain ⟨st3, h3, q3⟩ := vd_checkSource ha src false st2 hsrc
          (by rw [q2.unboundedSend]; rfl) ((hl.q q1).enterCapped.q q2)
        simp only [checkSource, h1, h2, h3]
        exact ⟨_, rfl, q1.trans (q2.trans q3).capped⟩
    | .allotment r items, all, st, hv, hu, hl => by
        simp only [ValidSource] at hv
        obtain ⟨hvals, hsum, hitems⟩ := hv
        obtain ⟨st1, h1, q1⟩ := vd_sourceHead st (.allotment r items) ⟨r, rfl⟩
        have q1' : vd_Q st1 (if st1.unboundedSend then st1.push r .noAllotmentInSendAll else st1) := by
          split
          · exact vd_Q.push _ _ _ vd_sev_noAllotmentInSendAll
          · exact vd_Q.refl _
        obtain ⟨st2, acc, h2, q2, hrel⟩ := vd_checkSrcItems ha items _ {} r hvals hitems
          ((hl.q q1).q q1')
        simp only [checkSource, h1, h2]
        obtain ⟨b1, b2⟩ := vd_allotSum_final hsum hrel
        exact ⟨_, rfl, ((q1.trans q1').trans q2).trans (vd_hasBad _ _ _ _ _ b1 b2)⟩

  theorem vd_checkSourceList {Γ : TyEnv} (ha : vd_Allowed Γ) : ∀ (srcs : List Source) (all : Bool)
      (st : CState), ValidSources Γ all srcs → st.unboundedSend = all → vd_Look Γ st →
      ∃ st', checkSourceList st srcs = .ok st' ∧ vd_Q st st'
    | [], all, st, _, _, _ => ⟨st, by simp only [checkSourceList], vd_Q.refl _⟩
    | s :: ss, all, st, hv, hu, hl => by
        simp only [ValidSources] at hv
        obtain ⟨st1, h1, q1⟩ := vd_checkSource ha s all st hv.1 hu hl
        obtain ⟨st2, h2, q2⟩ := vd_checkSourceList ha ss all st1 hv.2
          (by rw [q1.unboundedSend, hu]) (hl.q q1)
        simp only [checkSourceList, h1]
        exact ⟨_, h2, q1.trans q2⟩

  theorem vd_checkSrcItems {Γ : TyEnv} (ha : vd_Allowed Γ) : ∀ (items : List SrcItem) (st : CState)
      (acc : AllotAcc) (w : Range), AllotValsOk Γ (items.map SrcItem.val) → ValidSrcItems Γ items →
      vd_Look Γ st →
      ∃ st' acc', checkSrcItems st items acc w = .ok (st', acc') ∧ vd_Q st st' ∧
        vd_AccRel acc acc' (summarize (items.map SrcItem.val))
    | [], st, acc, w, _, _, _ => ⟨st, acc, by simp only [checkSrcItems], vd_Q.refl _, by
        simp [vd_AccRel, summarize]⟩
    | (.mk ir a src) :: rest, st, acc, w, hvals, hitems, hl => by
        simp only [ValidSrcItems] at hitems
        simp only [List.map_cons, SrcItem.val] at hvals ⊢
        obtain ⟨st1, acc1, h1, q1, hrest, hstep⟩ := vd_allotValue ha st hl acc a _ w hvals
        obtain ⟨st2, h2, q2⟩ := vd_checkSource ha src false (enterCapped st1) hitems.1 rfl
          (hl.q q1).enterCapped
        have hemp : rest.isEmpty = (rest.map SrcItem.val).isEmpty := by cases rest <;> rfl
        rw [← hemp] at h1
        obtain ⟨st3, acc3, h3, q3, hrel⟩ := vd_checkSrcItems ha rest (exitCapped st2 st1) acc1 w hrest
          hitems.2 ((hl.q q1).q q2.capped)
        simp only [checkSrcItems, h1, h2]
        exact ⟨st3, acc3, h3, (q1.trans q2.capped).trans q3, hstep _ hrel⟩
end

/-! ## destinations -/

mutual
  theorem vd_checkDestination {Γ : TyEnv} (ha : vd_Allowed Γ) : ∀ (d : Dest) (st : CState),
      ValidDest Γ d → vd_Look Γ st → ∃ st', checkDestination st d = .ok st' ∧ vd_Q st st'
    | .nil, st, hv, _ => by simp [ValidDest] at hv
    | .account e, st, hv, hl => by
        simp only [ValidDest] at hv
        simp only [checkDestination]
        exact vd_checkExpr_fits ha hv st hl
    | .inorder r clauses remaining, st, hv, hl => by
        simp only [ValidDest] at hv
        obtain ⟨st1, h1, q1⟩ := vd_checkClauses ha clauses st hv.1 hl
        obtain ⟨st2, h2, q2⟩ := vd_checkKoD ha remaining st1 hv.2 (hl.q q1)
        simp only [checkDestination, h1]
        exact ⟨_, h2, q1.trans q2⟩
    | .allotment r items, st, hv, hl => by
        simp only [ValidDest] at hv
        obtain ⟨hvals, hsum, hitems⟩ := hv
        obtain ⟨st2, acc, h2, q2, hrel⟩ := vd_checkDstItems ha items st {} r hvals hitems hl
        simp only [checkDestination, h2]
        obtain ⟨b1, b2⟩ := vd_allotSum_final hsum hrel
        exact ⟨_, rfl, q2.trans (vd_hasBad _ _ _ _ _ b1 b2)⟩

  theorem vd_checkKoD {Γ : TyEnv} (ha : vd_Allowed Γ) : ∀ (k : KoD) (st : CState),
      ValidKoD Γ k → vd_Look Γ st → ∃ st', checkKoD st k = .ok st' ∧ vd_Q st st'
    | .nil, st, hv, _ => by simp [ValidKoD] at hv
    | .kept _, st, _, _ => ⟨st, by simp only [checkKoD], vd_Q.refl _⟩
    | .to d, st, hv, hl => by
        simp only [ValidKoD] at hv
        simp only [checkKoD]
        exact vd_checkDestination ha d st hv hl

  theorem vd_checkClauses {Γ : TyEnv} (ha : vd_Allowed Γ) : ∀ (cs : List DestClause) (st : CState),
      ValidClauses Γ cs → vd_Look Γ st → ∃ st', checkClauses st cs = .ok st' ∧ vd_Q st st'
    | [], st, _, _ => ⟨st, by simp only [checkClauses], vd_Q.refl _⟩
    | (.mk cr cap kd) :: rest, st, hv, hl => by
        simp only [ValidClauses] at hv
        obtain ⟨hcap, hkd, hrest⟩ := hv
        obtain ⟨st1, h1, q1⟩ := vd_checkExpr_fits ha hcap st hl
        obtain ⟨st2, h2, q2⟩ := vd_checkKoD ha kd st1 hkd (hl.q q1)
        obtain ⟨st3, h3, q3⟩ := vd_checkClauses ha rest st2 hrest ((hl.q q1).q q2)
        simp only [checkClauses, h1, h2]
        exact ⟨_, h3, (q1.trans q2).trans q3⟩

  theorem vd_checkDstItems {Γ : TyEnv} (ha : vd_Allowed Γ) : ∀ (items : List DestItem) (st : CState)
      (acc : AllotAcc) (w : Range), AllotValsOk Γ (items.map DestItem.val) → ValidDstItems Γ items →
      vd_Look Γ st →
      ∃ st' acc', checkDstItems st items acc w = .ok (st', acc') ∧ vd_Q st st' ∧
        vd_AccRel acc acc' (summarize (items.map DestItem.val))
    | [], st, acc, w, _, _, _ => ⟨st, acc, by simp only [checkDstItems], vd_Q.refl _, by
        simp [vd_AccRel, summarize]⟩
    | (.mk ir a kd) :: rest, st, acc, w, hvals, hitems, hl => by
        simp only [ValidDstItems] at hitems
        simp only [List.map_cons, DestItem.val] at hvals ⊢
        obtain ⟨st1, acc1, h1, q1, hrest, hstep⟩ := vd_allotValue ha st hl acc a _ w hvals
        obtain ⟨st2, h2, q2⟩ := vd_checkKoD ha kd st1 hitems.1 (hl.q q1)
        have hemp : rest.isEmpty = (rest.map DestItem.val).isEmpty := by cases rest <;> rfl
        rw [← hemp] at h1
        obtain ⟨st3, acc3, h3, q3, hrel⟩ := vd_checkDstItems ha rest st2 acc1 w hrest
          hitems.2 ((hl.q q1).q q2)
        simp only [checkDstItems, h1, h2]
        exact ⟨st3, acc3, h3, (q1.trans q2).trans q3, hstep _ hrel⟩
end

/-! ## function calls -/

theorem vd_fitsAll_length {Γ : TyEnv} : ∀ (es : List Expr) (sig : List String), FitsAll Γ es sig →
    es.length = sig.length ∧
      ∀ (p : Expr → Bool), (∀ e, e ≠ .nil → p e = true) → es.filter p = es
  | [], [], _ => ⟨rfl, fun _ _ => rfl⟩
  | [], _ :: _, h => by simp [FitsAll] at h
  | _ :: _, [], h => by simp [FitsAll] at h
  | e :: es, τ :: τs, h => by
      simp only [FitsAll] at h
      obtain ⟨ih1, ih2⟩ := vd_fitsAll_length es τs h.2
      have hne := (vd_fits_rangeOpt h.1).2
      refine ⟨by simp [ih1], fun p hp => ?_⟩
      rw [List.filter_cons_of_pos (hp e hne), ih2 p hp]

theorem vd_checkExpressions {Γ : TyEnv} (ha : vd_Allowed Γ) : ∀ (es : List Expr) (sig : List String)
    (st : CState), FitsAll Γ es sig → vd_Look Γ st →
    ∃ st', checkExpressions st (es.zip sig) = .ok st' ∧ vd_Q st st'
  | [], [], st, _, _ => ⟨st, by simp [checkExpressions], vd_Q.refl _⟩
  | [], _ :: _, _, h, _ => by simp [FitsAll] at h
  | _ :: _, [], _, h, _ => by simp [FitsAll] at h
  | e :: es, τ :: τs, st, h, hl => by
      simp only [FitsAll] at h
      obtain ⟨st1, h1, q1⟩ := vd_checkExpr_fits ha h.1 st hl
      obtain ⟨st2, h2, q2⟩ := vd_checkExpressions ha es τs st1 h.2 (hl.q q1)
      simp only [List.zip_cons_cons, checkExpressions, h1]
      exact ⟨_, h2, q1.trans q2⟩

theorem vd_checkFnCallArity {Γ : TyEnv} (ha : vd_Allowed Γ) (st : CState) (fn : FnCall)
    (hl : vd_Look Γ st)
    (hres : st.fnRes.find? (fun p => p.1 == fn.callerRange) = some (fn.callerRange, fn.name))
    (hf : FitsAll Γ fn.args (builtinParams fn.name)) :
    ∃ st', checkFnCallArity st fn = .ok st' ∧ vd_Q st st' := by
  obtain ⟨hlen, hfilter⟩ := vd_fitsAll_length _ _ hf
  obtain ⟨st', h', q'⟩ := vd_checkExpressions ha _ _ st hf hl
  unfold checkFnCallArity
  simp only [hres]
  rw [hfilter]
  · simp only [hlen, Nat.lt_irrefl, if_false, gt_iff_lt]
    rw [← hlen, List.take_length]
    exact ⟨st', h', q'⟩
  · intro e he
    cases e <;> first | rfl | exact absurd rfl he

/-! ## statements -/

/-- no new error, same declarations (the send-all flag may change) -/
def vd_W (st st' : CState) : Prop :=
  st'.declared = st.declared ∧ errorCount st'.diags = errorCount st.diags

theorem vd_Q.w {a b : CState} (h : vd_Q a b) : vd_W a b := ⟨h.declared, h.errorCount⟩
theorem vd_W.refl (a : CState) : vd_W a a := ⟨rfl, rfl⟩
theorem vd_W.trans {a b c : CState} (h1 : vd_W a b) (h2 : vd_W b c) : vd_W a c :=
  ⟨h2.1.trans h1.1, h2.2.trans h1.2⟩

theorem vd_checkStatement {Γ : TyEnv} (ha : vd_Allowed Γ) (st : CState) (s : Statement)
    (hv : ValidStatement Γ s) (hl : vd_Look Γ st) :
    ∃ st', checkStatement st s = .ok st' ∧ vd_W st st' := by
  cases s with
  | nil => simp [ValidStatement] at hv
  | fnCallNil => simp [ValidStatement] at hv
  | save r sv amount =>
    cases sv with
    | nil => simp [ValidStatement] at hv
    | lit sr m =>
      simp only [ValidStatement] at hv
      have hl0 : vd_Look Γ { st with emptied := [] } := hl.congr rfl
      obtain ⟨st1, h1, q1⟩ := vd_checkExpr_fits ha hv.1 _ hl0
      obtain ⟨st2, h2, q2⟩ := vd_checkExpr_fits ha hv.2 st1 (hl0.q q1)
      simp only [checkStatement, checkSentValue, h1]
      exact ⟨_, h2, vd_W.trans ⟨rfl, rfl⟩ (q1.trans q2).w⟩
    | all sr a =>
      simp only [ValidStatement] at hv
      have hl0 : vd_Look Γ { st with emptied := [] } := hl.congr rfl
      obtain ⟨st1, h1, q1⟩ := vd_checkExpr_fits ha hv.1 _ hl0
      obtain ⟨st2, h2, q2⟩ := vd_checkExpr_fits ha hv.2 st1 (hl0.q q1)
      simp only [checkStatement, checkSentValue, h1]
      exact ⟨_, h2, vd_W.trans ⟨rfl, rfl⟩ (q1.trans q2).w⟩
  | send r sv src dst =>
    cases sv with
    | nil => simp [ValidStatement] at hv
    | lit sr m =>
      simp only [ValidStatement] at hv
      obtain ⟨hm, hsrc, hdst⟩ := hv
      have hl0 : vd_Look Γ { st with emptied := [], unboundedSend := false } := hl.congr rfl
      obtain ⟨st1, h1, q1⟩ := vd_checkExpr_fits ha hm _ hl0
      obtain ⟨st2, h2, q2⟩ := vd_checkSource ha src false st1 hsrc (by rw [q1.unboundedSend])
        (hl0.q q1)
      obtain ⟨st3, h3, q3⟩ := vd_checkDestination ha dst st2 hdst ((hl0.q q1).q q2)
      simp only [checkStatement, checkSentValue, h1, h2]
      exact ⟨_, h3, vd_W.trans ⟨rfl, rfl⟩ ((q1.trans q2).trans q3).w⟩
    | all sr a =>
      simp only [ValidStatement] at hv
      obtain ⟨hm, hsrc, hdst⟩ := hv
      have hl0 : vd_Look Γ { st with emptied := [], unboundedSend := true } := hl.congr rfl
      obtain ⟨st1, h1, q1⟩ := vd_checkExpr_fits ha hm _ hl0
      obtain ⟨st2, h2, q2⟩ := vd_checkSource ha src true st1 hsrc (by rw [q1.unboundedSend])
        (hl0.q q1)
      obtain ⟨st3, h3, q3⟩ := vd_checkDestination ha dst st2 hdst ((hl0.q q1).q q2)
      simp only [checkStatement, checkSentValue, h1, h2]
      exact ⟨_, h3, vd_W.trans ⟨rfl, rfl⟩ ((q1.trans q2).trans q3).w⟩
  | fnCall fn =>
    simp only [ValidStatement] at hv
    obtain ⟨hb, hf⟩ := hv
    simp only [checkStatement, hb, if_true]
    obtain ⟨st1, h1, q1⟩ := vd_checkFnCallArity ha
      { st with emptied := [], fnRes := (fn.callerRange, fn.name) :: st.fnRes } fn (hl.congr rfl)
      (by simp [List.find?]) hf
    exact ⟨_, h1, vd_W.trans ⟨rfl, rfl⟩ q1.w⟩

theorem vd_checkStatements {Γ : TyEnv} (ha : vd_Allowed Γ) : ∀ (ss : List Statement) (st : CState),
    ValidStatements Γ ss → vd_Look Γ st → ∃ st', checkStatements st ss = .ok st' ∧ vd_W st st'
  | [], st, _, _ => ⟨st, by simp [checkStatements], vd_W.refl _⟩
  | s :: ss, st, hv, hl => by
      simp only [ValidStatements] at hv
      obtain ⟨st1, h1, w1⟩ := vd_checkStatement ha { st with unboundedAccountInSend := false } s hv.1
        (hl.congr rfl)
      obtain ⟨st2, h2, w2⟩ := vd_checkStatements ha ss st1 hv.2 (hl.congr w1.1)
      simp only [checkStatements, h1]
      exact ⟨_, h2, (vd_W.trans ⟨rfl, rfl⟩ w1).trans w2⟩

/-! ## declarations -/

/-- the checker state agrees with the typing environment `Γ` -/
structure vd_EnvOk (Γ : TyEnv) (st : CState) : Prop where
  look : vd_Look Γ st
  allowed : vd_Allowed Γ
  fresh : ∀ name, Γ.lookup name = none → st.declared.any (fun p => p.1 == name) = false

theorem vd_EnvOk_init (diags : List Diag) : vd_EnvOk [] { diags := diags } := by
  refine ⟨?_, ?_, ?_⟩
  · intro name; simp [lookupDecl, TyEnv.lookup]
  · intro name ty h; simp [TyEnv.lookup] at h
  · intro name _; rfl

theorem vd_find_append {α : Type} (l : List (String × α)) (x : String × α) (n : String) :
    (l ++ [x]).find? (fun p => p.1 == n) =
      (l.find? (fun p => p.1 == n)).or (if x.1 == n then some x else none) := by
  rw [List.find?_append]
  congr 1
  simp only [List.find?]
  split <;> simp_all

theorem vd_lookup_append (Γ : TyEnv) (name ty n : String) :
    TyEnv.lookup (Γ ++ [(name, ty)]) n = (Γ.lookup n).or (if name == n then some ty else none) := by
  unfold TyEnv.lookup
  rw [vd_find_append]
  cases Γ.find? (fun p => p.1 == n) with
  | some p => rfl
  | none => simp only [Option.map_none, Option.none_or]; split <;> rfl

theorem vd_lookupDecl_append {st st' : CState} {name : String} {d : VarDecl}
    (hd : st'.declared = st.declared ++ [(name, d)]) (n : String) :
    lookupDecl st' n = (lookupDecl st n).or (if name == n then some d else none) := by
  unfold lookupDecl
  rw [hd, vd_find_append]
  cases st.declared.find? (fun p => p.1 == n) with
  | some p => rfl
  | none => simp only [Option.map_none, Option.none_or]; split <;> rfl

theorem vd_lookupDecl_none_iff (st : CState) (n : String) :
    lookupDecl st n = none ↔ st.declared.any (fun p => p.1 == n) = false := by
  unfold lookupDecl
  rw [Option.map_eq_none_iff, List.find?_eq_none, List.any_eq_false]

theorem vd_EnvOk.declare {Γ : TyEnv} {st st' : CState} (he : vd_EnvOk Γ st) {name ty : String}
    {d : VarDecl} {rt : Range} (ht : d.type = some (rt, ty)) (hall : isTypeAllowed ty = true)
    (hd : st'.declared = st.declared ++ [(name, d)]) : vd_EnvOk (Γ ++ [(name, ty)]) st' := by
  refine ⟨?_, ?_, ?_⟩
  · intro n
    rw [vd_lookupDecl_append hd, vd_lookup_append]
    have hk := he.look n
    cases hld : lookupDecl st n with
    | none =>
      rw [hld] at hk
      simp only [Option.bind_none] at hk
      rw [← hk]
      simp only [Option.none_or]
      split
      · simp [ht]
      · rfl
    | some d0 =>
      rw [hld] at hk
      cases hg : Γ.lookup n with
      | none =>
        have := (vd_lookupDecl_none_iff st n).mpr (he.fresh n hg)
        rw [hld] at this; cases this
      | some τ =>
        rw [hg] at hk
        simpa using hk
  · intro n t h
    rw [vd_lookup_append] at h
    cases hg : Γ.lookup n with
    | some τ =>
      rw [hg] at h
      simp only [Option.some_or, Option.some.injEq] at h
      exact he.allowed n t (by rw [hg, h])
    | none =>
      rw [hg] at h
      simp only [Option.none_or] at h
      split at h
      · cases h; exact hall
      · cases h
  · intro n h
    rw [vd_lookup_append] at h
    cases hg : Γ.lookup n with
    | some τ => rw [hg] at h; simp at h
    | none =>
      rw [hg] at h
      simp only [Option.none_or] at h
      have hne : (name == n) = false := by
        cases hb : (name == n) with
        | false => rfl
        | true => rw [hb] at h; simp at h
      rw [hd, List.any_append, he.fresh n hg]
      simp [hne]

theorem vd_EnvOk.congr {Γ : TyEnv} {st st' : CState} (he : vd_EnvOk Γ st)
    (hd : st'.declared = st.declared) : vd_EnvOk Γ st' :=
  ⟨he.look.congr hd, he.allowed, by intro n h; rw [hd]; exact he.fresh n h⟩

theorem vd_checkVarOrigin {Γ : TyEnv} (ha : vd_Allowed Γ) (st : CState) (hl : vd_Look Γ st)
    (fn : FnCall) (d : VarDecl) {rn rt : Range} {name ty : String}
    (hn : d.name = some (rn, name)) (ht : d.type = some (rt, ty))
    (hob : isOriginBuiltin fn.name = true) (hf : FitsAll Γ fn.args (builtinParams fn.name))
    (hr : builtinReturn fn.name = "any" ∨ builtinReturn fn.name = ty) :
    ∃ st', checkVarOrigin st fn d = .ok st' ∧ vd_W st st' := by
  unfold checkVarOrigin
  simp only [hob, if_true, ht, hn]
  rw [vd_assert_ok _ _ hr]
  obtain ⟨st1, h1, q1⟩ := vd_checkFnCallArity ha
    { st with fnRes := (fn.callerRange, fn.name) :: st.fnRes } fn (hl.congr rfl)
    (by simp [List.find?]) hf
  exact ⟨_, h1, vd_W.trans ⟨rfl, rfl⟩ q1.w⟩

theorem vd_checkVarDecl {Γ : TyEnv} {st : CState} (he : vd_EnvOk Γ st) (d : VarDecl)
    {rn rt : Range} {name ty : String}
    (hn : d.name = some (rn, name)) (ht : d.type = some (rt, ty))
    (hall : isTypeAllowed ty = true) (hfresh : Γ.lookup name = none)
    (ho : ∀ fn, d.origin = some fn → isOriginBuiltin fn.name = true ∧
      FitsAll Γ fn.args (builtinParams fn.name) ∧
      (builtinReturn fn.name = "any" ∨ builtinReturn fn.name = ty)) :
    ∃ st', checkVarDecl st d = .ok st' ∧ errorCount st'.diags = errorCount st.diags ∧
      vd_EnvOk (Γ ++ [(name, ty)]) st' := by
  have tail : ∀ st3, vd_W st st3 →
      ∃ st', (match d.name with
        | some (r, name) =>
          if st3.declared.any (fun p => p.1 == name) then
            Outcome.ok (st3.push r (.duplicateVariable name))
          else .ok { st3 with declared := st3.declared ++ [(name, d)],
                              unused := st3.unused ++ [(name, r)] }
        | none => .ok st3) = Outcome.ok st' ∧ errorCount st'.diags = errorCount st.diags ∧
        vd_EnvOk (Γ ++ [(name, ty)]) st' := by
    intro st3 w3
    have he3 := he.congr w3.1
    simp only [hn, he3.fresh name hfresh]
    exact ⟨_, rfl, w3.2, he3.declare ht hall rfl⟩
  rw [sd_checkVarDecl_eq]
  unfold sd_declTail
  simp only [ht, hall, if_true]
  cases hor : d.origin with
  | none => exact tail st (vd_W.refl _)
  | some fn =>
    obtain ⟨hob, hf, hr⟩ := ho fn hor
    obtain ⟨st3, h3, w3⟩ := vd_checkVarOrigin he.allowed st he.look fn d hn ht hob hf hr
    simp only [h3]
    exact tail st3 w3

theorem vd_checkVarDecls : ∀ (ds : List VarDecl) (Γ : TyEnv) (st : CState), ValidDecls Γ ds →
    vd_EnvOk Γ st →
    ∃ st', checkVarDecls st ds = .ok st' ∧ errorCount st'.diags = errorCount st.diags ∧
      vd_EnvOk (Γ ++ envOfDecls ds) st'
  | [], Γ, st, _, he => ⟨st, rfl, rfl, by simpa [envOfDecls] using he⟩
  | d :: ds, Γ, st, hv, he => by
      simp only [ValidDecls] at hv
      split at hv
      · rename_i rn name rt ty hn ht
        obtain ⟨hall, hfresh, ho, hrest⟩ := hv
        obtain ⟨st1, h1, e1, he1⟩ := vd_checkVarDecl he d hn ht hall hfresh (by
          intro fn hfn
          rw [hfn] at ho
          exact ho)
        obtain ⟨st2, h2, e2, he2⟩ := vd_checkVarDecls ds _ st1 hrest he1
        simp only [checkVarDecls, h1]
        refine ⟨st2, h2, e2.trans e1, ?_⟩
        simp only [envOfDecls, hn, ht]
        rw [← List.append_assoc]
        exact he2
      · exact hv.elim

end NS
