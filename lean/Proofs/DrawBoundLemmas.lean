/-
  Proofs/DrawBoundLemmas.lean — helper lemmas for Properties/DrawBounds.lean
  (what a draw can take from an account: C01, C02, C03).
-/
import Spec.Draw
import Proofs.AllotLemmas

namespace NS

/-! ## `pulled`, `sumPulls`, `nonzero` -/

theorem pulled_append' (l1 l2 : Pulls) (a : String) :
    pulled (l1 ++ l2) a = pulled l1 a + pulled l2 a := by
  induction l1 with
  | nil => simp [pulled]
  | cons p t ih =>
    obtain ⟨n, m⟩ := p
    simp only [List.cons_append, pulled, ih]
    omega

theorem sumPulls_append (l1 l2 : Pulls) : sumPulls (l1 ++ l2) = sumPulls l1 + sumPulls l2 := by
  induction l1 with
  | nil => simp [sumPulls]
  | cons p t ih =>
    obtain ⟨n, m⟩ := p
    simp only [List.cons_append, sumPulls, ih]
    omega

theorem pulled_nonneg_of (l : Pulls) (a : String) (h : ∀ p ∈ l, 0 ≤ p.2) : 0 ≤ pulled l a := by
  induction l with
  | nil => simp [pulled]
  | cons p t ih =>
    obtain ⟨n, m⟩ := p
    have hm : 0 ≤ m := h (n, m) (by simp)
    have ht := ih (fun q hq => h q (List.mem_cons_of_mem _ hq))
    simp only [pulled]
    split <;> omega

theorem sumPulls_nonneg_of (l : Pulls) (h : ∀ p ∈ l, 0 ≤ p.2) : 0 ≤ sumPulls l := by
  induction l with
  | nil => simp [sumPulls]
  | cons p t ih =>
    obtain ⟨n, m⟩ := p
    have hm : 0 ≤ m := h (n, m) (by simp)
    have ht := ih (fun q hq => h q (List.mem_cons_of_mem _ hq))
    simp only [sumPulls]
    omega

theorem mem_append_nonneg (l1 l2 : Pulls) (h1 : ∀ p ∈ l1, 0 ≤ p.2) (h2 : ∀ p ∈ l2, 0 ≤ p.2) :
    ∀ p ∈ l1 ++ l2, 0 ≤ p.2 := by
  intro p hp
  rcases List.mem_append.mp hp with h | h
  · exact h1 p h
  · exact h2 p h

theorem pulled_nonzero' (l : Pulls) (a : String) : pulled (nonzero l) a = pulled l a := by
  induction l with
  | nil => rfl
  | cons p t ih =>
    obtain ⟨n, m⟩ := p
    simp only [nonzero, List.filter_cons] at ih ⊢
    split
    · simp only [pulled, ih]
    · rename_i h
      have hm : m = 0 := by simpa using h
      subst hm
      simp only [pulled, ih]
      split <;> omega

theorem sumPulls_nonzero' (l : Pulls) : sumPulls (nonzero l) = sumPulls l := by
  induction l with
  | nil => rfl
  | cons p t ih =>
    obtain ⟨n, m⟩ := p
    simp only [nonzero, List.filter_cons] at ih ⊢
    split
    · simp only [sumPulls, ih]
    · rename_i h
      have hm : m = 0 := by simpa using h
      subst hm
      simp only [sumPulls, ih]
      omega

/-! ## `maxGrant` -/

theorem maxGrant_nonneg' (g : List Int) : 0 ≤ maxGrant g := by
  induction g with
  | nil => simp [maxGrant]
  | cons x t ih => simp only [maxGrant]; omega

theorem maxGrant_append (g1 g2 : List Int) :
    maxGrant (g1 ++ g2) = max (maxGrant g1) (maxGrant g2) := by
  induction g1 with
  | nil =>
    have := maxGrant_nonneg' g2
    simp only [List.nil_append, maxGrant]
    omega
  | cons x t ih =>
    simp only [List.cons_append, maxGrant, ih]
    omega

/-- the arithmetic step of the overdraft bound: a first draw takes `p1`, a later draw `p2`
    out of what is left -/
theorem pulled_bound_step (ava g1 g2 p1 p2 : Int)
    (h0 : 0 ≤ p1) (h1 : p1 ≤ max 0 (ava + g1)) (h2 : p2 ≤ max 0 (ava - p1 + g2)) :
    p1 + p2 ≤ max 0 (ava + max g1 g2) := by
  have := h0
  omega

/-! ## shares of an allotment are non-negative -/

theorem int_list_sum_nonneg (xs : List Int) (h : ∀ x ∈ xs, 0 ≤ x) : 0 ≤ xs.sum := by
  induction xs with
  | nil => simp
  | cons x t ih =>
    have hx := h x (by simp)
    have ht := ih (fun y hy => h y (List.mem_cons_of_mem _ hy))
    simp only [List.sum_cons]
    omega

theorem bump_nonneg (xs : List Int) (l : Int) (h : ∀ x ∈ xs, 0 ≤ x) : ∀ x ∈ bump xs l, 0 ≤ x := by
  induction xs generalizing l with
  | nil => simp [bump]
  | cons y t ih =>
    have hy := h y (by simp)
    have ht := fun l => ih l (fun z hz => h z (List.mem_cons_of_mem _ hz))
    unfold bump
    split
    · exact h
    · intro x hx
      rcases List.mem_cons.mp hx with rfl | hx
      · omega
      · exact ht _ x hx

theorem allotParts_nonneg (n : Int) (ps : List Rat) (hn : 0 ≤ n) (hp : ∀ p ∈ ps, 0 ≤ p) :
    ∀ x ∈ allotParts n ps, 0 ≤ x := by
  unfold allotParts
  apply bump_nonneg
  intro x hx
  rcases List.mem_map.mp hx with ⟨p, hpm, rfl⟩
  exact floorShare_nonneg n p hn (hp p hpm)

/-! ## only named accounts are pulled from -/

theorem grantsOfList_cons_nil {a : String} {s : RSource} {ss : List RSource}
    (h : grantsOfList a (s :: ss) = []) : grantsOf a s = [] ∧ grantsOfList a ss = [] := by
  rw [grantsOfList] at h
  exact List.append_eq_nil_iff.mp h

theorem unbInList_cons_false {a : String} {s : RSource} {ss : List RSource}
    (h : unbInList a (s :: ss) = false) : unbIn a s = false ∧ unbInList a ss = false := by
  rw [unbInList] at h
  exact Bool.or_eq_false_iff.mp h

mutual
  theorem draw_absent (asset : String) (a : String) : ∀ (r : RSource) (av : Avail) (need : Int)
      (l : Pulls), grantsOf a r = [] → unbIn a r = false → draw asset r av need = .ok l →
      pulled l a = 0
    | .acct b od, av, need, l, hg, _, h => by
        simp only [draw, Outcome.ok.injEq] at h
        subst h
        have hb : ¬ b = a := by
          intro hb
          simp [grantsOf, hb] at hg
        simp [pulled, hb]
    | .unb b, av, need, l, _, hu, h => by
        simp only [draw, Outcome.ok.injEq] at h
        subst h
        have hb : ¬ b = a := by simpa [unbIn] using hu
        simp [pulled, hb]
    | .capped cap s, av, need, l, hg, hu, h => by
        rw [draw] at h
        rw [grantsOf] at hg
        rw [unbIn] at hu
        exact draw_absent asset a s av _ l hg hu h
    | .inorder ss, av, need, l, hg, hu, h => by
        rw [draw] at h
        rw [grantsOf] at hg
        rw [unbIn] at hu
        exact drawList_absent asset a ss av need l hg hu h
    | .allot qs subs, av, need, l, hg, hu, h => by
        rw [draw] at h
        rw [grantsOf] at hg
        rw [unbIn] at hu
        split at h
        · cases h
        · cases h
        · exact drawAllot_absent asset a subs _ av l hg hu h

  theorem drawList_absent (asset : String) (a : String) : ∀ (rs : List RSource) (av : Avail)
      (need : Int) (l : Pulls), grantsOfList a rs = [] → unbInList a rs = false →
      drawList asset rs av need = .ok l → pulled l a = 0
    | [], av, need, l, _, _, h => by
        simp only [drawList, Outcome.ok.injEq] at h
        subst h
        rfl
    | s :: ss, av, need, l, hg, hu, h => by
        rw [drawList] at h
        have hg' := grantsOfList_cons_nil hg
        have hu' := unbInList_cons_false hu
        split at h
        · cases h
        · cases h
        · rename_i l1 h1
          split at h
          · cases h
          · cases h
          · rename_i l2 h2
            injection h with h
            subst h
            rw [pulled_append', draw_absent asset a s av need l1 hg'.1 hu'.1 h1,
              drawList_absent asset a ss _ _ l2 hg'.2 hu'.2 h2]
            rfl

  theorem drawAllot_absent (asset : String) (a : String) : ∀ (rs : List RSource) (parts : List Int)
      (av : Avail) (l : Pulls), grantsOfList a rs = [] → unbInList a rs = false →
      drawAllot asset rs parts av = .ok l → pulled l a = 0
    | [], parts, av, l, _, _, h => by
        simp only [drawAllot, Outcome.ok.injEq] at h
        subst h
        rfl
    | _ :: _, [], av, l, _, _, h => by
        simp [drawAllot] at h
    | s :: ss, p :: ps, av, l, hg, hu, h => by
        rw [drawAllot] at h
        have hg' := grantsOfList_cons_nil hg
        have hu' := unbInList_cons_false hu
        split at h
        · cases h
        · cases h
        · rename_i l1 h1
          split at h
          · split at h
            · cases h
            · cases h
            · rename_i l2 h2
              injection h with h
              subst h
              rw [pulled_append', draw_absent asset a s av p l1 hg'.1 hu'.1 h1,
                drawAllot_absent asset a ss ps _ l2 hg'.2 hu'.2 h2]
              rfl
          · cases h
end

mutual
  theorem drawAll_absent (asset : String) (a : String) : ∀ (r : RSource) (av : Avail)
      (l : Pulls), grantsOf a r = [] → unbIn a r = false → drawAll asset r av = .ok l →
      pulled l a = 0
    | .acct b od, av, l, hg, _, h => by
        simp only [drawAll, Outcome.ok.injEq] at h
        subst h
        have hb : ¬ b = a := by
          intro hb
          simp [grantsOf, hb] at hg
        simp [pulled, hb]
    | .unb b, av, l, _, _, h => by
        simp [drawAll] at h
    | .capped cap s, av, l, hg, hu, h => by
        rw [drawAll] at h
        rw [grantsOf] at hg
        rw [unbIn] at hu
        exact draw_absent asset a s av _ l hg hu h
    | .inorder ss, av, l, hg, hu, h => by
        rw [drawAll] at h
        rw [grantsOf] at hg
        rw [unbIn] at hu
        exact drawAllList_absent asset a ss av l hg hu h
    | .allot qs subs, av, l, _, _, h => by
        simp [drawAll] at h

  theorem drawAllList_absent (asset : String) (a : String) : ∀ (rs : List RSource) (av : Avail)
      (l : Pulls), grantsOfList a rs = [] → unbInList a rs = false →
      drawAllList asset rs av = .ok l → pulled l a = 0
    | [], av, l, _, _, h => by
        simp only [drawAllList, Outcome.ok.injEq] at h
        subst h
        rfl
    | s :: ss, av, l, hg, hu, h => by
        rw [drawAllList] at h
        have hg' := grantsOfList_cons_nil hg
        have hu' := unbInList_cons_false hu
        split at h
        · cases h
        · cases h
        · rename_i l1 h1
          split at h
          · cases h
          · cases h
          · rename_i l2 h2
            injection h with h
            subst h
            rw [pulled_append', drawAll_absent asset a s av l1 hg'.1 hu'.1 h1,
              drawAllList_absent asset a ss _ l2 hg'.2 hu'.2 h2]
            rfl
end

end NS
