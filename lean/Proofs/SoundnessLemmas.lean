/-
  Proofs/SoundnessLemmas.lean — helper lemmas for property C17: a clean static check excludes
  static-class failures at run time.
-/
import Spec.Typing
import Proofs.NoPanicLemmas

namespace NS

/-! ## typed errors of an outcome -/

/-- every typed error of the outcome satisfies `P` -/
def sd_ErrIn {α : Type} (P : Err → Prop) (o : Outcome α) : Prop := ∀ e, o = .err e → P e

theorem sd_ei_ok {α} (P : Err → Prop) (a : α) : sd_ErrIn P (Outcome.ok a) := by intro e h; cases h
theorem sd_ei_panic {α} (P : Err → Prop) (s : String) : sd_ErrIn P (Outcome.panic s : Outcome α) := by
  intro e h; cases h
theorem sd_ei_err {α} {P : Err → Prop} {e : Err} (h : P e) : sd_ErrIn P (Outcome.err e : Outcome α) := by
  intro e' h'; cases h'; exact h
theorem sd_ei_of_eq_err {α β} {P : Err → Prop} {x : Outcome α} {e : Err} (h : sd_ErrIn P x)
    (he : x = .err e) : sd_ErrIn P (Outcome.err e : Outcome β) := sd_ei_err (h e he)
theorem sd_ei_bind {α β} {P : Err → Prop} {x : Outcome α} {f : α → Outcome β}
    (hx : sd_ErrIn P x) (hf : ∀ a, x = .ok a → sd_ErrIn P (f a)) : sd_ErrIn P (x >>= f) := by
  cases x with
  | ok a => exact hf a rfl
  | err e => exact sd_ei_err (hx e rfl)
  | panic s => exact sd_ei_panic _ _
theorem sd_ei_mono {α} {P Q : Err → Prop} {o : Outcome α} (h : sd_ErrIn P o) (hpq : ∀ e, P e → Q e) :
    sd_ErrIn Q o := fun e he => hpq e (h e he)

/-- no typed error of the outcome is in the static class -/
abbrev sd_NoStatic {α : Type} (o : Outcome α) : Prop := sd_ErrIn (fun e => e.isStaticClass = false) o

/-- no typed error of the outcome is a send-all shape error -/
abbrev sd_NoShape {α : Type} (o : Outcome α) : Prop := sd_ErrIn (fun e => e.isSendAllShape = false) o

theorem sd_noStaticFailure_iff {α} (o : Outcome α) : o.noStaticFailure ↔ NoPanic o ∧ sd_NoStatic o := by
  cases o with
  | ok a => simp [Outcome.noStaticFailure, sd_ei_ok]
  | err e =>
    simp only [Outcome.noStaticFailure, np_err, true_and]
    exact ⟨fun h => sd_ei_err h, fun h => h e rfl⟩
  | panic s => simp [Outcome.noStaticFailure]

macro "sd_ei_close" : tactic =>
  `(tactic| first | assumption | (with_reducible apply_assumption <;> assumption) | (simp [*]; done))

/-- walk through a cascade of matches on outcomes: an error branch is covered by an `sd_ErrIn` fact
    of the context, a literal error by computation -/
macro "sd_ei_walk" : tactic =>
  `(tactic| repeat' (first
      | exact sd_ei_ok _ _
      | exact sd_ei_panic _ _
      | (refine sd_ei_err ?_; first | rfl | (simp [Err.isStaticClass, Err.isSendAllShape]; done))
      | assumption
      | (refine sd_ei_of_eq_err ?_ ‹_ = Outcome.err _›; sd_ei_close)
      | (with_reducible apply_assumption <;> assumption)
      | split
      | dsimp only))

/-! ## severities and error counts -/

theorem sd_sev_typeMismatch (a b : String) : (DiagKind.typeMismatch a b).severity = 1 := by
  simp [DiagKind.severity, DiagKind.name, severityTable]
theorem sd_sev_unboundVariable (a : String) : (DiagKind.unboundVariable a).severity = 1 := by
  simp [DiagKind.severity, DiagKind.name, severityTable]
theorem sd_sev_invalidType (a : String) : (DiagKind.invalidType a).severity = 1 := by
  simp [DiagKind.severity, DiagKind.name, severityTable]
theorem sd_sev_unknownFunction (a : String) : (DiagKind.unknownFunction a).severity = 1 := by
  simp [DiagKind.severity, DiagKind.name, severityTable]
theorem sd_sev_badArity (a b : Nat) : (DiagKind.badArity a b).severity = 1 := by
  simp [DiagKind.severity, DiagKind.name, severityTable]
theorem sd_sev_duplicateVariable (a : String) : (DiagKind.duplicateVariable a).severity = 1 := by
  simp [DiagKind.severity, DiagKind.name, severityTable]
theorem sd_sev_divByZero : DiagKind.divByZero.severity = 1 := by
  simp [DiagKind.severity, DiagKind.name, severityTable]
theorem sd_sev_unusedVar (a : String) : (DiagKind.unusedVar a).severity = 2 := by
  simp [DiagKind.severity, DiagKind.name, severityTable]

theorem sd_errorCount_append (l1 l2 : List Diag) :
    errorCount (l1 ++ l2) = errorCount l1 + errorCount l2 := by
  simp [errorCount]

theorem sd_errorCount_push (st : CState) (r : Range) (k : DiagKind) :
    errorCount (st.push r k).diags = errorCount st.diags + (if k.severity = 1 then 1 else 0) := by
  simp only [CState.push, sd_errorCount_append]
  by_cases h : k.severity = 1 <;> simp [errorCount, h]

/-! ## what the checker leaves unchanged -/

/-- diagnostics are only appended; declarations and resolved functions are untouched -/
structure sd_Ext (st st' : CState) : Prop where
  diags : ∃ l, st'.diags = st.diags ++ l
  declared : st'.declared = st.declared
  fnRes : st'.fnRes = st.fnRes

/-- `sd_Ext`, and the send-all flag is untouched -/
def sd_Frame (st st' : CState) : Prop := sd_Ext st st' ∧ st'.unboundedSend = st.unboundedSend

theorem sd_Ext.refl (st : CState) : sd_Ext st st := ⟨⟨[], by simp⟩, rfl, rfl⟩
theorem sd_Ext.trans {a b c : CState} (h1 : sd_Ext a b) (h2 : sd_Ext b c) : sd_Ext a c := by
  obtain ⟨⟨l1, e1⟩, d1, f1⟩ := h1
  obtain ⟨⟨l2, e2⟩, d2, f2⟩ := h2
  exact ⟨⟨l1 ++ l2, by rw [e2, e1, List.append_assoc]⟩, d2.trans d1, f2.trans f1⟩
theorem sd_Ext.push (st : CState) (r : Range) (k : DiagKind) : sd_Ext st (st.push r k) :=
  ⟨⟨[⟨r, k⟩], rfl⟩, rfl, rfl⟩
theorem sd_Ext.mono {a b : CState} (h : sd_Ext a b) : errorCount a.diags ≤ errorCount b.diags := by
  obtain ⟨⟨l, e⟩, _, _⟩ := h
  rw [e, sd_errorCount_append]; omega
theorem sd_Ext.silent {a b : CState} (h : sd_Ext a b) (hb : b.diags = []) : a.diags = [] := by
  obtain ⟨⟨l, e⟩, _, _⟩ := h
  rw [hb] at e
  exact (List.append_eq_nil_iff.mp e.symm).1

theorem sd_Frame.refl (st : CState) : sd_Frame st st := ⟨sd_Ext.refl st, rfl⟩
theorem sd_Frame.trans {a b c : CState} (h1 : sd_Frame a b) (h2 : sd_Frame b c) : sd_Frame a c :=
  ⟨h1.1.trans h2.1, h2.2.trans h1.2⟩
theorem sd_Frame.push (st : CState) (r : Range) (k : DiagKind) : sd_Frame st (st.push r k) :=
  ⟨sd_Ext.push st r k, rfl⟩
theorem sd_Frame.mono {a b : CState} (h : sd_Frame a b) : errorCount a.diags ≤ errorCount b.diags :=
  h.1.mono
theorem sd_Frame.declared {a b : CState} (h : sd_Frame a b) : b.declared = a.declared := h.1.declared
theorem sd_Frame.fnRes {a b : CState} (h : sd_Frame a b) : b.fnRes = a.fnRes := h.1.fnRes
theorem sd_Frame.silent {a b : CState} (h : sd_Frame a b) (hb : b.diags = []) : a.diags = [] :=
  h.1.silent hb

theorem sd_Frame.of_ext {a b : CState} (h1 : ∃ l, b.diags = a.diags ++ l) (h2 : b.declared = a.declared)
    (h3 : b.fnRes = a.fnRes) (h4 : b.unboundedSend = a.unboundedSend) : sd_Frame a b :=
  ⟨⟨h1, h2, h3⟩, h4⟩
theorem sd_Frame.of_eq {a b : CState} (h1 : b.diags = a.diags) (h2 : b.declared = a.declared)
    (h3 : b.fnRes = a.fnRes) (h4 : b.unboundedSend = a.unboundedSend) : sd_Frame a b :=
  ⟨⟨⟨[], by simp [h1]⟩, h2, h3⟩, h4⟩

theorem sd_assertHasType_frame {st st' : CState} {lr : Option Range} {req act : String}
    (h : assertHasType st lr req act = .ok st') : sd_Frame st st' := by
  unfold assertHasType at h
  split at h
  · cases h; exact sd_Frame.refl _
  · split at h
    · cases h
    · cases h; exact sd_Frame.push _ _ _

theorem sd_assertHasType_clean {st st' : CState} {lr : Option Range} {req act : String}
    (h : assertHasType st lr req act = .ok st') (hc : NoNewErrors st st') :
    req = "any" ∨ req = act := by
  unfold assertHasType at h
  split at h
  · assumption
  · split at h
    · cases h
    · cases h
      unfold NoNewErrors at hc
      rw [sd_errorCount_push, sd_sev_typeMismatch] at hc
      simp at hc

theorem sd_checkRatioLiteral_frame (st : CState) (r : Range) (den : Nat) :
    sd_Frame st (checkRatioLiteral st r den).1 := by
  unfold checkRatioLiteral
  split
  · exact sd_Frame.push _ _ _
  · exact sd_Frame.refl _

theorem sd_checkRatioLiteral_clean {st : CState} {r : Range} {den : Nat}
    (hc : NoNewErrors st (checkRatioLiteral st r den).1) : den ≠ 0 := by
  unfold checkRatioLiteral at hc
  split at hc
  · unfold NoNewErrors at hc
    rw [sd_errorCount_push, sd_sev_divByZero] at hc
    simp at hc
  · assumption

theorem sd_checkExpression_frame : ∀ (e : Expr) (st st' : CState) (τ : String),
    checkExpression st e τ = .ok st' → sd_Frame st st'
  | .nil, st, st', τ, h => by
      simp only [checkExpression] at h; cases h; exact sd_Frame.refl _
  | .monetaryNil, st, st', τ, h => by
      simp only [checkExpression] at h
      split at h <;> cases h
  | .var r name, st, st', τ, h => by
      simp only [checkExpression] at h
      cases hl : lookupDecl st name with
      | none =>
        simp only [hl] at h
        cases h
        exact sd_Frame.of_ext ⟨[⟨r, .unboundVariable name⟩], rfl⟩ rfl rfl rfl
      | some d =>
        simp only [hl] at h
        split at h
        · cases h; exact sd_Frame.of_eq rfl rfl rfl rfl
        · split at h
          · have h2 := sd_assertHasType_frame h
            refine sd_Frame.trans ?_ h2
            exact sd_Frame.of_eq rfl rfl rfl rfl
          · cases h; exact sd_Frame.of_eq rfl rfl rfl rfl
  | .monetary r a n, st, st', τ, h => by
      simp only [checkExpression] at h
      split at h
      · cases h
      · cases h
      · rename_i st1 h1
        split at h
        · cases h
        · cases h
        · rename_i st2 h2
          exact ((sd_assertHasType_frame h1).trans (sd_checkExpression_frame a _ _ _ h2)).trans
            (sd_checkExpression_frame n _ _ _ h)
  | .account r _, st, st', τ, h => by
      simp only [checkExpression] at h; exact sd_assertHasType_frame h
  | .ratio r _ den, st, st', τ, h => by
      simp only [checkExpression] at h
      exact (sd_checkRatioLiteral_frame st r den).trans (sd_assertHasType_frame h)
  | .asset r _, st, st', τ, h => by
      simp only [checkExpression] at h; exact sd_assertHasType_frame h
  | .number r _, st, st', τ, h => by
      simp only [checkExpression] at h; exact sd_assertHasType_frame h
  | .str r _, st, st', τ, h => by
      simp only [checkExpression] at h; exact sd_assertHasType_frame h
  | .infix _ _ l rgt, st, st', τ, h => by
      simp only [checkExpression] at h
      split at h
      · split at h
        · cases h
        · cases h
        · rename_i st1 h1
          exact (sd_checkExpression_frame l _ _ _ h1).trans (sd_checkExpression_frame rgt _ _ _ h)
      · split at h
        · split at h
          · cases h
          · cases h
          · rename_i st1 h1
            split at h
            · cases h
            · cases h
            · rename_i st2 h2
              exact ((sd_checkExpression_frame l _ _ _ h1).trans
                (sd_checkExpression_frame rgt _ _ _ h2)).trans (sd_assertHasType_frame h)
        · split at h
          · cases h
          · cases h
          · rename_i st1 h1
            split at h
            · cases h
            · cases h
            · rename_i st2 h2
              have h12 := (sd_checkExpression_frame l _ _ _ h1).trans
                (sd_checkExpression_frame rgt _ _ _ h2)
              split at h
              · cases h; exact h12
              · exact h12.trans (sd_assertHasType_frame h)

/-- every declaration carries a valid type -/
def sd_DeclsTyped (st : CState) : Prop :=
  ∀ name d, lookupDecl st name = some d → ∃ r t, d.type = some (r, t) ∧ isTypeAllowed t = true

/-- the two facts about the environment that only depend on the declarations -/
def sd_Good (st : CState) (vars : Vars) : Prop := EnvAgrees st vars ∧ sd_DeclsTyped st

theorem sd_lookupDecl_congr {st st' : CState} (h : st'.declared = st.declared) (name : String) :
    lookupDecl st' name = lookupDecl st name := by
  unfold lookupDecl; rw [h]

theorem sd_Good.congr {st st' : CState} {vars : Vars} (h : st'.declared = st.declared)
    (hg : sd_Good st vars) : sd_Good st' vars := by
  constructor
  · intro name d r t h1 h2 h3
    rw [sd_lookupDecl_congr h] at h1
    exact hg.1 name d r t h1 h2 h3
  · intro name d h1
    rw [sd_lookupDecl_congr h] at h1
    exact hg.2 name d h1

theorem sd_Good.frame {st st' : CState} {vars : Vars} (h : sd_Frame st st')
    (hg : sd_Good st vars) : sd_Good st' vars := hg.congr h.declared

/-- the conclusion of expression soundness -/
def sd_ExprOk (vars : Vars) (e : Expr) (τ : String) : Prop :=
  match evalExpr vars e with
  | .ok v => τ = "any" ∨ v.typeName = τ
  | .err err => err.isStaticClass = false
  | .panic _ => False

theorem sd_ExprOk.weaken {vars : Vars} {e : Expr} {T τ : String} (h : sd_ExprOk vars e T)
    (hτ : τ = "any" ∨ τ = T) : sd_ExprOk vars e τ := by
  unfold sd_ExprOk at *
  split
  · rename_i v hv
    rw [hv] at h
    dsimp only at h
    rcases hτ with h1 | h1
    · exact Or.inl h1
    · subst h1; exact h
  · rename_i er hv; rw [hv] at h; exact h
  · rename_i s hv; rw [hv] at h; exact h

theorem sd_typeName_number {v : Value} (h : v.typeName = "number") : ∃ n, v = .number n := by
  cases v <;> simp [Value.typeName] at h; exact ⟨_, rfl⟩
theorem sd_typeName_monetary {v : Value} (h : v.typeName = "monetary") : ∃ a n, v = .monetary a n := by
  cases v <;> simp [Value.typeName] at h; exact ⟨_, _, rfl⟩
theorem sd_typeName_asset {v : Value} (h : v.typeName = "asset") : ∃ s, v = .asset s := by
  cases v <;> simp [Value.typeName] at h; exact ⟨_, rfl⟩
theorem sd_typeName_account {v : Value} (h : v.typeName = "account") : ∃ s, v = .account s := by
  cases v <;> simp [Value.typeName] at h; exact ⟨_, rfl⟩
theorem sd_typeName_string {v : Value} (h : v.typeName = "string") : ∃ s, v = .str s := by
  cases v <;> simp [Value.typeName] at h; exact ⟨_, rfl⟩
theorem sd_typeName_portion {v : Value} (h : v.typeName = "portion") : ∃ q, v = .portion q := by
  cases v <;> simp [Value.typeName] at h; exact ⟨_, rfl⟩

theorem sd_infix_eval (vars : Vars) (rr : Range) (op : InfixOp) (l r : Expr) (T : String)
    (hT : T = "number" ∨ T = "monetary") (hl : sd_ExprOk vars l T) (hr : sd_ExprOk vars r T) :
    sd_ExprOk vars (.infix rr op l r) T := by
  unfold sd_ExprOk at *
  simp only [evalExpr]
  cases h1 : evalExpr vars l with
  | panic s => rw [h1] at hl; exact hl.elim
  | err e => rw [h1] at hl; simpa using hl
  | ok v1 =>
    rw [h1] at hl
    dsimp only at hl
    cases h2 : evalExpr vars r with
    | panic s => rw [h2] at hr; exact hr.elim
    | err e =>
      rw [h2] at hr
      rcases hT with rfl | rfl
      · have := hl.resolve_left (by decide)
        obtain ⟨n, rfl⟩ := sd_typeName_number this
        simpa using hr
      · have := hl.resolve_left (by decide)
        obtain ⟨a, n, rfl⟩ := sd_typeName_monetary this
        simpa using hr
    | ok v2 =>
      rw [h2] at hr
      dsimp only at hr
      rcases hT with rfl | rfl
      · obtain ⟨n1, rfl⟩ := sd_typeName_number (hl.resolve_left (by decide))
        obtain ⟨n2, rfl⟩ := sd_typeName_number (hr.resolve_left (by decide))
        simp [expectNumber, Value.typeName]
      · obtain ⟨a1, n1, rfl⟩ := sd_typeName_monetary (hl.resolve_left (by decide))
        obtain ⟨a2, n2, rfl⟩ := sd_typeName_monetary (hr.resolve_left (by decide))
        simp only [expectMonetary]
        by_cases ha : a1 = a2 <;> simp [ha, Value.typeName, Err.isStaticClass]

theorem sd_allowed_ne_empty {t : String} (h : isTypeAllowed t = true) : t ≠ "" := by
  rintro rfl; simp [isTypeAllowed, allowedTypes] at h
theorem sd_allowed_ne_mn {t : String} (h : isTypeAllowed t = true) : "monetary|number" ≠ t := by
  rintro rfl; simp [isTypeAllowed, allowedTypes] at h
theorem sd_allowed_ne_any {t : String} (h : isTypeAllowed t = true) : t ≠ "any" := by
  rintro rfl; simp [isTypeAllowed, allowedTypes] at h

theorem sd_push_not_clean {st : CState} {r : Range} {k : DiagKind} (hk : k.severity = 1)
    (h : NoNewErrors st (st.push r k)) : False := by
  unfold NoNewErrors at h
  rw [sd_errorCount_push, hk] at h
  simp at h

/-- the first thing `checkExpression` does on an infix is to check the left operand -/
theorem sd_infix_left {st st' : CState} {rr : Range} {op : InfixOp} {l r : Expr} {τ : String}
    (h : checkExpression st (.infix rr op l r) τ = .ok st') (hclean : NoNewErrors st st') :
    ∃ τ' st1, checkExpression st l τ' = .ok st1 ∧ NoNewErrors st st1 := by
  have hf := sd_checkExpression_frame _ _ _ _ h
  simp only [checkExpression] at h
  unfold NoNewErrors at *
  split at h
  · split at h
    · cases h
    · cases h
    · rename_i st1 h1
      have m1 := (sd_checkExpression_frame _ _ _ _ h1).mono
      have m2 := (sd_checkExpression_frame _ _ _ _ h).mono
      exact ⟨_, _, h1, by omega⟩
  · split at h
    · split at h
      · cases h
      · cases h
      · rename_i st1 h1
        split at h
        · cases h
        · cases h
        · rename_i st2 h2
          have m1 := (sd_checkExpression_frame _ _ _ _ h1).mono
          have m2 := (sd_checkExpression_frame _ _ _ _ h2).mono
          have m3 := (sd_assertHasType_frame h).mono
          exact ⟨_, _, h1, by omega⟩
    · split at h
      · cases h
      · cases h
      · rename_i st1 h1
        split at h
        · cases h
        · cases h
        · rename_i st2 h2
          have m1 := (sd_checkExpression_frame _ _ _ _ h1).mono
          have m2 := (sd_checkExpression_frame _ _ _ _ h2).mono
          refine ⟨_, _, h1, ?_⟩
          split at h
          · cases h; omega
          · have m3 := (sd_assertHasType_frame h).mono
            omega

theorem sd_var_declared {st st' : CState} {r : Range} {name : String} {τ : String}
    (h : checkExpression st (.var r name) τ = .ok st') (hclean : NoNewErrors st st') :
    ∃ d, lookupDecl st name = some d := by
  simp only [checkExpression] at h
  cases hl : lookupDecl st name with
  | some d => exact ⟨d, rfl⟩
  | none =>
    simp only [hl] at h
    cases h
    exact (sd_push_not_clean (st := st) (r := r) (sd_sev_unboundVariable name) hclean).elim

/-- a clean, complete expression has an inferred type, and it is a valid one -/
theorem sd_inferType_allowed : ∀ (e : Expr) (st st' : CState) (τ : String), e.Complete →
    checkExpression st e τ = .ok st' → NoNewErrors st st' → sd_DeclsTyped st →
    isTypeAllowed (inferType st e) = true
  | .nil, _, _, _, hc, _, _, _ => by simp [Expr.Complete] at hc
  | .monetaryNil, _, _, _, hc, _, _, _ => by simp [Expr.Complete] at hc
  | .var r name, st, st', τ, _, h, hclean, hd => by
      obtain ⟨d, hl⟩ := sd_var_declared h hclean
      obtain ⟨r', t, ht, hta⟩ := hd name d hl
      simp [inferType, hl, ht, hta]
  | .monetary _ _ _, _, _, _, _, _, _, _ => by simp [inferType, isTypeAllowed, allowedTypes]
  | .account _ _, _, _, _, _, _, _, _ => by simp [inferType, isTypeAllowed, allowedTypes]
  | .ratio _ _ _, _, _, _, _, _, _, _ => by simp [inferType, isTypeAllowed, allowedTypes]
  | .asset _ _, _, _, _, _, _, _, _ => by simp [inferType, isTypeAllowed, allowedTypes]
  | .number _ _, _, _, _, _, _, _, _ => by simp [inferType, isTypeAllowed, allowedTypes]
  | .str _ _, _, _, _, _, _, _, _ => by simp [inferType, isTypeAllowed, allowedTypes]
  | .infix _ _ l rgt, st, st', τ, hc, h, hclean, hd => by
      obtain ⟨τ', st1, h1, hc1⟩ := sd_infix_left h hclean
      simp only [inferType]
      exact sd_inferType_allowed l st st1 τ' hc.1 h1 hc1 hd

theorem sd_ExprOk_lit {vars : Vars} {e : Expr} {v : Value} {τ : String} {st st' : CState}
    {lr : Option Range} (hev : evalExpr vars e = .ok v)
    (h : assertHasType st lr τ v.typeName = .ok st') (hclean : NoNewErrors st st') :
    sd_ExprOk vars e τ := by
  unfold sd_ExprOk
  rw [hev]
  rcases sd_assertHasType_clean h hclean with h1 | h1
  · exact Or.inl h1
  · exact Or.inr h1.symm

theorem sd_checkExpression_sound : ∀ (e : Expr) (st st' : CState) (vars : Vars) (τ : String),
    e.Complete → checkExpression st e τ = .ok st' → NoNewErrors st st' → sd_Good st vars →
    sd_ExprOk vars e τ
  | .nil, _, _, _, _, hc, _, _, _ => by simp [Expr.Complete] at hc
  | .monetaryNil, _, _, _, _, hc, _, _, _ => by simp [Expr.Complete] at hc
  | .var r name, st, st', vars, τ, _, h, hclean, hg => by
      obtain ⟨d, hl⟩ := sd_var_declared h hclean
      obtain ⟨r', t, ht, hta⟩ := hg.2 name d hl
      obtain ⟨v, hv, hvt⟩ := hg.1 name d r' t hl ht hta
      simp only [checkExpression, hl, ht, hta, if_true] at h
      have := sd_assertHasType_clean h hclean
      unfold sd_ExprOk
      simp only [evalExpr, hv]
      rw [hvt]
      rcases this with h1 | h1
      · exact Or.inl h1
      · exact Or.inr h1.symm
  | .account r s, st, st', vars, τ, _, h, hclean, hg => by
      simp only [checkExpression] at h
      exact sd_ExprOk_lit (v := .account s) (by simp [evalExpr]) h hclean
  | .asset r s, st, st', vars, τ, _, h, hclean, hg => by
      simp only [checkExpression] at h
      exact sd_ExprOk_lit (v := .asset s) (by simp [evalExpr]) h hclean
  | .number r s, st, st', vars, τ, _, h, hclean, hg => by
      simp only [checkExpression] at h
      exact sd_ExprOk_lit (v := .number s) (by simp [evalExpr]) h hclean
  | .str r s, st, st', vars, τ, _, h, hclean, hg => by
      simp only [checkExpression] at h
      exact sd_ExprOk_lit (v := .str s) (by simp [evalExpr]) h hclean
  | .ratio r num den, st, st', vars, τ, _, h, hclean, hg => by
      simp only [checkExpression] at h
      have f1 := sd_checkRatioLiteral_frame st r den
      have f2 := sd_assertHasType_frame h
      have m1 := f1.mono
      have m2 := f2.mono
      have c1 : NoNewErrors st (checkRatioLiteral st r den).1 := by unfold NoNewErrors at *; omega
      have c2 : NoNewErrors (checkRatioLiteral st r den).1 st' := by unfold NoNewErrors at *; omega
      have hden := sd_checkRatioLiteral_clean c1
      exact sd_ExprOk_lit (v := .portion (mkRat num den)) (by simp [evalExpr, hden]) h c2
  | .monetary r a n, st, st', vars, τ, hc, h, hclean, hg => by
      simp only [checkExpression] at h
      split at h
      · cases h
      · cases h
      · rename_i st1 h1
        split at h
        · cases h
        · cases h
        · rename_i st2 h2
          have f1 := sd_assertHasType_frame h1
          have f2 := sd_checkExpression_frame _ _ _ _ h2
          have f3 := sd_checkExpression_frame _ _ _ _ h
          have m1 := f1.mono
          have m2 := f2.mono
          have m3 := f3.mono
          have c1 : NoNewErrors st st1 := by unfold NoNewErrors at *; omega
          have c2 : NoNewErrors st1 st2 := by unfold NoNewErrors at *; omega
          have c3 : NoNewErrors st2 st' := by unfold NoNewErrors at *; omega
          have iha := sd_checkExpression_sound a st1 st2 vars "asset" hc.1 h2 c2 (hg.frame f1)
          have ihn := sd_checkExpression_sound n st2 st' vars "number" hc.2 h c3
            (hg.frame (f1.trans f2))
          have hτ := sd_assertHasType_clean h1 c1
          unfold sd_ExprOk at *
          simp only [evalExpr]
          cases ha : evalExpr vars a with
          | panic s => rw [ha] at iha; exact iha.elim
          | err e => rw [ha] at iha; simpa using iha
          | ok va =>
            rw [ha] at iha
            obtain ⟨s, rfl⟩ := sd_typeName_asset (iha.resolve_left (by decide))
            cases hn : evalExpr vars n with
            | panic s => rw [hn] at ihn; exact ihn.elim
            | err e => rw [hn] at ihn; simpa [expectAsset] using ihn
            | ok vn =>
              rw [hn] at ihn
              obtain ⟨k, rfl⟩ := sd_typeName_number (ihn.resolve_left (by decide))
              simp only [expectAsset, expectNumber, Value.typeName]
              rcases hτ with h1 | h1
              · exact Or.inl h1
              · exact Or.inr h1.symm
  | .infix rr op l rgt, st, st', vars, τ, hc, h, hclean, hg => by
      have hinf := sd_inferType_allowed _ _ _ _ hc h hclean hg.2
      simp only [inferType] at hinf
      simp only [checkExpression] at h
      split at h
      · rename_i hτ
        split at h
        · cases h
        · cases h
        · rename_i st1 h1
          have f1 := sd_checkExpression_frame _ _ _ _ h1
          have f2 := sd_checkExpression_frame _ _ _ _ h
          have m1 := f1.mono
          have m2 := f2.mono
          have c1 : NoNewErrors st st1 := by unfold NoNewErrors at *; omega
          have c2 : NoNewErrors st1 st' := by unfold NoNewErrors at *; omega
          exact sd_infix_eval vars rr op l rgt τ hτ
            (sd_checkExpression_sound l st st1 vars τ hc.1 h1 c1 hg)
            (sd_checkExpression_sound rgt st1 st' vars τ hc.2 h c2 (hg.frame f1))
      · split at h
        · rename_i hT
          split at h
          · cases h
          · cases h
          · rename_i st1 h1
            split at h
            · cases h
            · cases h
            · rename_i st2 h2
              have f1 := sd_checkExpression_frame _ _ _ _ h1
              have f2 := sd_checkExpression_frame _ _ _ _ h2
              have f3 := sd_assertHasType_frame h
              have m1 := f1.mono
              have m2 := f2.mono
              have m3 := f3.mono
              have c1 : NoNewErrors st st1 := by unfold NoNewErrors at *; omega
              have c2 : NoNewErrors st1 st2 := by unfold NoNewErrors at *; omega
              have c3 : NoNewErrors st2 st' := by unfold NoNewErrors at *; omega
              exact (sd_infix_eval vars rr op l rgt _ hT
                (sd_checkExpression_sound l st st1 vars _ hc.1 h1 c1 hg)
                (sd_checkExpression_sound rgt st1 st2 vars _ hc.2 h2 c2 (hg.frame f1))).weaken
                (sd_assertHasType_clean h c3)
        · exfalso
          split at h
          · cases h
          · cases h
          · rename_i st1 h1
            split at h
            · cases h
            · cases h
            · rename_i st2 h2
              split at h
              · rename_i hempty
                exact sd_allowed_ne_empty hinf hempty
              · have f1 := sd_checkExpression_frame _ _ _ _ h1
                have f2 := sd_checkExpression_frame _ _ _ _ h2
                have f3 := sd_assertHasType_frame h
                have m1 := f1.mono
                have m2 := f2.mono
                have m3 := f3.mono
                have c3 : NoNewErrors st2 st' := by unfold NoNewErrors at *; omega
                rcases sd_assertHasType_clean h c3 with h4 | h4
                · exact absurd h4 (by decide)
                · exact sd_allowed_ne_mn hinf h4

/-! ## frames of the source and destination checkers -/

theorem sd_sourceHead_frame {st st' : CState} {src : Source} (h : sourceHead st src = .ok st') :
    sd_Frame st st' := by
  unfold sourceHead at h
  split at h
  · split at h
    · cases h; exact sd_Frame.push _ _ _
    · cases h
  · cases h; exact sd_Frame.refl _

theorem sd_checkOverdraftHead_frame {st st' : CState} {addr : Expr} {b : Option Expr}
    (h : checkOverdraftHead st addr b = .ok st') : sd_Frame st st' := by
  unfold checkOverdraftHead at h
  extract_lets isWorld st1 st2 at h
  have f1 : sd_Frame st st1 := by
    unfold st1
    split
    · split
      · exact sd_Frame.push _ _ _
      · exact sd_Frame.refl _
    · exact sd_Frame.refl _
  have f2 : sd_Frame st1 st2 := by
    unfold st2
    split
    · exact sd_Frame.of_eq rfl rfl rfl rfl
    · exact sd_Frame.refl _
  split at h
  · split at h
    · have h' := Outcome.ok.inj h
      subst h'
      exact (f1.trans f2).trans (sd_Frame.push _ _ _)
    · cases h
  · have h' := Outcome.ok.inj h
    subst h'
    exact f1.trans f2

theorem sd_checkSourceAccountLit_frame (st : CState) (e : Expr) :
    sd_Frame st (checkSourceAccountLit st e) := by
  unfold checkSourceAccountLit
  split
  · extract_lets isWorld st3 st4
    have f3 : sd_Frame st st3 := by
      unfold st3
      split
      · exact sd_Frame.push _ _ _
      · split
        · exact sd_Frame.of_eq rfl rfl rfl rfl
        · exact sd_Frame.refl _
    have f4 : sd_Frame st3 st4 := by
      unfold st4
      split
      · exact sd_Frame.push _ _ _
      · exact sd_Frame.refl _
    exact (f3.trans f4).trans (sd_Frame.of_eq rfl rfl rfl rfl)
  · exact sd_Frame.refl _

theorem sd_foldl_push_frame (f : Range → DiagKind) (l : List Range) (st : CState) :
    sd_Frame st (l.foldl (fun s r => s.push r (f r)) st) := by
  induction l generalizing st with
  | nil => exact sd_Frame.refl _
  | cons a l ih => exact (sd_Frame.push _ _ _).trans (ih _)

theorem sd_checkHasBad_frame (st : CState) (sum : Rat) (rng : Range) (rem : Option Range)
    (vl : List Range) : sd_Frame st (checkHasBadAllotmentSum st sum rng rem vl) := by
  unfold checkHasBadAllotmentSum
  have f0 := sd_foldl_push_frame (fun _ => .fixedPortionVariable 0) vl st
  split
  · dsimp only
    split
    · exact f0.trans (sd_Frame.push _ _ _)
    · exact f0
  · dsimp only
    split
    · exact sd_Frame.refl _
    · split
      · split
        · exact sd_Frame.push _ _ _
        · exact sd_Frame.refl _
      · exact sd_Frame.push _ _ _

theorem sd_checkAllotValue_frame {st st' : CState} {acc acc' : AllotAcc} {a : AllotVal} {l : Bool}
    {w : Range} (h : checkAllotValue st acc a l w = .ok (st', acc')) : sd_Frame st st' := by
  unfold checkAllotValue at h
  split at h
  · cases h; exact sd_Frame.refl _
  · split at h
    · cases h; exact sd_Frame.refl _
    · cases h; exact sd_Frame.push _ _ _
  · split at h
    · cases h
    · cases h
    · rename_i st1 h1
      cases h
      exact sd_checkExpression_frame _ _ _ _ h1
  · cases h
    exact sd_checkRatioLiteral_frame _ _ _
  · cases h; exact sd_Frame.refl _

theorem sd_capped_frame {st inner : CState} (h : sd_Frame (enterCapped st) inner) :
    sd_Frame st (exitCapped inner st) := by
  obtain ⟨⟨⟨l, e⟩, d, f⟩, _⟩ := h
  exact sd_Frame.of_ext ⟨l, e⟩ d f rfl

mutual
  theorem sd_checkSource_frame : ∀ (src : Source) (st st' : CState),
      checkSource st src = .ok st' → sd_Frame st st'
    | .nil, st, st', h => by
        simp only [checkSource] at h; cases h; exact sd_Frame.refl _
    | .account e, st, st', h => by
        simp only [checkSource] at h
        split at h
        · cases h
        · cases h
        · rename_i st1 h1
          split at h
          · cases h
          · cases h
          · rename_i st2 h2
            cases h
            exact ((sd_sourceHead_frame h1).trans (sd_checkExpression_frame _ _ _ _ h2)).trans
              (sd_checkSourceAccountLit_frame _ _)
    | .overdraft r addr bounded, st, st', h => by
        simp only [checkSource] at h
        split at h
        · cases h
        · cases h
        · rename_i st1 h1
          split at h
          · cases h
          · cases h
          · rename_i st2 h2
            split at h
            · cases h
            · cases h
            · rename_i st3 h3
              have f3 := ((sd_sourceHead_frame h1).trans (sd_checkOverdraftHead_frame h2)).trans
                (sd_checkExpression_frame _ _ _ _ h3)
              split at h
              · cases h; exact f3
              · exact f3.trans (sd_checkExpression_frame _ _ _ _ h)
    | .inorder r srcs, st, st', h => by
        simp only [checkSource] at h
        split at h
        · cases h
        · cases h
        · rename_i st1 h1
          exact (sd_sourceHead_frame h1).trans (sd_checkSourceList_frame srcs _ _ h)
    | .capped r cap src, st, st', h => by
        simp only [checkSource] at h
        split at h
        · cases h
        · cases h
        · rename_i st1 h1
          split at h
          · cases h
          · cases h
          · rename_i st2 h2
            split at h
            · cases h
            · cases h
            · rename_i st3 h3
              cases h
              exact (sd_sourceHead_frame h1).trans (sd_capped_frame
                ((sd_checkExpression_frame _ _ _ _ h2).trans (sd_checkSource_frame src _ _ h3)))
    | .allotment r items, st, st', h => by
        simp only [checkSource] at h
        split at h
        · cases h
        · cases h
        · rename_i st1 h1
          split at h
          · cases h
          · cases h
          · rename_i st2 acc h2
            cases h
            refine (sd_sourceHead_frame h1).trans (sd_Frame.trans ?_
              ((sd_checkSrcItems_frame items _ _ _ _ _ h2).trans (sd_checkHasBad_frame _ _ _ _ _)))
            split
            · exact sd_Frame.push _ _ _
            · exact sd_Frame.refl _

  theorem sd_checkSourceList_frame : ∀ (srcs : List Source) (st st' : CState),
      checkSourceList st srcs = .ok st' → sd_Frame st st'
    | [], st, st', h => by
        simp only [checkSourceList] at h; cases h; exact sd_Frame.refl _
    | s :: ss, st, st', h => by
        simp only [checkSourceList] at h
        split at h
        · cases h
        · cases h
        · rename_i st1 h1
          exact (sd_checkSource_frame s _ _ h1).trans (sd_checkSourceList_frame ss _ _ h)

  theorem sd_checkSrcItems_frame : ∀ (items : List SrcItem) (st st' : CState) (acc acc' : AllotAcc)
      (w : Range), checkSrcItems st items acc w = .ok (st', acc') → sd_Frame st st'
    | [], st, st', acc, acc', w, h => by
        simp only [checkSrcItems] at h; cases h; exact sd_Frame.refl _
    | (.mk _ a src) :: rest, st, st', acc, acc', w, h => by
        simp only [checkSrcItems] at h
        split at h
        · cases h
        · cases h
        · rename_i st1 acc1 h1
          split at h
          · cases h
          · cases h
          · rename_i st2 h2
            exact ((sd_checkAllotValue_frame h1).trans
              (sd_capped_frame (sd_checkSource_frame src _ _ h2))).trans
              (sd_checkSrcItems_frame rest _ _ _ _ _ h)
end

mutual
  theorem sd_checkDestination_frame : ∀ (d : Dest) (st st' : CState),
      checkDestination st d = .ok st' → sd_Frame st st'
    | .nil, st, st', h => by
        simp only [checkDestination] at h; cases h; exact sd_Frame.refl _
    | .account e, st, st', h => by
        simp only [checkDestination] at h
        exact sd_checkExpression_frame _ _ _ _ h
    | .inorder _ clauses remaining, st, st', h => by
        simp only [checkDestination] at h
        split at h
        · cases h
        · cases h
        · rename_i st1 h1
          exact (sd_checkClauses_frame clauses _ _ h1).trans (sd_checkKoD_frame remaining _ _ h)
    | .allotment r items, st, st', h => by
        simp only [checkDestination] at h
        split at h
        · cases h
        · cases h
        · rename_i st1 acc h1
          cases h
          exact (sd_checkDstItems_frame items _ _ _ _ _ h1).trans (sd_checkHasBad_frame _ _ _ _ _)

  theorem sd_checkKoD_frame : ∀ (k : KoD) (st st' : CState),
      checkKoD st k = .ok st' → sd_Frame st st'
    | .nil, st, st', h => by
        simp only [checkKoD] at h; cases h; exact sd_Frame.refl _
    | .kept _, st, st', h => by
        simp only [checkKoD] at h; cases h; exact sd_Frame.refl _
    | .to d, st, st', h => by
        simp only [checkKoD] at h
        exact sd_checkDestination_frame d _ _ h

  theorem sd_checkClauses_frame : ∀ (cs : List DestClause) (st st' : CState),
      checkClauses st cs = .ok st' → sd_Frame st st'
    | [], st, st', h => by
        simp only [checkClauses] at h; cases h; exact sd_Frame.refl _
    | (.mk _ cap kd) :: rest, st, st', h => by
        simp only [checkClauses] at h
        split at h
        · cases h
        · cases h
        · rename_i st1 h1
          split at h
          · cases h
          · cases h
          · rename_i st2 h2
            exact ((sd_checkExpression_frame _ _ _ _ h1).trans (sd_checkKoD_frame kd _ _ h2)).trans
              (sd_checkClauses_frame rest _ _ h)

  theorem sd_checkDstItems_frame : ∀ (items : List DestItem) (st st' : CState) (acc acc' : AllotAcc)
      (w : Range), checkDstItems st items acc w = .ok (st', acc') → sd_Frame st st'
    | [], st, st', acc, acc', w, h => by
        simp only [checkDstItems] at h; cases h; exact sd_Frame.refl _
    | (.mk _ a kd) :: rest, st, st', acc, acc', w, h => by
        simp only [checkDstItems] at h
        split at h
        · cases h
        · cases h
        · rename_i st1 acc1 h1
          split at h
          · cases h
          · cases h
          · rename_i st2 h2
            exact ((sd_checkAllotValue_frame h1).trans (sd_checkKoD_frame kd _ _ h2)).trans
              (sd_checkDstItems_frame rest _ _ _ _ _ h)
end

theorem sd_checkExpressions_frame : ∀ (l : List (Expr × String)) (st st' : CState),
    checkExpressions st l = .ok st' → sd_Frame st st'
  | [], st, st', h => by
      simp only [checkExpressions] at h; cases h; exact sd_Frame.refl _
  | (e, t) :: rest, st, st', h => by
      simp only [checkExpressions] at h
      split at h
      · cases h
      · cases h
      · rename_i st1 h1
        exact (sd_checkExpression_frame _ _ _ _ h1).trans (sd_checkExpressions_frame rest _ _ h)

theorem sd_checkSentValue_frame {sv : SentValue} {st st' : CState}
    (h : checkSentValue st sv = .ok st') : sd_Frame st st' := by
  cases sv with
  | nil => simp only [checkSentValue] at h; cases h; exact sd_Frame.refl _
  | lit r m => simp only [checkSentValue] at h; exact sd_checkExpression_frame _ _ _ _ h
  | all r a => simp only [checkSentValue] at h; exact sd_checkExpression_frame _ _ _ _ h

theorem sd_checkFnCallArity_frame {fn : FnCall} {st st' : CState}
    (h : checkFnCallArity st fn = .ok st') : sd_Frame st st' := by
  unfold checkFnCallArity at h
  extract_lets validArgs actual at h
  split at h
  · extract_lets sig expected st1 at h
    unfold st1 at h
    clear st1
    split at h
    · cases h
    · cases h
    · rename_i st2 h2
      refine sd_Frame.trans ?_ (sd_checkExpressions_frame _ _ _ h)
      split at h2
      · cases h2; exact sd_Frame.push _ _ _
      · split at h2
        · split at h2
          · split at h2
            · cases h2; exact sd_Frame.push _ _ _
            · cases h2
          · cases h2; exact sd_Frame.refl _
        · cases h2; exact sd_Frame.refl _
  · split at h
    · cases h
    · cases h
    · rename_i st1 h1
      cases h
      exact (sd_checkExpressions_frame _ _ _ h1).trans (sd_Frame.push _ _ _)

/-! ## parser invariants: the shape of allotment clauses -/

mutual
  def Source.ShapeOk : Source → Prop
    | .nil => True
    | .account _ => True
    | .overdraft _ _ _ => True
    | .inorder _ srcs => SourcesShapeOk srcs
    | .capped _ _ src => src.ShapeOk
    | .allotment _ items => SrcItemsShapeOk items
  def SourcesShapeOk : List Source → Prop
    | [] => True
    | s :: ss => s.ShapeOk ∧ SourcesShapeOk ss
  def SrcItemsShapeOk : List SrcItem → Prop
    | [] => True
    | (.mk _ a src) :: rest => a.ShapeOk ∧ src.ShapeOk ∧ SrcItemsShapeOk rest
end

mutual
  def Dest.ShapeOk : Dest → Prop
    | .nil => True
    | .account _ => True
    | .inorder _ clauses remaining => ClausesShapeOk clauses ∧ remaining.ShapeOk
    | .allotment _ items => DstItemsShapeOk items
  def KoD.ShapeOk : KoD → Prop
    | .nil => True
    | .kept _ => True
    | .to d => d.ShapeOk
  def ClausesShapeOk : List DestClause → Prop
    | [] => True
    | (.mk _ _ kd) :: rest => kd.ShapeOk ∧ ClausesShapeOk rest
  def DstItemsShapeOk : List DestItem → Prop
    | [] => True
    | (.mk _ a kd) :: rest => a.ShapeOk ∧ kd.ShapeOk ∧ DstItemsShapeOk rest
end

/-- every allotment clause of the statement is `remaining`, a portion literal or a variable -/
def Statement.ShapeOk : Statement → Prop
  | .send _ _ src dst => src.ShapeOk ∧ dst.ShapeOk
  | _ => True

/-! ## evaluation at an expected type -/

macro "sd_sq" : tactic => `(tactic| (simp only [NoNewErrors] at *; omega))

theorem sd_evalAs_sound {α : Type} {vars : Vars} {e : Expr} {τ : String} {st st' : CState}
    (expect : Value → Outcome α) (hc : e.Complete) (h : checkExpression st e τ = .ok st')
    (hclean : NoNewErrors st st') (hg : sd_Good st vars)
    (hex : ∀ v, (τ = "any" ∨ v.typeName = τ) → sd_NoStatic (expect v)) :
    sd_NoStatic (evalAs vars e expect) := by
  have := sd_checkExpression_sound e st st' vars τ hc h hclean hg
  unfold sd_ExprOk at this
  unfold evalAs
  cases hv : evalExpr vars e with
  | ok v => rw [hv] at this; simp only [Outcome.ok_bind]; exact hex v this
  | err er => rw [hv] at this; exact sd_ei_err this
  | panic s => exact sd_ei_panic _ _

theorem sd_ns_expectAccount {v : Value} (h : "account" = "any" ∨ v.typeName = "account") :
    sd_NoStatic (expectAccount v) := by
  obtain ⟨s, rfl⟩ := sd_typeName_account (h.resolve_left (by decide)); exact sd_ei_ok _ _
theorem sd_ns_expectAsset {v : Value} (h : "asset" = "any" ∨ v.typeName = "asset") :
    sd_NoStatic (expectAsset v) := by
  obtain ⟨s, rfl⟩ := sd_typeName_asset (h.resolve_left (by decide)); exact sd_ei_ok _ _
theorem sd_ns_expectString {v : Value} (h : "string" = "any" ∨ v.typeName = "string") :
    sd_NoStatic (expectString v) := by
  obtain ⟨s, rfl⟩ := sd_typeName_string (h.resolve_left (by decide)); exact sd_ei_ok _ _
theorem sd_ns_expectPortion {v : Value} (h : "portion" = "any" ∨ v.typeName = "portion") :
    sd_NoStatic (expectPortion v) := by
  obtain ⟨s, rfl⟩ := sd_typeName_portion (h.resolve_left (by decide)); exact sd_ei_ok _ _
theorem sd_ns_expectMonetary {v : Value} (h : "monetary" = "any" ∨ v.typeName = "monetary") :
    sd_NoStatic (expectMonetary v) := by
  obtain ⟨a, n, rfl⟩ := sd_typeName_monetary (h.resolve_left (by decide)); exact sd_ei_ok _ _
theorem sd_ns_expectMonetaryOfAsset (asset : String) {v : Value}
    (h : "monetary" = "any" ∨ v.typeName = "monetary") :
    sd_NoStatic (expectMonetaryOfAsset asset v) := by
  obtain ⟨a, n, rfl⟩ := sd_typeName_monetary (h.resolve_left (by decide))
  unfold expectMonetaryOfAsset
  simp only [expectMonetary]
  sd_ei_walk

theorem sd_ns_trySendingToAccount {env : Env} {addr : Expr}
    (h : sd_NoStatic (evalAs env.vars addr expectAccount)) (amount : Int) (od : Option Int)
    (snd : Senders) : sd_NoStatic (trySendingToAccount env addr amount od snd) := by
  unfold trySendingToAccount
  sd_ei_walk

theorem sd_ns_sendAllToAccount {env : Env} {addr : Expr}
    (h : sd_NoStatic (evalAs env.vars addr expectAccount)) (od : Option Int)
    (snd : Senders) : sd_NoStatic (sendAllToAccount env addr od snd) := by
  unfold sendAllToAccount
  sd_ei_walk

theorem sd_ns_allotOf (n : Int) (qs : List (Option Rat)) : sd_NoStatic (allotOf n qs) := by
  unfold allotOf
  sd_ei_walk

theorem sd_ns_makeAllotment {vars : Vars} {items : List AllotVal}
    (h : sd_NoStatic (evalAllotItems vars items)) (n : Int) : sd_NoStatic (makeAllotment vars n items) := by
  rw [makeAllotment_eq]
  exact sd_ei_bind h (fun qs _ => sd_ns_allotOf n qs)

/-- one allotment clause: what its check says about its evaluation -/
theorem sd_allotValue_sound {vars : Vars} {st st1 : CState} {acc acc1 : AllotAcc} {a : AllotVal}
    {l : Bool} {w : Range} (hs : a.ShapeOk)
    (h : checkAllotValue st acc a l w = .ok (st1, acc1)) (hclean : NoNewErrors st st1)
    (hg : sd_Good st vars) {rest : List AllotVal} (hr : sd_NoStatic (evalAllotItems vars rest)) :
    sd_NoStatic (evalAllotItems vars (a :: rest)) := by
  cases a with
  | nil => exact hs.elim
  | remaining r =>
    simp only [evalAllotItems]
    exact sd_ei_bind hr (fun _ _ => sd_ei_ok _ _)
  | portion e =>
    cases e with
    | var r name =>
      simp only [checkAllotValue] at h
      split at h
      · cases h
      · cases h
      · rename_i st2 h2
        cases h
        have := sd_evalAs_sound expectPortion (by simp [Expr.Complete]) h2 hclean hg
          (fun v hv => sd_ns_expectPortion hv)
        simp only [evalAllotItems]
        exact sd_ei_bind this (fun _ _ => sd_ei_bind hr (fun _ _ => sd_ei_ok _ _))
    | ratio r num den =>
      simp only [evalAllotItems]
      refine sd_ei_bind ?_ (fun _ _ => sd_ei_bind hr (fun _ _ => sd_ei_ok _ _))
      unfold evalAs
      simp only [evalExpr]
      split
      · exact sd_ei_err rfl
      · exact sd_ei_ok _ _
    | _ => exact hs.elim

/-! ## sources -/

def sd_SrcOk (env : Env) (src : Source) : Prop :=
  (∀ amount snd, sd_NoStatic (trySendingUpTo env src amount snd)) ∧
  (∀ snd, sd_NoStatic (sendAll env src snd)) ∧
  (∀ asset p, sd_NoStatic (findBalancesQueries env.vars asset src p))

def sd_SrcListOk (env : Env) (srcs : List Source) : Prop :=
  (∀ left snd, sd_NoStatic (sendInorder env srcs left snd)) ∧
  (∀ total snd, sd_NoStatic (sendAllList env srcs total snd)) ∧
  (∀ asset p, sd_NoStatic (findQueriesList env.vars asset srcs p))

def sd_SrcItemsOk (env : Env) (items : List SrcItem) : Prop :=
  sd_NoStatic (evalAllotItems env.vars (items.map SrcItem.allot)) ∧
  (∀ parts snd, sd_NoStatic (sendAllotItems env items parts snd)) ∧
  (∀ asset p, sd_NoStatic (findQueriesItems env.vars asset items p))

mutual
  theorem sd_checkSource_sound (env : Env) : ∀ (src : Source) (st st' : CState), src.Complete →
      src.ShapeOk → checkSource st src = .ok st' → NoNewErrors st st' → sd_Good st env.vars →
      sd_SrcOk env src
    | .nil, _, _, hc, _, _, _, _ => by simp [Source.Complete] at hc
    | .account e, st, st', hc, _, h, hclean, hg => by
        simp only [Source.Complete] at hc
        simp only [checkSource] at h
        split at h
        · cases h
        · cases h
        · rename_i st1 h1
          split at h
          · cases h
          · cases h
          · rename_i st2 h2
            cases h
            have f1 := sd_sourceHead_frame h1
            have f2 := sd_checkExpression_frame _ _ _ _ h2
            have f3 := sd_checkSourceAccountLit_frame st2 e
            have m1 := f1.mono
            have m2 := f2.mono
            have m3 := f3.mono
            have c2 : NoNewErrors st1 st2 := by sd_sq
            have ha := sd_evalAs_sound expectAccount hc h2 c2 (hg.frame f1)
              (fun v hv => sd_ns_expectAccount hv)
            refine ⟨fun amount snd => ?_, fun snd => ?_, fun asset p => ?_⟩
            · simp only [trySendingUpTo]; exact sd_ns_trySendingToAccount ha _ _ _
            · simp only [sendAll]; exact sd_ns_sendAllToAccount ha _ _
            · simp only [findBalancesQueries]; sd_ei_walk
    | .overdraft r addr none, st, st', hc, _, h, hclean, hg => by
        simp only [Source.Complete] at hc
        simp only [checkSource] at h
        split at h
        · cases h
        · cases h
        · rename_i st1 h1
          split at h
          · cases h
          · cases h
          · rename_i st2 h2
            split at h
            · cases h
            · cases h
            · rename_i st3 h3
              cases h
              have f1 := sd_sourceHead_frame h1
              have f2 := sd_checkOverdraftHead_frame h2
              have f3 := sd_checkExpression_frame _ _ _ _ h3
              have m1 := f1.mono
              have m2 := f2.mono
              have m3 := f3.mono
              have c3 : NoNewErrors st2 st' := by sd_sq
              have ha := sd_evalAs_sound expectAccount hc h3 c3 (hg.frame (f1.trans f2))
                (fun v hv => sd_ns_expectAccount hv)
              refine ⟨fun amount snd => ?_, fun snd => ?_, fun asset p => ?_⟩
              · simp only [trySendingUpTo]; exact sd_ns_trySendingToAccount ha _ _ _
              · simp only [sendAll]; exact sd_ns_sendAllToAccount ha _ _
              · simp only [findBalancesQueries]; exact sd_ei_ok _ _
    | .overdraft r addr (some b), st, st', hc, _, h, hclean, hg => by
        simp only [Source.Complete] at hc
        simp only [checkSource] at h
        split at h
        · cases h
        · cases h
        · rename_i st1 h1
          split at h
          · cases h
          · cases h
          · rename_i st2 h2
            split at h
            · cases h
            · cases h
            · rename_i st3 h3
              have f1 := sd_sourceHead_frame h1
              have f2 := sd_checkOverdraftHead_frame h2
              have f3 := sd_checkExpression_frame _ _ _ _ h3
              have f4 := sd_checkExpression_frame _ _ _ _ h
              have m1 := f1.mono
              have m2 := f2.mono
              have m3 := f3.mono
              have m4 := f4.mono
              have c3 : NoNewErrors st2 st3 := by sd_sq
              have c4 : NoNewErrors st3 st' := by sd_sq
              have ha := sd_evalAs_sound expectAccount hc.1 h3 c3 (hg.frame (f1.trans f2))
                (fun v hv => sd_ns_expectAccount hv)
              have hb := sd_evalAs_sound (expectMonetaryOfAsset env.asset) hc.2 h c4
                (hg.frame ((f1.trans f2).trans f3))
                (fun v hv => sd_ns_expectMonetaryOfAsset _ hv)
              have h5 := fun amount od snd => sd_ns_trySendingToAccount ha amount od snd
              have h6 := fun od snd => sd_ns_sendAllToAccount ha od snd
              refine ⟨fun amount snd => ?_, fun snd => ?_, fun asset p => ?_⟩
              · simp only [trySendingUpTo]; sd_ei_walk
              · simp only [sendAll]; sd_ei_walk
              · simp only [findBalancesQueries]; sd_ei_walk
    | .inorder r srcs, st, st', hc, hs, h, hclean, hg => by
        simp only [Source.Complete] at hc
        simp only [Source.ShapeOk] at hs
        simp only [checkSource] at h
        split at h
        · cases h
        · cases h
        · rename_i st1 h1
          have f1 := sd_sourceHead_frame h1
          have f2 := sd_checkSourceList_frame _ _ _ h
          have m1 := f1.mono
          have m2 := f2.mono
          have c2 : NoNewErrors st1 st' := by sd_sq
          obtain ⟨i1, i2, i3⟩ := sd_checkSourceList_sound env srcs st1 st' hc hs h c2 (hg.frame f1)
          refine ⟨fun amount snd => ?_, fun snd => ?_, fun asset p => ?_⟩
          · simp only [trySendingUpTo]; sd_ei_walk
          · simp only [sendAll]; exact i2 _ _
          · simp only [findBalancesQueries]; exact i3 _ _
    | .capped r cap src, st, st', hc, hs, h, hclean, hg => by
        simp only [Source.Complete] at hc
        simp only [Source.ShapeOk] at hs
        simp only [checkSource] at h
        split at h
        · cases h
        · cases h
        · rename_i st1 h1
          split at h
          · cases h
          · cases h
          · rename_i st2 h2
            split at h
            · cases h
            · cases h
            · rename_i st3 h3
              cases h
              have f1 := sd_sourceHead_frame h1
              have f2 := sd_checkExpression_frame _ _ _ _ h2
              have f3 := sd_checkSource_frame _ _ _ h3
              have m1 := f1.mono
              have m2 : errorCount st1.diags ≤ errorCount st2.diags := f2.mono
              have m3 := f3.mono
              have hclean' : errorCount st3.diags = errorCount st.diags := hclean
              have c2 : NoNewErrors (enterCapped st1) st2 := by
                show errorCount st2.diags = errorCount st1.diags
                omega
              have c3 : NoNewErrors st2 st3 := by sd_sq
              have hg1 : sd_Good (enterCapped st1) env.vars := (hg.frame f1).congr rfl
              have hcap := sd_evalAs_sound (expectMonetaryOfAsset env.asset) hc.1 h2 c2 hg1
                (fun v hv => sd_ns_expectMonetaryOfAsset _ hv)
              obtain ⟨i1, i2, i3⟩ := sd_checkSource_sound env src st2 st3 hc.2 hs h3 c3 (hg1.frame f2)
              refine ⟨fun amount snd => ?_, fun snd => ?_, fun asset p => ?_⟩
              · simp only [trySendingUpTo]; sd_ei_walk
              · simp only [sendAll]; sd_ei_walk
              · simp only [findBalancesQueries]; exact i3 _ _
    | .allotment r items, st, st', hc, hs, h, hclean, hg => by
        simp only [Source.Complete] at hc
        simp only [Source.ShapeOk] at hs
        simp only [checkSource] at h
        split at h
        · cases h
        · cases h
        · rename_i st1 h1
          split at h
          · cases h
          · cases h
          · rename_i st2 acc h2
            cases h
            have f1 := sd_sourceHead_frame h1
            have f1' : sd_Frame st1 (if st1.unboundedSend = true then
                st1.push r DiagKind.noAllotmentInSendAll else st1) := by
              split
              · exact sd_Frame.push _ _ _
              · exact sd_Frame.refl _
            have f2 := sd_checkSrcItems_frame _ _ _ _ _ _ h2
            have f3 := sd_checkHasBad_frame st2 acc.sum r acc.remaining acc.vars
            have m1 := f1.mono
            have m1' := f1'.mono
            have m2 := f2.mono
            have m3 := f3.mono
            have c2 : NoNewErrors (if st1.unboundedSend = true then
                st1.push r DiagKind.noAllotmentInSendAll else st1) st2 := by sd_sq
            obtain ⟨i1, i2, i3⟩ := sd_checkSrcItems_sound env items _ st2 {} acc r hc hs h2 c2
              (hg.frame (f1.trans f1'))
            have i4 := fun n => sd_ns_makeAllotment i1 n
            refine ⟨fun amount snd => ?_, fun snd => ?_, fun asset p => ?_⟩
            · simp only [trySendingUpTo]; sd_ei_walk
            · simp only [sendAll]; exact sd_ei_err rfl
            · simp only [findBalancesQueries]; exact i3 _ _

  theorem sd_checkSourceList_sound (env : Env) : ∀ (srcs : List Source) (st st' : CState),
      SourcesComplete srcs → SourcesShapeOk srcs → checkSourceList st srcs = .ok st' →
      NoNewErrors st st' → sd_Good st env.vars → sd_SrcListOk env srcs
    | [], _, _, _, _, _, _, _ => by
        refine ⟨fun _ _ => ?_, fun _ _ => ?_, fun _ _ => ?_⟩
        · simp only [sendInorder]; exact sd_ei_ok _ _
        · simp only [sendAllList]; exact sd_ei_ok _ _
        · simp only [findQueriesList]; exact sd_ei_ok _ _
    | s :: ss, st, st', hc, hs, h, hclean, hg => by
        simp only [SourcesComplete] at hc
        simp only [SourcesShapeOk] at hs
        simp only [checkSourceList] at h
        split at h
        · cases h
        · cases h
        · rename_i st1 h1
          have f1 := sd_checkSource_frame _ _ _ h1
          have f2 := sd_checkSourceList_frame _ _ _ h
          have m1 := f1.mono
          have m2 := f2.mono
          have c1 : NoNewErrors st st1 := by sd_sq
          have c2 : NoNewErrors st1 st' := by sd_sq
          obtain ⟨i1, i2, i3⟩ := sd_checkSource_sound env s st st1 hc.1 hs.1 h1 c1 hg
          obtain ⟨j1, j2, j3⟩ := sd_checkSourceList_sound env ss st1 st' hc.2 hs.2 h c2 (hg.frame f1)
          refine ⟨fun _ _ => ?_, fun _ _ => ?_, fun _ _ => ?_⟩
          · simp only [sendInorder]; sd_ei_walk
          · simp only [sendAllList]; sd_ei_walk
          · simp only [findQueriesList]; sd_ei_walk

  theorem sd_checkSrcItems_sound (env : Env) : ∀ (items : List SrcItem) (st st' : CState)
      (acc acc' : AllotAcc) (w : Range), SrcItemsComplete items → SrcItemsShapeOk items →
      checkSrcItems st items acc w = .ok (st', acc') → NoNewErrors st st' → sd_Good st env.vars →
      sd_SrcItemsOk env items
    | [], _, _, _, _, _, _, _, _, _, _ => by
        refine ⟨?_, fun _ _ => ?_, fun _ _ => ?_⟩
        · simp only [List.map_nil, evalAllotItems]; exact sd_ei_ok _ _
        · simp only [sendAllotItems]; exact sd_ei_ok _ _
        · simp only [findQueriesItems]; exact sd_ei_ok _ _
    | (.mk _ a src) :: rest, st, st', acc, acc', w, hc, hs, h, hclean, hg => by
        simp only [SrcItemsComplete] at hc
        simp only [SrcItemsShapeOk] at hs
        simp only [checkSrcItems] at h
        split at h
        · cases h
        · cases h
        · rename_i st1 acc1 h1
          split at h
          · cases h
          · cases h
          · rename_i st2 h2
            have f1 := sd_checkAllotValue_frame h1
            have f2 := sd_checkSource_frame _ _ _ h2
            have f3 := sd_checkSrcItems_frame _ _ _ _ _ _ h
            have m1 := f1.mono
            have m2 : errorCount st1.diags ≤ errorCount st2.diags := f2.mono
            have m3 : errorCount st2.diags ≤ errorCount st'.diags := f3.mono
            have c1 : NoNewErrors st st1 := by sd_sq
            have c2 : NoNewErrors (enterCapped st1) st2 := by
              show errorCount st2.diags = errorCount st1.diags
              sd_sq
            have c3 : NoNewErrors (exitCapped st2 st1) st' := by
              show errorCount st'.diags = errorCount st2.diags
              sd_sq
            have hg1 : sd_Good (enterCapped st1) env.vars := (hg.frame f1).congr rfl
            have hg2 : sd_Good (exitCapped st2 st1) env.vars := (hg1.frame f2).congr rfl
            obtain ⟨i1, i2, i3⟩ := sd_checkSource_sound env src _ st2 hc.2.1 hs.2.1 h2 c2 hg1
            obtain ⟨j1, j2, j3⟩ := sd_checkSrcItems_sound env rest _ st' acc1 acc' w hc.2.2 hs.2.2
              h c3 hg2
            refine ⟨?_, fun parts snd => ?_, fun _ _ => ?_⟩
            · simp only [List.map_cons, SrcItem.allot]
              exact sd_allotValue_sound hs.1 h1 c1 hg j1
            · cases parts with
              | nil => simp only [sendAllotItems]; exact sd_ei_panic _ _
              | cons p ps => simp only [sendAllotItems]; sd_ei_walk
            · simp only [findQueriesItems]; sd_ei_walk
end

/-! ## destinations -/

def sd_DstItemsOk (env : Env) (items : List DestItem) : Prop :=
  sd_NoStatic (evalAllotItems env.vars (items.map DestItem.allot)) ∧
  (∀ parts rcv, sd_NoStatic (receiveAllotItems env items parts rcv))

mutual
  theorem sd_checkDestination_sound (env : Env) : ∀ (d : Dest) (st st' : CState), d.Complete →
      d.ShapeOk → checkDestination st d = .ok st' → NoNewErrors st st' → sd_Good st env.vars →
      ∀ amount rcv, sd_NoStatic (receiveFrom env d amount rcv)
    | .nil, _, _, hc, _, _, _, _ => by simp [Dest.Complete] at hc
    | .account e, st, st', hc, _, h, hclean, hg => by
        simp only [Dest.Complete] at hc
        simp only [checkDestination] at h
        have ha := sd_evalAs_sound expectAccount hc h hclean hg (fun v hv => sd_ns_expectAccount hv)
        intro amount rcv
        simp only [receiveFrom]; sd_ei_walk
    | .inorder _ clauses remaining, st, st', hc, hs, h, hclean, hg => by
        simp only [Dest.Complete] at hc
        simp only [Dest.ShapeOk] at hs
        simp only [checkDestination] at h
        split at h
        · cases h
        · cases h
        · rename_i st1 h1
          have f1 := sd_checkClauses_frame _ _ _ h1
          have f2 := sd_checkKoD_frame _ _ _ h
          have m1 := f1.mono
          have m2 := f2.mono
          have c1 : NoNewErrors st st1 := by sd_sq
          have c2 : NoNewErrors st1 st' := by sd_sq
          have i1 := sd_checkClauses_sound env clauses st st1 hc.1 hs.1 h1 c1 hg
          have i2 := sd_checkKoD_sound env remaining st1 st' hc.2 hs.2 h c2 (hg.frame f1)
          intro amount rcv
          simp only [receiveFrom]; sd_ei_walk
    | .allotment r items, st, st', hc, hs, h, hclean, hg => by
        simp only [Dest.Complete] at hc
        simp only [Dest.ShapeOk] at hs
        simp only [checkDestination] at h
        split at h
        · cases h
        · cases h
        · rename_i st1 acc h1
          cases h
          have f1 := sd_checkDstItems_frame _ _ _ _ _ _ h1
          have f2 := sd_checkHasBad_frame st1 acc.sum r acc.remaining acc.vars
          have m1 := f1.mono
          have m2 := f2.mono
          have c1 : NoNewErrors st st1 := by sd_sq
          obtain ⟨i1, i2⟩ := sd_checkDstItems_sound env items st st1 {} acc r hc hs h1 c1 hg
          have i3 := fun n => sd_ns_makeAllotment i1 n
          intro amount rcv
          simp only [receiveFrom]; sd_ei_walk

  theorem sd_checkKoD_sound (env : Env) : ∀ (k : KoD) (st st' : CState), k.Complete →
      k.ShapeOk → checkKoD st k = .ok st' → NoNewErrors st st' → sd_Good st env.vars →
      ∀ amount rcv, sd_NoStatic (receiveKoD env k amount rcv)
    | .nil, _, _, hc, _, _, _, _ => by simp [KoD.Complete] at hc
    | .kept _, _, _, _, _, _, _, _ => by
        intro amount rcv
        simp only [receiveKoD]; exact sd_ei_ok _ _
    | .to d, st, st', hc, hs, h, hclean, hg => by
        simp only [KoD.Complete] at hc
        simp only [KoD.ShapeOk] at hs
        simp only [checkKoD] at h
        intro amount rcv
        simp only [receiveKoD]
        exact sd_checkDestination_sound env d st st' hc hs h hclean hg amount rcv

  theorem sd_checkClauses_sound (env : Env) : ∀ (cs : List DestClause) (st st' : CState),
      ClausesComplete cs → ClausesShapeOk cs → checkClauses st cs = .ok st' → NoNewErrors st st' →
      sd_Good st env.vars → ∀ left rcv, sd_NoStatic (receiveClauses env cs left rcv)
    | [], _, _, _, _, _, _, _ => by
        intro left rcv
        simp only [receiveClauses]; exact sd_ei_ok _ _
    | (.mk _ cap kd) :: rest, st, st', hc, hs, h, hclean, hg => by
        simp only [ClausesComplete] at hc
        simp only [ClausesShapeOk] at hs
        simp only [checkClauses] at h
        split at h
        · cases h
        · cases h
        · rename_i st1 h1
          split at h
          · cases h
          · cases h
          · rename_i st2 h2
            have f1 := sd_checkExpression_frame _ _ _ _ h1
            have f2 := sd_checkKoD_frame _ _ _ h2
            have f3 := sd_checkClauses_frame _ _ _ h
            have m1 := f1.mono
            have m2 := f2.mono
            have m3 := f3.mono
            have c1 : NoNewErrors st st1 := by sd_sq
            have c2 : NoNewErrors st1 st2 := by sd_sq
            have c3 : NoNewErrors st2 st' := by sd_sq
            have hcap := sd_evalAs_sound (expectMonetaryOfAsset env.asset) hc.1 h1 c1 hg
              (fun v hv => sd_ns_expectMonetaryOfAsset _ hv)
            have i1 := sd_checkKoD_sound env kd st1 st2 hc.2.1 hs.1 h2 c2 (hg.frame f1)
            have i2 := sd_checkClauses_sound env rest st2 st' hc.2.2 hs.2 h c3
              (hg.frame (f1.trans f2))
            intro left rcv
            simp only [receiveClauses]; sd_ei_walk

  theorem sd_checkDstItems_sound (env : Env) : ∀ (items : List DestItem) (st st' : CState)
      (acc acc' : AllotAcc) (w : Range), DstItemsComplete items → DstItemsShapeOk items →
      checkDstItems st items acc w = .ok (st', acc') → NoNewErrors st st' → sd_Good st env.vars →
      sd_DstItemsOk env items
    | [], _, _, _, _, _, _, _, _, _, _ => by
        refine ⟨?_, fun _ _ => ?_⟩
        · simp only [List.map_nil, evalAllotItems]; exact sd_ei_ok _ _
        · simp only [receiveAllotItems]; exact sd_ei_ok _ _
    | (.mk _ a kd) :: rest, st, st', acc, acc', w, hc, hs, h, hclean, hg => by
        simp only [DstItemsComplete] at hc
        simp only [DstItemsShapeOk] at hs
        simp only [checkDstItems] at h
        split at h
        · cases h
        · cases h
        · rename_i st1 acc1 h1
          split at h
          · cases h
          · cases h
          · rename_i st2 h2
            have f1 := sd_checkAllotValue_frame h1
            have f2 := sd_checkKoD_frame _ _ _ h2
            have f3 := sd_checkDstItems_frame _ _ _ _ _ _ h
            have m1 := f1.mono
            have m2 := f2.mono
            have m3 := f3.mono
            have c1 : NoNewErrors st st1 := by sd_sq
            have c2 : NoNewErrors st1 st2 := by sd_sq
            have c3 : NoNewErrors st2 st' := by sd_sq
            have i1 := sd_checkKoD_sound env kd st1 st2 hc.2.1 hs.2.1 h2 c2 (hg.frame f1)
            obtain ⟨j1, j2⟩ := sd_checkDstItems_sound env rest st2 st' acc1 acc' w hc.2.2 hs.2.2
              h c3 (hg.frame (f1.trans f2))
            refine ⟨?_, fun parts rcv => ?_⟩
            · simp only [List.map_cons, DestItem.allot]
              exact sd_allotValue_sound hs.1 h1 c1 hg j1
            · cases parts with
              | nil => simp only [receiveAllotItems]; exact sd_ei_panic _ _
              | cons p ps => simp only [receiveAllotItems]; sd_ei_walk
end

/-! ## function calls -/

/-- the value has the required type -/
def sd_HasType (v : Value) (τ : String) : Prop := τ = "any" ∨ v.typeName = τ

theorem sd_checkExpressions_sound (vars : Vars) : ∀ (es : List Expr) (sig : List String)
    (st st' : CState), ExprsComplete es → es.length = sig.length →
    checkExpressions st (es.zip sig) = .ok st' → NoNewErrors st st' → sd_Good st vars →
    sd_NoStatic (evalExprs vars es) ∧
      ∀ vs, evalExprs vars es = .ok vs → List.Forall₂ sd_HasType vs sig
  | [], [], _, _, _, _, _, _, _ => by
      refine ⟨?_, fun vs hvs => ?_⟩
      · simp only [evalExprs]; exact sd_ei_ok _ _
      · simp only [evalExprs] at hvs; cases hvs; exact .nil
  | [], _ :: _, _, _, _, hl, _, _, _ => by simp at hl
  | _ :: _, [], _, _, _, hl, _, _, _ => by simp at hl
  | e :: es, τ :: sig, st, st', hc, hl, h, hclean, hg => by
      simp only [ExprsComplete] at hc
      simp only [List.zip_cons_cons, checkExpressions] at h
      split at h
      · cases h
      · cases h
      · rename_i st1 h1
        have f1 := sd_checkExpression_frame _ _ _ _ h1
        have f2 := sd_checkExpressions_frame _ _ _ h
        have m1 := f1.mono
        have m2 := f2.mono
        have c1 : NoNewErrors st st1 := by sd_sq
        have c2 : NoNewErrors st1 st' := by sd_sq
        have i1 := sd_checkExpression_sound e st st1 vars τ hc.1 h1 c1 hg
        obtain ⟨j1, j2⟩ := sd_checkExpressions_sound vars es sig st1 st' hc.2 (by simpa using hl) h c2
          (hg.frame f1)
        unfold sd_ExprOk at i1
        simp only [evalExprs]
        cases hv : evalExpr vars e with
        | panic s => rw [hv] at i1; exact i1.elim
        | err er =>
          rw [hv] at i1
          exact ⟨sd_ei_err i1, fun vs hvs => by cases hvs⟩
        | ok v =>
          rw [hv] at i1
          simp only [Outcome.ok_bind]
          refine ⟨sd_ei_bind j1 (fun _ _ => sd_ei_ok _ _), fun vs hvs => ?_⟩
          obtain ⟨vs', h1', h2'⟩ := Outcome.bind_eq_ok hvs
          cases h2'
          exact .cons i1 (j2 vs' h1')

theorem sd_filter_complete (p : Expr → Bool) (hp : ∀ e, e.Complete → p e = true) :
    ∀ (es : List Expr), ExprsComplete es → es.filter p = es
  | [], _ => rfl
  | e :: es, hc => by
      simp only [ExprsComplete] at hc
      simp [hp e hc.1, sd_filter_complete p hp es hc.2]

theorem sd_complete_mem : ∀ (es : List Expr), ExprsComplete es → ∀ e ∈ es, e.Complete
  | [], _, _, he => by simp at he
  | x :: xs, hc, e, he => by
      simp only [ExprsComplete] at hc
      rcases List.mem_cons.mp he with rfl | he
      · exact hc.1
      · exact sd_complete_mem xs hc.2 e he

theorem sd_rangeOpt_complete {e : Expr} (hc : e.Complete) : ∃ r, e.rangeOpt = some r := by
  cases e <;> simp [Expr.Complete] at hc <;> exact ⟨_, rfl⟩

/-- a clean arity check of a call that was resolved to the builtin `bname` -/
theorem sd_checkFnCallArity_resolved {vars : Vars} {st st' : CState} {fn : FnCall} {rr : Range}
    {bname : String} (hc : fn.Complete)
    (hfind : st.fnRes.find? (fun p => p.1 == fn.callerRange) = some (rr, bname))
    (h : checkFnCallArity st fn = .ok st') (hclean : NoNewErrors st st') (hg : sd_Good st vars) :
    sd_NoStatic (evalExprs vars fn.args) ∧
      ∀ vs, evalExprs vars fn.args = .ok vs → List.Forall₂ sd_HasType vs (builtinParams bname) := by
  unfold FnCall.Complete at hc
  unfold checkFnCallArity at h
  rw [sd_filter_complete _ (by intro e he; cases e <;> simp [Expr.Complete] at he ⊢) fn.args hc] at h
  simp only [hfind] at h
  split at h
  · cases h
  · cases h
  · rename_i st2 h2
    have f2 := sd_checkExpressions_frame _ _ _ h
    have m2 := f2.mono
    split at h2
    · cases h2
      exfalso
      have := sd_errorCount_push st fn.r (.badArity (builtinParams bname).length fn.args.length)
      rw [sd_sev_badArity] at this
      simp only [NoNewErrors] at hclean
      simp only [if_true] at this
      omega
    · split at h2
      · rename_i hlt hgt
        exfalso
        split at h2
        · rename_i first last hfirst hlast
          have hcf : first.Complete :=
            sd_complete_mem _ hc first (List.mem_of_getElem? hfirst)
          have hcl : last.Complete :=
            sd_complete_mem _ hc last (List.mem_of_getLast? hlast)
          obtain ⟨fr, hfr⟩ := sd_rangeOpt_complete hcf
          obtain ⟨lr, hlr⟩ := sd_rangeOpt_complete hcl
          simp only [hfr, hlr] at h2
          cases h2
          have := sd_errorCount_push st ⟨fr.s, lr.e⟩
            (.badArity (builtinParams bname).length fn.args.length)
          rw [sd_sev_badArity] at this
          simp only [NoNewErrors] at hclean
          simp only [if_true] at this
          omega
        · rename_i hno
          have h1 : fn.args[(builtinParams bname).length]? =
              some (fn.args[(builtinParams bname).length]'hgt) := List.getElem?_eq_getElem hgt
          have hne : fn.args ≠ [] := by
            intro he; rw [he] at hgt; simp at hgt
          exact hno _ _ h1 (List.getLast?_eq_some_getLast hne)
      · rename_i hlt hgt
        cases h2
        have hlen : fn.args.length = (builtinParams bname).length := by omega
        rw [List.take_of_length_le (by omega)] at h
        exact sd_checkExpressions_sound vars fn.args _ st st' hc hlen h hclean hg

/-- an unresolved call is reported -/
theorem sd_checkFnCallArity_unresolved {st st' : CState} {fn : FnCall}
    (hfind : st.fnRes.find? (fun p => p.1 == fn.callerRange) = none)
    (h : checkFnCallArity st fn = .ok st') (hclean : NoNewErrors st st') : False := by
  unfold checkFnCallArity at h
  simp only [hfind] at h
  split at h
  · cases h
  · cases h
  · rename_i st1 h1
    cases h
    have m1 := (sd_checkExpressions_frame _ _ _ h1).mono
    have := sd_errorCount_push st1 fn.callerRange (.unknownFunction fn.name)
    rw [sd_sev_unknownFunction] at this
    simp only [NoNewErrors] at hclean
    simp only [if_true] at this
    omega

/-! ## builtin table -/

theorem sd_builtinEntry_cases (n : String) :
    n = "set_tx_meta" ∨ n = "set_account_meta" ∨ n = "meta" ∨ n = "balance" ∨ n = "overdraft" ∨
      builtinEntry n = none := by
  by_cases h1 : n = "set_tx_meta"; · exact Or.inl h1
  by_cases h2 : n = "set_account_meta"; · exact Or.inr (Or.inl h2)
  by_cases h3 : n = "meta"; · exact Or.inr (Or.inr (Or.inl h3))
  by_cases h4 : n = "balance"; · exact Or.inr (Or.inr (Or.inr (Or.inl h4)))
  by_cases h5 : n = "overdraft"; · exact Or.inr (Or.inr (Or.inr (Or.inr (Or.inl h5))))
  refine Or.inr (Or.inr (Or.inr (Or.inr (Or.inr ?_))))
  have e1 : ("set_tx_meta" == n) = false := beq_eq_false_iff_ne.mpr (fun h => h1 h.symm)
  have e2 : ("set_account_meta" == n) = false := beq_eq_false_iff_ne.mpr (fun h => h2 h.symm)
  have e3 : ("meta" == n) = false := beq_eq_false_iff_ne.mpr (fun h => h3 h.symm)
  have e4 : ("balance" == n) = false := beq_eq_false_iff_ne.mpr (fun h => h4 h.symm)
  have e5 : ("overdraft" == n) = false := beq_eq_false_iff_ne.mpr (fun h => h5 h.symm)
  simp [builtinEntry, builtinsTable, List.find?, e1, e2, e3, e4, e5]

theorem sd_isStatementBuiltin {n : String} (h : isStatementBuiltin n = true) :
    n = "set_tx_meta" ∨ n = "set_account_meta" := by
  rcases sd_builtinEntry_cases n with rfl | rfl | rfl | rfl | rfl | hn
  · exact Or.inl rfl
  · exact Or.inr rfl
  · simp [isStatementBuiltin, builtinEntry, builtinsTable] at h
  · simp [isStatementBuiltin, builtinEntry, builtinsTable] at h
  · simp [isStatementBuiltin, builtinEntry, builtinsTable] at h
  · simp [isStatementBuiltin, hn] at h

theorem sd_isOriginBuiltin {n : String} (h : isOriginBuiltin n = true) :
    n = "meta" ∨ n = "balance" ∨ n = "overdraft" := by
  rcases sd_builtinEntry_cases n with rfl | rfl | rfl | rfl | rfl | hn
  · simp [isOriginBuiltin, builtinEntry, builtinsTable] at h
  · simp [isOriginBuiltin, builtinEntry, builtinsTable] at h
  · exact Or.inl rfl
  · exact Or.inr (Or.inl rfl)
  · exact Or.inr (Or.inr rfl)
  · simp [isOriginBuiltin, hn] at h

theorem sd_params_set_tx_meta : builtinParams "set_tx_meta" = ["string", "any"] := by
  simp [builtinParams, builtinEntry, builtinsTable]
theorem sd_params_set_account_meta :
    builtinParams "set_account_meta" = ["account", "string", "any"] := by
  simp [builtinParams, builtinEntry, builtinsTable]
theorem sd_params_meta : builtinParams "meta" = ["account", "string"] := by
  simp [builtinParams, builtinEntry, builtinsTable]
theorem sd_params_balance : builtinParams "balance" = ["account", "asset"] := by
  simp [builtinParams, builtinEntry, builtinsTable]
theorem sd_params_overdraft : builtinParams "overdraft" = ["account", "asset"] := by
  simp [builtinParams, builtinEntry, builtinsTable]
theorem sd_return_meta : builtinReturn "meta" = "any" := by
  simp [builtinReturn, builtinEntry, builtinsTable]
theorem sd_return_balance : builtinReturn "balance" = "monetary" := by
  simp [builtinReturn, builtinEntry, builtinsTable]
theorem sd_return_overdraft : builtinReturn "overdraft" = "monetary" := by
  simp [builtinReturn, builtinEntry, builtinsTable]

/-! ## statements -/

/-- the caller ranges of the function calls of a statement -/
def Statement.fnRanges : Statement → List Range
  | .fnCall fn => [fn.callerRange]
  | _ => []

/-- diagnostics are only appended, declarations untouched, and the only functions newly
    resolved are at the ranges `R` -/
structure sd_StmtExt (st st' : CState) (R : List Range) : Prop where
  diags : ∃ l, st'.diags = st.diags ++ l
  declared : st'.declared = st.declared
  fnRes : ∀ p ∈ st'.fnRes, p ∈ st.fnRes ∨ p.1 ∈ R

theorem sd_StmtExt.mono {a b : CState} {R : List Range} (h : sd_StmtExt a b R) :
    errorCount a.diags ≤ errorCount b.diags := by
  obtain ⟨⟨l, e⟩, _, _⟩ := h
  rw [e, sd_errorCount_append]; omega

theorem sd_StmtExt.of_frame {a b : CState} {R : List Range} (h : sd_Frame a b) :
    sd_StmtExt a b R :=
  ⟨h.1.diags, h.declared, fun p hp => Or.inl (by rw [h.fnRes] at hp; exact hp)⟩

theorem sd_checkStatement_ext {s : Statement} {st st' : CState}
    (h : checkStatement st s = .ok st') : sd_StmtExt st st' s.fnRanges := by
  cases s with
  | nil =>
    simp only [checkStatement] at h; cases h
    exact sd_StmtExt.of_frame (sd_Frame.of_eq rfl rfl rfl rfl)
  | fnCallNil => simp only [checkStatement] at h; cases h
  | save r sv amount =>
    simp only [checkStatement] at h
    split at h
    · cases h
    · cases h
    · rename_i st1 h1
      have f := (sd_checkSentValue_frame h1).trans (sd_checkExpression_frame _ _ _ _ h)
      exact sd_StmtExt.of_frame ⟨⟨f.1.diags, f.declared, f.fnRes⟩, f.2⟩
  | send r sv src dst =>
    simp only [checkStatement] at h
    split at h
    · cases h
    · cases h
    · rename_i st1 h1
      split at h
      · cases h
      · cases h
      · rename_i st2 h2
        have f := ((sd_checkSentValue_frame h1).trans (sd_checkSource_frame _ _ _ h2)).trans
          (sd_checkDestination_frame _ _ _ h)
        exact ⟨f.1.diags, f.declared, fun p hp => Or.inl (by rw [f.fnRes] at hp; exact hp)⟩
  | fnCall fn =>
    simp only [checkStatement] at h
    have f := sd_checkFnCallArity_frame h
    refine ⟨?_, ?_, fun p hp => ?_⟩
    · obtain ⟨l, e⟩ := f.1.diags
      refine ⟨l, ?_⟩
      rw [e]; split <;> rfl
    · rw [f.declared]; split <;> rfl
    · rw [f.fnRes] at hp
      split at hp
      · rcases List.mem_cons.mp hp with rfl | hp
        · exact Or.inr (by simp [Statement.fnRanges])
        · exact Or.inl hp
      · exact Or.inl hp

theorem sd_ns_trySendingExact {env : Env} {src : Source}
    (h : ∀ amount snd, sd_NoStatic (trySendingUpTo env src amount snd)) (amount : Int) (snd : Senders) :
    sd_NoStatic (trySendingExact env src amount snd) := by
  unfold trySendingExact
  sd_ei_walk

theorem sd_ns_parseArgs2_string_any {vs : List Value}
    (h : List.Forall₂ sd_HasType vs ["string", "any"]) :
    sd_NoStatic (parseArgs2 vs expectString (fun v => Outcome.ok v)) := by
  cases h with
  | cons h1 h2 =>
    cases h2 with
    | cons h3 h4 =>
      cases h4
      obtain ⟨s, rfl⟩ := sd_typeName_string (h1.resolve_left (by decide))
      simp only [parseArgs2, expectString]
      exact sd_ei_ok _ _

theorem sd_ns_parseArgs3_account_string_any {vs : List Value}
    (h : List.Forall₂ sd_HasType vs ["account", "string", "any"]) :
    sd_NoStatic (parseArgs3 vs expectAccount expectString (fun v => Outcome.ok v)) := by
  cases h with
  | cons h1 h2 =>
    cases h2 with
    | cons h3 h4 =>
      cases h4 with
      | cons h5 h6 =>
        cases h6
        obtain ⟨s, rfl⟩ := sd_typeName_account (h1.resolve_left (by decide))
        obtain ⟨s', rfl⟩ := sd_typeName_string (h3.resolve_left (by decide))
        simp only [parseArgs3, expectString, expectAccount]
        exact sd_ei_ok _ _

theorem sd_checkSentValue_sound {vars : Vars} {sv : SentValue} {st st1 : CState} (hc : sv.Complete)
    (h : checkSentValue st sv = .ok st1) (hclean : NoNewErrors st st1) (hg : sd_Good st vars) :
    sd_NoStatic (evaluateSentAmt vars sv) ∧
      (∀ r a, sv = .all r a → sd_NoStatic (evalAs vars a expectAsset)) ∧
      (∀ r m, sv = .lit r m → sd_NoStatic (evalAs vars m expectMonetary)) := by
  cases sv with
  | nil => simp [SentValue.Complete] at hc
  | all r' a =>
    simp only [checkSentValue] at h
    have := sd_evalAs_sound (vars := vars) expectAsset hc h hclean hg
      (fun v hv => sd_ns_expectAsset hv)
    refine ⟨?_, fun r a he => ?_, fun r m he => ?_⟩
    · simp only [evaluateSentAmt]; sd_ei_walk
    · cases he; exact this
    · cases he
  | lit r' m =>
    simp only [checkSentValue] at h
    have := sd_evalAs_sound (vars := vars) expectMonetary hc h hclean hg
      (fun v hv => sd_ns_expectMonetary hv)
    refine ⟨?_, fun r a he => ?_, fun r m he => ?_⟩
    · simp only [evaluateSentAmt]; sd_ei_walk
    · cases he
    · cases he; exact this

theorem sd_checkStatement_sound (vars : Vars) (s : Statement) (st st' : CState) (hc : s.Complete)
    (hs : s.ShapeOk) (h : checkStatement st s = .ok st') (hclean : NoNewErrors st st')
    (hg : sd_Good st vars) (hfn : ∀ p ∈ st.fnRes, p.1 ∉ s.fnRanges) :
    (∀ rst, sd_NoStatic (runStatement vars rst s)) ∧
      ∀ p, sd_NoStatic (findBalancesQueriesInStatement vars s p) := by
  cases s with
  | nil => simp [Statement.Complete] at hc
  | fnCallNil => simp [Statement.Complete] at hc
  | save r sv amount =>
    simp only [Statement.Complete] at hc
    simp only [checkStatement] at h
    split at h
    · cases h
    · cases h
    · rename_i st1 h1
      have f1 := sd_checkSentValue_frame h1
      have f2 := sd_checkExpression_frame _ _ _ _ h
      have m1 : errorCount st.diags ≤ errorCount st1.diags := f1.mono
      have m2 := f2.mono
      have c2 : NoNewErrors st1 st' := by sd_sq
      have hg1 : sd_Good st1 vars := hg.congr f1.declared
      have hacc := sd_evalAs_sound expectAccount hc.2 h c2 hg1 (fun v hv => sd_ns_expectAccount hv)
      have hsv := (sd_checkSentValue_sound (vars := vars) hc.1 h1
        (by show errorCount st1.diags = errorCount st.diags; sd_sq) (hg.congr rfl)).1
      refine ⟨fun rst => ?_, fun p => ?_⟩
      · simp only [runStatement]; unfold runSaveStatement; sd_ei_walk
      · simp only [findBalancesQueriesInStatement]; sd_ei_walk
  | send r sv src dst =>
    simp only [Statement.Complete] at hc
    simp only [Statement.ShapeOk] at hs
    simp only [checkStatement] at h
    split at h
    · cases h
    · cases h
    · rename_i st1 h1
      split at h
      · cases h
      · cases h
      · rename_i st2 h2
        have f1 := sd_checkSentValue_frame h1
        have f2 := sd_checkSource_frame _ _ _ h2
        have f3 := sd_checkDestination_frame _ _ _ h
        have m1 : errorCount st.diags ≤ errorCount st1.diags := f1.mono
        have m2 := f2.mono
        have m3 := f3.mono
        have c2 : NoNewErrors st1 st2 := by sd_sq
        have c3 : NoNewErrors st2 st' := by sd_sq
        have hg1 : sd_Good st1 vars := hg.congr f1.declared
        have hsrc := fun (env : Env) (he : env.vars = vars) =>
          sd_checkSource_sound env src st1 st2 hc.2.1 hs.1 h2 c2 (he ▸ hg1)
        have hdst := fun (env : Env) (he : env.vars = vars) =>
          sd_checkDestination_sound env dst st2 st' hc.2.2 hs.2 h c3 (he ▸ hg1.frame f2)
        have k1 : ∀ cache asset snd, sd_NoStatic (sendAll ⟨vars, cache, asset⟩ src snd) :=
          fun cache asset snd => (hsrc ⟨vars, cache, asset⟩ rfl).2.1 snd
        have k2 : ∀ cache asset n snd, sd_NoStatic (trySendingExact ⟨vars, cache, asset⟩ src n snd) :=
          fun cache asset n snd => sd_ns_trySendingExact (hsrc ⟨vars, cache, asset⟩ rfl).1 n snd
        have k3 : ∀ cache asset n rcv, sd_NoStatic (receiveFrom ⟨vars, cache, asset⟩ dst n rcv) :=
          fun cache asset n rcv => hdst ⟨vars, cache, asset⟩ rfl n rcv
        have k4 : ∀ asset p, sd_NoStatic (findBalancesQueries vars asset src p) :=
          fun asset p => (hsrc ⟨vars, [], asset⟩ rfl).2.2 asset p
        clear hsrc hdst
        obtain ⟨hsv, hall, hlit⟩ := sd_checkSentValue_sound (vars := vars) hc.1 h1
          (by show errorCount st1.diags = errorCount st.diags; sd_sq) (hg.congr rfl)
        refine ⟨fun rst => ?_, fun p => ?_⟩
        · cases sv with
          | nil => simp [SentValue.Complete] at hc
          | all r' a =>
            have := hall r' a rfl
            simp only [runStatement, runSendStatement]; sd_ei_walk
          | lit r' m =>
            have := hlit r' m rfl
            simp only [runStatement, runSendStatement]; sd_ei_walk
        · simp only [findBalancesQueriesInStatement]; sd_ei_walk
  | fnCall fn =>
    simp only [Statement.Complete] at hc
    simp only [checkStatement] at h
    refine ⟨fun rst => ?_, fun p => ?_⟩
    swap
    · simp only [findBalancesQueriesInStatement]; exact sd_ei_ok _ _
    have hnone : st.fnRes.find? (fun p => p.1 == fn.callerRange) = none := by
      rw [List.find?_eq_none]
      intro p hp
      have := hfn p hp
      simpa [Statement.fnRanges] using this
    by_cases hb : isStatementBuiltin fn.name = true
    · simp only [hb, if_true] at h
      obtain ⟨i1, i2⟩ := sd_checkFnCallArity_resolved (vars := vars) (rr := fn.callerRange)
        (bname := fn.name) hc (by simp [List.find?]) h hclean (hg.congr rfl)
      simp only [runStatement]
      rcases sd_isStatementBuiltin hb with hn | hn
      · rw [hn, sd_params_set_tx_meta] at i2
        have i3 := fun vs hvs => sd_ns_parseArgs2_string_any (i2 vs hvs)
        simp only [if_pos hn]
        sd_ei_walk
      · rw [hn, sd_params_set_account_meta] at i2
        have i3 := fun vs hvs => sd_ns_parseArgs3_account_string_any (i2 vs hvs)
        simp only [if_neg (show ¬ fn.name = "set_tx_meta" by rw [hn]; decide), if_pos hn]
        sd_ei_walk
    · simp only [hb] at h
      exact (sd_checkFnCallArity_unresolved (by simpa using hnone) h hclean).elim

def sd_stmtsFnRanges : List Statement → List Range
  | [] => []
  | s :: ss => s.fnRanges ++ sd_stmtsFnRanges ss

theorem sd_checkStatements_ext : ∀ (ss : List Statement) (st st' : CState),
    checkStatements st ss = .ok st' → sd_StmtExt st st' (sd_stmtsFnRanges ss)
  | [], st, st', h => by
      simp only [checkStatements] at h; cases h
      exact sd_StmtExt.of_frame (sd_Frame.refl _)
  | s :: ss, st, st', h => by
      simp only [checkStatements] at h
      split at h
      · cases h
      · cases h
      · rename_i st1 h1
        have e1 := sd_checkStatement_ext h1
        have e2 := sd_checkStatements_ext ss st1 st' h
        obtain ⟨l1, d1⟩ := e1.diags
        obtain ⟨l2, d2⟩ := e2.diags
        refine ⟨⟨l1 ++ l2, ?_⟩, e2.declared.trans e1.declared, fun p hp => ?_⟩
        · rw [d2, d1]; simp
        · simp only [sd_stmtsFnRanges, List.mem_append]
          rcases e2.fnRes p hp with h3 | h3
          · rcases e1.fnRes p h3 with h4 | h4
            · exact Or.inl h4
            · exact Or.inr (Or.inl h4)
          · exact Or.inr (Or.inr h3)

theorem sd_checkStatements_sound (vars : Vars) : ∀ (ss : List Statement) (st st' : CState),
    StatementsComplete ss → (∀ s ∈ ss, s.ShapeOk) → checkStatements st ss = .ok st' →
    NoNewErrors st st' → sd_Good st vars → (∀ p ∈ st.fnRes, p.1 ∉ sd_stmtsFnRanges ss) →
    (sd_stmtsFnRanges ss).Nodup →
    (∀ rst, sd_NoStatic (runStatements vars ss rst)) ∧ ∀ p, sd_NoStatic (preload vars ss p)
  | [], _, _, _, _, _, _, _, _, _ => by
      refine ⟨fun rst => ?_, fun p => ?_⟩
      · simp only [runStatements]; exact sd_ei_ok _ _
      · simp only [preload]; exact sd_ei_ok _ _
  | s :: ss, st, st', hc, hs, h, hclean, hg, hfn, hnd => by
      simp only [StatementsComplete] at hc
      simp only [checkStatements] at h
      simp only [sd_stmtsFnRanges] at hfn hnd
      split at h
      · cases h
      · cases h
      · rename_i st1 h1
        have e1 := sd_checkStatement_ext h1
        have e2 := sd_checkStatements_ext ss st1 st' h
        have m1 : errorCount st.diags ≤ errorCount st1.diags := e1.mono
        have m2 := e2.mono
        have c1 : NoNewErrors { st with unboundedAccountInSend := false } st1 := by
          show errorCount st1.diags = errorCount st.diags
          sd_sq
        have c2 : NoNewErrors st1 st' := by sd_sq
        have hnd' := List.nodup_append.mp hnd
        obtain ⟨i1, i2⟩ := sd_checkStatement_sound vars s _ st1 hc.1 (hs s (by simp)) h1 c1
          (hg.congr rfl) (fun p hp hr => hfn p hp (List.mem_append.mpr (Or.inl hr)))
        obtain ⟨j1, j2⟩ := sd_checkStatements_sound vars ss st1 st' hc.2
          (fun s' hs' => hs s' (by simp [hs'])) h c2 (hg.congr e1.declared)
          (fun p hp hr => by
            rcases e1.fnRes p hp with h3 | h3
            · exact hfn p h3 (List.mem_append.mpr (Or.inr hr))
            · exact hnd'.2.2 _ h3 _ hr rfl)
          hnd'.2.1
        refine ⟨fun rst => ?_, fun p => ?_⟩
        · simp only [runStatements]; sd_ei_walk
        · simp only [preload]; sd_ei_walk

/-! ## variable declarations -/

theorem sd_ns_parseMonetary (s : String) : sd_NoStatic (parseMonetary s) := by
  unfold parseMonetary
  sd_ei_walk

theorem sd_parseMonetary_type {s : String} {v : Value} (h : parseMonetary s = .ok v) :
    v.typeName = "monetary" := by
  unfold parseMonetary at h
  split at h
  · split at h
    · cases h; rfl
    · cases h
  · cases h

theorem sd_ns_ParsePortionSpecific (s : String) : sd_NoStatic (ParsePortionSpecific s) := by
  have hres : sd_NoStatic (match matchPercent s.toList with
    | some (i, f) => Outcome.ok (some (percentValue i f))
    | none =>
      match matchFraction s.toList with
      | some (n, d) =>
        if digitsVal d = 0 then Outcome.err (Err.badPortionParsing "invalid fractional format")
        else Outcome.ok (some (mkRat (↑(digitsVal n)) (digitsVal d)))
      | none => Outcome.ok none) := by sd_ei_walk
  unfold ParsePortionSpecific
  dsimp only
  sd_ei_walk

theorem sd_parseVar_sound {ty raw : String} (hta : isTypeAllowed ty = true) :
    sd_NoStatic (parseVar ty raw) ∧ ∀ v, parseVar ty raw = .ok v → v.typeName = ty := by
  have h1 := sd_ns_parseMonetary raw
  have h2 := sd_ns_ParsePortionSpecific raw
  simp only [isTypeAllowed, allowedTypes, List.contains_cons, List.contains_nil, Bool.or_false,
    Bool.or_eq_true, beq_iff_eq] at hta
  rcases hta with rfl | rfl | rfl | rfl | rfl | rfl
  · constructor
    · simp only [parseVar, if_true]; exact h1
    · intro v hv
      simp only [parseVar, if_true] at hv
      exact sd_parseMonetary_type hv
  · constructor
    · simp [parseVar]; sd_ei_walk
    · intro v hv
      simp [parseVar] at hv
      split at hv
      · cases hv; rfl
      · cases hv
  · constructor
    · simp [parseVar]; sd_ei_walk
    · intro v hv
      simp [parseVar] at hv
      split at hv
      · cases hv; rfl
      · cases hv
      · cases hv
  · constructor
    · simp [parseVar]; exact sd_ei_ok _ _
    · intro v hv
      simp [parseVar] at hv
      cases hv; rfl
  · constructor
    · simp [parseVar]; sd_ei_walk
    · intro v hv
      simp [parseVar] at hv
      split at hv
      · cases hv; rfl
      · cases hv
  · constructor
    · simp [parseVar]; exact sd_ei_ok _ _
    · intro v hv
      simp [parseVar] at hv
      cases hv; rfl

theorem sd_ns_getBalance (store : Store) (q : QState) (account asset : String) :
    sd_NoStatic (getBalance store q account asset) := by
  unfold getBalance
  sd_ei_walk

theorem sd_ns_parseArgs2_account_string {vs : List Value}
    (h : List.Forall₂ sd_HasType vs ["account", "string"]) :
    sd_NoStatic (parseArgs2 vs expectAccount expectString) := by
  cases h with
  | cons h1 h2 =>
    cases h2 with
    | cons h3 h4 =>
      cases h4
      obtain ⟨s, rfl⟩ := sd_typeName_account (h1.resolve_left (by decide))
      obtain ⟨s', rfl⟩ := sd_typeName_string (h3.resolve_left (by decide))
      simp only [parseArgs2, expectString, expectAccount]
      exact sd_ei_ok _ _

theorem sd_ns_parseArgs2_account_asset {vs : List Value}
    (h : List.Forall₂ sd_HasType vs ["account", "asset"]) :
    sd_NoStatic (parseArgs2 vs expectAccount expectAsset) := by
  cases h with
  | cons h1 h2 =>
    cases h2 with
    | cons h3 h4 =>
      cases h4
      obtain ⟨s, rfl⟩ := sd_typeName_account (h1.resolve_left (by decide))
      obtain ⟨s', rfl⟩ := sd_typeName_asset (h3.resolve_left (by decide))
      simp only [parseArgs2, expectAsset, expectAccount]
      exact sd_ei_ok _ _

theorem sd_checkVarOrigin_sound {store : Store} {flag : Bool} {vars : Vars} {st st' : CState}
    {fn : FnCall} {d : VarDecl} {nr tr : Range} {name ty : String}
    (hn : d.name = some (nr, name)) (ht : d.type = some (tr, ty)) (hta : isTypeAllowed ty = true)
    (hc : fn.Complete) (h : checkVarOrigin st fn d = .ok st') (hclean : NoNewErrors st st')
    (hg : sd_Good st vars) (hfn : ∀ p ∈ st.fnRes, p.1 ≠ fn.callerRange) (q : QState) :
    sd_NoStatic (handleOrigin store flag vars q ty fn) ∧
      ∀ v q', handleOrigin store flag vars q ty fn = .ok (v, q') → v.typeName = ty := by
  unfold checkVarOrigin at h
  by_cases hb : isOriginBuiltin fn.name = true
  · simp only [hb, if_true, ht, hn] at h
    split at h
    · cases h
    · cases h
    · rename_i st2 h2
      have f2 := sd_assertHasType_frame h2
      have f3 := sd_checkFnCallArity_frame h
      have m2 : errorCount st.diags ≤ errorCount st2.diags := f2.mono
      have m3 := f3.mono
      have c2 : NoNewErrors st2 st' := by sd_sq
      have hret := sd_assertHasType_clean h2
        (by show errorCount st2.diags = errorCount st.diags; sd_sq)
      have hfind : st2.fnRes.find? (fun p => p.1 == fn.callerRange) =
          some (fn.callerRange, fn.name) := by
        rw [f2.fnRes]; simp [List.find?]
      obtain ⟨i1, i2⟩ := sd_checkFnCallArity_resolved (vars := vars) hc hfind h c2
        (hg.congr f2.declared)
      have hpv := fun raw => sd_parseVar_sound (ty := ty) (raw := raw) hta
      have hgb := fun account asset => sd_ns_getBalance store q account asset
      rcases sd_isOriginBuiltin hb with hm | hm | hm
      · rw [hm, sd_params_meta] at i2
        have i3 := fun vs hvs => sd_ns_parseArgs2_account_string (i2 vs hvs)
        have hpv1 := fun raw => (hpv raw).1
        constructor
        · unfold handleOrigin
          simp only [if_pos hm]
          sd_ei_walk
        · intro v q' hv
          unfold handleOrigin at hv
          simp only [if_pos hm] at hv
          repeat' split at hv
          all_goals first
            | (cases hv; done)
            | (cases hv; exact (hpv _).2 _ ‹_›)
      · rw [hm, sd_params_balance] at i2
        rw [hm, sd_return_balance] at hret
        have hty : ty = "monetary" := (hret.resolve_left (by decide)).symm
        have i3 := fun vs hvs => sd_ns_parseArgs2_account_asset (i2 vs hvs)
        have hne : ¬ fn.name = "meta" := by rw [hm]; decide
        constructor
        · unfold handleOrigin
          simp only [if_neg hne, if_pos hm]
          sd_ei_walk
        · intro v q' hv
          unfold handleOrigin at hv
          simp only [if_neg hne, if_pos hm] at hv
          repeat' split at hv
          all_goals first
            | (cases hv; done)
            | (cases hv; rw [hty]; rfl)
      · rw [hm, sd_params_overdraft] at i2
        rw [hm, sd_return_overdraft] at hret
        have hty : ty = "monetary" := (hret.resolve_left (by decide)).symm
        have i3 := fun vs hvs => sd_ns_parseArgs2_account_asset (i2 vs hvs)
        have hne : ¬ fn.name = "meta" := by rw [hm]; decide
        have hne2 : ¬ fn.name = "balance" := by rw [hm]; decide
        constructor
        · unfold handleOrigin
          simp only [if_neg hne, if_neg hne2, if_pos hm]
          sd_ei_walk
        · intro v q' hv
          unfold handleOrigin at hv
          simp only [if_neg hne, if_neg hne2, if_pos hm] at hv
          repeat' split at hv
          all_goals first
            | (cases hv; done)
            | (cases hv; rw [hty]; rfl)
  · simp only [hb] at h
    have hnone : st.fnRes.find? (fun p => p.1 == fn.callerRange) = none := by
      rw [List.find?_eq_none]
      intro p hp
      simpa using hfn p hp
    exact (sd_checkFnCallArity_unresolved hnone h hclean).elim

/-- the caller range of the origin of a declaration -/
def VarDecl.fnRanges (d : VarDecl) : List Range :=
  match d.origin with
  | some fn => [fn.callerRange]
  | none => []

def sd_declsFnRanges : List VarDecl → List Range
  | [] => []
  | d :: ds => d.fnRanges ++ sd_declsFnRanges ds

/-- diagnostics are only appended and the only functions newly resolved are at the ranges `R` -/
structure sd_DeclExt (st st' : CState) (R : List Range) : Prop where
  diags : ∃ l, st'.diags = st.diags ++ l
  fnRes : ∀ p ∈ st'.fnRes, p ∈ st.fnRes ∨ p.1 ∈ R

theorem sd_DeclExt.mono {a b : CState} {R : List Range} (h : sd_DeclExt a b R) :
    errorCount a.diags ≤ errorCount b.diags := by
  obtain ⟨⟨l, e⟩, _⟩ := h
  rw [e, sd_errorCount_append]; omega

theorem sd_checkVarOrigin_ext {st st' : CState} {fn : FnCall} {d : VarDecl}
    (h : checkVarOrigin st fn d = .ok st') : sd_StmtExt st st' [fn.callerRange] := by
  unfold checkVarOrigin at h
  by_cases hb : isOriginBuiltin fn.name = true
  · simp only [hb, if_true] at h
    split at h
    · cases h
    · cases h
    · rename_i st2 h2
      have f3 := sd_checkFnCallArity_frame h
      have f2 : sd_Frame { st with fnRes := (fn.callerRange, fn.name) :: st.fnRes } st2 := by
        split at h2
        · exact sd_assertHasType_frame h2
        · cases h2; exact sd_Frame.refl _
      have f := f2.trans f3
      refine ⟨f.1.diags, f.declared, fun p hp => ?_⟩
      rw [f.fnRes] at hp
      rcases List.mem_cons.mp hp with rfl | hp
      · exact Or.inr (by simp)
      · exact Or.inl hp
  · simp only [hb] at h
    exact sd_StmtExt.of_frame (sd_checkFnCallArity_frame h)

/-- `checkVarDecl` after the validity of the declared type was looked at -/
def sd_declTail (st1 : CState) (d : VarDecl) : Outcome CState :=
  let st2 : Outcome CState := match d.origin with
    | some fn => checkVarOrigin st1 fn d
    | none => .ok st1
  match st2 with
  | .panic s => .panic s
  | .err e => .err e
  | .ok st3 =>
    match d.name with
    | some (r, name) =>
        if st3.declared.any (fun p => p.1 == name) then .ok (st3.push r (.duplicateVariable name))
        else .ok { st3 with declared := st3.declared ++ [(name, d)], unused := st3.unused ++ [(name, r)] }
    | none => .ok st3

theorem sd_checkVarDecl_eq (st : CState) (d : VarDecl) :
    checkVarDecl st d = sd_declTail (match d.type with
      | some (r, t) => if isTypeAllowed t then st else st.push r (.invalidType t)
      | none => st) d := rfl

theorem sd_declTail_ext {st1 st' : CState} {d : VarDecl} (h : sd_declTail st1 d = .ok st') :
    sd_DeclExt st1 st' d.fnRanges := by
  unfold sd_declTail at h
  have key : ∀ st3, sd_StmtExt st1 st3 d.fnRanges →
      (match d.name with
        | some (r, name) =>
          if st3.declared.any (fun p => p.1 == name) then
            Outcome.ok (st3.push r (.duplicateVariable name))
          else .ok { st3 with declared := st3.declared ++ [(name, d)],
                              unused := st3.unused ++ [(name, r)] }
        | none => .ok st3) = Outcome.ok st' → sd_DeclExt st1 st' d.fnRanges := by
    intro st3 e3 h3
    split at h3
    · split at h3
      · cases h3
        obtain ⟨l, e⟩ := e3.diags
        exact ⟨⟨l ++ [⟨_, _⟩], by simp only [CState.push, e, List.append_assoc]; rfl⟩, e3.fnRes⟩
      · cases h3
        exact ⟨e3.diags, e3.fnRes⟩
    · cases h3
      exact ⟨e3.diags, e3.fnRes⟩
  cases ho : d.origin with
  | none =>
    simp only [ho] at h
    exact key st1 (sd_StmtExt.of_frame (sd_Frame.refl _)) h
  | some fn =>
    simp only [ho] at h
    split at h
    · cases h
    · cases h
    · rename_i st3 h3
      refine key st3 ?_ h
      have := sd_checkVarOrigin_ext h3
      simpa [VarDecl.fnRanges, ho] using this

theorem sd_checkVarDecl_ext {st st' : CState} {d : VarDecl} (h : checkVarDecl st d = .ok st') :
    sd_DeclExt st st' d.fnRanges := by
  rw [sd_checkVarDecl_eq] at h
  have e := sd_declTail_ext h
  obtain ⟨l, hl⟩ := e.diags
  refine ⟨?_, fun p hp => ?_⟩
  · split at hl
    · split at hl
      · exact ⟨l, hl⟩
      · exact ⟨⟨_, _⟩ :: l, by simp only [CState.push, List.append_assoc] at hl; exact hl⟩
    · exact ⟨l, hl⟩
  · have := e.fnRes p hp
    split at this
    · split at this
      · exact this
      · exact this
    · exact this

theorem sd_lookupDecl_none_of_any {st : CState} {name : String}
    (h : ¬ (st.declared.any (fun p => p.1 == name)) = true) : lookupDecl st name = none := by
  unfold lookupDecl
  rw [Option.map_eq_none_iff, List.find?_eq_none]
  intro p hp hpn
  exact h (List.any_eq_true.mpr ⟨p, hp, hpn⟩)

/-- after a clean declaration, binding the name to a value of the declared type keeps the
    environment in agreement with the declarations -/
theorem sd_Good_declare {st st' : CState} {vars : Vars} {name : String} {d : VarDecl} {v : Value}
    {tr : Range} {ty : String} (hg : sd_Good st vars) (hnew : lookupDecl st name = none)
    (hd : st'.declared = st.declared ++ [(name, d)]) (ht : d.type = some (tr, ty))
    (hta : isTypeAllowed ty = true) (hv : v.typeName = ty) : sd_Good st' ((name, v) :: vars) := by
  have hl : ∀ n, lookupDecl st' n =
      (lookupDecl st n).or (if name = n then some d else none) := by
    intro n
    unfold lookupDecl
    rw [hd, List.find?_append]
    cases h1 : List.find? (fun p => p.1 == n) st.declared with
    | some p => simp
    | none =>
      by_cases hn : name = n
      · simp [hn]
      · simp [hn]
  constructor
  · intro n d' r t h1 h2 h3
    rw [hl] at h1
    by_cases hn : name = n
    · subst hn
      rw [hnew] at h1
      simp at h1
      subst h1
      rw [ht] at h2
      cases h2
      exact ⟨v, by simp [lookupVar], hv⟩
    · simp only [hn, if_false, Option.or_none] at h1
      obtain ⟨v', hv1, hv2⟩ := hg.1 n d' r t h1 h2 h3
      refine ⟨v', ?_, hv2⟩
      unfold lookupVar at hv1 ⊢
      rw [List.find?_cons_of_neg (by simpa using hn)]
      exact hv1
  · intro n d' h1
    rw [hl] at h1
    by_cases hn : name = n
    · subst hn
      rw [hnew] at h1
      simp at h1
      subst h1
      exact ⟨tr, ty, ht, hta⟩
    · simp only [hn, if_false, Option.or_none] at h1
      exact hg.2 n d' h1

theorem sd_checkVarDecl_sound {store : Store} {flag : Bool} {vars : Vars} {st st' : CState}
    {d : VarDecl} (hc : d.Complete) (h : checkVarDecl st d = .ok st') (hclean : NoNewErrors st st')
    (hg : sd_Good st vars) (hfn : ∀ p ∈ st.fnRes, p.1 ∉ d.fnRanges) :
    ∃ nr name tr ty, d.name = some (nr, name) ∧ d.type = some (tr, ty) ∧ isTypeAllowed ty = true ∧
      lookupDecl st name = none ∧ st'.declared = st.declared ++ [(name, d)] ∧
      ∀ fn, d.origin = some fn → ∀ q, sd_NoStatic (handleOrigin store flag vars q ty fn) ∧
        ∀ v q', handleOrigin store flag vars q ty fn = .ok (v, q') → v.typeName = ty := by
  obtain ⟨hcn, hct, hco⟩ := hc
  obtain ⟨⟨nr, name⟩, hn⟩ := Option.isSome_iff_exists.mp hcn
  obtain ⟨⟨tr, ty⟩, ht⟩ := Option.isSome_iff_exists.mp hct
  rw [sd_checkVarDecl_eq] at h
  simp only [ht] at h
  have e := sd_declTail_ext h
  have me := e.mono
  by_cases hta : isTypeAllowed ty = true
  swap
  · exfalso
    simp only [hta] at me
    have := sd_errorCount_push st tr (.invalidType ty)
    rw [sd_sev_invalidType] at this
    simp only [NoNewErrors] at hclean
    simp only [if_true] at this
    simp only [Bool.false_eq_true, if_false] at me
    omega
  simp only [hta, if_true] at h
  refine ⟨nr, name, tr, ty, hn, ht, hta, ?_⟩
  unfold sd_declTail at h
  simp only [hn] at h
  have key : ∀ st3 : CState, st3.declared = st.declared → errorCount st.diags ≤ errorCount st3.diags →
      (if st3.declared.any (fun p => p.1 == name) then
          Outcome.ok (st3.push nr (.duplicateVariable name))
        else .ok { st3 with declared := st3.declared ++ [(name, d)],
                            unused := st3.unused ++ [(name, nr)] }) = Outcome.ok st' →
      lookupDecl st name = none ∧ st'.declared = st.declared ++ [(name, d)] ∧
        errorCount st3.diags = errorCount st.diags := by
    intro st3 hd3 m3 h3
    split at h3
    · cases h3
      exfalso
      have := sd_errorCount_push st3 nr (.duplicateVariable name)
      rw [sd_sev_duplicateVariable] at this
      simp only [NoNewErrors] at hclean
      simp only [if_true] at this
      omega
    · rename_i hdup
      cases h3
      refine ⟨?_, ?_, ?_⟩
      · rw [hd3] at hdup
        exact sd_lookupDecl_none_of_any hdup
      · simp only [hd3]
      · simp only [NoNewErrors] at hclean
        omega
  cases ho : d.origin with
  | none =>
    simp only [ho] at h
    obtain ⟨k1, k2, _⟩ := key st rfl (Nat.le_refl _) h
    exact ⟨k1, k2, fun fn hfn' => by cases hfn'⟩
  | some fn =>
    simp only [ho] at h
    split at h
    · cases h
    · cases h
    · rename_i st3 h3
      have e3 := sd_checkVarOrigin_ext h3
      obtain ⟨k1, k2, k3⟩ := key st3 e3.declared e3.mono h
      refine ⟨k1, k2, fun fn' hfn' q => ?_⟩
      cases hfn'
      exact sd_checkVarOrigin_sound hn ht hta (hco fn ho) h3 k3 hg
        (fun p hp he => hfn p hp (by simp [VarDecl.fnRanges, ho, he])) q

theorem sd_checkVarDecls_ext : ∀ (ds : List VarDecl) (st st' : CState),
    checkVarDecls st ds = .ok st' → sd_DeclExt st st' (sd_declsFnRanges ds)
  | [], st, st', h => by
      simp only [checkVarDecls] at h; cases h
      exact ⟨⟨[], by simp⟩, fun p hp => Or.inl hp⟩
  | d :: ds, st, st', h => by
      simp only [checkVarDecls] at h
      split at h
      · cases h
      · cases h
      · rename_i st1 h1
        have e1 := sd_checkVarDecl_ext h1
        have e2 := sd_checkVarDecls_ext ds st1 st' h
        obtain ⟨l1, d1⟩ := e1.diags
        obtain ⟨l2, d2⟩ := e2.diags
        refine ⟨⟨l1 ++ l2, by rw [d2, d1]; simp⟩, fun p hp => ?_⟩
        simp only [sd_declsFnRanges, List.mem_append]
        rcases e2.fnRes p hp with h3 | h3
        · rcases e1.fnRes p h3 with h4 | h4
          · exact Or.inl h4
          · exact Or.inr (Or.inl h4)
        · exact Or.inr (Or.inr h3)

theorem sd_checkVarDecls_fresh {ds : List VarDecl} {st st' : CState} {R : List Range}
    (h : checkVarDecls st ds = .ok st') (hfn : ∀ p ∈ st.fnRes, p.1 ∉ sd_declsFnRanges ds ++ R)
    (hnd : (sd_declsFnRanges ds ++ R).Nodup) : ∀ p ∈ st'.fnRes, p.1 ∉ R := by
  intro p hp hr
  rcases (sd_checkVarDecls_ext ds st st' h).fnRes p hp with h3 | h3
  · exact hfn p h3 (List.mem_append.mpr (Or.inr hr))
  · exact (List.nodup_append.mp hnd).2.2 _ h3 _ hr rfl

theorem sd_checkVarDecls_sound (store : Store) (flag : Bool) (rawVars : List (String × String))
    (R : List Range) : ∀ (ds : List VarDecl) (st st' : CState) (vars : Vars) (q : QState),
    VarDeclsComplete ds → checkVarDecls st ds = .ok st' → NoNewErrors st st' → sd_Good st vars →
    (∀ p ∈ st.fnRes, p.1 ∉ sd_declsFnRanges ds ++ R) → (sd_declsFnRanges ds ++ R).Nodup →
    sd_NoStatic (parseVars store flag rawVars ds vars q) ∧
      (∀ vars' q', parseVars store flag rawVars ds vars q = .ok (vars', q') → sd_Good st' vars')
  | [], st, st', vars, q, _, h, _, hg, hfn, _ => by
      simp only [checkVarDecls] at h; cases h
      refine ⟨?_, fun vars' q' hv => ?_⟩
      · simp only [parseVars]; exact sd_ei_ok _ _
      · simp only [parseVars] at hv; cases hv; exact hg
  | d :: ds, st, st', vars, q, hc, h, hclean, hg, hfn, hnd => by
      simp only [VarDeclsComplete] at hc
      simp only [checkVarDecls] at h
      simp only [sd_declsFnRanges, List.append_assoc] at hfn hnd
      split at h
      · cases h
      · cases h
      · rename_i st1 h1
        have e1 := sd_checkVarDecl_ext h1
        have e2 := sd_checkVarDecls_ext ds st1 st' h
        have m1 := e1.mono
        have m2 := e2.mono
        have c1 : NoNewErrors st st1 := by sd_sq
        have c2 : NoNewErrors st1 st' := by sd_sq
        have hnd' := List.nodup_append.mp hnd
        obtain ⟨nr, name, tr, ty, hn, ht, hta, hnew, hd, horig⟩ :=
          sd_checkVarDecl_sound (store := store) (flag := flag) hc.1 h1 c1 hg
            (fun p hp hr => hfn p hp (List.mem_append.mpr (Or.inl hr)))
        have hfn1 : ∀ p ∈ st1.fnRes, p.1 ∉ sd_declsFnRanges ds ++ R := by
          intro p hp hr
          rcases e1.fnRes p hp with h3 | h3
          · exact hfn p h3 (List.mem_append.mpr (Or.inr hr))
          · exact hnd'.2.2 _ h3 _ hr rfl
        have hstep : ∀ v : Value, v.typeName = ty → ∀ q2,
            sd_NoStatic (parseVars store flag rawVars ds ((name, v) :: vars) q2) ∧
            ∀ vars' q', parseVars store flag rawVars ds ((name, v) :: vars) q2 = .ok (vars', q') →
              sd_Good st' vars' := by
          intro v hv q2
          exact sd_checkVarDecls_sound store flag rawVars R ds st1 st'
            ((name, v) :: vars) q2 hc.2 h c2 (sd_Good_declare hg hnew hd ht hta hv) hfn1 hnd'.2.1
        have hpv := fun raw => sd_parseVar_sound (ty := ty) (raw := raw) hta
        cases ho : d.origin with
        | none =>
          have hpv1 := fun raw => (hpv raw).1
          have hrec : ∀ raw v q2, parseVar ty raw = .ok v →
              sd_NoStatic (parseVars store flag rawVars ds ((name, v) :: vars) q2) :=
            fun raw v q2 hv => (hstep v ((hpv raw).2 v hv) q2).1
          constructor
          · simp only [parseVars, hn, ht, ho]
            sd_ei_walk
          · intro vars' q' hv
            simp only [parseVars, hn, ht, ho] at hv
            split at hv
            · cases hv
            · split at hv
              · cases hv
              · cases hv
              · rename_i v hpv'
                exact (hstep v ((hpv _).2 v hpv') q).2 vars' q' hv
        | some fn =>
          obtain ⟨o1, o2⟩ := horig fn ho q
          have hrec : ∀ v q2, handleOrigin store flag vars q ty fn = .ok (v, q2) →
              sd_NoStatic (parseVars store flag rawVars ds ((name, v) :: vars) q2) :=
            fun v q2 hv => (hstep v (o2 v q2 hv) q2).1
          constructor
          · simp only [parseVars, hn, ht, ho]
            sd_ei_walk
          · intro vars' q' hv
            simp only [parseVars, hn, ht, ho] at hv
            split at hv
            · cases hv
            · cases hv
            · rename_i v q2 ho'
              exact (hstep v (o2 v q2 ho') q2).2 vars' q' hv

/-! ## whole programs -/

/-- the caller ranges of all function calls of a program: origins first, then statements -/
def Program.fnRanges (p : Program) : List Range := sd_declsFnRanges p.vars ++ sd_stmtsFnRanges p.stmts

/-- what the parser guarantees besides completeness: allotment clauses are `remaining`, a portion
    literal or a variable, and two distinct function calls sit at distinct places of the text -/
structure Program.ParserInv (p : Program) : Prop where
  shape : ∀ s ∈ p.stmts, s.ShapeOk
  ranges : p.fnRanges.Nodup

theorem sd_foldl_unused_diags (l : List (String × Range)) (st : CState) :
    (l.foldl (fun s p => s.push p.2 (.unusedVar p.1)) st).diags =
      st.diags ++ l.map (fun p => ⟨p.2, .unusedVar p.1⟩) := by
  induction l generalizing st with
  | nil => simp
  | cons a l ih =>
    rw [List.foldl_cons, ih]
    simp [CState.push]

theorem sd_foldl_unused_errorCount (l : List (String × Range)) (st : CState) :
    errorCount (l.foldl (fun s p => s.push p.2 (.unusedVar p.1)) st).diags = errorCount st.diags := by
  induction l generalizing st with
  | nil => rfl
  | cons a l ih =>
    simp only [List.foldl_cons, ih, sd_errorCount_push, sd_sev_unusedVar]
    simp

theorem sd_Good_init (diags : List Diag) : sd_Good { diags := diags } [] := by
  constructor
  · intro name d r t h
    simp [lookupDecl] at h
  · intro name d h
    simp [lookupDecl] at h

theorem sd_clean_check_sound (prog : Program) (hc : prog.Complete) (st : CState)
    (hchk : checkProgram [] prog = .ok st) (hclean : errorCount st.diags = 0)
    (hinv : prog.ParserInv)
    (rawVars : List (String × String)) (store : Store) (flag : Bool) :
    (RunProgram prog rawVars store flag).noStaticFailure := by
  rw [sd_noStaticFailure_iff]
  refine ⟨np_RunProgram prog hc rawVars store flag, ?_⟩
  unfold checkProgram at hchk
  split at hchk
  · cases hchk
  · cases hchk
  · rename_i st1 h1
    split at hchk
    · cases hchk
    · cases hchk
    · rename_i st2 h2
      cases hchk
      rw [sd_foldl_unused_errorCount] at hclean
      have e1 := sd_checkVarDecls_ext _ _ _ h1
      have e2 := sd_checkStatements_ext _ _ _ h2
      have m1 := e1.mono
      have m2 := e2.mono
      have c1 : NoNewErrors { diags := [] } st1 := by
        show errorCount st1.diags = errorCount []
        have : errorCount [] = 0 := rfl
        omega
      have c2 : NoNewErrors st1 st2 := by
        show errorCount st2.diags = errorCount st1.diags
        omega
      have hnd := hinv.ranges
      unfold Program.fnRanges at hnd
      obtain ⟨k1, k2⟩ := sd_checkVarDecls_sound store flag rawVars (sd_stmtsFnRanges prog.stmts)
        prog.vars _ st1 [] ⟨[], [], 0, []⟩ hc.1 h1 c1 (sd_Good_init []) (by intro p hp; cases hp) hnd
      have hfresh := sd_checkVarDecls_fresh h1 (R := sd_stmtsFnRanges prog.stmts)
        (by intro p hp; cases hp) hnd
      have k3 := fun vars q hv => (sd_checkStatements_sound vars prog.stmts st1 st2 hc.2 hinv.shape
        h2 c2 (k2 vars q hv) hfresh (List.nodup_append.mp hnd).2.1)
      have k4 : ∀ vars q, parseVars store flag rawVars prog.vars [] ⟨[], [], 0, []⟩ = .ok (vars, q) →
          ∀ p, sd_NoStatic (preload vars prog.stmts p) := fun vars q hv => (k3 vars q hv).2
      have k5 : ∀ vars q, parseVars store flag rawVars prog.vars [] ⟨[], [], 0, []⟩ = .ok (vars, q) →
          ∀ rst, sd_NoStatic (runStatements vars prog.stmts rst) := fun vars q hv => (k3 vars q hv).1
      clear k3
      unfold RunProgram
      sd_ei_walk

/-! ## send-all shape errors: where they cannot come from -/

theorem sd_sh_expectMonetary (v : Value) : sd_NoShape (expectMonetary v) := by
  cases v <;> simp only [expectMonetary] <;> sd_ei_walk
theorem sd_sh_expectNumber (v : Value) : sd_NoShape (expectNumber v) := by
  cases v <;> simp only [expectNumber] <;> sd_ei_walk
theorem sd_sh_expectString (v : Value) : sd_NoShape (expectString v) := by
  cases v <;> simp only [expectString] <;> sd_ei_walk
theorem sd_sh_expectAsset (v : Value) : sd_NoShape (expectAsset v) := by
  cases v <;> simp only [expectAsset] <;> sd_ei_walk
theorem sd_sh_expectAccount (v : Value) : sd_NoShape (expectAccount v) := by
  cases v <;> simp only [expectAccount] <;> sd_ei_walk
theorem sd_sh_expectPortion (v : Value) : sd_NoShape (expectPortion v) := by
  cases v <;> simp only [expectPortion] <;> sd_ei_walk
theorem sd_sh_expectMonetaryOfAsset (a : String) (v : Value) :
    sd_NoShape (expectMonetaryOfAsset a v) := by
  have := sd_sh_expectMonetary v
  unfold expectMonetaryOfAsset
  sd_ei_walk

theorem sd_sh_evalExpr (vars : Vars) : ∀ (e : Expr), sd_NoShape (evalExpr vars e)
  | .nil => by simp only [evalExpr]; sd_ei_walk
  | .monetaryNil => by simp only [evalExpr]; sd_ei_walk
  | .var _ _ => by unfold evalExpr; sd_ei_walk
  | .asset _ _ => by simp only [evalExpr]; sd_ei_walk
  | .account _ _ => by simp only [evalExpr]; sd_ei_walk
  | .str _ _ => by simp only [evalExpr]; sd_ei_walk
  | .number _ _ => by simp only [evalExpr]; sd_ei_walk
  | .ratio _ _ _ => by unfold evalExpr; sd_ei_walk
  | .monetary _ a n => by
      have ha := sd_sh_evalExpr vars a
      have hn := sd_sh_evalExpr vars n
      have h1 := sd_sh_expectAsset
      have h2 := sd_sh_expectNumber
      unfold evalExpr
      sd_ei_walk
  | .infix _ op l r => by
      have hl := sd_sh_evalExpr vars l
      have hr := sd_sh_evalExpr vars r
      have h1 := sd_sh_expectMonetary
      have h2 := sd_sh_expectNumber
      unfold evalExpr
      sd_ei_walk

theorem sd_sh_evalAs {α : Type} (vars : Vars) (e : Expr) (expect : Value → Outcome α)
    (he : ∀ v, sd_NoShape (expect v)) : sd_NoShape (evalAs vars e expect) :=
  sd_ei_bind (sd_sh_evalExpr vars e) (fun v _ => he v)

theorem sd_sh_evalExprs (vars : Vars) : ∀ (es : List Expr), sd_NoShape (evalExprs vars es)
  | [] => by simp only [evalExprs]; sd_ei_walk
  | e :: es => by
      unfold evalExprs
      refine sd_ei_bind (sd_sh_evalExpr vars e) (fun v _ => ?_)
      refine sd_ei_bind (sd_sh_evalExprs vars es) (fun vs _ => ?_)
      exact sd_ei_ok _ _

theorem sd_sh_evalAllotItems (vars : Vars) : ∀ (items : List AllotVal),
    sd_NoShape (evalAllotItems vars items)
  | [] => by simp only [evalAllotItems]; sd_ei_walk
  | .nil :: _ => by simp only [evalAllotItems]; sd_ei_walk
  | .remaining _ :: rest => by
      unfold evalAllotItems
      exact sd_ei_bind (sd_sh_evalAllotItems vars rest) (fun _ _ => sd_ei_ok _ _)
  | .portion e :: rest => by
      unfold evalAllotItems
      refine sd_ei_bind (sd_sh_evalAs vars e _ sd_sh_expectPortion) (fun _ _ => ?_)
      exact sd_ei_bind (sd_sh_evalAllotItems vars rest) (fun _ _ => sd_ei_ok _ _)

theorem sd_sh_allotOf (n : Int) (qs : List (Option Rat)) : sd_NoShape (allotOf n qs) := by
  unfold allotOf
  sd_ei_walk

theorem sd_sh_makeAllotment (vars : Vars) (n : Int) (items : List AllotVal) :
    sd_NoShape (makeAllotment vars n items) := by
  rw [makeAllotment_eq]
  exact sd_ei_bind (sd_sh_evalAllotItems vars items) (fun qs _ => sd_sh_allotOf n qs)

theorem sd_sh_parseMonetary (s : String) : sd_NoShape (parseMonetary s) := by
  unfold parseMonetary
  sd_ei_walk

theorem sd_sh_ParsePortionSpecific (s : String) : sd_NoShape (ParsePortionSpecific s) := by
  have hres : sd_NoShape (match matchPercent s.toList with
    | some (i, f) => Outcome.ok (some (percentValue i f))
    | none =>
      match matchFraction s.toList with
      | some (n, d) =>
        if digitsVal d = 0 then Outcome.err (Err.badPortionParsing "invalid fractional format")
        else Outcome.ok (some (mkRat (↑(digitsVal n)) (digitsVal d)))
      | none => Outcome.ok none) := by sd_ei_walk
  unfold ParsePortionSpecific
  dsimp only
  sd_ei_walk

theorem sd_sh_parseVar (ty raw : String) : sd_NoShape (parseVar ty raw) := by
  have h1 := sd_sh_parseMonetary raw
  have h2 := sd_sh_ParsePortionSpecific raw
  unfold parseVar
  sd_ei_walk

theorem sd_sh_trySendingToAccount (env : Env) (addr : Expr) (amount : Int)
    (od : Option Int) (snd : Senders) : sd_NoShape (trySendingToAccount env addr amount od snd) := by
  have h := sd_sh_evalAs env.vars addr _ sd_sh_expectAccount
  unfold trySendingToAccount
  sd_ei_walk

mutual
  theorem sd_sh_trySendingUpTo (env : Env) : (src : Source) → (amount : Int) →
      (snd : Senders) → sd_NoShape (trySendingUpTo env src amount snd)
    | .nil, _, _ => by simp only [trySendingUpTo]; sd_ei_walk
    | .account e, amount, snd => by
        simp only [trySendingUpTo]
        exact sd_sh_trySendingToAccount env e amount _ snd
    | .overdraft _ addr none, amount, snd => by
        simp only [trySendingUpTo]
        exact sd_sh_trySendingToAccount env addr amount _ snd
    | .overdraft _ addr (some b), amount, snd => by
        have h1 := sd_sh_evalAs env.vars b _ (sd_sh_expectMonetaryOfAsset env.asset)
        have h2 := fun cap => sd_sh_trySendingToAccount env addr amount (some cap) snd
        simp only [trySendingUpTo]
        sd_ei_walk
    | .inorder _ srcs, amount, snd => by
        have h := sd_sh_sendInorder env srcs amount snd
        simp only [trySendingUpTo]
        sd_ei_walk
    | .allotment _ items, amount, snd => by
        have h1 := sd_sh_makeAllotment env.vars amount (items.map SrcItem.allot)
        have h2 := fun parts => sd_sh_sendAllotItems env items parts snd
        simp only [trySendingUpTo]
        sd_ei_walk
    | .capped _ cap src, amount, snd => by
        have h1 := sd_sh_evalAs env.vars cap _ (sd_sh_expectMonetaryOfAsset env.asset)
        have h2 := fun c => sd_sh_trySendingUpTo env src (max 0 (min amount c)) snd
        simp only [trySendingUpTo]
        sd_ei_walk

  theorem sd_sh_sendInorder (env : Env) : (srcs : List Source) → (left : Int) →
      (snd : Senders) → sd_NoShape (sendInorder env srcs left snd)
    | [], _, _ => by simp only [sendInorder]; sd_ei_walk
    | s :: ss, left, snd => by
        have h1 := sd_sh_trySendingUpTo env s left snd
        have h2 := fun l sd => sd_sh_sendInorder env ss l sd
        simp only [sendInorder]
        sd_ei_walk

  theorem sd_sh_sendAllotItems (env : Env) : (items : List SrcItem) →
      (parts : List Int) → (snd : Senders) → sd_NoShape (sendAllotItems env items parts snd)
    | [], _, _ => by simp only [sendAllotItems]; sd_ei_walk
    | _ :: _, [], _ => by simp only [sendAllotItems]; sd_ei_walk
    | (.mk _ _ src) :: rest, p :: ps, snd => by
        have h1 := sd_sh_trySendingUpTo env src p snd
        have h2 := fun sd => sd_sh_sendAllotItems env rest ps sd
        simp only [sendAllotItems]
        sd_ei_walk
end

theorem sd_sh_trySendingExact (env : Env) (src : Source) (amount : Int)
    (snd : Senders) : sd_NoShape (trySendingExact env src amount snd) := by
  have h := sd_sh_trySendingUpTo env src amount snd
  unfold trySendingExact
  sd_ei_walk

mutual
  theorem sd_sh_receiveFrom (env : Env) : (dst : Dest) → (amount : Int) →
      (rcv : Receivers) → sd_NoShape (receiveFrom env dst amount rcv)
    | .nil, _, _ => by simp only [receiveFrom]; sd_ei_walk
    | .account e, amount, rcv => by
        have h1 := sd_sh_evalAs env.vars e _ sd_sh_expectAccount
        simp only [receiveFrom]
        sd_ei_walk
    | .allotment _ items, amount, rcv => by
        have h1 := sd_sh_makeAllotment env.vars amount (items.map DestItem.allot)
        have h2 := fun parts => sd_sh_receiveAllotItems env items parts rcv
        simp only [receiveFrom]
        sd_ei_walk
    | .inorder _ clauses remaining, amount, rcv => by
        have h1 := sd_sh_receiveClauses env clauses amount rcv
        have h2 := fun l r => sd_sh_receiveKoD env remaining l r
        simp only [receiveFrom]
        sd_ei_walk

  theorem sd_sh_receiveKoD (env : Env) : (k : KoD) → (amount : Int) →
      (rcv : Receivers) → sd_NoShape (receiveKoD env k amount rcv)
    | .nil, _, _ => by simp only [receiveKoD]; sd_ei_walk
    | .kept _, _, _ => by simp only [receiveKoD]; sd_ei_walk
    | .to d, amount, rcv => by
        simp only [receiveKoD]
        exact sd_sh_receiveFrom env d amount rcv

  theorem sd_sh_receiveClauses (env : Env) : (clauses : List DestClause) →
      (left : Int) → (rcv : Receivers) → sd_NoShape (receiveClauses env clauses left rcv)
    | [], _, _ => by simp only [receiveClauses]; sd_ei_walk
    | (.mk _ cap kd) :: rest, left, rcv => by
        have h1 := sd_sh_evalAs env.vars cap _ (sd_sh_expectMonetaryOfAsset env.asset)
        have h2 := fun a r => sd_sh_receiveKoD env kd a r
        have h3 := fun l r => sd_sh_receiveClauses env rest l r
        simp only [receiveClauses]
        sd_ei_walk

  theorem sd_sh_receiveAllotItems (env : Env) : (items : List DestItem) →
      (parts : List Int) → (rcv : Receivers) → sd_NoShape (receiveAllotItems env items parts rcv)
    | [], _, _ => by simp only [receiveAllotItems]; sd_ei_walk
    | _ :: _, [], _ => by simp only [receiveAllotItems]; sd_ei_walk
    | (.mk _ _ kd) :: rest, p :: ps, rcv => by
        have h1 := sd_sh_receiveKoD env kd p rcv
        have h2 := fun r => sd_sh_receiveAllotItems env rest ps r
        simp only [receiveAllotItems]
        sd_ei_walk
end

theorem sd_sh_evaluateSentAmt (vars : Vars) : (sv : SentValue) → sd_NoShape (evaluateSentAmt vars sv)
  | .nil => by simp only [evaluateSentAmt]; sd_ei_walk
  | .all _ a => by
      have h := sd_sh_evalAs vars a _ sd_sh_expectAsset
      simp only [evaluateSentAmt]
      sd_ei_walk
  | .lit _ m => by
      have h := sd_sh_evalAs vars m _ sd_sh_expectMonetary
      simp only [evaluateSentAmt]
      sd_ei_walk

mutual
  theorem sd_sh_findBalancesQueries (vars : Vars) (asset : String) : (src : Source) →
      (p : BalanceQuery) → sd_NoShape (findBalancesQueries vars asset src p)
    | .nil, _ => by simp only [findBalancesQueries]; sd_ei_walk
    | .account e, p => by
        have h := sd_sh_evalAs vars e _ sd_sh_expectAccount
        simp only [findBalancesQueries]
        sd_ei_walk
    | .overdraft _ _ none, _ => by simp only [findBalancesQueries]; sd_ei_walk
    | .overdraft _ addr (some _), p => by
        have h := sd_sh_evalAs vars addr _ sd_sh_expectAccount
        simp only [findBalancesQueries]
        sd_ei_walk
    | .inorder _ srcs, p => by
        simp only [findBalancesQueries]
        exact sd_sh_findQueriesList vars asset srcs p
    | .capped _ _ src, p => by
        simp only [findBalancesQueries]
        exact sd_sh_findBalancesQueries vars asset src p
    | .allotment _ items, p => by
        simp only [findBalancesQueries]
        exact sd_sh_findQueriesItems vars asset items p

  theorem sd_sh_findQueriesList (vars : Vars) (asset : String) : (srcs : List Source) →
      (p : BalanceQuery) → sd_NoShape (findQueriesList vars asset srcs p)
    | [], _ => by simp only [findQueriesList]; sd_ei_walk
    | s :: ss, p => by
        have h1 := sd_sh_findBalancesQueries vars asset s p
        have h2 := fun p' => sd_sh_findQueriesList vars asset ss p'
        simp only [findQueriesList]
        sd_ei_walk

  theorem sd_sh_findQueriesItems (vars : Vars) (asset : String) : (items : List SrcItem) →
      (p : BalanceQuery) → sd_NoShape (findQueriesItems vars asset items p)
    | [], _ => by simp only [findQueriesItems]; sd_ei_walk
    | (.mk _ _ src) :: rest, p => by
        have h1 := sd_sh_findBalancesQueries vars asset src p
        have h2 := fun p' => sd_sh_findQueriesItems vars asset rest p'
        simp only [findQueriesItems]
        sd_ei_walk
end

theorem sd_sh_findBalancesQueriesInStatement (vars : Vars) : (st : Statement) →
    (p : BalanceQuery) → sd_NoShape (findBalancesQueriesInStatement vars st p)
  | .nil, _ => by simp only [findBalancesQueriesInStatement]; sd_ei_walk
  | .fnCallNil, _ => by simp only [findBalancesQueriesInStatement]; sd_ei_walk
  | .fnCall _, _ => by simp only [findBalancesQueriesInStatement]; sd_ei_walk
  | .save _ sv amount, p => by
      have h1 := sd_sh_evaluateSentAmt vars sv
      have h2 := sd_sh_evalAs vars amount _ sd_sh_expectAccount
      simp only [findBalancesQueriesInStatement]
      sd_ei_walk
  | .send _ sv src _, p => by
      have h1 := sd_sh_evaluateSentAmt vars sv
      have h2 := fun asset => sd_sh_findBalancesQueries vars asset src p
      simp only [findBalancesQueriesInStatement]
      sd_ei_walk

theorem sd_sh_preload (vars : Vars) : (ss : List Statement) →
    (p : BalanceQuery) → sd_NoShape (preload vars ss p)
  | [], _ => by simp only [preload]; sd_ei_walk
  | s :: ss, p => by
      have h1 := sd_sh_findBalancesQueriesInStatement vars s p
      have h2 := fun p' => sd_sh_preload vars ss p'
      unfold preload
      sd_ei_walk

theorem sd_sh_runSaveStatement (vars : Vars) (st : RState) (sv : SentValue)
    (amount : Expr) : sd_NoShape (runSaveStatement vars st sv amount) := by
  have h1 := sd_sh_evaluateSentAmt vars sv
  have h2 := sd_sh_evalAs vars amount _ sd_sh_expectAccount
  unfold runSaveStatement
  sd_ei_walk

theorem sd_sh_parseArgs2 {α β : Type} (args : List Value) (e1 : Value → Outcome α)
    (e2 : Value → Outcome β) (h1 : ∀ v, sd_NoShape (e1 v)) (h2 : ∀ v, sd_NoShape (e2 v)) :
    sd_NoShape (parseArgs2 args e1 e2) := by
  unfold parseArgs2
  split
  · refine sd_ei_bind (h1 _) (fun _ _ => ?_)
    refine sd_ei_bind (h2 _) (fun _ _ => ?_)
    exact sd_ei_ok _ _
  · exact sd_ei_err rfl

theorem sd_sh_parseArgs3 {α β γ : Type} (args : List Value) (e1 : Value → Outcome α)
    (e2 : Value → Outcome β) (e3 : Value → Outcome γ) (h1 : ∀ v, sd_NoShape (e1 v))
    (h2 : ∀ v, sd_NoShape (e2 v)) (h3 : ∀ v, sd_NoShape (e3 v)) :
    sd_NoShape (parseArgs3 args e1 e2 e3) := by
  unfold parseArgs3
  split
  · refine sd_ei_bind (h1 _) (fun _ _ => ?_)
    refine sd_ei_bind (h2 _) (fun _ _ => ?_)
    refine sd_ei_bind (h3 _) (fun _ _ => ?_)
    exact sd_ei_ok _ _
  · exact sd_ei_err rfl

theorem sd_sh_getBalance (store : Store) (q : QState) (account asset : String) :
    sd_NoShape (getBalance store q account asset) := by
  unfold getBalance
  sd_ei_walk

theorem sd_sh_handleOrigin (store : Store) (flag : Bool) (vars : Vars) (q : QState) (ty : String)
    (fn : FnCall) : sd_NoShape (handleOrigin store flag vars q ty fn) := by
  have h1 := sd_sh_evalExprs vars fn.args
  have h2 := fun args => sd_sh_parseArgs2 args expectAccount expectString
    sd_sh_expectAccount sd_sh_expectString
  have h3 := fun args => sd_sh_parseArgs2 args expectAccount expectAsset
    sd_sh_expectAccount sd_sh_expectAsset
  have h4 := fun raw => sd_sh_parseVar ty raw
  have h5 := fun account asset => sd_sh_getBalance store q account asset
  unfold handleOrigin
  sd_ei_walk

theorem sd_sh_parseVars (store : Store) (flag : Bool) (rawVars : List (String × String)) :
    (ds : List VarDecl) → (vars : Vars) → (q : QState) →
    sd_NoShape (parseVars store flag rawVars ds vars q)
  | [], _, _ => by simp only [parseVars]; sd_ei_walk
  | d :: rest, vars, q => by
      have h1 := fun vs q' => sd_sh_parseVars store flag rawVars rest vs q'
      have h2 := fun ty raw => sd_sh_parseVar ty raw
      have h3 := fun ty fn => sd_sh_handleOrigin store flag vars q ty fn
      unfold parseVars
      sd_ei_walk

/-! ## send-all shape errors and a silent check -/

/-- not a send-all shape error, except for an account whose value is `world` -/
def sd_ShapeP (e : Err) : Prop :=
  e ≠ .invalidAllotmentInSendAll ∧ ∀ n, e = .invalidUnboundedInSendAll n → n = WORLD

theorem sd_shapeP_of_noShape {e : Err} (h : e.isSendAllShape = false) : sd_ShapeP e := by
  constructor
  · rintro rfl; simp [Err.isSendAllShape] at h
  · rintro n rfl; simp [Err.isSendAllShape] at h

theorem sd_sp_of_sh {α : Type} {o : Outcome α} (h : sd_NoShape o) : sd_ErrIn sd_ShapeP o :=
  sd_ei_mono h (fun _ => sd_shapeP_of_noShape)

theorem sd_sp_sendAllToAccount (env : Env) (addr : Expr) (o : Int) (snd : Senders) :
    sd_ErrIn sd_ShapeP (sendAllToAccount env addr (some o) snd) := by
  have h := sd_sp_of_sh (sd_sh_evalAs env.vars addr _ sd_sh_expectAccount)
  unfold sendAllToAccount
  split
  · exact sd_ei_panic _ _
  · exact sd_ei_of_eq_err h ‹_›
  · dsimp only
    split
    · rename_i hw
      refine sd_ei_err ⟨by simp, fun n hn => ?_⟩
      cases hn
      exact hw
    · exact sd_ei_ok _ _

theorem sd_push_diags_ne (st : CState) (r : Range) (k : DiagKind) : (st.push r k).diags ≠ [] := by
  simp [CState.push]

theorem sd_overdraftHead_unbounded {st st' : CState} {addr : Expr}
    (hu : st.unboundedSend = true) (h : checkOverdraftHead st addr none = .ok st') :
    st'.diags ≠ [] := by
  unfold checkOverdraftHead at h
  extract_lets isWorld st1 st2 at h
  have hu2 : st2.unboundedSend = true := by
    have f1 : st1.unboundedSend = st.unboundedSend := by
      unfold st1
      split
      · split <;> rfl
      · rfl
    have f2 : st2.unboundedSend = st1.unboundedSend := by
      unfold st2
      split <;> rfl
    rw [f2, f1, hu]
  simp only [hu2, Option.isNone_none, true_or, and_self, if_true] at h
  split at h
  · have h' := Outcome.ok.inj h
    subst h'
    exact sd_push_diags_ne _ _ _
  · cases h

mutual
  theorem sd_silent_sendAll (env : Env) : ∀ (src : Source) (st st' : CState),
      checkSource st src = .ok st' → st'.diags = [] → st.unboundedSend = true →
      ∀ snd, sd_ErrIn sd_ShapeP (sendAll env src snd)
    | .nil, _, _, _, _, _ => by
        intro snd; simp only [sendAll]; exact sd_ei_panic _ _
    | .account e, _, _, _, _, _ => by
        intro snd; simp only [sendAll]; exact sd_sp_sendAllToAccount env e 0 snd
    | .overdraft r addr none, st, st', h, hs, hu => by
        exfalso
        simp only [checkSource] at h
        split at h
        · cases h
        · cases h
        · rename_i st1 h1
          split at h
          · cases h
          · cases h
          · rename_i st2 h2
            split at h
            · cases h
            · cases h
            · rename_i st3 h3
              cases h
              have f1 := sd_sourceHead_frame h1
              have f3 := sd_checkExpression_frame _ _ _ _ h3
              exact sd_overdraftHead_unbounded (f1.2.trans hu) h2 (f3.silent hs)
    | .overdraft r addr (some b), _, _, _, _, _ => by
        intro snd
        have h1 := sd_sp_of_sh (sd_sh_evalAs env.vars b _ (sd_sh_expectMonetaryOfAsset env.asset))
        have h2 := fun cap => sd_sp_sendAllToAccount env addr cap snd
        simp only [sendAll]
        sd_ei_walk
    | .inorder r srcs, st, st', h, hs, hu => by
        intro snd
        simp only [checkSource] at h
        split at h
        · cases h
        · cases h
        · rename_i st1 h1
          have f1 := sd_sourceHead_frame h1
          simp only [sendAll]
          exact sd_silent_sendAllList env srcs st1 st' h hs (f1.2.trans hu) 0 snd
    | .capped r cap src, _, _, _, _, _ => by
        intro snd
        have h1 := sd_sp_of_sh (sd_sh_evalAs env.vars cap _ (sd_sh_expectMonetaryOfAsset env.asset))
        have h2 := fun c => sd_sp_of_sh (sd_sh_trySendingUpTo env src (max 0 c) snd)
        simp only [sendAll]
        sd_ei_walk
    | .allotment r items, st, st', h, hs, hu => by
        exfalso
        simp only [checkSource] at h
        split at h
        · cases h
        · cases h
        · rename_i st1 h1
          split at h
          · cases h
          · cases h
          · rename_i st2 acc h2
            cases h
            have f1 := sd_sourceHead_frame h1
            have hu1 : st1.unboundedSend = true := f1.2.trans hu
            simp only [hu1, if_true] at h2
            have f2 := sd_checkSrcItems_frame _ _ _ _ _ _ h2
            have f3 := sd_checkHasBad_frame st2 acc.sum r acc.remaining acc.vars
            exact sd_push_diags_ne _ _ _ (f2.silent (f3.silent hs))

  theorem sd_silent_sendAllList (env : Env) : ∀ (srcs : List Source) (st st' : CState),
      checkSourceList st srcs = .ok st' → st'.diags = [] → st.unboundedSend = true →
      ∀ total snd, sd_ErrIn sd_ShapeP (sendAllList env srcs total snd)
    | [], _, _, _, _, _ => by
        intro total snd; simp only [sendAllList]; exact sd_ei_ok _ _
    | s :: ss, st, st', h, hs, hu => by
        intro total snd
        simp only [checkSourceList] at h
        split at h
        · cases h
        · cases h
        · rename_i st1 h1
          have f1 := sd_checkSource_frame _ _ _ h1
          have f2 := sd_checkSourceList_frame _ _ _ h
          have i1 := sd_silent_sendAll env s st st1 h1 (f2.silent hs) hu
          have i2 := sd_silent_sendAllList env ss st1 st' h hs (f1.2.trans hu)
          simp only [sendAllList]
          sd_ei_walk
end

theorem sd_silent_statement (vars : Vars) (s : Statement) (st st' : CState)
    (h : checkStatement st s = .ok st') (hs : st'.diags = []) :
    ∀ rst, sd_ErrIn sd_ShapeP (runStatement vars rst s) := by
  intro rst
  cases s with
  | nil => simp only [runStatement]; exact sd_ei_panic _ _
  | fnCallNil => simp only [runStatement]; exact sd_ei_panic _ _
  | save r sv amount =>
    simp only [runStatement]
    exact sd_sp_of_sh (sd_sh_runSaveStatement vars rst sv amount)
  | fnCall fn =>
    apply sd_sp_of_sh
    have h1 := sd_sh_evalExprs vars fn.args
    have h2 := fun args => sd_sh_parseArgs2 args expectString (fun v => Outcome.ok v)
      sd_sh_expectString (fun v => sd_ei_ok _ v)
    have h3 := fun args => sd_sh_parseArgs3 args expectAccount expectString (fun v => Outcome.ok v)
      sd_sh_expectAccount sd_sh_expectString (fun v => sd_ei_ok _ v)
    simp only [runStatement]
    sd_ei_walk
  | send r sv src dst =>
    cases sv with
    | nil => simp only [runStatement, runSendStatement]; exact sd_ei_panic _ _
    | lit r' m =>
      apply sd_sp_of_sh
      have h1 := sd_sh_evalAs vars m _ sd_sh_expectMonetary
      have h2 := fun env n snd => sd_sh_trySendingExact env src n snd
      have h3 := fun env n rcv => sd_sh_receiveFrom env dst n rcv
      simp only [runStatement, runSendStatement]
      sd_ei_walk
    | all r' a =>
      simp only [checkStatement] at h
      split at h
      · cases h
      · cases h
      · rename_i st1 h1
        split at h
        · cases h
        · cases h
        · rename_i st2 h2
          have f1 := sd_checkSentValue_frame h1
          have f3 := sd_checkDestination_frame _ _ _ h
          have k1 := sd_sp_of_sh (sd_sh_evalAs vars a _ sd_sh_expectAsset)
          have k2 := fun env snd => sd_silent_sendAll env src st1 st2 h2 (f3.silent hs) f1.2 snd
          have k3 := fun env n rcv => sd_sp_of_sh (sd_sh_receiveFrom env dst n rcv)
          simp only [runStatement, runSendStatement]
          sd_ei_walk

theorem sd_silent_statements (vars : Vars) : ∀ (ss : List Statement) (st st' : CState),
    checkStatements st ss = .ok st' → st'.diags = [] →
    ∀ rst, sd_ErrIn sd_ShapeP (runStatements vars ss rst)
  | [], _, _, _, _ => by
      intro rst; simp only [runStatements]; exact sd_ei_ok _ _
  | s :: ss, st, st', h, hs => by
      intro rst
      simp only [checkStatements] at h
      split at h
      · cases h
      · cases h
      · rename_i st1 h1
        obtain ⟨l, hl⟩ := (sd_checkStatements_ext ss st1 st' h).diags
        have hs1 : st1.diags = [] := by
          rw [hs] at hl
          exact (List.append_eq_nil_iff.mp hl.symm).1
        have i1 := sd_silent_statement vars s _ st1 h1 hs1
        have i2 := sd_silent_statements vars ss st1 st' h hs
        simp only [runStatements]
        sd_ei_walk

theorem sd_silent_check (prog : Program) (st : CState)
    (hchk : checkProgram [] prog = .ok st) (hsilent : st.diags = [])
    (rawVars : List (String × String)) (store : Store) (flag : Bool) :
    sd_ErrIn sd_ShapeP (RunProgram prog rawVars store flag) := by
  unfold checkProgram at hchk
  split at hchk
  · cases hchk
  · cases hchk
  · rename_i st1 h1
    split at hchk
    · cases hchk
    · cases hchk
    · rename_i st2 h2
      cases hchk
      rw [sd_foldl_unused_diags] at hsilent
      have hs2 : st2.diags = [] := (List.append_eq_nil_iff.mp hsilent).1
      have k1 := sd_sp_of_sh (sd_sh_parseVars store flag rawVars prog.vars [] ⟨[], [], 0, []⟩)
      have k2 := fun vars p => sd_sp_of_sh (sd_sh_preload vars prog.stmts p)
      have k3 := fun vars rst => sd_silent_statements vars prog.stmts st1 st2 h2 hs2 rst
      unfold RunProgram
      sd_ei_walk
      all_goals exact sd_ei_err (sd_shapeP_of_noShape rfl)

end NS
